package main

// C12 K — concurrent evaluations of ONE compiled predicate.
// The decision for a row is the one the general engine gives for the predicate text and THAT row,
// whoever else evaluates the same compiled predicate at the same time (the WHERE filter under several
// EmitSync producers, EmitSync overlapping the asynchronous processor).
// Line format:
//   C12 K <form> <text> { <field>=<value> }* # <seq> <ntrue> <nfalse> <npanic>
//     form p  the predicate as written (a shortcut may be compiled; rows that do not fit fall back)
//          g  "(" + text + ")": the general path for every row (text is of the shape language)
//          a  a text outside the shape language (arithmetic, functions, mixed AND/OR): general path
//          w  SELECT id FROM stream WHERE <sql text>: one Streamsql instance, several EmitSync producers
//             (text = the predicate in the condition language)
//     seq     what a private compilation of the same text, used by one goroutine only, answers (1/0/P)
//     counts  what the concurrent evaluations of this row on the SHARED compilation answered
//             (accepted / rejected / the evaluation panicked = would have aborted the caller)
//   C12 KX <form> <text> # <what> <first line of the child's diagnostics, hex>
//     the process evaluating this predicate concurrently died (what = crashed: a fault the Go runtime does not
//     let a caller recover from; timeout: it never came back) - never written on a correct implementation
// Every worker owns its rows (no row map is shared between goroutines); the number of evaluations of a
// row is fixed, so that the lines of a run are a function of the seed on a correct implementation.
// A worker that sees a decision differing from the private compilation's raises a flag that ends the
// family after this predicate. The family runs in a CHILD PROCESS (runner "C12Kchild": the same binary),
// because unsynchronised sharing inside the evaluator can tear interface values and end the process
// with a fatal fault that recover() does not see; the parent then still reports the predicate (KX).

import (
	"bufio"
	"context"
	"fmt"
	"math"
	"os"
	"os/exec"
	"runtime"
	"strconv"
	"strings"
	"sync"
	"sync/atomic"
	"time"

	"github.com/rulego/streamsql"
	"github.com/rulego/streamsql/condition"
)

type c12kPred struct {
	form string // p g a w
	text string // condition language (what the model reads for p g w)
	sql  string // form w only
}

// c12kRowVals: values that fit the numeric shortcut, values that fit the string shortcut, and values that
// make a shortcut decline (nil, big integers, the other kind); a missing column is drawn separately.
func c12kRowVals() []any {
	const p53 = int64(1) << 53
	return []any{
		0, 1, 4, 5, 6, 7, 10, 31, 49, -5, int64(5), int32(6), uint8(7), int16(-3), uint64(40), 0.5, 1.5, -1.5, 5.0, 35.5, 49.9, float32(5), float32(0.5),
		"a", "b", "ab", "5", "", "hot",
		nil, true, false, p53 + 1, -p53 - 1, int64(1) << 60, uint64(math.MaxUint64), math.NaN(), math.Inf(1), []int{1},
	}
}

func c12kDecide(decide func(map[string]any) bool, row map[string]any) (s string) {
	defer func() {
		if r := recover(); r != nil {
			s = "P"
		}
	}()
	return b01(decide(row))
}

// c12kHammer: workers goroutines, each evaluating shared over its own rows for rounds rounds, started together.
// want[w][j] is the decision of the private compilation; the first differing answer stops every worker.
func c12kHammer(shared func(map[string]any) bool, rows [][]map[string]any, want [][]string, rounds int) (counts [][][3]int, differs bool) {
	counts = make([][][3]int, len(rows))
	start := make(chan struct{})
	var stop atomic.Bool
	var wg sync.WaitGroup
	for w := range rows {
		counts[w] = make([][3]int, len(rows[w]))
		wg.Add(1)
		go func(w int) {
			defer wg.Done()
			mine, cnt, exp := rows[w], counts[w], want[w]
			<-start
			for i := 0; i < rounds && !stop.Load(); i++ {
				for j := range mine {
					k := (i + j + w) % len(mine)
					got := c12kDecide(shared, mine[k])
					switch got {
					case "1":
						cnt[k][0]++
					case "0":
						cnt[k][1]++
					default:
						cnt[k][2]++
					}
					if got != exp[k] {
						stop.Store(true)
					}
				}
			}
		}(w)
	}
	close(start)
	wg.Wait()
	return counts, stop.Load()
}

func init() { runners["C12Kchild"] = runC12KChild }

// runC12K (parent): runs the family in a child process and copies its lines.
func runC12K(tier string, runSeed uint64, rng *RNG, o *Out) error {
	seed := rng.Next() ^ (runSeed+1)*0xD6E8FEB86659FD93 // streams of consecutive run seeds are shifted copies: re-key
	exe, err := os.Executable()
	if err != nil {
		return err
	}
	f, err := os.CreateTemp("", "c12k*.txt")
	if err != nil {
		return err
	}
	f.Close()
	defer os.Remove(f.Name())
	limit := 150 * time.Second
	if tier == "thorough" {
		limit = 15 * time.Minute
	}
	ctx, cancel := context.WithTimeout(context.Background(), limit)
	defer cancel()
	cmd := exec.CommandContext(ctx, exe, "C12Kchild", tier, strconv.FormatUint(seed, 10), f.Name())
	cmd.Env = append(os.Environ(), "GOTRACEBACK=single")
	diag, runErr := cmd.CombinedOutput()
	data, err := os.ReadFile(f.Name())
	if err != nil {
		return err
	}
	open := "" // "<form> <text>" of the predicate the child was hammering when it ended
	sc := bufio.NewScanner(strings.NewReader(string(data)))
	sc.Buffer(make([]byte, 1<<20), 1<<26)
	for sc.Scan() {
		l := sc.Text()
		switch {
		case strings.HasPrefix(l, "#B "):
			open = strings.TrimPrefix(l, "#B ")
		case strings.HasPrefix(l, "#E "):
			o.Count("concurrent_form_" + strings.TrimPrefix(l, "#E "))
			open = ""
		case strings.HasPrefix(l, "C12 K ") && strings.Contains(l, " # "):
			o.Line("%s", l)
		}
	}
	if runErr == nil {
		return nil
	}
	what := "crashed"
	if ctx.Err() != nil {
		what = "timeout"
	}
	first := ""
	for _, l := range strings.Split(string(diag), "\n") {
		if l = strings.TrimSpace(l); l != "" && first == "" {
			first = l
		}
		if strings.HasPrefix(l, "fatal error:") || strings.HasPrefix(l, "panic:") || strings.HasPrefix(l, "harness error:") {
			first = l
			break
		}
	}
	if open == "" || strings.HasPrefix(first, "harness error:") { // not while a predicate was being hammered: a defect of the harness itself
		return fmt.Errorf("C12 K child: %v: %s", runErr, first)
	}
	if len(first) > 200 {
		first = first[:200]
	}
	o.Line("C12 KX %s # %s %s", open, what, hx(first))
	o.Count("concurrent_child_" + what)
	return nil
}

// runC12KChild: `harness C12Kchild <tier> <seed> <outfile>`.
func runC12KChild(tier string, seed uint64, o *Out) error {
	rng := &RNG{s: seed}
	if prev := runtime.GOMAXPROCS(0); prev < 4 {
		runtime.GOMAXPROCS(4)
		defer runtime.GOMAXPROCS(prev)
	}
	vals := c12kRowVals()
	numLits := []string{"0", "5", "-1.5", "30", "6.5", "9007199254740993", "49.5"}
	strLits := []string{"'a'", "'b'", "'ab'", "''"}
	ops := c12Ops[:6]
	cmp := func(f string) string {
		if rng.Intn(4) == 0 {
			return f + " " + ops[rng.Intn(6)] + " " + strLits[rng.Intn(len(strLits))]
		}
		return f + " " + ops[rng.Intn(6)] + " " + numLits[rng.Intn(len(numLits))]
	}
	chain := func() string {
		n := 1 + rng.Intn(3)
		join := " && "
		if rng.Bool() {
			join = " || "
		}
		fs := []string{"x", "y", "z"}
		s := cmp(fs[0])
		for j := 1; j < n; j++ {
			s += join + cmp(fs[j])
		}
		return s
	}
	preds := []c12kPred{
		{form: "p", text: "x > 30 && y < 50"}, {form: "g", text: "x > 30 && y < 50"}, {form: "p", text: "x != 5"}, {form: "g", text: "x >= 5"},
		{form: "p", text: "x == 'a' || y == 'b'"}, {form: "p", text: "x == 9007199254740993"},
		{form: "a", text: "(x) > 30 && (y) < 50"}, {form: "a", text: "x + 0 > 30 && y < 50"}, {form: "a", text: "x > 5 && y < 50 || z == 'a'"},
		{form: "a", text: "x * 2 >= y + 1"}, {form: "a", text: "not (x == 5) && y != nil"}, {form: "a", text: "(x > 1 ? y : z) == 5 || len(string(x)) > 2"},
		{form: "a", text: "x in [1, 5, 7] || y in ['a', 'b']"}, {form: "a", text: "abs(x) > 4 && upper(string(z)) != 'A'"},
	}
	nrand := 16
	rounds := 4000
	if tier == "thorough" {
		nrand, rounds = 80, 12000
	}
	for i := 0; i < nrand; i++ {
		t := chain()
		switch rng.Intn(5) {
		case 0, 1:
			preds = append(preds, c12kPred{form: "p", text: t})
		case 2:
			preds = append(preds, c12kPred{form: "g", text: t})
		case 3:
			preds = append(preds, c12kPred{form: "a", text: "(" + t + ") && (x) == x"}) // same decision unless x is NaN; general path
		default:
			preds = append(preds, c12kPred{form: "p", text: t}, c12kPred{form: "g", text: t})
		}
	}
	sqlPreds := []c12kPred{
		{form: "w", text: "x > 30 && y < 50", sql: "x > 30 AND y < 50"},
		{form: "w", text: "x != 5", sql: "x != 5"},
		{form: "w", text: "x == 'a' || y >= 6.5", sql: "x == 'a' OR y >= 6.5"},
		{form: "w", text: "x > 30 && y < 50", sql: "(x) > 30 AND (y) < 50"},
		{form: "w", text: "x <= 5 || y == 'b' || z > -1.5", sql: "(x <= 5 OR y == 'b' OR z > -1.5)"},
	}
	preds = append(preds, sqlPreds...)
	for _, p := range preds {
		workers := 4 + rng.Intn(5)
		rows := make([][]map[string]any, workers)
		for w := range rows {
			n := 5 + rng.Intn(4)
			for j := 0; j < n; j++ {
				row := map[string]any{}
				for _, f := range []string{"x", "y", "z"} {
					switch k := rng.Intn(10); {
					case k == 0: // missing column
					case k < 6:
						row[f] = vals[rng.Intn(23)] // numbers: the numeric shortcut answers
					default:
						row[f] = vals[rng.Intn(len(vals))]
					}
				}
				rows[w] = append(rows[w], row)
			}
		}
		var private, shared func(map[string]any) bool
		stop := func() {}
		r := rounds
		if p.form == "w" {
			r = rounds / 6
			mk := func() (*streamsql.Streamsql, error) {
				s := streamsql.New(streamsql.WithDiscardLog())
				if err := s.Execute("SELECT id FROM stream WHERE " + p.sql); err != nil {
					s.Stop()
					return nil, fmt.Errorf("C12 K: %q: %v", p.sql, err)
				}
				return s, nil
			}
			a, err := mk()
			if err != nil {
				return err
			}
			b, err := mk()
			if err != nil {
				a.Stop()
				return err
			}
			stop = func() { a.Stop(); b.Stop() }
			for w := range rows {
				for j := range rows[w] {
					rows[w][j]["id"] = w*100 + j
				}
			}
			sync1 := func(s *streamsql.Streamsql) func(map[string]any) bool {
				return func(row map[string]any) bool {
					res, err := s.EmitSync(row)
					if err != nil {
						panic(err)
					}
					return res != nil
				}
			}
			private, shared = sync1(a), sync1(b)
		} else {
			text := p.text
			if p.form == "g" {
				text = "(" + text + ")"
			}
			a, err := condition.NewExprCondition(text)
			if err != nil {
				return fmt.Errorf("C12 K: %q does not compile: %v", text, err)
			}
			b, err := condition.NewExprCondition(text)
			if err != nil {
				return err
			}
			private = func(row map[string]any) bool { return a.Evaluate(row) }
			shared = func(row map[string]any) bool { return b.Evaluate(row) }
		}
		seq := make([][]string, workers)
		for w := range rows {
			for _, row := range rows[w] {
				seq[w] = append(seq[w], c12kDecide(private, row))
			}
		}
		o.Line("#B %s %s", p.form, hx(p.text))
		o.w.Flush()
		counts, differs := c12kHammer(shared, rows, seq, r)
		stop()
		for w := range rows {
			for j, row := range rows[w] {
				pr := map[string]any{}
				for k, v := range row {
					if k != "id" {
						pr[k] = v
					}
				}
				c := counts[w][j]
				o.Line("C12 K %s %s%s # %s %d %d %d", p.form, hx(p.text), c12Row(pr), seq[w][j], c[0], c[1], c[2])
			}
		}
		o.Line("#E %s", p.form)
		o.w.Flush()
		if differs { // one predicate with a changed decision is enough; do not keep a corrupted evaluator running
			break
		}
	}
	return nil
}
