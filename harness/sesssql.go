package main

import (
	"fmt"
	"sort"
	"strings"
	"sync"
	"time"

	"github.com/rulego/streamsql"
)

// SQL-level session-window runs (public API, real goroutines and timers), judged by chk_session_sql.
func runSessionSQL(timeoutMs, oooMs int64, evs []qEvent) ([]string, error) {
	ssql := streamsql.New(streamsql.WithDiscardLog())
	defer ssql.Stop()
	sql := fmt.Sprintf("SELECT k, collect(id) AS ids, count(*) AS c, window_start() AS ws, window_end() AS we FROM stream GROUP BY k, SessionWindow('%s') WITH (TIMESTAMP='ts', TIMEUNIT='ms', MAXOUTOFORDERNESS='%s')", durStr(timeoutMs), durStr(oooMs))
	if err := ssql.Execute(sql); err != nil {
		return nil, fmt.Errorf("%s: %v", sql, err)
	}
	var mu sync.Mutex
	var out []string
	var bad error
	ssql.AddSyncSink(func(rs []map[string]any) {
		mu.Lock()
		defer mu.Unlock()
		for _, r := range rs {
			k, ok1 := asInt(r["k"])
			ws, ok2 := asInt(r["ws"])
			we, ok3 := asInt(r["we"])
			c, ok4 := asInt(r["c"])
			ids, ok5 := r["ids"].([]any)
			if !(ok1 && ok2 && ok3 && ok4 && ok5) {
				bad = fmt.Errorf("unexpected result row %v", r)
				continue
			}
			var sb strings.Builder
			fmt.Fprintf(&sb, "%d %d %d %d %d", k, ws/1000000, we/1000000, c, len(ids))
			for _, x := range ids {
				i, _ := asInt(x)
				fmt.Fprintf(&sb, " %d", i)
			}
			out = append(out, sb.String())
		}
	})
	for _, e := range evs {
		ssql.Emit(map[string]any{"id": e.id, "ts": e.ts, "k": e.key})
	}
	last, stable := -1, 0
	for i := 0; i < 80 && stable < 8; i++ {
		time.Sleep(100 * time.Millisecond)
		mu.Lock()
		n := len(out)
		mu.Unlock()
		if n == last {
			stable++
		} else {
			last, stable = n, 0
		}
	}
	mu.Lock()
	defer mu.Unlock()
	sort.Strings(out)
	return out, bad
}

func sessionSQLCases(o *Out, rng *RNG, ncases int) error {
	type job struct {
		timeout, ooo, wmk int64
		evs               []qEvent
		res               []string
		err               error
	}
	jobs := make([]*job, ncases)
	for i := range jobs {
		j := &job{timeout: []int64{300, 1000}[rng.Intn(2)]}
		j.ooo = []int64{0, j.timeout / 2}[rng.Intn(2)]
		base := int64(1700000000000)
		last := map[int64]int64{1: base, 2: base + 40}
		maxTs := base
		n := 6 + rng.Intn(20)
		for e := 0; e < n; e++ {
			k := int64(1 + rng.Intn(2))
			var ts int64
			switch rng.Intn(8) {
			case 0:
				ts = last[k] + j.timeout // exactly the timeout: still one session
			case 1:
				ts = maxTs - int64(rng.Intn(int(j.ooo)+1)) // out of order within tolerance
			default:
				ts = last[k] + int64(rng.Intn(int(j.timeout)/2+1))
			}
			if i%3 == 0 && rng.Intn(6) == 0 { // a gap above the timeout (recorded finding F3a territory)
				ts = last[k] + 3*j.timeout
			}
			if ts > last[k] {
				last[k] = ts
			}
			if ts > maxTs {
				maxTs = ts
			}
			j.evs = append(j.evs, qEvent{id: int64(e + 1), ts: ts, key: k})
		}
		fin := qEvent{id: int64(n + 1), ts: maxTs + j.ooo + 5*j.timeout, key: 99}
		j.evs = append(j.evs, fin)
		j.wmk = fin.ts - j.ooo
		jobs[i] = j
	}
	var wg sync.WaitGroup
	sem := make(chan struct{}, 16)
	for _, j := range jobs {
		j := j
		wg.Add(1)
		sem <- struct{}{}
		go func() {
			defer wg.Done()
			defer func() { <-sem }()
			j.res, j.err = runSessionSQL(j.timeout, j.ooo, j.evs)
		}()
	}
	wg.Wait()
	for _, j := range jobs {
		if j.err != nil {
			return j.err
		}
		var sb strings.Builder
		for _, e := range j.evs {
			fmt.Fprintf(&sb, " %d %d %d", e.id, e.ts, e.key)
		}
		o.Line("C10 Q %d %d %d #%s # %s", j.timeout, j.ooo, j.wmk, sb.String(), strings.Join(j.res, " ; "))
		o.Count("sql-level")
	}
	return nil
}
