package main

// C20, fourth file: the SINK-ROW-STABILITY family (S lines with a phase token, kinds stable_*).
//
// "Rows given to one sink are not altered by the engine afterwards."  On the window path the result rows
// go through a dispatch pipeline after aggregation (stream/processor_data.go processAggregationResults:
// group-column projection, analytic functions over aggregates, DISTINCT, HAVING, removal of the hidden
// __having_N__ columns of aggregates that only HAVING names, ORDER BY, LIMIT) and are then handed to the
// result channel and the sinks.  Every step of that pipeline that writes into a row map, or reorders the
// batch slice, has to be over BEFORE the hand-over: the sink owns what it was given.  Nothing of this is
// visible in the values of a result row taken once, so the family looks twice (and a third time):
//
//   * generated WINDOW queries = window (counting 2-4 mostly; tumbling / session / sliding sampled)
//     x group keys (none, plain, function expression, two keys)
//     x 1-3 selected aggregates out of {count(*), sum(v), max(v), min(v), avg(v)}
//     x post-aggregation expression (none / sum(v)/count(*) / max(v)-min(v) / sum(v)*2+1)
//     x analytic function over an aggregate (none / lag / acc_sum)
//     x HAVING (none / selected alias / ONE aggregate that is NOT selected / such an aggregate with a
//       threshold some groups fail / TWO unselected aggregates / selected alias AND unselected aggregate /
//       an arithmetic expression over unselected aggregates)
//     (alias conditions also with a threshold some groups fail)
//     x ORDER BY (none / alias ASC|DESC / group column) x LIMIT (none / 1 / 2 / 5) x DISTINCT x JOIN;
//   * 12 rows in three bursts, so that several batches are delivered by one instance;
//   * a SYNCHRONOUS sink keeps the very slice and maps it is given plus a canonical snapshot of the batch
//     (rows in slice order) taken while the sink owns it; when the NEXT batch arrives every batch delivered
//     before is encoded again (phase next_batch), and once more after the remaining input was processed and
//     the instance stopped (phase after_stop).  The extracted clause checker (sink_row_changed) demands
//     equality of the snapshots; the verdict names the rows and columns that differ.
//
// The snapshots of earlier batches are read on the goroutine that delivers (inside the sink) or after
// Stop, never concurrently with the engine.  The family is an implementation-level differential: the
// window result pipeline is not part of the heap model (Model/Isolation.v); its order of steps is modelled
// on its own in Model/ResultDispatch.v (theorems C20_dispatch_*).

import (
	"fmt"
	"os"
	"strings"
	"sync"
	"time"
)

type c20SQ struct {
	kind   string
	sql    string
	join   bool
	hidden bool // HAVING names an aggregate that is not in the SELECT list
	timed  bool // wall-clock window
}

type c20Agg struct{ call, alias, pass, filter string }

var c20StableAggs = []c20Agg{
	{"count(*)", "c", ">= 1", ">= 2"},
	{"sum(v)", "sv", ">= 0", "> 30"},
	{"max(v)", "mx", ">= 0", "> 20"},
	{"min(v)", "mn", "< 100000", "< 10"},
	{"avg(v)", "av", ">= 0", "> 15"},
}

func c20StableQuery(rng *RNG) c20SQ {
	// a random split of the aggregates into selected and unselected ones
	perm := make([]c20Agg, len(c20StableAggs))
	copy(perm, c20StableAggs)
	for i := len(perm) - 1; i > 0; i-- {
		j := rng.Intn(i + 1)
		perm[i], perm[j] = perm[j], perm[i]
	}
	nsel := 1 + rng.Intn(3)
	selA, unsA := perm[:nsel], perm[nsel:]
	var sel, tags, gks, outs []string
	join := false
	switch rng.Intn(8) {
	case 0:
		gks, outs = nil, nil
		tags = append(tags, "nokey")
	case 1, 2:
		gks, outs = []string{"upper(dev)"}, []string{"u"}
		sel = append(sel, "upper(dev) AS u")
		tags = append(tags, "fnkey")
	case 3:
		gks, outs = []string{"dev", "k"}, []string{"dev", "k"}
		sel = append(sel, "dev", "k")
		tags = append(tags, "twokeys")
	case 4:
		join = true
		gks, outs = []string{"m.c"}, []string{"mc"}
		sel = append(sel, "m.c AS mc")
		tags = append(tags, "joinkey")
	default:
		gks, outs = []string{"dev"}, []string{"dev"}
		sel = append(sel, "dev")
		tags = append(tags, "plainkey")
	}
	for _, a := range selA {
		sel = append(sel, a.call+" AS "+a.alias)
	}
	switch rng.Intn(6) {
	case 0:
		sel = append(sel, "sum(v) / count(*) AS r")
		tags = append(tags, "postagg")
	case 1:
		sel = append(sel, "max(v) - min(v) AS sp")
		tags = append(tags, "postagg")
	case 2:
		sel = append(sel, "sum(v) * 2 + 1 AS e")
		tags = append(tags, "postagg")
	}
	switch rng.Intn(8) {
	case 0:
		sel = append(sel, "lag("+selA[0].call+") AS an")
		tags = append(tags, "lag")
	case 1:
		sel = append(sel, "acc_sum("+selA[0].call+") AS an")
		tags = append(tags, "accsum")
	}
	having, hidden := "", false
	switch rng.Intn(12) {
	case 0, 1:
	case 2:
		having = selA[0].alias + " " + selA[0].pass
		tags = append(tags, "havingalias")
	case 3:
		having = selA[0].alias + " " + selA[0].filter
		tags = append(tags, "havingaliasfilter")
	case 4, 5:
		having, hidden = unsA[0].call+" "+unsA[0].pass, true
		tags = append(tags, "hidden1")
	case 6, 7:
		having, hidden = unsA[0].call+" "+unsA[0].filter, true
		tags = append(tags, "hiddenfilter")
	case 8:
		having, hidden = unsA[0].call+" "+unsA[0].pass+" AND "+unsA[1].call+" "+unsA[1].pass, true
		tags = append(tags, "hidden2")
	case 9, 10:
		having, hidden = selA[0].alias+" "+selA[0].pass+" AND "+unsA[0].call+" "+unsA[0].pass, true
		tags = append(tags, "aliasandhidden")
	case 11:
		having, hidden = unsA[0].call+" + "+unsA[1].call+" >= 0", true
		tags = append(tags, "hiddenexpr")
	}
	distinct := rng.Intn(5) == 0
	win := "CountingWindow(" + fmt.Sprint(2+rng.Intn(3)) + ")"
	timed := false
	switch rng.Intn(10) {
	case 0, 1:
		win, timed = "TumblingWindow('40ms')", true
	case 2:
		win, timed = "SessionWindow('30ms')", true
	case 3:
		win, timed = "SlidingWindow('60ms','30ms')", true
	}
	sql := "SELECT "
	if distinct {
		sql += "DISTINCT "
		tags = append(tags, "distinct")
	}
	sql += strings.Join(sel, ", ") + " FROM stream"
	if join {
		sql += " JOIN meta m ON k = m.k"
	}
	if rng.Intn(5) == 0 {
		sql += " WHERE v >= 1"
		tags = append(tags, "where")
	}
	sql += " GROUP BY " + strings.Join(append(append([]string(nil), gks...), win), ", ")
	if having != "" {
		sql += " HAVING " + having
	}
	switch rng.Intn(4) {
	case 0:
		sql += " ORDER BY " + selA[0].alias + rng.Pick([]string{"", " DESC", " ASC"})
		tags = append(tags, "orderby")
	case 1:
		if len(outs) > 0 {
			sql += " ORDER BY " + outs[0] + rng.Pick([]string{"", " DESC"})
			tags = append(tags, "orderbykey")
		}
	}
	if rng.Intn(3) == 0 {
		sql += " LIMIT " + rng.Pick([]string{"1", "2", "5"})
		tags = append(tags, "limit")
	}
	tags = append(tags, strings.ToLower(win[:strings.Index(win, "W")]))
	return c20SQ{"stable_" + strings.Join(tags, "_"), sql, join, hidden, timed}
}

// The WHOLE-ROW ANALYTIC part of the family (kinds stable_star_*): a generated window query of the family
// plus one select item that is a multi-column / whole-row analytic function whose column argument is `*`:
// changed_cols(prefix, ignoreNull, *) (lone star, star next to a named column or an aggregate),
// had_changed(ignoreNull, *), with and without OVER (PARTITION BY group column).  On the window path these
// functions are evaluated on the aggregated RESULT row - the map that is handed to the sinks next - and
// their state (the baseline the next window is compared with) lives as long as the instance: a state that
// keeps the row it was shown instead of a copy writes into a row a sink already holds when the next window
// of the same partition fires.  Few group values and 16 rows, so that every partition sees several windows.
var c20StarItems = []string{
	"changed_cols('d_', true, *)",
	"changed_cols('d_', true, *)",
	"changed_cols('c_', false, *)",
	"changed_cols('', true, *)",
	"had_changed(true, *) AS hc",
	"had_changed(false, *) AS hc",
	"changed_cols('d_', true, *) OVER (PARTITION BY %k)",
	"had_changed(true, *) OVER (PARTITION BY %k) AS hc",
	"changed_cols('e_', true, %g, *)",
	"changed_cols('e_', true, *, %g)",
	"changed_cols('f_', true, %g)",
}

func c20StableStarQuery(rng *RNG) c20SQ {
	q := c20StableQuery(rng)
	for t := 0; t < 6 && (q.timed && rng.Intn(4) != 0 || strings.Contains(q.kind, "_distinct")); t++ {
		q = c20StableQuery(rng)
	}
	item := rng.Pick(c20StarItems)
	// %k: a group column of the result row (if any), %a: a selected aggregate alias, %g: an inline aggregate
	key := ""
	for _, c := range []struct{ tag, col string }{{"fnkey", "u"}, {"twokeys", "dev"}, {"joinkey", "mc"}, {"plainkey", "dev"}} {
		if strings.Contains(q.kind, "_"+c.tag) {
			key = c.col
		}
	}
	if strings.Contains(item, "%k") && key == "" {
		item = strings.Replace(item, " OVER (PARTITION BY %k)", "", 1)
	}
	alias, call := "", ""
	for _, a := range c20StableAggs {
		if strings.Contains(q.sql, a.call+" AS "+a.alias) {
			alias, call = a.alias, a.call
			break
		}
	}
	item = strings.NewReplacer("%k", key, "%a", alias, "%g", call).Replace(item)
	tag := "lonestar"
	switch {
	case strings.Contains(item, "%") || alias == "":
		item = "changed_cols('d_', true, *)"
	case !strings.Contains(item, "*"):
		tag = "nostar"
	case strings.Contains(item, "e_"):
		tag = "starandcolumn"
	}
	if strings.HasPrefix(item, "had_changed") {
		tag += "_hadchanged"
	} else {
		tag += "_changedcols"
	}
	if strings.Contains(item, "OVER") {
		tag += "_over"
	}
	q.sql = strings.Replace(q.sql, " FROM stream", ", "+item+" FROM stream", 1)
	q.kind = "stable_star_" + tag + strings.TrimPrefix(q.kind, "stable")
	return q
}

// rows of the whole-row analytic part: two group values only (several windows per partition)
func c20StableStarRow(rng *RNG, i int) map[string]any {
	r := c20StableRow(rng, i)
	r["dev"] = []string{"a", "Cc"}[rng.Intn(2)]
	r["k"] = rng.Intn(2)
	return r
}

func c20StableRow(rng *RNG, i int) map[string]any {
	return map[string]any{
		"id": i, "v": rng.Intn(40), "dev": []string{"a", "b", "Cc"}[rng.Intn(3)], "k": rng.Intn(3),
		"ts":   time.Now().UnixMilli(),
		"tags": []any{"z", "a", rng.Intn(3)},
		"nest": map[string]any{"p": rng.Intn(5), "q": []any{3, 1, map[string]any{"deep": []any{"x"}}}},
	}
}

// the batch as the sink holds it: the rows in slice order
func c20EncBatch(rs []map[string]any) string {
	xs := make([]string, len(rs))
	for i, r := range rs {
		xs[i] = enc(r)
	}
	return "l[" + strings.Join(xs, ",") + "]"
}

type c20Held struct {
	rs      []map[string]any // the very slice (and maps) the engine handed over
	at      string           // canonical snapshot while the sink owned it
	next    string           // again, when the next batch was delivered
	hasNext bool
}

type c20Stab struct {
	mu      sync.Mutex
	batches []*c20Held
}

func (c *c20Stab) sink(rs []map[string]any) {
	c.mu.Lock()
	defer c.mu.Unlock()
	for _, b := range c.batches {
		if !b.hasNext {
			b.next, b.hasNext = c20EncBatch(b.rs), true
		}
	}
	c.batches = append(c.batches, &c20Held{rs: rs, at: c20EncBatch(rs)})
}
func (c *c20Stab) n() int { c.mu.Lock(); defer c.mu.Unlock(); return len(c.batches) }

// c20RunStable: returns (accepted by the engine, batches delivered)
func c20RunStable(rng *RNG, q c20SQ, o *Out) (bool, int) {
	return c20RunStableRows(rng, q, o, 3, c20StableRow)
}

func c20RunStableRows(rng *RNG, q c20SQ, o *Out, bursts int, mkRow func(*RNG, int) map[string]any) (bool, int) {
	s, err := c20Open(q.sql, q.join)
	if err != nil {
		return false, 0
	}
	st := &c20Stab{}
	s.AddSyncSink(st.sink)
	id := 0
	for burst := 0; burst < bursts; burst++ {
		before := st.n()
		for j := 0; j < 4; j++ {
			id++
			s.Emit(mkRow(rng, id))
		}
		if q.timed {
			time.Sleep(45 * time.Millisecond)
		} else {
			// counting windows fire as soon as the rows are in: wait for a new batch, briefly
			waitFor(func() bool { return st.n() > before }, 25*time.Millisecond)
			time.Sleep(2 * time.Millisecond)
		}
	}
	if q.timed {
		time.Sleep(70 * time.Millisecond)
	}
	s.Stop()
	st.mu.Lock()
	defer st.mu.Unlock()
	for i, b := range st.batches {
		if i >= 8 {
			break
		}
		if b.hasNext {
			o.Line("C20 S %s next_batch %s %s %s", q.kind, hxs(q.sql), b.at, b.next)
		}
		o.Line("C20 S %s after_stop %s %s %s", q.kind, hxs(q.sql), b.at, c20EncBatch(b.rs))
	}
	return true, len(st.batches)
}

func c20RunStableFamily(rng *RNG, tier string, o *Out) error {
	n := 60
	if tier == "thorough" {
		n = 500
	}
	accepted, hiddenDelivered, multi := 0, 0, 0
	var rejected []string
	for i := 0; i < n; i++ {
		q := c20StableQuery(rng)
		ok, nb := c20RunStable(rng, q, o)
		if !ok {
			o.Count("S_stable_rejected_sql")
			if len(rejected) < 3 {
				rejected = append(rejected, q.sql)
			}
			continue
		}
		accepted++
		o.Count("S_stable_window_query")
		if q.hidden {
			o.Count("S_stable_having_unselected_aggregate")
			if nb > 0 {
				hiddenDelivered++
			}
		}
		if nb > 1 {
			multi++
		}
		for _, t := range []string{"orderby", "limit", "distinct", "postagg"} {
			if strings.Contains(q.kind, "_"+t) {
				o.Count("S_stable_" + t)
			}
		}
	}
	// whole-row analytic part
	nStar := 18
	if tier == "thorough" {
		nStar = 150
	}
	starAccepted, starMulti, loneMulti := 0, 0, 0
	var starRejected []string
	for i := 0; i < nStar; i++ {
		q := c20StableStarQuery(rng)
		ok, nb := c20RunStableRows(rng, q, o, 4, c20StableStarRow)
		if !ok {
			o.Count("S_stable_star_rejected_sql")
			if os.Getenv("VERIF_C20_TIMING") != "" {
				fmt.Fprintf(os.Stderr, "c20 star query rejected: %s\n", q.sql)
			}
			if len(starRejected) < 3 {
				starRejected = append(starRejected, q.sql)
			}
			continue
		}
		starAccepted++
		o.Count("S_stable_star_window_query")
		if nb > 2 {
			starMulti++
			if strings.Contains(q.kind, "lonestar") {
				loneMulti++
				o.Count("S_stable_star_lone_star_three_batches")
			}
		}
	}
	if starAccepted < nStar*2/3 || starMulti < nStar/3 || loneMulti < nStar/6 {
		return fmt.Errorf("sink-row-stability family, whole-row analytic part: %d of %d generated queries accepted (e.g. rejected %q), %d delivered three batches or more, %d of them with a lone '*'", starAccepted, nStar, starRejected, starMulti, loneMulti)
	}
	o.Dist["S_stable_hidden_having_delivered"] = hiddenDelivered
	o.Dist["S_stable_several_batches"] = multi
	if accepted < n*3/4 {
		return fmt.Errorf("sink-row-stability family: only %d of %d generated window queries were accepted by the engine (e.g. %q)", accepted, n, rejected)
	}
	if hiddenDelivered < n/6 || multi < n/4 {
		return fmt.Errorf("sink-row-stability family lost its coverage: %d queries with HAVING over an unselected aggregate delivered rows, %d queries delivered several batches (of %d)", hiddenDelivered, multi, n)
	}
	return nil
}
