package main

// C05 — "exactly the selected columns (aliases, nested paths, literals), or all fields for *".
//   S  lines (column NAMES): SELECT * [WHERE ..], SELECT *, item and star-free queries over rows whose
//             field names come from a pool of underscore shapes (__seq__, __x, x__, _, __, ____, _a_,
//             __analytic_0__ ..) next to ordinary names; the result on a fresh stream, on a long-lived
//             stream and through Emit + synchronous sink is judged by the extracted column checker
//             (Spec/ColumnsSpec.v chk_columns against sel_columns q row) and compared with direct q row.
//   QI lines (quoted items): SELECT id, <1-3 items: a nested path with a quoted map key / a string literal in
//             either quote style whose content holds the OTHER quote characters, ':' and back quotes / a plain
//             column; with or without alias> FROM stream [WHERE id OP k]; judged by chk_columns against the names
//             of the items and compared with sdirect (Model/SelectItems.v: the "field:alias" spec split).

import (
	"fmt"
	"math/big"
	"strings"
	"sync"
	"time"

	"github.com/rulego/streamsql"
)

// ---------------------------------------------------------------- S: column names
var c05UnderNames = []string{"__seq__", "__meta__", "__x", "x__", "_", "__", "____", "_a_", "__a__b__", "___", "a__b",
	"__1__", "_1", "__analytic_0__", "__having_0__", "__winagg_0__", "__id__", "__a", "b__", "__s__", "_x_y_"}
var c05PlainNames = []string{"a", "b", "s", "t", "v", "n"}

type c05Col struct {
	name string
	kind string // n s b
}

func c05ColCell(r *RNG, kind string) cell {
	if r.Intn(10) == 0 {
		return cell{kind: "N"}
	}
	switch kind {
	case "n":
		if r.Bool() {
			return cell{kind: "i", i: intPool[r.Intn(len(intPool))]}
		}
		return cell{kind: "f", f: fltPool[r.Intn(len(fltPool))]}
	case "s":
		return cell{kind: "s", s: r.Pick([]string{"ab", "b", "abc", "zz", "x1"})}
	}
	return cell{kind: "b", b: r.Bool()}
}

func c05Columns(tier string, r *RNG, o *Out) {
	nq := 44
	if tier == "thorough" {
		nq = 440
	}
	const nrows = 4
	for qi := 0; qi < nq; qi++ {
		// the schema of this query's rows: 2-5 underscore names, 1-2 ordinary ones
		var schema []c05Col
		seen := map[string]bool{"id": true}
		add := func(pool []string) {
			nm := r.Pick(pool)
			if seen[nm] {
				return
			}
			seen[nm] = true
			k := "n"
			switch r.Intn(10) {
			case 0, 1:
				k = "s"
			case 2:
				k = "b"
			}
			schema = append(schema, c05Col{nm, k})
		}
		for i, n := 0, 2+r.Intn(4); i < n; i++ {
			add(c05UnderNames)
		}
		for i, n := 0, 1+r.Intn(2); i < n; i++ {
			add(c05PlainNames)
		}
		var nums []string
		for _, c := range schema {
			if c.kind == "n" {
				nums = append(nums, c.name)
			}
		}
		q := &query{}
		pickAlias := func() string {
			if r.Bool() {
				return r.Pick(c05UnderNames)
			}
			return r.Pick([]string{"x", "y", "out", "k"})
		}
		colItem := func() qitem {
			c := schema[r.Intn(len(schema))].name
			if r.Intn(8) == 0 {
				c = r.Pick(c05UnderNames) // possibly not a field of the rows: NULL
			}
			it := qitem{kind: "col", src: c, out: c}
			if r.Bool() {
				it.out = pickAlias()
			}
			return it
		}
		shape := "star"
		switch x := r.Intn(10); {
		case x < 5:
			q.items = []qitem{{kind: "star"}}
		case x == 5:
			shape = "star_item"
			q.items = []qitem{{kind: "star"}, colItem()}
		default:
			shape = "items"
			q.items = []qitem{{kind: "col", src: "id", out: "id"}}
			used := map[string]bool{"id": true}
			for i, n := 0, 1+r.Intn(3); i < n; i++ {
				it := colItem()
				if used[it.out] {
					continue
				}
				used[it.out] = true
				q.items = append(q.items, it)
			}
		}
		if r.Intn(3) != 0 && len(nums) > 0 {
			mk := func() *ex {
				p := [][2]int64{{0, 1}, {1, 1}, {2, 1}, {3, 1}, {5, 1}, {1, 2}, {5, 2}}[r.Intn(7)]
				return cmp(r.Pick([]string{"gt", "ge", "lt", "le", "eq", "ne", "gt", "ge"}), col(r.Pick(nums)), num(p[0], p[1]))
			}
			q.where = mk()
			if r.Intn(4) == 0 {
				q.where = &ex{k: r.Pick([]string{"and", "or"}), l: q.where, r: mk()}
			}
		}
		sql := q.sql()
		usedS := streamsql.New(streamsql.WithDiscardLog())
		if err := usedS.Execute(sql); err != nil {
			usedS.Stop()
			o.Count("cols/rejected")
			continue
		}
		o.Count("cols/" + shape)
		asyncS := streamsql.New(streamsql.WithDiscardLog())
		_ = asyncS.Execute(sql)
		sink := newC05EncSink(func(m map[string]any) string { return resEnc(m, nil) })
		asyncS.AddSyncSink(sink.fn)
		var rows []rowT
		var fresh, usedRes []string
		want := 0
		for i := 0; i < nrows; i++ {
			row := rowT{"id": cell{kind: "i", i: int64(i)}}
			for _, c := range schema {
				if r.Intn(6) != 0 {
					row[c.name] = c05ColCell(r, c.kind)
				}
			}
			rows = append(rows, row)
			get := func(s *streamsql.Streamsql) string {
				return guard(func() string { res, err := s.EmitSync(row.goMap()); return resEnc(res, err) })
			}
			f := streamsql.New(streamsql.WithDiscardLog())
			if f.Execute(sql) != nil {
				fresh = append(fresh, "execerr")
			} else {
				fresh = append(fresh, get(f))
			}
			f.Stop()
			u := get(usedS)
			usedRes = append(usedRes, u)
			if strings.HasPrefix(u, "row") {
				want++
			}
			asyncS.Emit(row.goMap())
		}
		c05WaitCount(sink.total, want, 2*time.Second)
		time.Sleep(2 * time.Millisecond)
		usedS.Stop()
		asyncS.Stop()
		for i := 0; i < nrows; i++ {
			o.Line("C05 S %s # %s # %s # %s # %s # %s", hx(sql), q.c06_enc(), rows[i].c06_enc(), fresh[i], usedRes[i], sink.outcome(i))
			o.Count("cols/rows")
		}
	}
}

// ---------------------------------------------------------------- QI: quoted items
// map keys / literal contents: the other quote character, ':', back quotes, spaces; no operator characters, no
// '.', no brackets, no parentheses, no AND / OR (those are other routes: F53, F54, C06)
var c05QuoteKeys = []string{"it's", `say "hi"`, "a:b", "it's: ok", "x:y's", `q"`, `"`, "'", `he said "a:b"`, "a'b'c", `u"v"w`,
	"plain", "a b", "`t", "b`t`", ":", "::k", "k:", `"x":1`, "it's 'so'", `'`}
var c05LitTexts = []string{"it's", "it's: ok", `say "hi": x`, "a:b", "x:y", "k", "hello world", "a'b'c", `"`, "'", ":", "a:", ":a",
	"s:a", "id:u", `he said "a:b"`, "it's a 'b': c", `"x":1`, "q`", "b`t`", "it`s: a", "a::b", `u"v`, "s:", "''", `""`}

type c05QItem struct {
	lit     bool
	segs    []pseg // path item
	text    string // path: the text; literal: the content
	quote   string
	alias   string
	unnamed bool
}

func (it c05QItem) sql() string {
	s := it.text
	if it.lit {
		s = it.quote + it.text + it.quote
	}
	if it.alias != "" {
		s += " AS " + it.alias
	}
	return s
}
func (it c05QItem) name() string {
	if it.alias != "" {
		return it.alias
	}
	return it.text
}
func (it c05QItem) enc() string {
	a := "~"
	if it.alias != "" {
		a = hx(it.alias)
	}
	if it.lit {
		return fmt.Sprintf("L %d %s %s", it.quote[0], hx(it.text), a)
	}
	return fmt.Sprintf("P %s %s", hx(it.text), a)
}

// the quote character for a key / content: one it does not contain ("" when it contains both)
func c05QuoteFor(r *RNG, s string) string {
	hasS, hasD := strings.Contains(s, "'"), strings.Contains(s, `"`)
	switch {
	case hasS && hasD:
		return ""
	case hasS:
		return `"`
	case hasD:
		return "'"
	}
	if r.Bool() {
		return `"`
	}
	return "'"
}

func c05QuotedPath(r *RNG) []pseg {
	segs := []pseg{{kind: "name", name: r.Pick([]string{"m", "d", "meta"})}}
	n := 1 + r.Intn(2)
	keyAt := r.Intn(n)
	for i := 0; i < n; i++ {
		switch x := r.Intn(10); {
		case i == keyAt || x < 4:
			var k, q string
			for q == "" {
				k = r.Pick(c05QuoteKeys)
				q = c05QuoteFor(r, k)
			}
			segs = append(segs, pseg{kind: "key", name: k, raw: q + k + q})
		case x < 7:
			j := r.Intn(2)
			segs = append(segs, pseg{kind: "idx", idx: j, raw: fmt.Sprint(j)})
		default:
			segs = append(segs, pseg{kind: "name", name: r.Pick([]string{"x", "y", "v"})})
		}
	}
	return segs
}

func c05QuotedItems(tier string, r *RNG, o *Out) {
	nq := 60
	if tier == "thorough" {
		nq = 600
	}
	const nrows = 4
	for qi := 0; qi < nq; qi++ {
		items := []c05QItem{{segs: []pseg{{kind: "name", name: "id"}}, text: "id"}}
		names := map[string]bool{"id": true}
		ni := 1 + r.Intn(3)
		for i := 0; i < ni; i++ {
			var it c05QItem
			switch x := r.Intn(10); {
			case x < 5:
				it.segs = c05QuotedPath(r)
				it.text = c05Render(it.segs)
				if r.Intn(4) != 0 {
					it.alias = r.Pick([]string{fmt.Sprintf("p%d", i), "w", "val"})
				}
			case x < 9:
				it.lit = true
				for it.quote == "" {
					it.text = r.Pick(c05LitTexts)
					it.quote = c05QuoteFor(r, it.text)
				}
				if r.Intn(5) != 0 {
					it.alias = r.Pick([]string{fmt.Sprintf("l%d", i), "note", "lit"})
				}
			default:
				c := r.Pick([]string{"s", "a", "zz"})
				it.segs = []pseg{{kind: "name", name: c}}
				it.text = c
				if r.Bool() {
					it.alias = fmt.Sprintf("c%d", i)
				}
			}
			if names[it.name()] {
				continue
			}
			names[it.name()] = true
			items = append(items, it)
		}
		var sel, enc []string
		kinds := map[string]bool{}
		for _, it := range items {
			sel = append(sel, it.sql())
			enc = append(enc, it.enc())
			switch {
			case it.lit && it.alias == "":
				kinds["literal"] = true
			case it.lit:
				kinds["literal_alias"] = true
			case len(it.segs) > 1 && it.alias == "":
				kinds["path"] = true
			case len(it.segs) > 1:
				kinds["path_alias"] = true
			}
		}
		sql := "SELECT " + strings.Join(sel, ", ") + " FROM stream"
		wenc := "w0"
		if r.Intn(3) == 0 {
			w := &ex{k: "cmp", op: r.Pick([]string{"ge", "lt", "ne", "gt"}), l: &ex{k: "col", s: "id"}, r: &ex{k: "num", q: big.NewRat(int64(r.Intn(nrows)), 1)}}
			sql += " WHERE " + c06Render(0, w)
			wenc = "w1 " + c06_enc(w)
		}
		qenc := fmt.Sprintf("%d %s %s", len(items), strings.Join(enc, " "), wenc)
		usedS := streamsql.New(streamsql.WithDiscardLog())
		if err := usedS.Execute(sql); err != nil {
			usedS.Stop()
			o.Count("qitems/rejected")
			o.Line("C05 QR %s # %s", hx(sql), hx(err.Error()))
			continue
		}
		o.Count("qitems/queries")
		for k := range kinds {
			o.Count("qitems/with_" + k)
		}
		asyncS := streamsql.New(streamsql.WithDiscardLog())
		_ = asyncS.Execute(sql)
		sink := newC05EncSink(jEnc2)
		asyncS.AddSyncSink(sink.fn)
		run := func(s *streamsql.Streamsql, row map[string]any) string {
			v := guard(func() string {
				res, err := s.EmitSync(row)
				if err != nil {
					return "e"
				}
				if res == nil {
					return "none"
				}
				return jEnc(res)
			})
			if v == "PANIC" {
				return "panic"
			}
			return v
		}
		var rows []map[string]any
		var fresh, usedRes []string
		want := 0
		for i := 0; i < nrows; i++ {
			row := map[string]any{"id": i, "s": r.Pick([]string{"txt", "ab", ""}), "a": r.Intn(9)}
			if r.Intn(6) == 0 {
				delete(row, "s")
			}
			for _, it := range items[1:] {
				if it.lit || len(it.segs) < 2 || r.Intn(8) == 0 {
					continue
				}
				root := it.segs[0].name
				v := c05ShapeFor(r, it.segs[1:])
				if old, ok := row[root].(map[string]any); ok {
					if nv, ok2 := v.(map[string]any); ok2 { // two paths under one root: merge the two maps
						for k, x := range nv {
							if _, dup := old[k]; !dup || r.Bool() {
								old[k] = x
							}
						}
						continue
					}
					if r.Bool() {
						continue
					}
				}
				row[root] = v
			}
			rows = append(rows, row)
			f := streamsql.New(streamsql.WithDiscardLog())
			if f.Execute(sql) != nil {
				fresh = append(fresh, "execerr")
			} else {
				fresh = append(fresh, run(f, row))
			}
			f.Stop()
			u := run(usedS, row)
			usedRes = append(usedRes, u)
			if u != "none" && u != "e" && u != "panic" {
				want++
			}
			asyncS.Emit(row)
		}
		c05WaitCount(sink.total, want, 2*time.Second)
		time.Sleep(2 * time.Millisecond)
		usedS.Stop()
		asyncS.Stop()
		for i := 0; i < nrows; i++ {
			o.Line("C05 QI %s # %s # %s # %s # %s # %s", hx(sql), qenc, jEnc(rows[i]), fresh[i], usedRes[i], sink.outcome(i))
			o.Count("qitems/rows")
		}
	}
}

// a synchronous sink that keeps, per row id, what was delivered, in the caller's encoding
type c05EncSink struct {
	mu  sync.Mutex
	enc func(map[string]any) string
	n   int
	cnt map[int]int
	res map[int]string
}

func newC05EncSink(enc func(map[string]any) string) *c05EncSink {
	return &c05EncSink{enc: enc, cnt: map[int]int{}, res: map[int]string{}}
}
func (k *c05EncSink) fn(rs []map[string]any) {
	k.mu.Lock()
	defer k.mu.Unlock()
	for _, res := range rs {
		id := c05ResID(res)
		k.n++
		k.cnt[id]++
		k.res[id] = k.enc(res)
	}
}
func (k *c05EncSink) total() int { k.mu.Lock(); defer k.mu.Unlock(); return k.n }
func (k *c05EncSink) outcome(id int) string {
	k.mu.Lock()
	defer k.mu.Unlock()
	switch c := k.cnt[id]; {
	case c == 0:
		return "none"
	case c > 1:
		return "dup"
	}
	return k.res[id]
}

func jEnc2(m map[string]any) string { return jEnc(m) }

func c05Selected(tier string, seed uint64, o *Out) {
	c05Columns(tier, NewRNG(seed*1000003+545), o)
	c05QuotedItems(tier, NewRNG(seed*1000003+555), o)
}
