package main

// C07, second part:
//   * HAVING conditions with a searched CASE (the HAVING text containing CASE is evaluated by
//     applyHavingWithCaseExpression / expr.NewExpression instead of expr-lang): CASE as the whole
//     condition, CASE compared with an expression, CASE next to AND / OR; WHEN conditions and results
//     over aliases, selected and unselected aggregates, the group column and literals;
//   * C07 M ...  one query, K consecutive batches through ONE stream. Two consumers keep every batch
//     they are handed and are looked at only after the last batch: the result channel (read at the
//     end, a reader that lags by K batches) and a sink that retains the slice it was given. Every
//     held batch must still be what relational evaluation prescribes for ITS input.
//     mode h: verif batch runner (1-6 groups per batch); mode p: public API, CountingWindow(N), one group.

import (
	"fmt"
	"strings"
	"sync"
	"time"

	"github.com/rulego/streamsql"
	"github.com/rulego/streamsql/rsql"
	"github.com/rulego/streamsql/stream"
)

type c7when struct {
	cmp     string
	x, y, r *c7hexp
}

func (h *c7hpred) caseSQL() string {
	var sb strings.Builder
	sb.WriteString("CASE")
	for _, w := range h.whens {
		fmt.Fprintf(&sb, " WHEN %s %s %s THEN %s", w.x.sql(), w.cmp, w.y.sql(), w.r.sql())
	}
	if h.els != nil {
		sb.WriteString(" ELSE " + h.els.sql())
	}
	sb.WriteString(" END")
	return sb.String()
}

func (h *c7hpred) caseTok() string {
	var sb strings.Builder
	fmt.Fprintf(&sb, "%d %s", len(h.whens), b01(h.els != nil))
	for _, w := range h.whens {
		fmt.Fprintf(&sb, " %s %s %s %s", c7cmpTok[w.cmp], w.x.tok(), w.y.tok(), w.r.tok())
	}
	if h.els != nil {
		sb.WriteString(" " + h.els.tok())
	}
	return sb.String()
}

func (h *c7hpred) caseUsesDiv() bool {
	for _, w := range h.whens {
		if w.x.usesDiv() || w.y.usesDiv() || w.r.usesDiv() {
			return true
		}
	}
	return (h.els != nil && h.els.usesDiv()) || (h.z != nil && h.z.usesDiv())
}

func (h *c7hpred) hasCase() bool {
	switch h.kind {
	case 'C', 'K':
		return true
	case '&', '|':
		return h.p.hasCase() || h.q.hasCase()
	}
	return false
}

// "" = no CASE; otherwise the routing class of the text
func (h *c7hpred) caseKind() string {
	switch {
	case !h.hasCase():
		return ""
	case h.kind == 'C':
		return "case_is_condition"
	case h.kind == 'K':
		return "case_compared"
	}
	return "case_with_and_or"
}

// a result / operand that is often around zero, so that "value > 0" has both outcomes
func c7genCaseResult(rng *RNG, q *c7query) *c7hexp {
	// the bare numeric GROUP BY column: its value reaches the filter in the carrier the rows use (a Go int), F10j
	if q.gnum && q.ngroup > 0 && rng.Intn(5) == 0 {
		return &c7hexp{kind: 'c', col: "g0", name: "g"}
	}
	switch rng.Intn(5) {
	case 0, 1:
		return &c7hexp{kind: 'L', lit: []int{0, 1, 1, 2, -1, 5}[rng.Intn(6)]}
	case 2:
		return &c7hexp{kind: 'B', op: '-', x: c7genHexp(rng, q, 0), y: &c7hexp{kind: 'L', lit: rng.Range(0, 30)}}
	}
	return c7genHexp(rng, q, 1)
}

func c7genCase(rng *RNG, q *c7query) *c7hpred {
	cmps := []string{">", ">=", "<", "<=", "=", "!=", ">", "<"}
	h := &c7hpred{kind: 'C'}
	for n := []int{1, 1, 1, 2, 2, 3}[rng.Intn(6)]; n > 0; n-- {
		w := c7when{cmp: cmps[rng.Intn(len(cmps))], x: c7genHexp(rng, q, 1), r: c7genCaseResult(rng, q)}
		if rng.Intn(3) > 0 {
			w.y = &c7hexp{kind: 'L', lit: rng.Range(-5, 60)}
		} else {
			w.y = c7genHexp(rng, q, 1)
		}
		h.whens = append(h.whens, w)
	}
	if rng.Intn(10) < 7 {
		h.els = c7genCaseResult(rng, q)
	}
	return h
}

func c7genCaseHaving(rng *RNG, q *c7query) *c7hpred {
	h := c7genCase(rng, q)
	switch rng.Intn(8) {
	case 0: // CASE ... END cmp z
		h.kind = 'K'
		h.cmp = []string{">", ">=", "<", "=", "!="}[rng.Intn(5)]
		if rng.Bool() {
			h.z = &c7hexp{kind: 'L', lit: rng.Range(-1, 5)}
		} else {
			h.z = c7genHexp(rng, q, 0)
		}
		return h
	case 1: // next to AND / OR
		other := c7genHpred(rng, q, rng.Intn(2))
		k := byte('&')
		if rng.Bool() {
			k = '|'
		}
		if rng.Bool() {
			return &c7hpred{kind: k, p: other, q: h}
		}
		return &c7hpred{kind: k, p: h, q: other}
	}
	return h
}

// ---------------------------------------------------------------- M: consecutive batches, retaining consumers
func (q *c7query) multiLine(mode string, flags []string, ins [][]c7in, ch, sink [][]map[string]any) string {
	var sb strings.Builder
	fmt.Fprintf(&sb, "C07 M %s %d %s %s %d # %d", mode, q.ngroup, b01(q.distinct), b01(q.hasLimit), q.limit, len(q.items))
	for _, it := range q.items {
		sb.WriteString(" " + it.tok())
	}
	sb.WriteString(" # ")
	if q.having == nil {
		sb.WriteString("-")
	} else {
		sb.WriteString(q.having.tok())
	}
	sb.WriteString(" #")
	for _, o := range q.order {
		sb.WriteString(" " + o[0] + " " + o[1])
	}
	fmt.Fprintf(&sb, " # %d # %s", len(ins), strings.Join(flags, " "))
	for _, in := range ins {
		fmt.Fprintf(&sb, " # %d", len(in))
		for _, r := range in {
			for _, k := range r.key {
				sb.WriteString(" " + c7val(k))
			}
			fmt.Fprintf(&sb, " %d %d %d", r.vals[0], r.vals[1], r.vals[2])
		}
	}
	for _, held := range [][][]map[string]any{ch, sink} {
		fmt.Fprintf(&sb, " # %d", len(held))
		for _, b := range held {
			fmt.Fprintf(&sb, " %d", len(b))
			for _, r := range b {
				sb.WriteString(" " + q.rowToks(r))
			}
		}
	}
	return sb.String()
}

func c7drain(ch <-chan []map[string]any) [][]map[string]any {
	var got [][]map[string]any
	for {
		select {
		case b := <-ch:
			got = append(got, b)
		default:
			return got
		}
	}
}

// mode h: the batch runner is called K times on one stream. The sync sink keeps the slice it is handed
// (no copy); the result channel is drained after the last batch. The line is rendered at the end.
func c7runMultiHook(q *c7query, ins [][]c7in) (string, error) {
	sqlText := q.sql("CountingWindow(1000)")
	cfg, cond, err := rsql.Parse(sqlText)
	if err != nil {
		return "", fmt.Errorf("parse %q: %v", sqlText, err)
	}
	st, err := stream.NewStream(*cfg)
	if err != nil {
		return "", fmt.Errorf("stream %q: %v", sqlText, err)
	}
	defer st.Stop()
	if err := st.RegisterFilter(cond); err != nil {
		return "", err
	}
	var held [][]map[string]any
	st.AddSyncSink(func(rs []map[string]any) { held = append(held, rs) })
	run := stream.VerifNewBatchRunner(st)
	var flags []string
	for _, in := range ins {
		rows := make([]map[string]any, len(in))
		for i, r := range in {
			rows[i] = c7rowMap(q, r)
		}
		before := len(held)
		run.Run(rows)
		flags = append(flags, b01(len(held) > before))
	}
	ch := c7drain(st.GetResultsChan())
	return q.multiLine("h", flags, ins, ch, held), nil
}

// mode p: public API, CountingWindow(N), every batch is N rows of the one group
func c7runMultiPublic(q *c7query, ins [][]c7in) (string, error) {
	sqlText := q.sql(fmt.Sprintf("CountingWindow(%d)", len(ins[0])))
	s := streamsql.New(streamsql.WithDiscardLog())
	if err := s.Execute(sqlText); err != nil {
		s.Stop()
		return "", fmt.Errorf("execute %q: %v", sqlText, err)
	}
	defer s.Stop()
	queue := s.ToChannel() // nobody reads it before the end
	var mu sync.Mutex
	var held [][]map[string]any
	s.AddSyncSink(func(rs []map[string]any) {
		mu.Lock()
		held = append(held, rs)
		mu.Unlock()
	})
	flags := make([]string, len(ins))
	for k, in := range ins {
		flags[k] = "?"
		for _, r := range in {
			s.Emit(c7rowMap(q, r))
		}
	}
	// every batch delivered, or nothing new for a second (a batch HAVING empties is not delivered)
	last, since := -1, time.Now()
	for time.Since(since) < time.Second {
		mu.Lock()
		n := len(held)
		mu.Unlock()
		if n >= len(ins) {
			break
		}
		if n != last {
			last, since = n, time.Now()
		}
		time.Sleep(10 * time.Millisecond)
	}
	ch := c7drain(queue)
	mu.Lock()
	defer mu.Unlock()
	return q.multiLine("p", flags, ins, ch, held), nil
}

func c7runMultiFamily(rng *RNG, tier string, o *Out) error {
	nh, np := 260, 16
	if tier == "thorough" {
		nh, np = 6000, 120
	}
	for i := 0; i < nh; i++ {
		ngroup := []int{1, 1, 1, 2, 0}[rng.Intn(5)]
		q := c7genQuery(rng, ngroup)
		if q.having == nil && rng.Bool() {
			q.having = c7genHpred(rng, q, 1)
		}
		k := rng.Range(2, 4)
		exact := q.usesDiv() || rng.Intn(3) > 0
		ins := make([][]c7in, k)
		for b := range ins {
			ins[b] = c7genInput(rng, q, rng.Range(1, 6), exact)
		}
		line, err := c7runMultiHook(q, ins)
		if err != nil {
			return err
		}
		o.Line("%s", line)
		o.Count(fmt.Sprintf("multi_batch_hook_%d_batches", k))
		if q.having != nil {
			o.Count("multi_batch_with_having")
		}
	}
	type job struct {
		q   *c7query
		ins [][]c7in
	}
	var jobs []job
	for i := 0; i < np; i++ {
		q := c7genQuery(rng, rng.Intn(2))
		if q.having == nil && rng.Bool() {
			q.having = c7genHpred(rng, q, 1)
		}
		k := rng.Range(2, 4)
		first := c7genInput(rng, q, 1, true)
		ins := [][]c7in{first}
		for b := 1; b < k; b++ {
			span := []int{3, 8, 40}[rng.Intn(3)]
			next := make([]c7in, len(first))
			for j := range next {
				next[j] = c7in{key: first[j].key, vals: [3]int{rng.Range(-2, span), rng.Range(0, span), rng.Range(1, 5)}}
			}
			ins = append(ins, next)
		}
		jobs = append(jobs, job{q, ins})
	}
	lines := make([]string, len(jobs))
	var wg sync.WaitGroup
	var mu sync.Mutex
	var firstErr error
	sem := make(chan struct{}, 16)
	for i, j := range jobs {
		i, j := i, j
		wg.Add(1)
		sem <- struct{}{}
		go func() {
			defer wg.Done()
			defer func() { <-sem }()
			line, err := c7runMultiPublic(j.q, j.ins)
			mu.Lock()
			defer mu.Unlock()
			if err != nil && firstErr == nil {
				firstErr = err
			}
			lines[i] = line
		}()
	}
	wg.Wait()
	if firstErr != nil {
		return firstErr
	}
	for _, l := range lines {
		o.Line("%s", l)
		o.Count("multi_batch_public_api")
	}
	return nil
}
