package main

import (
	"encoding/hex"
	"fmt"
	"math"
	"sort"
	"strconv"
	"strings"
	"sync"
	"time"

	"github.com/rulego/streamsql"
	"github.com/rulego/streamsql/aggregator"
	"github.com/rulego/streamsql/types"
	"github.com/rulego/streamsql/utils/cast"
	"github.com/rulego/streamsql/window"
)

func init() { runners["C04"] = runC04 }

// ---- grouping values ----------------------------------------------------------------------
// gval is one value of a grouping column. kind: 'm' missing field, 'n' NULL, 's' string,
// 'i' integral number (held in one of several Go numeric types), 'f' non-integral float64,
// 'b' bool.
type gval struct {
	kind byte
	s    string
	i    int64
	f    float64
	b    bool
	goTy int // for 'i': which Go type carries it
}

func hexTok(s string) string {
	if s == "" {
		return "-"
	}
	return hex.EncodeToString([]byte(s))
}

func (v gval) tok() string {
	switch v.kind {
	case 'm':
		return "m"
	case 'n':
		return "n"
	case 's':
		return "s" + hexTok(v.s)
	case 'i':
		return "i" + strconv.FormatInt(v.i, 10)
	case 'f':
		return "f" + hexTok(strconv.FormatFloat(v.f, 'g', -1, 64))
	case 'b':
		if v.b {
			return "b1"
		}
		return "b0"
	}
	return "?"
}

// goValue is what is stored in the row map (ok=false: the field is absent). Window-bound rows keep
// ONE rendering per number: an integral number travels as float64 only below 1e6, where
// cast.ToString and %v print plain digits (the global window prints float64(1e8) as "1e+08" and
// int(1e8) as "100000000": two Go types in one column are outside the property's quantifier).
func (v gval) goValue() (any, bool) { return v.goValueMode(false) }

// goValueMode(true): for the aggregator, whose key normalises every integral number.
func (v gval) goValueMode(agg bool) (any, bool) {
	switch v.kind {
	case 'm':
		return nil, false
	case 'n':
		return nil, true
	case 's':
		return v.s, true
	case 'i':
		switch v.goTy % 4 {
		case 0:
			return int(v.i), true
		case 1:
			return v.i, true
		case 2:
			if (agg && v.i > -(1<<53) && v.i < (1<<53)) || (v.i > -1000000 && v.i < 1000000) {
				return float64(v.i), true
			}
			return v.i, true
		default:
			if v.i >= math.MinInt32 && v.i <= math.MaxInt32 {
				return int32(v.i), true
			}
			return int(v.i), true
		}
	case 'f':
		return v.f, true
	case 'b':
		return v.b, true
	}
	return nil, false
}

// anyTok renders a value reported by the implementation in the same token language.
func anyTok(x any) string {
	switch t := x.(type) {
	case nil:
		return "n"
	case string:
		return "s" + hexTok(t)
	case bool:
		if t {
			return "b1"
		}
		return "b0"
	case int:
		return "i" + strconv.FormatInt(int64(t), 10)
	case int32:
		return "i" + strconv.FormatInt(int64(t), 10)
	case int64:
		return "i" + strconv.FormatInt(t, 10)
	case uint64:
		return "i" + strconv.FormatUint(t, 10)
	case float64:
		if t == math.Trunc(t) && math.Abs(t) < 1<<62 {
			return "i" + strconv.FormatInt(int64(t), 10)
		}
		return "f" + hexTok(strconv.FormatFloat(t, 'g', -1, 64))
	}
	return "s" + hexTok(fmt.Sprintf("?%T:%v", x, x))
}

func anyInt(x any) int64 {
	switch t := x.(type) {
	case int:
		return int64(t)
	case int64:
		return t
	case int32:
		return int64(t)
	case float64:
		return int64(t)
	case float32:
		return int64(t)
	}
	return -1
}

type grow struct {
	id   int64
	vals []gval
	raw  map[int]any // column -> value actually emitted (function-valued keys: vals holds the function's value)
}

func (r grow) tok() string {
	parts := []string{strconv.FormatInt(r.id, 10)}
	for _, v := range r.vals {
		parts = append(parts, v.tok())
	}
	return strings.Join(parts, " ")
}

func colName(i int) string { return "k" + strconv.Itoa(i+1) }

func (r grow) toMap() map[string]any { return r.toMapMode(false) }

func (r grow) toMapMode(agg bool) map[string]any {
	m := map[string]any{"id": r.id}
	for i, v := range r.vals {
		if x, ok := r.raw[i]; ok {
			if _, omit := x.(struct{}); !omit { // struct{}{} = leave the field out of the row
				m[colName(i)] = x
			}
		} else if x, ok := v.goValueMode(agg); ok {
			m[colName(i)] = x
		}
	}
	return m
}

func rowsTok(rows []grow) string {
	parts := make([]string, len(rows))
	for i, r := range rows {
		parts[i] = r.tok()
	}
	return strings.Join(parts, " ")
}

// ---- generators ----------------------------------------------------------------------------
var strFrags = []string{"a", "b", "c", "|", "|", "\\", "\\N", "\\|", ",", "\x1f", "\x00", ":", "1", "NULL", "nil", "\x00NULL", "string|", "x|y", "6:", "|7:string|", "é", " "}

func genString(rng *RNG) string {
	n := rng.Intn(4)
	var sb strings.Builder
	for i := 0; i < n; i++ {
		sb.WriteString(strFrags[rng.Intn(len(strFrags))])
	}
	return sb.String()
}

func genVal(rng *RNG, colKind int) gval {
	switch r := rng.Intn(16); {
	case r == 0:
		return gval{kind: 'm'}
	case r == 1:
		return gval{kind: 'n'}
	}
	switch colKind {
	case 1:
		ints := []int64{0, 1, -1, 2, 10, 12, 100000000, -7, 1 << 40, 1 << 53, 1<<53 + 1, 1<<53 + 2, 1 << 61, 1<<61 + 1, 1<<61 + 2, -(1 << 53), -(1<<53 + 1)}
		return gval{kind: 'i', i: ints[rng.Intn(len(ints))], goTy: rng.Intn(4)}
	case 2:
		if rng.Bool() {
			fl := []float64{1.5, -0.25, 0.5, 2.75, 1e-7, 1.5e300}
			return gval{kind: 'f', f: fl[rng.Intn(len(fl))]}
		}
		return gval{kind: 'i', i: int64(rng.Intn(4)), goTy: rng.Intn(4)}
	case 3:
		return gval{kind: 'b', b: rng.Bool()}
	}
	return gval{kind: 's', s: genString(rng)}
}

// genTuples builds a pool of distinct-looking key tuples for one case; the families put the
// separators and markers of the old encoders where they hurt.
// agg = false (rows that pass through a keyed window): one scalar type per column, so the family that
// puts numbers next to their texts in one column is left to the aggregator.
func genTuples(rng *RNG, ncols int, agg bool) [][]gval {
	if ncols == 0 {
		return [][]gval{{}}
	}
	S := func(s string) gval { return gval{kind: 's', s: s} }
	var pool [][]gval
	pad := func(t []gval) []gval {
		for len(t) < ncols {
			t = append(t, S("p"))
		}
		return t[:ncols]
	}
	fam := rng.Intn(7)
	if fam == 2 && !agg {
		fam = 3
	}
	switch fam {
	case 6: // bytes that are not valid UTF-8 next to the separator / escape characters (c04utf8.go)
		pool = utf8Tuples(rng, ncols)
	case 0: // separator shift between (or inside) columns
		sep := []string{"|", "|", "\x1f", ",", ":", "|6:nil||", "|string|", "|8:string|", "|nil||string|", "\\|", "\\", "\\N|"}[rng.Intn(12)]
		x, y, z := rng.Pick([]string{"a", "x", "", "1"}), rng.Pick([]string{"b", "y", "", "2"}), rng.Pick([]string{"c", "z", ""})
		if ncols >= 2 {
			pool = append(pool, pad([]gval{S(x + sep + y), S(z)}), pad([]gval{S(x), S(y + sep + z)}), pad([]gval{S(x), S(y)}))
		} else {
			pool = append(pool, []gval{S(x + sep + y)}, []gval{S(x)}, []gval{S(x + sep)}, []gval{S(sep + y)})
		}
	case 1: // NULL, missing, "", markers
		cands := []gval{{kind: 'n'}, {kind: 'm'}, S(""), S("\x00NULL"), S("nil"), S("<nil>"), S("NULL"), S("nil|"), S("\\N"), S("\\"), S("\\\\N")}
		for i := 0; i < 2+rng.Intn(4); i++ {
			t := make([]gval, ncols)
			for j := range t {
				t[j] = cands[rng.Intn(len(cands))]
			}
			pool = append(pool, t)
		}
	case 2: // numbers, numeric strings, bools and their texts
		cands := []gval{{kind: 'i', i: 1}, {kind: 'i', i: 1, goTy: 2}, {kind: 'i', i: 1, goTy: 1}, S("1"), {kind: 'f', f: 1.5}, S("1.5"),
			{kind: 'b', b: true}, S("true"), {kind: 'i', i: 100000000, goTy: 2}, {kind: 'i', i: 100000000}, S("1e+08"), {kind: 'i', i: -1}, S("-1")}
		for i := 0; i < 2+rng.Intn(4); i++ {
			t := make([]gval, ncols)
			for j := range t {
				t[j] = cands[rng.Intn(len(cands))]
			}
			pool = append(pool, t)
		}
	default: // typed columns, random values
		kinds := make([]int, ncols)
		for j := range kinds {
			kinds[j] = []int{0, 0, 0, 1, 2, 3}[rng.Intn(6)]
		}
		for i := 0; i < 1+rng.Intn(5); i++ {
			t := make([]gval, ncols)
			for j := range t {
				t[j] = genVal(rng, kinds[j])
			}
			pool = append(pool, t)
		}
	}
	return pool
}

// genRows: n rows whose tuples are drawn from the pool (interleaved); integral numbers get a fresh Go
// type per row, so equal numbers of different Go types meet in one column.
func genRows(rng *RNG, pool [][]gval, n int, firstID int64) []grow {
	rows := make([]grow, n)
	for i := range rows {
		t := pool[rng.Intn(len(pool))]
		vals := make([]gval, len(t))
		copy(vals, t)
		for j := range vals {
			if vals[j].kind == 'i' && rng.Intn(3) == 0 {
				vals[j].goTy = rng.Intn(4)
			}
			if (vals[j].kind == 'n' || vals[j].kind == 'm') && rng.Intn(3) == 0 { // NULL and missing are one group
				vals[j].kind = []byte{'n', 'm'}[rng.Intn(2)]
			}
		}
		rows[i] = grow{id: firstID + int64(i), vals: vals}
	}
	return rows
}

// ---- observations ------------------------------------------------------------------------------
type gresult struct {
	tuple       []string // tokens
	count       int64
	first, last int64
	ids         []int64
	windowID    string
}

func (g gresult) tok(withFL bool) string {
	parts := append([]string{}, g.tuple...)
	parts = append(parts, strconv.FormatInt(g.count, 10))
	if withFL {
		parts = append(parts, strconv.FormatInt(g.first, 10), strconv.FormatInt(g.last, 10))
	}
	parts = append(parts, strconv.Itoa(len(g.ids)))
	for _, id := range g.ids {
		parts = append(parts, strconv.FormatInt(id, 10))
	}
	return strings.Join(parts, " ")
}

// outNames: the output column of grouping column i (nil: the column's own name)
func parseResult(m map[string]any, ncols int, outNames ...string) gresult {
	g := gresult{first: -1, last: -1}
	for i := 0; i < ncols; i++ {
		name := colName(i)
		if i < len(outNames) {
			name = outNames[i]
		}
		v, ok := m[name]
		if !ok {
			g.tuple = append(g.tuple, "s"+hexTok("?absent"))
		} else {
			g.tuple = append(g.tuple, anyTok(v))
		}
	}
	g.count = anyInt(m["c"])
	if l, ok := m["ids"].([]any); ok {
		for _, x := range l {
			g.ids = append(g.ids, anyInt(x))
		}
	}
	if v, ok := m["fi"]; ok {
		g.first = anyInt(v)
	}
	if v, ok := m["la"]; ok {
		g.last = anyInt(v)
	}
	if w, ok := m["window_id"].(string); ok {
		g.windowID = w
	}
	return g
}

func groupCols(ncols int) string {
	cs := make([]string, ncols)
	for i := range cs {
		cs[i] = colName(i)
	}
	return strings.Join(cs, ", ")
}

// runSQL executes rows through the public API and returns the result rows in sink order
// (synchronous sink: delivery order of the result goroutine). done(results so far) tells when to
// stop waiting; the wait is bounded by maxWait.
func runSQL(sql string, rows []grow, extra []map[string]any, ncols int, done func([]gresult) bool, maxWait time.Duration, outNames ...string) ([]gresult, error) {
	s := streamsql.New()
	defer s.Stop()
	if err := s.Execute(sql); err != nil {
		return nil, fmt.Errorf("%s: %w", sql, err)
	}
	var mu sync.Mutex
	var out []gresult
	s.AddSyncSink(func(res []map[string]any) {
		mu.Lock()
		defer mu.Unlock()
		// rows of one delivery come from ranging over a Go map: order them by first id
		batch := make([]gresult, 0, len(res))
		for _, r := range res {
			batch = append(batch, parseResult(r, ncols, outNames...))
		}
		sort.SliceStable(batch, func(i, j int) bool {
			a, b := int64(-1), int64(-1)
			if len(batch[i].ids) > 0 {
				a = batch[i].ids[0]
			}
			if len(batch[j].ids) > 0 {
				b = batch[j].ids[0]
			}
			return a < b
		})
		out = append(out, batch...)
	})
	for _, r := range rows {
		s.Emit(r.toMap())
	}
	for _, m := range extra {
		s.Emit(m)
	}
	maxWait = waitLimit(maxWait)
	deadline := time.Now().Add(maxWait)
	for {
		mu.Lock()
		ok := done(out)
		mu.Unlock()
		if ok {
			break
		}
		if time.Now().After(deadline) {
			chargeWait(maxWait)
			break
		}
		time.Sleep(200 * time.Microsecond)
	}
	mu.Lock()
	defer mu.Unlock()
	return append([]gresult(nil), out...), nil
}

const sentinelBase = int64(1000000)

// waitBudget bounds the total time a run may spend waiting for output that never comes (a broken
// implementation must produce a verdict, not a hang): every wait that runs into its timeout is
// charged here, and once the budget is used up waits are cut to 10 ms.
var (
	waitMu     sync.Mutex
	waitBudget = 8 * time.Second
)

func waitLimit(want time.Duration) time.Duration {
	waitMu.Lock()
	defer waitMu.Unlock()
	if waitBudget <= 0 {
		return 10 * time.Millisecond
	}
	if want > waitBudget {
		return waitBudget
	}
	return want
}

func chargeWait(d time.Duration) {
	waitMu.Lock()
	waitBudget -= d
	waitMu.Unlock()
}

// sentinel rows: n rows of a key no generated tuple has; their result marks the end of the run
// (single consumer goroutines, FIFO channels). Only for ncols >= 1.
func sentinelRows(n, ncols int) []map[string]any {
	var l []map[string]any
	for i := 0; i < n; i++ {
		m := map[string]any{"id": sentinelBase + int64(i)}
		for c := 0; c < ncols; c++ {
			m[colName(c)] = "\xffsentinel"
		}
		l = append(l, m)
	}
	return l
}

func isSentinel(g gresult) bool { return len(g.ids) > 0 && g.ids[0] >= sentinelBase }

func dropSentinel(res []gresult) []gresult {
	var out []gresult
	for _, g := range res {
		if !isSentinel(g) {
			out = append(out, g)
		}
	}
	return out
}

func sawSentinel(res []gresult) bool {
	for _, g := range res {
		if isSentinel(g) {
			return true
		}
	}
	return false
}

// expectedBatches: sum over generated tuples (by token identity after NULL/missing and numeric-type
// normalisation, which the tokens already perform) of floor(count / n). Only used to know how
// long to wait when there is no sentinel.
func expectedBatches(rows []grow, n int) int {
	cnt := map[string]int{}
	for _, r := range rows {
		parts := make([]string, len(r.vals))
		for i, v := range r.vals {
			parts[i] = v.tok()
			if parts[i] == "m" {
				parts[i] = "n"
			}
		}
		cnt[strings.Join(parts, " ")]++
	}
	e := 0
	for _, c := range cnt {
		e += c / n
	}
	return e
}

// mergeAcrossWindows merges results that report the same tuple in DIFFERENT windows (a batch of
// a time window may legitimately be cut by the clock); results of one window stay separate, so
// "one result per tuple within a batch" is still judged.
func mergeAcrossWindows(res []gresult) []gresult {
	var out []gresult
	for _, g := range res {
		merged := false
		for i := range out {
			if strings.Join(out[i].tuple, " ") == strings.Join(g.tuple, " ") && !strings.Contains(" "+out[i].windowID+" ", " "+g.windowID+" ") {
				out[i].ids = append(out[i].ids, g.ids...)
				out[i].count += g.count
				out[i].windowID += " " + g.windowID
				merged = true
				break
			}
		}
		if !merged {
			out = append(out, g)
		}
	}
	for i := range out {
		sort.Slice(out[i].ids, func(a, b int) bool { return out[i].ids[a] < out[i].ids[b] })
	}
	return out
}

func resultsTok(res []gresult, withFL bool) string {
	parts := make([]string, len(res))
	for i, g := range res {
		parts[i] = g.tok(withFL)
	}
	return strings.Join(parts, " ")
}

// ---- the real encoders -----------------------------------------------------------------------
func keyNames(ncols int) []string {
	ks := make([]string, ncols)
	for i := range ks {
		ks[i] = colName(i)
	}
	return ks
}

// keyStruct drives the reflection (struct) branch of the window encoders; a missing value cannot be
// expressed in a struct, so 'm' becomes a nil field (the same NULL group).
type keyStruct struct{ K1, K2, K3 any }

func encoderCases(rng *RNG, o *Out, n int) error {
	// the collision search around every encoded tuple (c04float.go: P lines)
	var sites [4][]pairSite
	for nc := 1; nc <= 3; nc++ {
		s, stop, err := pairSites(nc)
		if err != nil {
			return err
		}
		defer stop()
		sites[nc] = s
	}
	budget := map[string]int{}
	for i := 0; i < n; i++ {
		ncols := rng.Intn(4)
		pool := genTuplesF(rng, ncols, true, 5)
		for _, t := range pool {
			if ncols > 0 {
				if err := pairCases(rng, o, sites[ncols], t, budget); err != nil {
					return err
				}
			}
			r := grow{id: 1, vals: t}
			m := r.toMap()
			vt := make([]string, len(t))
			for j, v := range t {
				vt[j] = v.tok()
			}
			vs := strings.Join(vt, " ")
			// the window sites render a non-integral float themselves (cast.ToString: 'f'; %v: 'g'); the
			// model takes that text as given
			siteToks := func(render func(float64) string) string {
				ts := make([]string, len(t))
				for j, v := range t {
					ts[j] = v.tok()
					if v.kind == 'f' {
						ts[j] = "f" + hexTok(render(v.f))
					}
				}
				return strings.Join(ts, " ")
			}
			vsTS := siteToks(func(f float64) string { return cast.ToString(f) })
			vsV := siteToks(func(f float64) string { return fmt.Sprintf("%v", f) })
			// aggregator
			ga := aggregator.NewGroupAggregator(keyNames(ncols), []aggregator.AggregationField{{InputField: "*", AggregateType: aggregator.Count, OutputAlias: "c"}})
			if err := ga.Add(r.toMapMode(true)); err != nil {
				return err
			}
			for k := range ga.VerifGroupKeys() {
				o.Line("C04 K agg %d %s %s", ncols, vs, hexTok(k))
			}
			cw, err := window.NewCountingWindow(types.WindowConfig{Params: []any{2}, GroupByKeys: keyNames(ncols)})
			if err != nil {
				return err
			}
			o.Line("C04 K cnt %d %s %s", ncols, vsTS, hexTok(cw.VerifGetKey(m)))
			cw.Stop()
			o.Line("C04 K ses %d %s %s", ncols, vsTS, hexTok(window.VerifSessionKey(m, keyNames(ncols))))
			gw, err := window.NewGlobalWindow(types.WindowConfig{Type: window.TypeGlobal, GroupByKeys: keyNames(ncols), TriggerCondition: "COUNT(*) >= 2"})
			if err != nil {
				return err
			}
			o.Line("C04 K glb %d %s %s", ncols, vsV, hexTok(gw.VerifGetKey(m)))
			gw.Stop()
			if ncols > 0 {
				var st keyStruct
				fields := []*any{&st.K1, &st.K2, &st.K3}
				for j, v := range t {
					*fields[j], _ = v.goValue()
				}
				names := []string{"K1", "K2", "K3"}[:ncols]
				cws, err := window.NewCountingWindow(types.WindowConfig{Params: []any{2}, GroupByKeys: names})
				if err != nil {
					return err
				}
				o.Line("C04 K cnt %d %s %s", ncols, vsTS, hexTok(cws.VerifGetKey(st)))
				cws.Stop()
				o.Line("C04 K ses %d %s %s", ncols, vsTS, hexTok(window.VerifSessionKey(&st, names)))
			}
			if ncols == 1 {
				if x, ok := t[0].goValueMode(true); ok {
					o.Line("C04 K part 1 %s %s", vs, hexTok(cast.GroupKeyPart(x)))
				}
			}
			o.Count("encoder")
			if isUTF8Pool([][]gval{t}) {
				o.Count("encoder invalid-UTF-8 tuple")
			}
		}
	}
	return nil
}

// aggregator API: one batch = the rows added between two Resets
func aggregatorCase(rng *RNG, o *Out) error {
	ncols := rng.Intn(4)
	pool := genTuplesF(rng, ncols, true, 5)
	rows := genRows(rng, pool, 1+rng.Intn(14), 1)
	ga := aggregator.NewGroupAggregator(keyNames(ncols), []aggregator.AggregationField{
		{InputField: "*", AggregateType: aggregator.Count, OutputAlias: "c"},
		{InputField: "id", AggregateType: aggregator.Collect, OutputAlias: "ids"}})
	for _, r := range rows {
		if err := ga.Add(r.toMapMode(true)); err != nil {
			return err
		}
	}
	res, err := ga.GetResults()
	if err != nil {
		return err
	}
	var out []gresult
	for _, m := range res {
		out = append(out, parseResult(m, ncols))
	}
	sort.SliceStable(out, func(i, j int) bool { return len(out[i].ids) > 0 && len(out[j].ids) > 0 && out[i].ids[0] < out[j].ids[0] })
	o.Line("C04 G agg %d %d %s # %s", ncols, len(rows), rowsTok(rows), resultsTok(out, false))
	o.Count(fmt.Sprintf("aggregator cols=%d", ncols))
	if isFloatPool(pool) {
		o.Count("aggregator near-float keys")
	}
	if isUTF8Pool(pool) {
		o.Count("aggregator invalid-UTF-8 keys")
	}
	return nil
}

// session window through its API (processing time): every session is one batch of one key
func sessionAPICase(rng *RNG, utf8Pool bool) (string, error) {
	ncols := 1 + rng.Intn(3)
	pool := genTuplesF(rng, ncols, false, 5)
	if utf8Pool {
		pool = utf8Tuples(rng, ncols)
	}
	rows := genRows(rng, pool, 2+rng.Intn(12), 1)
	sw, err := window.NewSessionWindow(types.WindowConfig{Type: "session", Params: []any{60 * time.Millisecond}, GroupByKeys: keyNames(ncols)})
	if err != nil {
		return "", err
	}
	var mu sync.Mutex
	var batches [][]int64
	got := 0
	sw.SetCallback(func(b []types.Row) {
		mu.Lock()
		defer mu.Unlock()
		ids := make([]int64, len(b))
		for i, r := range b {
			ids[i] = rowID(r)
		}
		batches = append(batches, ids)
		got += len(ids)
	})
	sw.Start()
	go func() { // drain the output channel
		for range sw.OutputChan() {
		}
	}()
	for _, r := range rows {
		sw.Add(r.toMap())
	}
	lim := waitLimit(3 * time.Second)
	deadline := time.Now().Add(lim)
	for {
		mu.Lock()
		g := got
		mu.Unlock()
		if g >= len(rows) {
			break
		}
		if time.Now().After(deadline) {
			chargeWait(lim)
			break
		}
		time.Sleep(5 * time.Millisecond)
	}
	time.Sleep(40 * time.Millisecond)
	sw.Stop()
	mu.Lock()
	defer mu.Unlock()
	var parts []string
	for _, b := range batches {
		parts = append(parts, strconv.Itoa(len(b)))
		for _, id := range b {
			parts = append(parts, strconv.FormatInt(id, 10))
		}
	}
	return fmt.Sprintf("C04 B ses %d %d %s # %s", ncols, len(rows), rowsTok(rows), strings.Join(parts, " ")), nil
}

// time windows through SQL: tumbling / session, processing time
func timeWindowSQLCase(rng *RNG, kind string) (string, error) {
	ncols := 1 + rng.Intn(3)
	pool := genTuplesF(rng, ncols, false, 3) // every batch of a time window goes through the aggregator's key
	rows := genRows(rng, pool, 2+rng.Intn(12), 1)
	win := "TumblingWindow('150ms')"
	if kind == "session" {
		win = "SessionWindow('120ms')"
	}
	sql := fmt.Sprintf("SELECT %s, count(*) AS c, collect(id) AS ids FROM stream GROUP BY %s, %s", groupCols(ncols), groupCols(ncols), win)
	total := func(res []gresult) bool {
		n := 0
		for _, g := range res {
			n += len(g.ids)
		}
		return n >= len(rows)
	}
	res, err := runSQL(sql, rows, nil, ncols, total, 3*time.Second)
	if err != nil {
		return "", err
	}
	res = mergeAcrossWindows(res)
	sort.SliceStable(res, func(i, j int) bool { return len(res[i].ids) > 0 && len(res[j].ids) > 0 && res[i].ids[0] < res[j].ids[0] })
	return fmt.Sprintf("C04 G sql-%s %d %d %s # %s", kind, ncols, len(rows), rowsTok(rows), resultsTok(res, false)), nil
}

// counting / global window through SQL: per key, every N-th row closes a result
func countingSQL(rng *RNG, kind string, n, ncols int, rows []grow) ([]gresult, error) {
	var sql string
	sel := "count(*) AS c, collect(id) AS ids, first_value(id) AS fi, last_value(id) AS la"
	gb := ""
	if ncols > 0 {
		sel = groupCols(ncols) + ", " + sel
		gb = groupCols(ncols) + ", "
	}
	if kind == "global" {
		sql = fmt.Sprintf("SELECT %s FROM stream GROUP BY %sGLOBAL WINDOW TRIGGER WHEN COUNT(*) >= %d", sel, gb, n)
	} else {
		sql = fmt.Sprintf("SELECT %s FROM stream GROUP BY %sCountingWindow(%d)", sel, gb, n)
	}
	if ncols > 0 {
		res, err := runSQL(sql, rows, sentinelRows(n, ncols), ncols, sawSentinel, 3*time.Second)
		return dropSentinel(res), err
	}
	want := expectedBatches(rows, n)
	res, err := runSQL(sql, rows, nil, ncols, func(r []gresult) bool { return len(r) >= want }, 3*time.Second)
	if err != nil {
		return nil, err
	}
	return res, nil
}

// fnKeyCase: GROUP BY upper(k1)[, k2] with aliases in the SELECT list: the VALUE of the function defines
// the group and is what is reported, under the alias. The case line carries the function values.
func fnKeyCase(rng *RNG, o *Out) error {
	n := 1 + rng.Intn(3)
	ncols := 1 + rng.Intn(2)
	raws := []string{"a", "A", "b", "a|b", "A|b", "a|B", "", "x\x1fy", "X\x1fy", "é", "ab", "aB"}
	seconds := []string{"c", "b|c", "", "C"}
	l := 1 + rng.Intn(5*n)
	rows := make([]grow, l)
	for i := range rows {
		raw := raws[rng.Intn(len(raws))]
		vals := []gval{{kind: 's', s: strings.ToUpper(raw)}}
		if ncols == 2 {
			vals = append(vals, gval{kind: 's', s: seconds[rng.Intn(len(seconds))]})
		}
		rows[i] = grow{id: int64(i + 1), vals: vals, raw: map[int]any{0: raw}}
	}
	sel, gb, names := "upper(k1) AS u1", "upper(k1)", []string{"u1"}
	if ncols == 2 {
		sel, gb, names = sel+", k2 AS second", gb+", k2", append(names, "second")
	}
	sql := fmt.Sprintf("SELECT %s, count(*) AS c, collect(id) AS ids, first_value(id) AS fi, last_value(id) AS la FROM stream GROUP BY %s, CountingWindow(%d)", sel, gb, n)
	sent := sentinelRows(n, ncols)
	res, err := runSQL(sql, rows, sent, ncols, sawSentinel, 3*time.Second, names...)
	if err != nil {
		return err
	}
	res = dropSentinel(res)
	o.Line("C04 T sql-fnkey %d %d %d %s # %s", n, ncols, len(rows), rowsTok(rows), resultsTok(res, true))
	o.Count("sql function-valued key + alias")
	return nil
}

// fnKeyCase2: TWO function-valued keys, the first of which fails to evaluate on some rows
// (sqrt of a NULL / missing argument): GROUP BY sqrt(a), upper(k1). Every key must still be materialised.
func fnKeyCase2(rng *RNG, o *Out) error {
	n := 1 + rng.Intn(3)
	raws := []string{"p", "q", "P", "r"}
	l := 2 + rng.Intn(5*n)
	rows := make([]grow, l)
	for i := range rows {
		raw := raws[rng.Intn(len(raws))]
		var first gval
		rawm := map[int]any{1: raw}
		switch rng.Intn(4) {
		case 0:
			first = gval{kind: 'n'}
			rawm[0] = nil
		case 1:
			first = gval{kind: 'n'} // argument missing altogether
			rawm[0] = struct{}{}
		case 2:
			first = gval{kind: 'i', i: 2}
			rawm[0] = 4
		default:
			first = gval{kind: 'i', i: 3}
			rawm[0] = 9
		}
		rows[i] = grow{id: int64(i + 1), vals: []gval{first, {kind: 's', s: strings.ToUpper(raw)}}, raw: rawm}
	}
	sql := fmt.Sprintf("SELECT sqrt(k1) AS s1, upper(k2) AS u2, count(*) AS c, collect(id) AS ids, first_value(id) AS fi, last_value(id) AS la FROM stream GROUP BY sqrt(k1), upper(k2), CountingWindow(%d)", n)
	sent := sentinelRows(n, 2)
	res, err := runSQL(sql, rows, sent, 2, sawSentinel, 3*time.Second, "s1", "u2")
	if err != nil {
		return err
	}
	res = dropSentinel(res)
	o.Line("C04 T sql-fnkey2 %d 2 %d %s # %s", n, len(rows), rowsTok(rows), resultsTok(res, true))
	o.Count("sql two function-valued keys, first failing on NULL")
	return nil
}

func genCountingRows(rng *RNG) (n, ncols int, rows []grow) {
	n = []int{1, 2, 3, 7}[rng.Intn(4)]
	ncols = rng.Intn(4)
	pool := genTuplesF(rng, ncols, false, 5)
	l := rng.Intn(6 * n)
	if rng.Intn(3) == 0 { // exact multiples
		l = n * (1 + rng.Intn(5))
	}
	if l > 60 {
		l = 60
	}
	rows = genRows(rng, pool, l, 1)
	return
}

func parallel(n, workers int, f func(i int) (string, error)) ([]string, error) {
	lines := make([]string, n)
	errs := make([]error, n)
	var wg sync.WaitGroup
	sem := make(chan struct{}, workers)
	for i := 0; i < n; i++ {
		wg.Add(1)
		sem <- struct{}{}
		go func(i int) {
			defer wg.Done()
			defer func() { <-sem }()
			lines[i], errs[i] = f(i)
		}(i)
	}
	wg.Wait()
	for _, e := range errs {
		if e != nil {
			return nil, e
		}
	}
	return lines, nil
}

func runC04(tier string, seed uint64, o *Out) error {
	rng := NewRNG(seed)
	nEnc, nAgg, nGlb, nSes, nSQL := 250, 1500, 250, 24, 12
	nNamesT, nNamesG := 240, 24
	nUTF := 48
	if tier == "thorough" {
		nUTF = 600
		nEnc, nAgg, nGlb, nSes, nSQL = 3000, 30000, 3000, 200, 80
		nNamesT, nNamesG = 3000, 120
	}
	// output naming of the grouping columns (c04names.go): own generator, so the other families keep their cases
	if err := namesCases(NewRNG(seed*5000011+7), seed, o, nNamesT, nNamesG); err != nil {
		return err
	}
	// (the encoder lines come last: the driver prints only the first 200 bad lines, and a failing
	// input is worth more than a byte difference)
	// corpus: the F2 witnesses, through SQL
	S := func(s string) gval { return gval{kind: 's', s: s} }
	for _, w := range [][2][]gval{
		{{S("x|y"), S("z")}, {S("x"), S("y|z")}},
		{{S("x\x1fy"), S("z")}, {S("x"), S("y\x1fz")}},
		{{S("\x00NULL"), S("z")}, {{kind: 'n'}, S("z")}},
		{{S(""), S("z")}, {{kind: 'n'}, S("z")}},
	} {
		rows := []grow{{id: 1, vals: w[0]}, {id: 2, vals: w[1]}, {id: 3, vals: w[0]}, {id: 4, vals: w[1]}}
		for _, kind := range []string{"counting", "global"} {
			res, err := countingSQL(rng, kind, 2, 2, rows)
			if err != nil {
				return err
			}
			o.Line("C04 T sql-%s 2 2 %d %s # %s", kind, len(rows), rowsTok(rows), resultsTok(res, true))
			o.Count("corpus")
		}
		ga := aggregator.NewGroupAggregator(keyNames(2), []aggregator.AggregationField{
			{InputField: "*", AggregateType: aggregator.Count, OutputAlias: "c"},
			{InputField: "id", AggregateType: aggregator.Collect, OutputAlias: "ids"}})
		for _, r := range rows {
			ga.Add(r.toMap())
		}
		res, _ := ga.GetResults()
		var out []gresult
		for _, m := range res {
			out = append(out, parseResult(m, 2))
		}
		sort.SliceStable(out, func(i, j int) bool { return len(out[i].ids) > 0 && len(out[j].ids) > 0 && out[i].ids[0] < out[j].ids[0] })
		o.Line("C04 G agg 2 %d %s # %s", len(rows), rowsTok(rows), resultsTok(out, false))
		o.Count("corpus")
	}
	for i := 0; i < nAgg; i++ {
		if err := aggregatorCase(rng, o); err != nil {
			return err
		}
	}
	for i := 0; i < nGlb; i++ {
		n, ncols, rows := genCountingRows(rng)
		kind := "global"
		if i%3 == 0 {
			kind = "counting"
		}
		res, err := countingSQL(rng, kind, n, ncols, rows)
		if err != nil {
			return err
		}
		o.Line("C04 T sql-%s %d %d %d %s # %s", kind, n, ncols, len(rows), rowsTok(rows), resultsTok(res, true))
		o.Count(fmt.Sprintf("sql-%s cols=%d", kind, ncols))
		if rowsInvalidUTF8(rows) {
			o.Count("sql-" + kind + " invalid-UTF-8 keys")
		}
	}
	// invalid-UTF-8 keys next to '|' and backslash (c04utf8.go), own generator: counting and global window
	// in turn, 1-3 grouping columns
	urng := NewRNG(seed*9000011 + 41)
	for i := 0; i < nUTF; i++ {
		n := []int{1, 2, 2, 3}[urng.Intn(4)]
		ncols := 1 + urng.Intn(3)
		pool := utf8Tuples(urng, ncols)
		l := 2 + urng.Intn(6*n)
		if urng.Intn(3) == 0 {
			l = n * (1 + urng.Intn(5))
		}
		rows := genRows(urng, pool, l, 1)
		kind := []string{"counting", "global"}[i%2]
		res, err := countingSQL(urng, kind, n, ncols, rows)
		if err != nil {
			return err
		}
		o.Line("C04 T sql-%s %d %d %d %s # %s", kind, n, ncols, len(rows), rowsTok(rows), resultsTok(res, true))
		o.Count("sql-" + kind + " invalid-UTF-8 keys")
	}
	for i := 0; i < nGlb/3; i++ {
		if err := fnKeyCase(rng, o); err != nil {
			return err
		}
		if err := fnKeyCase2(rng, o); err != nil {
			return err
		}
	}
	// timed cases run concurrently, each with its own generator derived from the seed
	lines, err := parallel(nSes, 12, func(i int) (string, error) {
		// every fourth case: an invalid-UTF-8 pool
		return sessionAPICase(NewRNG(seed*1000003+uint64(i)+17), i%4 == 3)
	})
	if err != nil {
		return err
	}
	for _, l := range lines {
		o.Line("%s", l)
		o.Count("session window API")
	}
	lines, err = parallel(nSQL, 12, func(i int) (string, error) {
		kind := "tumbling"
		if i%2 == 1 {
			kind = "session"
		}
		return timeWindowSQLCase(NewRNG(seed*7000003+uint64(i)+29), kind)
	})
	if err != nil {
		return err
	}
	for _, l := range lines {
		o.Line("%s", l)
		o.Count("time window SQL")
	}
	return encoderCases(rng, o, nEnc)
}
