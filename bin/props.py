# Per-property configuration of bin/check.
PROPS = {
    "C13": {
        "props_files": ["Props/C13.v"],
        "technique": "Coq proof (induction with a potential function) that the two-pointer LIKE matcher and the LIKE rewriting decide the inductive LIKE relation; exhaustive small-scope + random correspondence with the three Go matchers and SQL paths",
        "level_text": "Theorems for all byte strings: like_match t p = true <-> Like p t (matcher, with termination bound) and eval(convert p) t = true <-> Like p t (rewriting), IS NULL truth table. The Go matchers are tied to the model by exhaustive comparison on all pairs up to length 4/5 plus random pairs, the rewriting by exhaustive comparison of convertLikeToFunction's output, and WHERE/CASE/HAVING by SQL-level runs judged by the extracted spec.",
        "level_note": "Trusted: Coq kernel, extraction (ExtrOcamlBasic), OCaml driver, Go harness; expr-lang string operators are modelled (contains/startsWith/endsWith) and validated at SQL level each run. Bytes, not runes. SELECT-list bare boolean LIKE is not an evaluation path of the engine (returns NULL) and is not covered.",
        "rule": "matchers: ALL (text,pattern) pairs over {%,_,a,b,.} up to length 4 (quick) / 5 (thorough) through the three "
                "real matchers + random longer wildcard-heavy pairs (regex metacharacters, UTF-8 bytes); rewriting: ALL patterns "
                "up to length 5/6 through convertLikeToFunction; SQL level: WHERE / CASE / HAVING for a pattern pool x texts incl. "
                "NULL and absent; IS [NOT] NULL in WHERE/CASE/HAVING. non-trivial = the pattern contains a wildcard and the text "
                "is non-empty, or an SQL-level case; distinct = distinct case lines",
        "trusted_base": [
            "model: coq/Model/Like.v (two-pointer matcher with fuel, convertLikeToFunction case split); spec: inductive relation Like in Proofs/LikeRewrite.v",
            "modelled not verified: expr-lang operators contains/startsWith/endsWith/==/!= nil on strings (validated every run at SQL level)",
        ],
        "assumptions": [
            "Go strings are byte strings; '_' matches one byte (the code indexes bytes)",
            "a NULL result of CASE WHEN x LIKE p on a missing column is read as 'LIKE not true' (the CASE/NULL rule is C06's)",
        ],
    },
}
