# Per-property configuration of bin/check: one JSON file per property under bin/props.d/.
import json, os, glob
PROPS = {}
for _f in sorted(glob.glob(os.path.join(os.path.dirname(os.path.abspath(__file__)), "props.d", "*.json"))):
    PROPS[os.path.basename(_f)[:-5]] = json.load(open(_f))
