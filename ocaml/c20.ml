(* C20 — caller data is never modified; instances do not influence each other.
   Line formats: see harness/c20.go.  Verdicts:
     chk caller_mutated ...         the implementation changed the map it was handed
     chk sink_row_changed ...       a row given to a sink differs later
     chk instance_interference ...  an instance's output next to another instance differs from its output alone
                                    (kinds registry_*: alone = in a fresh process)
     chk delivered_row_aliases_caller ...  overwriting the delivered row maps changed the caller's map
     diff ...                       extracted model and implementation disagree on an observable *)
open Model
open Util

let bytes_of_string (s : string) : n list = List.init (String.length s) (fun i -> n_of_int (Char.code s.[i]))
let string_of_bytes (b : n list) : string = String.concat "" (List.map (fun x -> String.make 1 (Char.chr (int_of_n x))) b)

let c20_clause = function
  | IClCallerMutated -> "caller_mutated" | IClSinkRowChanged -> "sink_row_changed"
  | IClInstanceInterference -> "instance_interference"
  | IClDeliveredAliasesCaller -> "delivered_row_aliases_caller"

(* ---- value tokens: n | i<dec> | s<hex> | l[v,..] | m{key:v,..} ---- *)
exception Unparsable of string

(* display only: bool tokens (b0/b1) and opaque tokens (x<hex>: non-integral floats, times) of a
   delivered row are read as integers / strings when the differing columns of two snapshots are listed *)
let lenient = ref false

let parse_val (s : string) : ival =
  let len = String.length s in
  let pos = ref 0 in
  let peek () = if !pos < len then s.[!pos] else '\000' in
  let rec value () : ival =
    match peek () with
    | 'n' -> incr pos; INull
    | 'i' ->
        incr pos;
        let st = !pos in
        if peek () = '-' then incr pos;
        while (match peek () with '0' .. '9' -> true | _ -> false) do incr pos done;
        IInt (Win.z_of_int (int_of_string (String.sub s st (!pos - st))))
    | 's' ->
        incr pos;
        if peek () = '-' then (incr pos; IStr [])
        else begin
          let st = !pos in
          while (match peek () with '0' .. '9' | 'a' .. 'f' -> true | _ -> false) do incr pos done;
          IStr (bytes_of_hex (String.sub s st (!pos - st)))
        end
    | 'b' when !lenient ->
        incr pos;
        let c = peek () in incr pos;
        IInt (Win.z_of_int (if c = '1' then 1 else 0))
    | 'x' when !lenient ->
        incr pos;
        let st = !pos in
        while (match peek () with '0' .. '9' | 'a' .. 'f' -> true | _ -> false) do incr pos done;
        IStr (bytes_of_hex (String.sub s st (!pos - st)))
    | 'l' ->
        pos := !pos + 2;
        let items = ref [] in
        if peek () = ']' then incr pos
        else begin
          let continue = ref true in
          while !continue do
            items := value () :: !items;
            (match peek () with
             | ',' -> incr pos
             | ']' -> incr pos; continue := false
             | _ -> raise (Unparsable s))
          done
        end;
        IList (List.rev !items)
    | 'm' ->
        pos := !pos + 2;
        let items = ref [] in
        if peek () = '}' then incr pos
        else begin
          let continue = ref true in
          while !continue do
            let st = !pos in
            while peek () <> ':' && !pos < len do incr pos done;
            let k = String.sub s st (!pos - st) in
            incr pos;
            let k' = if String.length k > 0 && k.[0] = '~' then bytes_of_hex (String.sub k 1 (String.length k - 1))
                     else bytes_of_string k in
            let v = value () in
            items := (k', v) :: !items;
            (match peek () with
             | ',' -> incr pos
             | '}' -> incr pos; continue := false
             | _ -> raise (Unparsable s))
          done
        end;
        IMap (List.rev !items)
    | _ -> raise (Unparsable s) in
  let v = value () in
  if !pos <> len then raise (Unparsable s) else v

let parse_row (s : string) : irow = match parse_val s with IMap m -> m | _ -> raise (Unparsable s)

let key_printable (k : string) : bool =
  k <> "" && (let ok = ref true in
              String.iter (fun c -> match c with
                  | 'a' .. 'z' | 'A' .. 'Z' | '0' .. '9' | '_' | '(' | ')' | '.' -> () | _ -> ok := false) k; !ok)

let rec show_val (v : ival) : string =
  match v with
  | INull -> "n"
  | IInt z -> "i" ^ string_of_int (Win.int_of_z z)
  | IStr [] -> "s-"
  | IStr b -> "s" ^ hex_of_bytes b
  | IList l -> "l[" ^ String.concat "," (List.map show_val l) ^ "]"
  | IMap m -> show_row m
and show_row (m : irow) : string =
  let kvs = List.map (fun (k, v) ->
      let ks = string_of_bytes k in
      ((if key_printable ks then ks else "~" ^ hex_of_bytes k), show_val v)) m in
  let kvs = List.sort (fun (a, _) (b, _) -> compare a b) kvs in
  "m{" ^ String.concat "," (List.map (fun (k, v) -> k ^ ":" ^ v) kvs) ^ "}"

(* ---- query descriptors ---- *)
let table : (z * irow) list =
  List.map (fun i -> (Win.z_of_int i,
                      [ (bytes_of_string "k", IInt (Win.z_of_int i));
                        (bytes_of_string "c", IStr (bytes_of_string ("c" ^ string_of_int i)));
                        (bytes_of_string "d", IInt (Win.z_of_int (100 * i))) ])) [0; 1; 2]

let parse_where (w : string) : icond =
  if w = "W-" then ICnone else
  match String.split_on_char ',' w with
  | ["WF"; f; c] -> ICfield (bytes_of_string f, Win.zs c)
  | ["WL"; f; c] -> IClag (bytes_of_string f, Win.zs c)
  | _ -> failwith "bad where"

let parse_item (s : string) : iitem =
  match String.split_on_char ',' s with
  | ["F"; f; out] -> ItField (bytes_of_string f, bytes_of_string out)
  | ["P"; a; b; out] -> ItPath (bytes_of_string a, bytes_of_string b, bytes_of_string out)
  | ["L"; f; al] -> ItLag (bytes_of_string f, bytes_of_string al)
  | ["E"; fn; f; out] -> ItExpr (bytes_of_string (fn ^ "(" ^ f ^ ")"), bytes_of_string out)
  | _ -> failwith "bad item"

let parse_join (j : string) : ijoin option =
  let mk left = Some { ij_alias = bytes_of_string "m"; ij_key = bytes_of_string "k"; ij_left = left; ij_table = table } in
  match j with "J-" -> None | "JI" -> mk false | "JL" -> mk true | _ -> failwith "bad join"

let rec pairs = function
  | a :: b :: r -> (a, b) :: pairs r
  | [] -> []
  | _ -> failwith "odd observation list"

let writes (q : iquery) : bool = iso_writes_into_row q

(* readable part of a U/A verdict: the query text and the top-level columns of the caller's row whose
   deep snapshot differs (a slice is shown with the content of its spare capacity behind the marker
   s7c6361707c = "|cap|" in the nested-argument family) *)
let sql_text (hexs : string) : string = try string_of_bytes (bytes_of_hex hexs) with _ -> hexs

let changed_columns (before : string) (after : string) : string =
  try
    let b = parse_row before and a = parse_row after in
    let find k m = try Some (show_val (List.assoc k m)) with Not_found -> None in
    let keys = List.sort_uniq compare (List.map fst b @ List.map fst a) in
    let ch = List.filter_map (fun k ->
        let vb = find k b and va = find k a in
        if vb = va then None
        else Some (Printf.sprintf "%s:%s=>%s" (string_of_bytes k)
                     (match vb with Some v -> v | None -> "absent") (match va with Some v -> v | None -> "absent"))) keys in
    if ch = [] then "-" else String.concat ";" ch
  with _ -> "?"

(* a batch given to a sink = l[row,row,..] in slice order: which rows / columns differ between two snapshots *)
let changed_batch (at : string) (later : string) : string =
  lenient := true;
  let r =
    (try
       match parse_val at, parse_val later with
       | IList a, IList b ->
           if List.length a <> List.length b then
             Printf.sprintf "rows:%d=>%d" (List.length a) (List.length b)
           else
             let ds = List.concat (List.mapi (fun i (x, y) ->
                 if x = y then [] else
                 [Printf.sprintf "row%d{%s}" i (changed_columns (show_val x) (show_val y))]) (List.combine a b)) in
             if ds = [] then "-" else String.concat "," ds
       | _ -> "?"
     with _ -> "?") in
  lenient := false; r

let contains (s : string) (sub : string) : bool =
  let n = String.length s and m = String.length sub in
  let rec go i = i + m <= n && (String.sub s i m = sub || go (i + 1)) in
  go 0

let handle (toks : string list) : string =
  match toks with
  | "D" :: j :: w :: st :: items :: "#" :: rest ->
      (match Win.split_hash rest with
       | [rows; obs] ->
           (try
              let q = { iq_join = parse_join j; iq_where = parse_where w; iq_star = (st = "S1");
                        iq_items = (if items = "-" then [] else List.map parse_item (String.split_on_char ';' items));
                        iq_window = false; iq_gkeys = [] } in
              let rws = List.map parse_row rows in
              let ob = pairs obs in
              if List.length ob <> List.length rws then "bad observation count" else
              (* the property on the implementation's own output *)
              let mutated = List.filter (fun (r, (_, after)) ->
                  iso_chk_caller r (parse_row after) <> None) (List.combine rws ob) in
              (match mutated with
               | (r, (_, after)) :: _ -> Printf.sprintf "chk caller_mutated before=%s after=%s" (show_row r) after
               | [] ->
                   let m = iso_run0 true q (iso_st0 q) [] rws in
                   let bad = List.filter (fun ((mres, mafter), (ires, iafter)) ->
                       (match mres with None -> "-" | Some r -> show_row r) <> ires || show_row mafter <> iafter)
                       (List.combine m ob) in
                   (match bad with
                    | ((mres, mafter), (ires, iafter)) :: _ ->
                        Printf.sprintf "diff direct model_res=%s impl_res=%s model_after=%s impl_after=%s"
                          (match mres with None -> "-" | Some r -> show_row r) ires (show_row mafter) iafter
                    | [] ->
                        if (writes q || q.iq_join <> None) && List.exists (fun (r, _) -> r <> "-") ob then "ok nt" else "ok"))
            with Unparsable s -> "diff unparsable_value " ^ s)
       | _ -> "bad line")
  | "W" :: j :: w :: gks :: an :: "#" :: rest ->
      (match Win.split_hash rest with
       | [rows; obs] ->
           (try
              let gkeys = String.split_on_char ';' gks in
              (* an analytic function in SELECT of a window query is evaluated on the result rows: it is an
                 item of the query, and the window path must not look at it when it decides about the copy *)
              let items = if an = "A-" then [] else [ItLag (bytes_of_string "la", bytes_of_string "pl")] in
              let q = { iq_join = parse_join j; iq_where = parse_where w; iq_star = false; iq_items = items;
                        iq_window = true; iq_gkeys = List.map bytes_of_string gkeys } in
              let rws = List.map parse_row rows in
              let ob = pairs obs in
              if List.length ob <> List.length rws then "bad observation count" else
              let mutated = List.filter (fun (r, (_, after)) -> iso_chk_caller r (parse_row after) <> None) (List.combine rws ob) in
              (match mutated with
               | (r, (_, after)) :: _ -> Printf.sprintf "chk caller_mutated before=%s after=%s" (show_row r) after
               | [] ->
                   let m = iso_run0 true q (iso_st0 q) [] rws in
                   let show_g = function
                     | None -> "-"
                     | Some work -> String.concat ";" (List.map (fun g ->
                         match iso_lookup (bytes_of_string g) work with Some v -> show_val v | None -> "n") gkeys) in
                   let bad = List.filter (fun ((mres, mafter), (ig, iafter)) -> show_g mres <> ig || show_row mafter <> iafter)
                       (List.combine m ob) in
                   (match bad with
                    | ((mres, mafter), (ig, iafter)) :: _ ->
                        Printf.sprintf "diff window model_keys=%s impl_keys=%s model_after=%s impl_after=%s" (show_g mres) ig (show_row mafter) iafter
                    | [] -> if writes q && List.exists (fun (g, _) -> g <> "-") ob then "ok nt" else "ok"))
            with Unparsable s -> "diff unparsable_value " ^ s)
       | _ -> "bad line")
  | ["U"; kind; mode; wr; sql; before; after] ->
      (match iso_chk_same IClCallerMutated (bytes_of_string before) (bytes_of_string after) with
       | Some cl -> Printf.sprintf "chk %s kind=%s mode=%s sql=[%s] changed_columns=%s before=%s after=%s" (c20_clause cl) kind mode
                      (sql_text sql) (changed_columns before after) before after
       | None -> if wr = "w" then "ok nt" else "ok")
  | ["S"; kind; sql; at; later] ->
      (match iso_chk_same IClSinkRowChanged (bytes_of_string at) (bytes_of_string later) with
       | Some cl -> Printf.sprintf "chk %s kind=%s sql=[%s] changed_columns=%s at_delivery=%s later=%s" (c20_clause cl) kind
                      (sql_text sql) (lenient := true; let c = changed_columns at later in lenient := false; c) at later
       | None -> "ok")
  | ["S"; kind; phase; sql; at; later] ->
      (* sink-row-stability family: the batch (rows in slice order) while the sink owned it, against the
         same slice and maps when the next batch arrived (phase next_batch) / after Stop (after_stop) *)
      (match iso_chk_same IClSinkRowChanged (bytes_of_string at) (bytes_of_string later) with
       | Some cl -> Printf.sprintf "chk %s kind=%s phase=%s sql=[%s] changed=%s at_delivery=%s later=%s" (c20_clause cl) kind phase
                      (sql_text sql) (changed_batch at later) at later
       | None ->
           (* correspondence with Model/ResultDispatch.v: the pipeline removes the hidden columns BEFORE the
              hand-over, so rd_strip is the identity on every row a sink is given *)
           let leaked =
             (lenient := true;
              let r = (try (match parse_val at with
                  | IList rows -> List.concat (List.map (function
                      | IMap m -> List.filter_map (fun (k, _) -> if rd_hidden k then Some (string_of_bytes k) else None)
                                    (if rd_strip m = m then [] else m)
                      | _ -> []) rows)
                  | _ -> []) with _ -> []) in
              lenient := false; r) in
           if leaked <> [] then
             Printf.sprintf "diff dispatch kind=%s sql=[%s] model_delivers_no_hidden_column impl_delivered=%s at_delivery=%s"
               kind (sql_text sql) (String.concat "," leaked) at
           else if contains kind "hidden" && at <> "l[]" then "ok nt" else "ok")
  | ["A"; kind; mode; sql; before; after] ->
      (match iso_chk_same IClDeliveredAliasesCaller (bytes_of_string before) (bytes_of_string after) with
       | Some cl -> Printf.sprintf "chk %s kind=%s mode=%s sql=[%s] changed_columns=%s before=%s after_overwriting_delivered_rows=%s" (c20_clause cl) kind mode
                      (sql_text sql) (changed_columns before after) before after
       | None -> "ok")
  | ["P"; kind; mode; sa; sb; soloa; paira; solob; pairb] ->
      (match iso_chk_same IClInstanceInterference (bytes_of_string soloa) (bytes_of_string paira),
             iso_chk_same IClInstanceInterference (bytes_of_string solob) (bytes_of_string pairb) with
       | Some cl, _ -> Printf.sprintf "chk %s instance=A kind=%s mode=%s sqlA=[%s] sqlB=[%s] alone=%s next_to_B=%s" (c20_clause cl) kind mode (sql_text sa) (sql_text sb) soloa paira
       | _, Some cl -> Printf.sprintf "chk %s instance=B kind=%s mode=%s sqlA=[%s] sqlB=[%s] alone=%s next_to_A=%s" (c20_clause cl) kind mode (sql_text sa) (sql_text sb) solob pairb
       | None, None -> "ok nt")
  | _ -> "bad line"

let () = Registry.register "C20" handle
