open Model
open Util

(* C14: replays the harness lines on the extracted model (Model/Analytic.v) and judges the implementation's
   own output with the extracted declarative checker (Spec/AnalyticSpec.v).  Formats: harness/c14.go. *)
let z_of_int (i : int) : z = if i = 0 then Z0 else if i > 0 then Zpos (pos_of_int i) else Zneg (pos_of_int (- i))
let int_of_z = function Z0 -> 0 | Zpos p -> int_of_pos p | Zneg p -> - (int_of_pos p)
let zs s = z_of_int (int_of_string s)
let rest s = String.sub s 1 (String.length s - 1)

let split_on (sep : string) (toks : string list) : string list list =
  let rec go acc cur = function
    | [] -> List.rev (List.rev cur :: acc)
    | t :: r when t = sep -> go (List.rev cur :: acc) [] r
    | t :: r -> go acc (t :: cur) r in
  go [] [] toks

let parse_val (t : string) : aval option =       (* None = column absent *)
  match t.[0] with
  | 'N' -> Some AVNull | 'A' -> None
  | 'i' -> Some (AVInt (zs (rest t))) | 'd' -> Some (AVFlt (zs (rest t)))
  | 's' -> Some (AVStr (bytes_of_hex (rest t)))
  | 'T' -> Some (AVBool true) | 'F' -> Some (AVBool false)
  | _ -> failwith ("bad value " ^ t)

let parse_row (toks : string list) : (n list * aval) list =
  List.filter_map (fun t ->
      match String.index_opt t '=' with
      | Some i -> (match parse_val (String.sub t (i + 1) (String.length t - i - 1)) with
                   | Some v -> Some (bytes_of_hex (String.sub t 0 i), v) | None -> None)
      | None -> failwith ("bad cell " ^ t)) toks

(* tree rows (harness/c14n.go): <col>=<val> | <col>={ cells } *)
let rec parse_ncells (toks : string list) : (n list * anval) list * string list =
  match toks with
  | [] -> ([], [])
  | "}" :: r -> ([], r)
  | t :: r ->
      (match String.index_opt t '=' with
       | None -> failwith ("bad cell " ^ t)
       | Some i ->
           let name = bytes_of_hex (String.sub t 0 i) in
           let v = String.sub t (i + 1) (String.length t - i - 1) in
           if v = "{" then
             let (m, r') = parse_ncells r in
             let (cells, r'') = parse_ncells r' in
             ((name, ANMap m) :: cells, r'')
           else
             let cell = (match parse_val v with Some x -> [ (name, ANLeaf x) ] | None -> []) in
             let (cells, r') = parse_ncells r in
             (cell @ cells, r'))

let parse_nrow (toks : string list) : (n list * anval) list =
  match parse_ncells toks with
  | (cells, []) -> cells
  | _ -> failwith "bad tree row"

let parse_aexp (t : string) : aexp =
  match t.[0] with
  | 'c' -> AEField (bytes_of_hex (rest t)) | 'n' -> AENum (zs (rest t))
  | 'b' -> AEBool (t = "bT") | 'p' -> AEPos (bytes_of_hex (rest t))
  | _ -> failwith ("bad aexp " ^ t)

let rec take n l = if n = 0 then ([], l) else
    match l with x :: r -> let (a, b) = take (n - 1) r in (x :: a, b) | [] -> failwith "short list"

let parse_call (toks : string list) : acall * string list =
  match toks with
  | fn :: n :: r ->
      let (args, r') = take (int_of_string n) r in
      let f = (match fn with
          | "lag" -> AFLag | "latest" -> AFLatest | "had" -> AFHad | "ccol" -> AFCcol
          | "sum" -> AFAcc AKSum | "count" -> AFAcc AKCount | "avg" -> AFAcc AKAvg
          | "min" -> AFAcc AKMin | "max" -> AFAcc AKMax | _ -> failwith ("bad fn " ^ fn)) in
      ({ ca_fn = f; ca_args = List.map parse_aexp args }, r')
  | _ -> failwith "bad call"

let rec parse_wexp (toks : string list) : awexp * string list =
  match toks with
  | ("+" | "-" | "*" as o) :: r ->
      let (a, r') = parse_wexp r in
      let (b, r'') = parse_wexp r' in
      (WBin ((match o with "+" -> WAdd | "-" -> WSub | _ -> WMul), a, b), r'')
  | t :: r when t.[0] = 'S' -> (WSelf (nat_of_int (int_of_string (rest t))), r)
  | t :: r when t.[0] = 'C' -> (WCol (bytes_of_hex (rest t)), r)
  | t :: r when t.[0] = 'L' -> (WNum (zs (rest t)), r)
  | _ -> failwith "bad wexp"

let parse_field (toks : string list) : afield =
  let (kind, r) = (match toks with
      | "single" :: r -> let (c, r') = parse_call r in (AKSingle c, r')
      | "wrapf" :: col :: r -> let (c, r') = parse_call r in (AKWrapF (bytes_of_hex col, c), r')
      | "wrap2" :: r -> let (c1, r') = parse_call r in let (c2, r'') = parse_call r' in (AKWrap2 (c1, c2), r'')
      | "named" :: b :: r -> (AKNamed (b = "T"), r)
      | "cols" :: pre :: ign :: n :: r ->
          let (cs, r') = take (int_of_string n) r in
          (AKCols (bytes_of_hex pre, parse_aexp ign, List.map bytes_of_hex cs), r')
      | "expr" :: n :: r ->
          let rec calls k r = if k = 0 then ([], r) else
              let (c, r') = parse_call r in let (cs, r'') = calls (k - 1) r' in (c :: cs, r'') in
          let (cs, r') = calls (int_of_string n) r in
          let (w, r'') = parse_wexp r' in
          (AKExpr (cs, w), r'')
      | _ -> failwith "bad field") in
  match r with
  | "P" :: n :: r1 ->
      let (ps, r2) = take (int_of_string n) r1 in
      (match r2 with
       | [ "W"; w ] -> { af_kind = kind; af_part = List.map bytes_of_hex ps;
                         af_when = (if w = "-" then None else Some (bytes_of_hex w)) }
       | _ -> failwith "bad field tail")
  | _ -> failwith "bad field tail"

let rec show_val (v : aval) : string =
  match v with
  | AVNull -> "N" | AVInt z | AVFlt z -> "i" ^ string_of_int (int_of_z z)
  | AVStr s -> "s" ^ hex_of_bytes s | AVBool b -> if b then "T" else "F"

let show_out (o : aout) : string =
  match o with
  | AOV v -> show_val v
  | AOAvg (s, c) ->
      let s = int_of_z s and c = int_of_z c in
      if s mod c = 0 then "i" ^ string_of_int (s / c) else Printf.sprintf "r%.17g" (float_of_int s /. float_of_int c)
  | AOMap m ->
      let cells = List.map (fun (k, v) -> (hex_of_bytes k, show_val v)) m in
      let cells = List.sort compare cells in
      "M:" ^ String.concat "," (List.map (fun (k, v) -> k ^ "=" ^ v) cells)

(* the implementation prints a non-integer float with the shortest representation; compare as floats *)
let tok_eq (a : string) (b : string) : bool =
  a = b || (String.length a > 0 && String.length b > 0 && a.[0] = 'r' && b.[0] = 'r'
            && float_of_string (rest a) = float_of_string (rest b))

let show_oo = function Some o -> show_out o | None -> "x"

let parse_mquery (cap : string) (itoks : string list) (wtoks : string list) : amquery =
  let items = List.map parse_field (split_on "&" itoks) in
  let (wcol, wan) = (match wtoks with
      | [ c; "-" ] -> ((if c = "-" then None else Some (bytes_of_hex c)), None)
      | c :: t :: ft ->
          let tst = if t = "t" then AWTTrue else AWTGt (zs (rest t)) in
          ((if c = "-" then None else Some (bytes_of_hex c)), Some (parse_field ft, tst))
      | _ -> failwith "bad where") in
  { mq_items = items; mq_wcol = wcol; mq_wan = wan; mq_cap = nat_of_int (int_of_string cap) }

let show_mrow = function
  | Some os -> String.concat "/" (List.map show_out os)
  | None -> "x"

let mrow_eq a b =
  a = b || (let xs = String.split_on_char '/' a and ys = String.split_on_char '/' b in
            List.length xs = List.length ys && List.for_all2 tok_eq xs ys)

(* above the cap: the first row on which the implementation's output differs from the specification of all
   histories (Spec/AnalyticEpochSpec.v: the rows that count are those of the partition's current residency epoch).
   [evicted] marks the rows that fail WHEN while their partition is evicted: there the statement demands the
   default (NULL / no columns), and an implementation that answers anything else replays a result computed from
   rows that were discarded with the evicted state. *)
let above_cap_verdict (eq : string -> string -> bool) (impl : string list) (spec : string list) (evicted : bool list)
  : string option =
  let rec cmp i a b ev = match a, b with
    | [], [] -> None
    | x :: a', y :: b' ->
        let (e, ev') = (match ev with e :: t -> (e, t) | [] -> (false, [])) in
        if eq x y then cmp (i + 1) a' b' ev'
        else if e then Some (Printf.sprintf "chk evicted_partition_replays_stale_result row=%d impl=%s spec=%s" i x y)
        else if x = "x" || y = "x" then Some (Printf.sprintf "chk where_order_above_cap row=%d impl=%s spec=%s" i x y)
        else Some (Printf.sprintf "chk lru_epoch_value row=%d impl=%s spec=%s" i x y)
    | _ -> Some "chk length" in
  cmp 0 impl spec evicted

let has_prefix (v : string) (p : string) : bool =
  String.length v >= String.length p && String.sub v 0 (String.length p) = p

let handle (toks : string list) : string =
  match toks with
  | "K" :: n :: r ->
      let (vals, r') = take (int_of_string n) r in
      (match r' with
       | [ key ] ->
           let vs = List.map (fun t -> match parse_val t with Some v -> v | None -> AVNull) vals in
           let m = hex_of_bytes (an_key_of_vals vs) in
           if m <> key then "diff partition_key model=" ^ m
           else if List.length vs >= 2 then "ok nt" else "ok"
       | _ -> "bad line")
  | "Q" :: cap :: "#" :: r ->
      (match split_on "#" r with
       | [ ftoks; wtoks; rtoks; stoks; atoks ] ->
           let f = parse_field ftoks in
           let w = (match wtoks with
               | [ "-" ] -> AWNone | [ "c"; c ] -> AWCol (bytes_of_hex c)
               | "a" :: ft -> AWAnalytic (parse_field ft) | _ -> failwith "bad where") in
           let q = { aq_field = f; aq_where = w; aq_cap = nat_of_int (int_of_string cap) } in
           let rows = List.map parse_row (split_on ";" rtoks) in
           let model = List.map show_oo (an_sync q rows) in
           let nonx l = List.filter (fun t -> t <> "x") l in
           if List.length stoks <> List.length rows then "chk length sync outputs"
           else if not (List.length (nonx stoks) = List.length atoks && List.for_all2 tok_eq (nonx stoks) atoks)
           then "chk sync_async async=" ^ String.concat " " atoks
           else begin
             (* the declarative checker on the implementation's own output (only constrains <= cap) *)
             let verdict =
               if an_within_cap q rows then
                 (match an_spec_query q rows with
                  | spec ->
                      let spec' = List.map show_oo spec in
                      let rec cmp i a b = match a, b with
                        | [], [] -> None
                        | x :: a', y :: b' ->
                            if tok_eq x y then cmp (i + 1) a' b'
                            else if x = "x" || y = "x" then Some (Printf.sprintf "chk where_order row=%d impl=%s spec=%s" i x y)
                            else Some (Printf.sprintf "chk seq_value row=%d impl=%s spec=%s" i x y)
                        | _ -> Some "chk length" in
                      cmp 0 stoks spec')
               else above_cap_verdict tok_eq stoks (List.map show_oo (an_xspec_query q rows)) (an_xevicted q rows) in
             match verdict with
             | Some v -> v
             | None ->
                 if not (List.for_all2 tok_eq stoks model) then
                   "diff query model=" ^ String.concat " " model
                 else "ok nt"
           end
       | _ -> "bad line")
  | "M" :: cap :: "#" :: r ->
      (match split_on "#" r with
       | [ itoks; wtoks; rtoks; stoks; atoks ] ->
           let items = List.map parse_field (split_on "&" itoks) in
           let (wcol, wan) = (match wtoks with
               | [ c; "-" ] -> ((if c = "-" then None else Some (bytes_of_hex c)), None)
               | c :: t :: ft ->
                   let tst = if t = "t" then AWTTrue else AWTGt (zs (rest t)) in
                   ((if c = "-" then None else Some (bytes_of_hex c)), Some (parse_field ft, tst))
               | _ -> failwith "bad where") in
           let q = { mq_items = items; mq_wcol = wcol; mq_wan = wan; mq_cap = nat_of_int (int_of_string cap) } in
           let rows = List.map parse_row (split_on ";" rtoks) in
           let show_row = function
             | Some os -> String.concat "/" (List.map show_out os)
             | None -> "x" in
           let row_eq a b =
             a = b || (let xs = String.split_on_char '/' a and ys = String.split_on_char '/' b in
                       List.length xs = List.length ys && List.for_all2 tok_eq xs ys) in
           let model = List.map show_row (an_msync q rows) in
           (* the model of Emit under a schedule that lets the consumer run after every second push *)
           let sched = List.concat (List.mapi (fun i _ -> if i mod 2 = 1 then [ASPush; ASPop; ASPop] else [ASPush]) rows) in
           let amodel = List.map show_row (an_masync q sched rows [] (an_m0 q)) in
           let nonx l = List.filter (fun t -> t <> "x") l in
           if List.length stoks <> List.length rows then "chk length sync outputs"
           else if not (List.length (nonx stoks) = List.length atoks && List.for_all2 row_eq (nonx stoks) atoks)
           then "chk sync_async async=" ^ String.concat " " atoks
           else begin
             let judge sql =
               let spec' = List.map show_row (an_mspec_query sql q rows) in
               let rec cmp i a b = match a, b with
                 | [], [] -> None
                 | x :: a', y :: b' ->
                     if row_eq x y then cmp (i + 1) a' b'
                     else Some (i, x, y)
                 | _ -> Some (-1, "", "") in
               cmp 0 stoks spec' in
             let verdict =
               if an_mwithin_cap q rows then
                 (match judge false with
                  | Some (i, x, y) ->
                      if x = "x" || y = "x" then Some (Printf.sprintf "chk where_order row=%d impl=%s spec=%s" i x y)
                      else Some (Printf.sprintf "chk seq_value row=%d impl=%s spec=%s" i x y)
                  | None ->
                      (* the same specification with NULL-propagating arithmetic for a sum of calls / columns *)
                      (match judge true with
                       | Some (i, x, y) -> Some (Printf.sprintf "chk wrapper_sum_null row=%d impl=%s spec=%s" i x y)
                       | None -> None))
               else above_cap_verdict row_eq stoks (List.map show_row (an_xmspec_query false q rows)) (an_xmevicted q rows) in
             match verdict with
             | Some v when not (String.length v > 22 && String.sub v 0 22 = "chk wrapper_sum_null r") -> v
             | _ ->
                 if not (List.for_all2 row_eq stoks model) then
                   "diff mquery model=" ^ String.concat " " model
                 else if not (List.for_all2 row_eq model amodel) then
                   "diff masync model=" ^ String.concat " " amodel
                 else (match verdict with Some v -> v | None -> "ok nt")
           end
       | _ -> "bad line")
  | "N" :: cap :: "#" :: r ->
      (* PARTITION BY paths into tree rows: the model resolves the paths the way the code does (suffix fallback);
         the implementation's output is judged by the specification over that resolution (any disagreement is a
         violation) and then by the declarative one - partition value = value at the path, NULL when the path
         leads nowhere - whose only disagreement can be the known fallback deviation *)
      (match split_on "#" r with
       | [ itoks; wtoks; rtoks; stoks; atoks ] ->
           let q = parse_mquery cap itoks wtoks in
           let rows = List.map parse_nrow (split_on ";" rtoks) in
           if not (an_nrows_ok q rows) then "bad line: a partition path ends at a map" else
           let model = List.map show_mrow (an_nmsync q rows) in
           let sched = List.concat (List.mapi (fun i _ -> if i mod 2 = 1 then [ASPush; ASPop; ASPop] else [ASPush]) rows) in
           let amodel = List.map show_mrow (an_nmasync q sched rows) in
           let nonx l = List.filter (fun t -> t <> "x") l in
           if List.length stoks <> List.length rows then "chk length sync outputs"
           else if not (List.length (nonx stoks) = List.length atoks && List.for_all2 mrow_eq (nonx stoks) atoks)
           then "chk sync_async async=" ^ String.concat " " atoks
           else begin
             let judge fb =
               let spec' = List.map show_mrow (an_nmspec fb false q rows) in
               let rec cmp i a b = match a, b with
                 | [], [] -> None
                 | x :: a', y :: b' -> if mrow_eq x y then cmp (i + 1) a' b' else Some (i, x, y)
                 | _ -> Some (-1, "", "") in
               cmp 0 stoks spec' in
             let verdict =
               if an_nmwithin true q rows then
                 (match judge true with
                  | Some (i, x, y) ->
                      if x = "x" || y = "x" then Some (Printf.sprintf "chk where_order row=%d impl=%s spec=%s" i x y)
                      else Some (Printf.sprintf "chk seq_value row=%d impl=%s spec=%s" i x y)
                  | None ->
                      if an_nmwithin false q rows then
                        (match judge false with
                         | Some (i, x, y) -> Some (Printf.sprintf "chk partition_path_fallback row=%d impl=%s spec=%s" i x y)
                         | None -> None)
                      else None)
               else above_cap_verdict mrow_eq stoks (List.map show_mrow (an_nxmspec true q rows)) (an_nxmevicted true q rows) in
             match verdict with
             | Some v when not (has_prefix v "chk partition_path_fallback ") -> v
             | _ ->
                 if not (List.for_all2 mrow_eq stoks model) then
                   "diff nquery model=" ^ String.concat " " model
                 else if not (List.for_all2 mrow_eq model amodel) then
                   "diff nasync model=" ^ String.concat " " amodel
                 else (match verdict with Some v -> v | None -> "ok nt")
           end
       | _ -> "bad line")
  | "P" :: n :: r ->
      (* key level: the real partitionKey of one tree row vs the key of the values at the paths *)
      let (keys, r') = take (int_of_string n) r in
      (match split_on "#" r' with
       | [ []; rtoks; [ key ] ] ->
           let keys = List.map bytes_of_hex keys in
           let row = parse_nrow rtoks in
           if not (List.for_all (an_resolve_ok row) keys) then "bad line: a partition path ends at a map" else
           let code = hex_of_bytes (an_npkey true keys row) in
           let spec = hex_of_bytes (an_npkey false keys row) in
           if key = code then
             (if code = spec then "ok nt"
              else Printf.sprintf "chk partition_path_fallback impl_key=%s spec_key=%s" key spec)
           else if key = spec then "diff partition_path model=" ^ code
           else Printf.sprintf "chk partition_path impl_key=%s spec_key=%s" key spec
       | _ -> "bad line")
  | ["J"; bx; by; eq] ->
      (* implementation-level: two float64 partition values share a key iff they are the same value *)
      let same = (bx = by) in
      if (eq = "1") = same then "ok nt"
      else Printf.sprintf "chk partition_key_collision same_value=%b keys_equal=%s" same eq
  | _ -> "bad line"

let () = Registry.register "C14" handle
