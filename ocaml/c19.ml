open Model
open Util

(* C19 case lines (see harness/c19.go):
     F <cfg> # <steps> # <dropped emitted cap len> # <processed ids>   forced schedule: model replay + checker
       (<cfg> = strat cap max minInc gnum gden tnum tden blockTimeoutNs; a step `U what` = the harness observed
        something unexpected there and let the instance run freely: the replay stops with a diff, the end state is judged)
     R <cfg> # <rows per producer> # <dropped input_count cap> # <processed ids>   random run: checker only
   optional 5th section: F: the ids of the rows emitted as nil maps (processed as -1, see resolve_nils);
   R: `nil-rows-are-producer P` (the nil rows are booked on the virtual producer P, by position)
   The model replayed is the one of the repaired code (ig_locked_recv = true). *)

(* the strategy the configuration selects is computed by the extracted model (ig_strat_of: "block" is the
   timer-free program exactly for BlockTimeout <= 0); bto = OverflowConfig.BlockTimeout in nanoseconds *)
let strat_of st bto = match st with
  | "0" -> ig_strat_of IgNDrop (Win.zs bto)
  | "1" -> ig_strat_of IgNBlock (Win.zs bto)
  | "2" -> IgBlockTO  (* lines written before the timeout became part of the configuration *)
  | _ -> ig_strat_of IgNExpand (Win.zs bto)
let nat s = nat_of_int (int_of_string s)
let ni = int_of_nat

let rec cfg_of = function
  | [st; cap; mx; mi; gn; gd; tn; td] -> cfg_of [st; cap; mx; mi; gn; gd; tn; td; "0"]
  | [st; cap; mx; mi; gn; gd; tn; td; bto] ->
      { ig_strat = strat_of st bto; ig_cap0 = nat cap; ig_max = nat mx; ig_mininc = nat mi; ig_gnum = nat gn;
        ig_gden = nat gd; ig_tnum = nat tn; ig_tden = nat td; ig_locked_recv = true }
  | _ -> failwith "cfg"

let id_of (s : string) : igid = let i = int_of_string s in (nat_of_int (i / 100000), nat_of_int (i mod 100000))
let id_str ((p, k) : igid) = string_of_int (ni p * 100000 + ni k)
let ids_str l = String.concat "," (List.map id_str l)

let clause_str c = match ni (ig_clause_name c) with
  | 0 -> "input_count" | 1 -> "unknown_row" | 2 -> "no_duplicate" | 3 -> "conservation"
  | 4 -> "block_never_drops" | 5 -> "cap_bounded" | _ -> "producer_order"

let step_of name p = match name with
  | "em" -> IgEm p | "sd" -> IgSd p | "gr" -> IgGr p | "cs" -> IgCs p | "to" -> IgTo p
  | "xb" -> IgXb p | "xr" -> IgXr p | "xl" -> IgXl p | "mg" -> IgMg p | "sw" -> IgSw p
  | _ -> failwith ("step " ^ name)

let fuel = nat_of_int 100000

exception Diff of string

(* rows emitted per producer, from the model state *)
let emitted_per_producer (s : igst) : nat list = List.map (fun pr -> pr.ig_started) s.ig_prods

let replay (c : igcfg) (toks : string list) : igst * bool =
  let s = ref (ig_init c (nat_of_int 8)) in
  let pos = ref 0 in
  let expanded = ref false in
  let app what r = (match r with Some s' -> s := s' | None -> raise (Diff (Printf.sprintf "step %d (%s) is not enabled in the model" !pos what))) in
  let rec go = function
    | [] -> ()
    | "E" :: p :: r -> incr pos; app ("E " ^ p) (ig_emit_alone c fuel !s (nat p)); go r
    | "FIN" :: p :: r -> incr pos; app ("FIN " ^ p) (ig_alone c fuel !s (nat p)); go r
    | "DRAIN" :: r -> incr pos; app "DRAIN" (ig_drain c fuel !s); go r
    | "ld" :: r -> incr pos; app "ld" (ig_step c !s IgLd); go r
    | "rc" :: r -> incr pos; app "rc" (ig_step c !s IgRc); go r
    | "tk" :: r -> incr pos; app "tk" (ig_step c !s IgTk); go r
    | "X" :: "ld" :: r -> incr pos; if ig_step c !s IgLd <> None then raise (Diff (Printf.sprintf "step %d: ld observed blocked but enabled in the model" !pos)); go r
    | "X" :: name :: p :: r ->
        incr pos;
        if ig_step c !s (step_of name (nat p)) <> None then
          raise (Diff (Printf.sprintf "step %d: %s %s observed blocked but enabled in the model" !pos name p));
        go r
    | "U" :: what :: _ ->
        (* the harness saw something no forced schedule allows (a wait timed out, a call that must block returned
           ...) and stopped forcing; the end state that follows is still judged by the checker *)
        incr pos; raise (Diff (Printf.sprintf "step %d: unexpected observation on the implementation: %s" !pos what))
    | "=" :: len :: cap :: dropped :: nproc :: r ->
        incr pos;
        let m = Printf.sprintf "%d %d %d %d" (ni (ig_len !s)) (ni (ig_cap !s)) (ni !s.ig_dropped) (List.length !s.ig_processed) in
        let i = String.concat " " [len; cap; dropped; nproc] in
        if m <> i then raise (Diff (Printf.sprintf "observation %d: model(len cap dropped nproc)=%s impl=%s" !pos m i));
        go r
    | name :: p :: r -> incr pos; (if name = "xl" then expanded := true); app (name ^ " " ^ p) (ig_step c !s (step_of name (nat p))); go r
    | _ -> failwith "steps" in
  go toks;
  (!s, !expanded || List.length !s.ig_chans > 1)

(* Rows emitted as nil maps (Emit(nil); harness/c19d.go). The model never looks at a row's payload: a nil row is an
   ordinary row with an id. The sink cannot tell nil rows apart and records -1; `nils` = the ids they stand for, in
   emission order. The j-th processed nil row gets the identity the model has at that position when that is an
   emitted nil row not used yet, otherwise the earliest emitted nil row not used yet; a nil row beyond the emitted
   ones becomes a row nobody emitted (unknown_row). Counts (conservation, duplicates) do not depend on the choice. *)
let resolve_nils (nils : igid list) (model_proc : igid list) (proc : string list) : igid list =
  let unused = ref nils in
  let take x = unused := List.filter (fun y -> y <> x) !unused in
  let rec go toks mp = match toks with
    | [] -> []
    | t :: r ->
        let mhd, mtl = (match mp with h :: tl -> Some h, tl | [] -> None, []) in
        let id =
          if t = "-1" && nils <> [] then
            (match mhd with
             | Some h when List.mem h !unused -> take h; h
             | _ -> (match !unused with h :: _ -> take h; h | [] -> (nat_of_int 7, nat_of_int 99999)))
          else id_of t in
        let rest = go r mtl in
        id :: rest in
  go proc model_proc

let handle (toks : string list) : string =
  match toks with
  | "F" :: rest ->
      (match (match Win.split_hash rest with [a; b; c; d] -> [a; b; c; d; []] | l -> l) with
       | [cfg; steps; [dropped; emitted; cap; len]; proc; nils] ->
           let c = cfg_of cfg in
           (* rows emitted per producer = the Emit calls the harness issued (tokens `E p` and `em p`) *)
           let counts = Array.make 8 0 in
           let rec cnt = function
             | ("E" | "em") :: p :: r -> let p = int_of_string p in counts.(p) <- counts.(p) + 1; cnt r
             | _ :: r -> cnt r
             | [] -> () in
           cnt steps;
           let ns = List.map nat_of_int (Array.to_list counts) in
           let model = (try Ok (replay c steps) with Diff d -> Error d) in
           let proc = resolve_nils (List.map id_of nils) (match model with Ok (s, _) -> s.ig_processed | Error _ -> []) proc in
           (* the property on the implementation's own end state, whether or not the model could follow *)
           (match chk_C19 c.ig_strat c.ig_cap0 c.ig_max ns (nat dropped) (nat emitted) (nat cap) (nat len) proc with
            | Some cl ->
                Printf.sprintf "chk %s forced processed=%s dropped=%s emitted=%s cap=%s queued=%s%s" (clause_str cl) (ids_str proc)
                  dropped emitted cap len (match model with Error d -> " (" ^ d ^ ")" | Ok _ -> "")
            | None ->
                (match model with
                 | Error d -> "diff " ^ d
                 | Ok (s, expanded) ->
                     let m = Printf.sprintf "%d %d %d %d|%s" (ni s.ig_dropped) (ni s.ig_emitted) (ni (ig_cap s)) (ni (ig_len s)) (ids_str s.ig_processed) in
                     let i = Printf.sprintf "%s %s %s %s|%s" dropped emitted cap len (ids_str proc) in
                     if m <> i then Printf.sprintf "diff final model=%s impl=%s" m i
                     else if expanded || ni s.ig_dropped > 0 then "ok nt" else "ok"))
       | _ -> "bad line")
  | "R" :: rest ->
      (match Win.split_hash rest with
       | [cfg; ns; [dropped; input; cap]; proc]
       | [cfg; ns; [dropped; input; cap]; proc; ["nil-rows-are-producer"; _]] ->
           let c = cfg_of cfg in
           let proc = List.map id_of proc in
           (match chk_C19 c.ig_strat c.ig_cap0 c.ig_max (List.map nat ns) (nat dropped) (nat input) (nat cap) O proc with
            | Some cl -> Printf.sprintf "chk %s random processed=%d dropped=%s input=%s cap=%s" (clause_str cl) (List.length proc) dropped input cap
            | None -> if int_of_string dropped > 0 || nat cap <> c.ig_cap0 then "ok nt" else "ok")
       | _ -> "bad line")
  | _ -> "bad line"

let () = Registry.register "C19" handle
