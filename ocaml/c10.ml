open Model
open Util
open Win
open Sess

let handle (toks : string list) : string =
  match toks with
  | "N" :: timeout :: ooo :: late :: base :: rest ->
      (match split_hash rest with
       | [ []; ops; obs ] | [ ops; obs ] ->
           let c = { ntimeout = zs timeout; nooo = zs ooo; nlateness = zs late } in
           let hops = parse_nops (zs base) ops in
           let model = show_strace (run_nhops c hops) in
           let impl = String.concat " " obs in
           if model <> impl then "diff session_trace model=" ^ model else "ok nt"
       | _ -> "bad line")
  | _ -> "bad line"

let () = Registry.register "C10" handle
