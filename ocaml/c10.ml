open Model
open Util
open Win
open Sess

let handle (toks : string list) : string =
  match toks with
  | "N" :: timeout :: ooo :: late :: base :: rest ->
      (match split_hash rest with
       | [ []; ops; obs ] | [ ops; obs ] ->
           let c = { ntimeout = zs timeout; nooo = zs ooo; nlateness = zs late } in
           let hops = parse_nops (zs base) ops in
           let model = show_strace (run_nhops c hops) in
           let impl = String.concat " " obs in
           let tbl = Hashtbl.create 64 in
           let tr = parse_strace tbl obs in
           let cls = List.sort_uniq compare (List.map string_of_nclause (chk_C10 c (zs base) tr)) in
           let cls = cls @ (if quiet_violated_s c.nooo (zs base) tr then ["watermark_not_redelivered"] else []) in
           (* narrow the start_not_earliest clause: is the reported start the timestamp of the first-arrived row? *)
           let start_kind =
             if not (List.mem "start_not_earliest" cls) then "" else
             let seen = Hashtbl.create 16 in
             let kinds = ref [] in
             List.iter (function
               | SvBatch (k, st, en, rows) ->
                   let key = (int_of_z k, int_of_z st, int_of_z en) in
                   if not (Hashtbl.mem seen key) then begin
                     Hashtbl.replace seen key ();
                     let tss = List.map (fun r -> int_of_z (kts r)) rows in
                     let mn = List.fold_left min max_int tss in
                     if int_of_z st <> mn then
                       kinds := (if tss <> [] && int_of_z st = List.hd tss then "start_is_first_arrival" else "start_is_something_else") :: !kinds
                   end
               | _ -> ()) tr;
             " " ^ String.concat "," (List.sort_uniq compare !kinds) in
           if cls <> [] then "chk " ^ String.concat "," cls ^ start_kind ^ (if model <> impl then " (and model differs)" else "")
           else if model <> impl then "diff session_trace model=" ^ model else "ok nt"
       | _ -> "bad line")
  | "Q" :: timeout :: ooo :: wmk :: rest ->
      (match split_hash rest with
       | [ []; evs; res ] | [ evs; res ] ->
           let c = { ntimeout = zs timeout; nooo = zs ooo; nlateness = Z0 } in
           let rec pe = function
             | id :: ts :: k :: r -> ((zs id, zs ts), zs k) :: pe r
             | [] -> [] | _ -> failwith "bad event list" in
           let rec take n l = if n = 0 then ([], l) else
               (match l with x :: r -> let (a, b) = take (n - 1) r in (x :: a, b) | [] -> failwith "short ids") in
           let rec pr = function
             | [] -> []
             | ";" :: r -> pr r
             | k :: ws :: we :: cnt :: n :: r ->
                 let (ids, r') = take (int_of_string n) r in
                 { nr_key = zs k; nr_start = zs ws; nr_end = zs we; nr_ids = List.map zs ids; nr_count = zs cnt } :: pr r'
             | _ -> failwith "bad result list" in
           let results = pr res in
           let cls = List.sort_uniq compare (List.map string_of_nclause (chk_session_sql c (zs wmk) (pe evs) results)) in
           (* same narrowing of start_not_earliest as for the stepped traces *)
           let start_kind =
             if not (List.mem "start_not_earliest" cls) then "" else
             let evl = pe evs in
             let kinds = List.filter_map (fun r ->
                 let tss = List.filter_map (fun i -> match List.find_opt (fun e -> kid e = i) evl with Some e -> Some (int_of_z (kts e)) | None -> None) r.nr_ids in
                 let mn = List.fold_left min max_int tss in
                 if int_of_z r.nr_start <> mn then Some (if tss <> [] && int_of_z r.nr_start = List.hd tss then "start_is_first_arrival" else "start_is_something_else") else None) results in
             " " ^ String.concat "," (List.sort_uniq compare kinds) in
           if cls <> [] then "chk " ^ String.concat "," cls ^ start_kind else "ok nt"
       | _ -> "bad line")
  | "R" :: _ :: pairs ->
      (* concurrent run: every delivered session must have end <= the watermark being handled *)
      let rec ok = function
        | w :: e :: r -> (int_of_string e <= int_of_string w) && ok r
        | [] -> true | _ -> false in
      if ok pairs then "ok nt" else "chk early_delivery_concurrent"
  | _ -> "bad line"

let () = Registry.register "C10" handle
