open Model
open Util

(* C11 case lines (see harness/c11.go) replayed on the extracted lexer model, the reference parser and
   the checkers.  Verdicts: ok | ok nt | diff <what> | chk <clause> <details> *)

let str_of_bytes (b : n list) : string = String.concat "" (List.map (fun x -> String.make 1 (Char.chr (int_of_n x))) b)
let bytes_of_str (s : string) : n list = List.init (String.length s) (fun i -> n_of_int (Char.code s.[i]))
let unhex (h : string) : string = str_of_bytes (bytes_of_hex h)
let hexs (s : string) : string = hex_of_bytes (bytes_of_str s)

let norm_toks (l : token list) : string =
  String.concat "." (List.map (fun t -> let c = canon t in string_of_int (int_of_n c.ttype) ^ ":" ^ hex_of_bytes c.tval) l)
let ctoks (b : n list) : token list = List.map canon (tokens b)

let opt_hex = function Some b -> hex_of_bytes b | None -> "-"

(* 'Ns' 'Nms' 'Nm' 'Nh' -> nanoseconds *)
let dur_ns (lit : string) : string =
  let s = if String.length lit >= 2 && lit.[0] = '\'' then String.sub lit 1 (String.length lit - 2) else lit in
  let i = ref 0 in
  while !i < String.length s && s.[!i] >= '0' && s.[!i] <= '9' do incr i done;
  if !i = 0 then "?" ^ s else
  let n = int_of_string (String.sub s 0 !i) and u = String.sub s !i (String.length s - !i) in
  let m = (match u with "ns" -> 1 | "us" -> 1000 | "ms" -> 1000000 | "s" -> 1000000000 | "m" -> 60000000000
                        | "h" -> 3600000000000 | _ -> -1) in
  if m < 0 then "?" ^ s else "d" ^ string_of_int (n * m)

let strip_quotes (s : string) : string =
  if String.length s >= 2 && s.[0] = '\'' && s.[String.length s - 1] = '\'' then String.sub s 1 (String.length s - 2) else s

let strip_alias (f : string) (a1 : string) (a2 : string) : string =
  match String.index_opt f '.' with
  | Some i -> let p = String.sub f 0 i in
              if p = a1 || p = a2 then String.sub f (i + 1) (String.length f - i - 1) else f
  | None -> f

(* the skeleton as the list of fields the Go side prints for types.Config *)
let fields_of_stmt (st : stmt) : string list =
  let src_alias = (match st.s_alias with Some a -> str_of_bytes a | None -> "") in
  let items = List.map (fun it -> "I=" ^ norm_toks it.it_expr ^ "," ^ opt_hex it.it_alias) st.s_items in
  let joins = List.map (fun j ->
      let tb = str_of_bytes j.j_table in
      let al = (match j.j_alias with Some a -> str_of_bytes a | None -> tb) in
      let ps = List.map (fun (l, r) -> hexs (strip_alias (str_of_bytes l) src_alias al) ^ "=" ^ hexs (strip_alias (str_of_bytes r) src_alias al)) j.j_on in
      "J=" ^ (if j.j_left then "L" else "I") ^ "," ^ hexs tb ^ "," ^ hexs al ^ "," ^ String.concat ";" ps) st.s_joins in
  let win = (match st.s_window with
      | None -> []
      | Some w ->
        let k = int_of_n w.w_kind in
        let kc = (match k with 26 -> "T" | 27 -> "S" | 28 -> "C" | 29 -> "E" | _ -> "?") in
        let ps = List.map (fun t ->
            let v = str_of_bytes t.tval in
            if k = 28 then "i" ^ v
            else if int_of_n t.ttype = 2 then "d" ^ string_of_int (int_of_string v * 1000000000)
            else dur_ns v) w.w_params in
        ["N=" ^ kc ^ "," ^ String.concat ";" ps]) in
  let opts = List.sort compare (List.map (fun (k, v) ->
      let k = int_of_n k and v = strip_quotes (str_of_bytes v) in
      let e = (match k with
          | 34 -> hexs v
          | 35 -> (match v with "dd" -> "d86400000000000" | "hh" -> "d3600000000000" | "mi" -> "d60000000000"
                              | "ss" -> "d1000000000" | "ms" -> "d1000000" | "ns" -> "d1" | _ -> "d1000000")
          | _ -> dur_ns v) in
      Printf.sprintf "O=%d,%s" k e) st.s_with) in
  let keys = List.map (fun k -> "K=" ^ hex_of_bytes k.ok_col ^ "," ^ (if k.ok_desc then "D" else "A")) st.s_order in
  let lim = (match st.s_limit with Some n -> ["L=" ^ string_of_int (int_of_string (str_of_bytes n))] | None -> []) in
  ["D=" ^ b01 st.s_distinct] @ items
  @ ["S=" ^ hex_of_bytes st.s_source ^ "," ^ opt_hex st.s_alias] @ joins
  @ ["W=" ^ hex_of_bytes (cond_text st.s_where)]
  @ List.map (fun c -> "G=" ^ hex_of_bytes c) st.s_group @ win
  @ ["H=" ^ hex_of_bytes (cond_text st.s_having)] @ opts @ keys @ lim

(* ---- MATCH_RECOGNIZE as written (M lines): the reference reading of the clause, Model/MatchWithin.v ---- *)
let rec int_of_z = function Z0 -> 0 | Zpos p -> int_of_pos p | Zneg p -> - (int_of_pos p)
let hex_list (l : n list list) : string =
  if l = [] then "-" else String.concat ";" (List.map (fun b -> if b = [] then "-" else hex_of_bytes b) l)
(* the pattern tree of the reference reading in the notation of harness/c11_pattern.go (pn.shape / patShape) *)
let rec pat_shape (p : pat) : string =
  let kids l = String.concat ";" (List.map pat_shape l) in
  match p with
  | PSym s -> "v" ^ (if s = [] then "-" else hex_of_bytes s)
  | PSeq l -> "S(" ^ kids l ^ ")"
  | PAlt l -> "A(" ^ kids l ^ ")"
  | PGroup q -> "G(" ^ pat_shape q ^ ")"
  | PPermute l -> "P(" ^ kids l ^ ")"
  | PExcl q -> "X(" ^ pat_shape q ^ ")"
  | PRep (q, lo, hi, g) ->
      Printf.sprintf "R(%s;%d;%s;%s)" (pat_shape q) (int_of_n lo)
        (match hi with Some h -> string_of_int (int_of_n h) | None -> "inf") (if g then "g" else "r")
let fields_of_mr (sp : mrspec) : string list =
  [ "MK=2"; "MP=" ^ hex_list sp.mr_part; "MO=" ^ hex_list sp.mr_order; "MR=" ^ b01 sp.mr_all;
    Printf.sprintf "MS=%d,%s" (int_of_n sp.mr_skip) (if sp.mr_skip_sym = [] then "-" else hex_of_bytes sp.mr_skip_sym);
    "MW=" ^ string_of_int (int_of_z sp.mr_within); "MM=" ^ hex_list sp.mr_measures; "MD=" ^ hex_list sp.mr_defines;
    "MU=" ^ (if sp.mr_subsets = [] then "-" else String.concat ";" (List.map (fun (nm, syms) ->
        hex_of_bytes nm ^ ":" ^ String.concat "+" (List.map hex_of_bytes syms)) sp.mr_subsets));
    "MT=" ^ (match sp.mr_pattern with Some l -> hex_list l | None -> "?");
    "MQ=" ^ (match sp.mr_tree with Some p -> pat_shape p | None -> "?") ]
let mr_clause_of (d : string) : string =
  if String.length d > 8 then (match d.[7] with
      | 'K' -> "execution_mode" | 'P' -> "partition_by" | 'O' -> "order_by" | 'R' -> "rows_per_match" | 'S' -> "after_match_skip"
      | 'W' -> "within" | 'M' -> "measures" | 'D' -> "define" | 'U' -> "subset" | 'T' -> "pattern" | 'Q' -> "pattern_tree"
      | _ -> "structure") else "structure"
(* label of a recorded finding (known_findings.d/C11.jsonl): the WITHIN count is a decimal that is not a binary
   fraction and the configured bound is exactly one nanosecond below the written one.  Only a label. *)
let within_label (toks : token list) (fm : string list) (fo : string list) : string =
  let mw l = List.find_map (fun f -> if String.length f > 3 && String.sub f 0 3 = "MW=" then int_of_string_opt (String.sub f 3 (String.length f - 3)) else None) l in
  let rec count = function
    | w :: c :: r when int_of_n w.ttype = 1 && String.uppercase_ascii (str_of_bytes w.tval) = "WITHIN" && int_of_n c.ttype = 2 ->
        (match count r with Some d -> Some d | None -> parse_dec c.tval)
    | _ :: r -> count r
    | [] -> None in
  match mw fm, mw fo, count toks with
  | Some m, Some o, Some d when o = m - 1 && not (dec_dyadic d) -> " [within_decimal_count_float_product]"
  | _ -> ""
(* label of a recorded finding: the PATTERN writes an exclusion {- ... -} right after a pattern variable that has no
   quantifier (the parser reads "{" as the start of a quantifier, fails, and the failure is swallowed).  Only a label. *)
let exclusion_label (toks : token list) : string =
  let identlike t = (match t.tval with c :: _ -> let c = int_of_n c in (c >= 65 && c <= 90) || (c >= 97 && c <= 122) || c = 95 | [] -> false) in
  let rec go = function
    | a :: b :: c :: r -> if identlike a && int_of_n b.ttype = 60 && int_of_n c.ttype = 9 then true else go (b :: c :: r)
    | _ -> false in
  (* since the repair of F69 the shape is parsed as written: no label (a failure here is reported unlabelled) *)
  if false && go toks then " [mr_exclusion_after_unquantified_variable]" else ""

let split2 (s : string) (c : char) : string * string =
  match String.index_opt s c with
  | Some i -> (String.sub s 0 i, String.sub s (i + 1) (String.length s - i - 1))
  | None -> (s, "")

(* fields as printed by the generator (SQL text for expressions and conditions) -> comparable form *)
let norm_field ~(expected : bool) (f : string) : string =
  let (k, v) = split2 f '=' in
  match k with
  | "I" -> let (e, a) = split2 v ',' in "I=" ^ norm_toks (ctoks (bytes_of_hex e)) ^ "," ^ a
  | "W" | "H" when expected -> k ^ "=" ^ hex_of_bytes (cond_text (ctoks (bytes_of_hex v)))
  | _ -> f

let mask_source (f : string) : string =
  if String.length f > 2 && String.sub f 0 2 = "S=" then let (_, a) = split2 f ',' in "S=-," ^ a else f

let rec first_diff (a : string list) (b : string list) : string =
  match a, b with
  | [], [] -> "none"
  | x :: a', y :: b' -> if x = y then first_diff a' b' else Printf.sprintf "model=%s other=%s" x y
  | x :: _, [] -> Printf.sprintf "model=%s other=missing" x
  | [], y :: _ -> Printf.sprintf "model=missing other=%s" y

let rec split_hash (l : string list) : string list list =
  match l with
  | [] -> [[]]
  | "#" :: r -> [] :: split_hash r
  | x :: r -> (match split_hash r with h :: t -> (x :: h) :: t | [] -> [[x]])

let clause_of (d : string) : string =
  if String.length d > 7 then (match d.[6] with
      | 'I' -> "select_items" | 'S' -> "source_alias" | 'J' -> "join" | 'W' -> "where_text" | 'G' -> "group_by"
      | 'N' -> "window" | 'H' -> "having_text" | 'O' -> "with_options" | 'K' -> "order_by" | 'L' -> "limit"
      | 'D' -> "distinct" | _ -> "structure") else "structure"

(* classifiers for recorded findings (known_findings.d/C11.jsonl).  The harness passes the names of the
   registered analytic (A) and aggregate / window (G) functions that occur in the statement text.
   [where_literal_contains_analytic_call_shape]: a string literal or back-quoted identifier of the WHERE
   clause contains an analytic function name followed by blanks and "(";
   [item_literal_contains_aggregate_call_shape]: a string literal or back-quoted identifier inside a
   select item contains an aggregate / analytic / window function name followed by blanks and "(";
   in both cases no such name is written as a word outside literals anywhere in the statement.
   Only labels on a chk verdict; they never turn a violation into ok. *)
let contains_call_shape (name : string) (v : string) : bool =
  let v = String.lowercase_ascii v and n = String.length name in
  let lv = String.length v in
  let rec at i =
    if i + n > lv then false
    else if String.sub v i n = name then
      (let j = ref (i + n) in
       while !j < lv && (v.[!j] = ' ' || v.[!j] = '\t') do incr j done;
       if !j < lv && v.[!j] = '(' then true else at (i + 1))
    else at (i + 1) in
  n > 0 && at 0
let finding_labels (names : string list) (st : stmt) : string =
  let pick c = List.filter_map (fun h -> if String.length h > 1 && h.[0] = c
                                 then Some (String.lowercase_ascii (unhex (String.sub h 1 (String.length h - 1)))) else None) names in
  let an = pick 'A' in
  let ag = an @ pick 'G' in
  let is_lit t = let k = int_of_n t.ttype in k = 3 || k = 4 in
  let lit_has ns l = List.exists (fun t -> is_lit t && List.exists (fun n -> contains_call_shape n (str_of_bytes t.tval)) ns) l in
  let items = List.concat_map (fun it -> it.it_expr) st.s_items in
  let all = items @ st.s_where @ st.s_having in
  let written ns = List.exists (fun t -> not (is_lit t) && List.mem (String.lowercase_ascii (str_of_bytes t.tval)) ns) all in
  (if lit_has an st.s_where && not (written an) then " [where_literal_contains_analytic_call_shape]" else "")
  ^ (if lit_has ag items && not (written ag)
     then " [item_literal_contains_aggregate_call_shape]" else "")

let after_hash (l : string list) : string list * string list =
  let rec go acc = function
    | [] -> (List.rev acc, [])
    | "#" :: r -> (List.rev acc, r)
    | x :: r -> go (x :: acc) r in
  go [] l

(* the digests are comma-separated key:value lists in a fixed key order *)
let digest_diff (d1 : string) (d2 : string) : string =
  let f d = List.map (fun kv -> split2 kv ':') (String.split_on_char ',' d) in
  let l1 = f d1 and l2 = f d2 in
  if List.map fst l1 <> List.map fst l2 then "keys"
  else String.concat "," (List.filter_map (fun ((k, v1), (_, v2)) -> if v1 = v2 then None else Some (k ^ ":" ^ v1 ^ "/" ^ v2)) (List.combine l1 l2))

let handle (toks : string list) : string =
  match toks with
  | "E" :: codes ->
      if List.map int_of_string codes = List.map int_of_n token_codes then "ok" else "diff token_enum"
  | "L" :: inp :: eof :: n :: rest ->
      if eof = "-1" then "chk lexer_terminates no EOF within 4*len+16 calls" else
      let rec triples = function
        | ty :: v :: p :: r -> (int_of_string ty, v, int_of_string p) :: triples r
        | _ -> [] in
      let impl = triples rest in
      (match lex_pos (bytes_of_hex inp) with
       | None -> "diff lexer model_out_of_fuel"
       | Some (l, e) ->
           let m = List.map (fun (t, p) -> (int_of_n t.ttype, hex_of_bytes t.tval, int_of_nat p)) l in
           if m <> impl then
             Printf.sprintf "diff lexer_tokens model=%s" (String.concat " " (List.map (fun (a, b, c) -> Printf.sprintf "%d %s %d" a b c) m))
           else if int_of_nat e <> int_of_string eof then Printf.sprintf "diff lexer_eof_pos model=%d" (int_of_nat e)
           else if List.length m >= 2 then "ok nt" else "ok")
  | "P" :: sql :: "#" :: rest ->
      (match (match split_hash rest with [e; o] -> Some (e, o, []) | [e; o; a] -> Some (e, o, a) | _ -> None) with
       | Some (expd, obs, anames) ->
           (match parse_ref (tokens (bytes_of_hex sql)) with
            | None -> "diff reference_parser_rejects_generated_statement"
            | Some st ->
                let fm = fields_of_stmt st in
                let fe = List.map (norm_field ~expected:true) expd in
                if fm <> fe then "diff reference_parser_vs_generator " ^ first_diff fm fe
                else if not (wf_stmt st) then "diff generated_statement_not_wf"
                else if parse_ref (print st) <> Some st then "diff print_parse_roundtrip"
                else (match obs with
                    | "ERR" :: msg :: _ -> "chk parse_accepts_documented_grammar error=" ^ unhex msg ^ finding_labels anames st
                    | _ ->
                        let fo = List.map (norm_field ~expected:false) obs in
                        let fm' = List.map mask_source fm in
                        if fo = fm' then "ok nt"
                        else let d = first_diff fm' fo in "chk faithful_" ^ clause_of d ^ " " ^ d ^ finding_labels anames st))
       | None -> "bad line")
  | "D" :: s1 :: s2 :: o1 :: o2 :: m1 :: d1 :: d2 :: rest ->
      (* "a literal is data": the written statement and its twin with neutral literal contents (same token
         stream up to the values of string / back-quoted tokens, checked with the lexer model) must be
         answered alike and give a configuration of the same shape (implementation-level differential) *)
      let names = snd (after_hash rest) in
      let t1 = List.map canon (tokens (bytes_of_hex s1)) and t2 = List.map canon (tokens (bytes_of_hex s2)) in
      let is_lit t = let k = int_of_n t.ttype in k = 3 || k = 4 in
      let same_tok a b = a.ttype = b.ttype && (is_lit a || a.tval = b.tval) in
      if List.length t1 <> List.length t2 || not (List.for_all2 same_tok t1 t2) then "diff not_literal_variants"
      else (match parse_ref t1 with
          | None -> "diff reference_parser_rejects_generated_statement"
          | Some st ->
              if parse_ref t2 = None then "diff reference_parser_rejects_neutral_twin"
              else if o1 = "panic" || o1 = "timeout" then "chk parse_total " ^ o1
              else if o2 = "panic" || o2 = "timeout" then "chk parse_total " ^ o2
              else if o1 <> o2 then
                Printf.sprintf "chk literal_is_data outcome written=%s neutral=%s error=%s%s" o1 o2 (if m1 = "-" then "-" else unhex m1) (finding_labels names st)
              else if o1 <> "ok" then "ok"
              else if d1 <> d2 then "chk literal_is_data differs=" ^ digest_diff d1 d2 ^ finding_labels names st
              else "ok nt")
  | "M" :: sql :: "#" :: rest ->
      (* MATCH_RECOGNIZE as written: generator's clause = reference reading (model lexer + mr_ref) = types.Config *)
      (match split_hash rest with
       | [expd; obs] ->
           let toks = tokens (bytes_of_hex sql) in
           (match mr_ref toks with
            | None -> "diff mr_reference_rejects_generated_statement"
            | Some None -> "diff mr_reference_finds_no_match_recognize"
            | Some (Some sp) ->
                let fm = fields_of_mr sp in
                if fm <> expd then "diff mr_reference_vs_generator " ^ first_diff fm expd
                else (match obs with
                    | "ERR" :: msg :: _ -> "chk parse_accepts_documented_grammar error=" ^ unhex msg ^ exclusion_label toks
                    | _ ->
                        if obs = fm then "ok nt"
                        else let d = first_diff fm obs in
                          "chk faithful_mr_" ^ mr_clause_of d ^ " " ^ d ^ within_label toks fm obs ^ exclusion_label toks))
       | _ -> "bad line")
  | ["R"; s1; s2; same; nres; detail] ->
      let p1 = parse_ref (tokens (bytes_of_hex s1)) in
      if p1 = None || p1 <> parse_ref (tokens (bytes_of_hex s2)) then "diff not_layout_variants"
      else if same <> "1" then "chk layout_results " ^ (if detail = "-" then "" else unhex detail)
      else if int_of_string nres > 0 then "ok nt" else "ok"
  | ["F"; s1; s2; o1; o2; same; expk; k1; k2] ->
      (* complete statements of every clause kind: accepted in both keyword casings, same structure;
         the two texts must be the same token stream up to keyword / word case (lexer model) *)
      let up (t : token) = (int_of_n t.ttype, if int_of_n t.ttype = 1 then String.uppercase_ascii (str_of_bytes (canon t).tval) else str_of_bytes (canon t).tval) in
      let t1 = List.map up (tokens (bytes_of_hex s1)) and t2 = List.map up (tokens (bytes_of_hex s2)) in
      if List.map fst t1 <> List.map fst t2 then "diff not_case_variants"
      else if o1 = "panic" || o1 = "timeout" then "chk parse_total " ^ o1
      else if o2 = "panic" || o2 = "timeout" then "chk parse_total " ^ o2
      else if o1 <> "ok" then "chk parse_accepts_documented_grammar outcome=" ^ o1
      else if o2 <> "ok" then "chk keyword_case_accepts outcome=" ^ o2
      else if k1 <> expk then Printf.sprintf "chk faithful_clause_kinds written=%s config=%s" expk k1
      else if k2 <> expk then Printf.sprintf "chk keyword_case_clause_kinds written=%s config=%s" expk k2
      else if same <> "1" then "chk keyword_case_structure"
      else "ok nt"
  | ["T"; inp; outcome] ->
      (match outcome with
       | "ok" -> "ok"
       | "err" -> "ok nt"
       | o -> "chk parse_total " ^ o)
  | _ -> "bad line"

let () = Registry.register "C11" handle
