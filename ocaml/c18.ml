open Model
open Util

(* C18 -- replays the lines written by harness/c18.go.
   S lines: the extracted protocol model is driven by a deterministic scheduler (each call runs to completion,
            then the pipeline goroutines run until nothing is left to do) and must show the same number of sink
            invocations per call and the same EmitSync outcomes as the real code;
   R lines: the recorded event trace of a concurrent run is judged by the extracted monitor chk_C18;
   W lines: a call in flight inside user code while sinks are registered and Stop is called; judged by chk_C18;
   B lines: user code blocked / re-entering on a pipeline goroutine while Stop or an expansion arrives; judged by chk_C18,
            where leaving through the grace period is the EXPECTED verdict of mode h (the harness keeps the sink blocked
            beyond the grace period) and no other mode; so:<j> (Stop still running after grace + margin) = stop_over_grace;
   K lines: producers parked inside Emit on a full data channel while Stop runs; judged by chk_C18 (eo:<j> = an Emit in
            progress when Stop was called did not return = emit_blocked_after_stop); the scenario is replayed on the model,
            which must release every producer through its done branch;
   I lines: Execute immediately followed by Stop; judged by chk_C18 (a Stop that leaves through its grace although nothing is
            in flight = stop_grace_expired, goroutine_leak, the barrier clauses); the same script is replayed on the model
            with the Stop caller scheduled BEFORE the pipeline goroutines, which must show a join and no goroutine left;
   D lines: a second Stop (concurrent, re-entrant from the held sink, repeated) while the first Stop is in progress; judged
            by chk_C18: sx:<j> (that call still running after 2 s) = EStopAgainOver = second_stop_blocked;
   L line : two overlapping Stop calls; chk_C18 must accept, the literal reading (chk_literal) does not (F18c);
   M / MX lines: several goroutines calling EmitSync / Emit on one instance as fast as they can (child process, plain and
            built with the race detector). Not a statement about the model (data races are outside it): the verdicts are the
            Go runtime's (the child died: memory_race_crashed), the race detector's (memory_race_detected) and a
            differential against a private instance of the same query where every goroutine owns its partition
            (memory_race_wrong_result); plus stuck / panic_escaped / goroutine_leak as everywhere. *)

let string_of_lclause = function
  | ClSinkAfterStop -> "sink_after_stop" | ClSinkRunning -> "sink_running_after_stop" | ClSyncAfterStop -> "emitsync_after_stop" | ClStopGrace -> "stop_grace_expired"
  | ClStopOverGrace -> "stop_over_grace" | ClEmitStuck -> "emit_blocked_after_stop" | ClSecondStopBlocked -> "second_stop_blocked"
  | ClStuck -> "stuck" | ClLeak -> "goroutine_leak" | ClLoserEarly -> "loser_stop_returns_early"

let split_hash (toks : string list) : string list list =
  let rec go acc cur = function
    | [] -> List.rev (List.rev cur :: acc)
    | "#" :: r -> go (List.rev cur :: acc) [] r
    | t :: r -> go acc (t :: cur) r in
  go [] [] toks

let body = function
  | 'p' -> [] | 'x' -> [APanic] | 'a' -> [AAddSink false] | 's' -> [AAddSink true] | 'g' -> [AStats]
  | _ -> failwith "bad sink behaviour"

type cls = Pass | Filtered | Poison
let cls_of v = if v = -7 then Poison else if v < 0 then Filtered else Pass

let nth_opt l n = try Some (List.nth l n) with _ -> None

(* ---- deterministic drive of the model for one script *)
let is_cep kind = String.length kind >= 3 && String.sub kind 0 3 = "cep"
let is_window kind = not (is_cep kind) && kind <> "direct" && kind <> "analytic"

(* the state of the PATTERN (A+) engine the scripts need: is a match open, and (cepmeas) is its last row the one on
   which MEASURES panics. Go anchors: cep/engine.go Process / step (a panic unwinds before `p.runs = survivors`, so the
   partition keeps the runs it had), emitGreedy / project (a panic while the completed match is projected leaves the
   stale runs in place: the match stays open and the closing row is lost), Flush. *)
type cepst = { mutable c_open : bool; mutable c_lastp : bool }

(* what the engine does with a row of class cl: `Quiet (no result), `Report (a match is closed and reported), `Panic *)
let cep_row kind (e : cepst) cl =
  match kind, cl with
  | "cepdef", Poison -> `Panic                                   (* DEFINE panics: the row is lost, nothing changes *)
  | "cepmeas", Poison -> e.c_open <- true; e.c_lastp <- true; `Quiet   (* v = -7 belongs to A *)
  | _, Pass -> e.c_open <- true; e.c_lastp <- false; `Quiet
  | _, _ -> if not e.c_open then `Quiet
            else if kind = "cepmeas" && e.c_lastp then `Panic   (* MEASURES panics: the match stays open *)
            else (e.c_open <- false; `Report)

(* does Stop's flush make MEASURES panic (finding F58: the panic escapes Stop)? *)
let cep_flush_panics kind (e : cepst) = kind = "cepmeas" && e.c_open && e.c_lastp

(* the engine state before each op of a script (pure replay of the rows, Stop flushes) *)
let cep_states kind (ops : string list) : (bool * bool) list =
  let e = { c_open = false; c_lastp = false } in
  let stopped = ref false in
  List.map (fun op ->
      let before = (e.c_open, e.c_lastp) in
      (match op.[0] with
       | 'e' when not !stopped -> ignore (cep_row kind e (cls_of (int_of_string (String.sub op 1 (String.length op - 1)))))
       | 'X' -> if not !stopped && not (cep_flush_panics kind e) then e.c_open <- false; stopped := true
       | _ -> ());
      before) ops

(* immediate = family I: only Start's critical section has run when the calls begin, the Emit calls do not let the
   pipeline goroutines run, and the Stop caller moves first: the pipeline goroutines are scheduled only when it cannot.
   Returns the per-op observations and whether, at the end, no tracked goroutine is left (lifecycle counter 0, every
   pipeline thread done). *)
let run_script ?(immediate = false) kind strat workers poolcap (sinks : string list) (ops : string list) : string list * bool =
  let window = if immediate then is_window kind else (kind = "counting1" || kind = "global1") in
  let cep = is_cep kind in
  let cepe = { c_open = false; c_lastp = false } in
  let c = { c_fixed_lock = true; c_track_sync = true; c_batch_recover = true; c_window = window; c_cep = cep;
            c_strategy = (match strat with "drop" -> SDrop | "block" -> SBlock | _ -> SExpand);
            c_block_timeout = false; c_pool_cap = nat_of_int poolcap; c_max_cap = nat_of_int 64 } in
  let base = [RProcessor] @ (if window then [RConsumer] else []) @ List.init workers (fun _ -> RWorker) in
  let nbase = List.length base in
  let value op = int_of_string (String.sub op 1 (String.length op - 1)) in
  let role i op = match op.[0] with
    | 'e' -> RProducer (nat_of_int i) | 'y' -> RSync | 'A' -> RAdd false | 'B' -> RAdd true
    | 'G' -> RStats | 'T' -> RTrigger | 'X' -> RStopper | _ -> failwith "bad op" in
  let async = List.filter_map (fun s -> if s.[0] = 'a' then Some (body s.[1]) else None) sinks in
  let sync = List.filter_map (fun s -> if s.[0] = 's' then Some (body s.[1]) else None) sinks in
  let st = ref (linit (nat_of_int 16) async sync (base @ List.mapi role ops)) in
  let classes = Array.of_list (List.map (fun op -> if op.[0] = 'e' || op.[0] = 'y' then cls_of (value op) else Pass) ops) in
  let poison_batch = ref false in
  let try_step tid ch = match lstep c (nat_of_int tid) (nat_of_int ch) !st with
    | Some s -> st := s; true | None -> false in
  let thread tid = List.nth !st.ths tid in
  (* the choice a pipeline goroutine makes *)
  let sys_step tid =
    let th = thread tid in
    if th.t_code <> [] then try_step tid 0 else
    match th.t_pc with
    | PrSelect ->
        (match !st.sh.dq with
         | id :: _ ->
             let cl = classes.(int_of_nat id) in
             if window then (match cl with
                             | Filtered -> try_step tid 1
                             | Poison -> poison_batch := true; try_step tid 0
                             | Pass -> try_step tid 0)
             else if cep then (match cep_row kind cepe cl with
                               | `Quiet -> try_step tid 1
                               | `Report -> try_step tid 0
                               | `Panic -> try_step tid 2)
             else (match cl with Pass -> try_step tid 0 | Filtered -> try_step tid 1 | Poison -> try_step tid 2)
         | [] -> try_step tid 3)
    | CoLoop ->
        if !st.sh.wq <> O then (if !poison_batch then (poison_batch := false; try_step tid 2) else try_step tid 0)
        else try_step tid 3
    | WkLoop -> try_step tid 0 || try_step tid 1
    | LDone -> false
    | _ -> try_step tid 0 in
  let rec settle fuel =
    if fuel = 0 then failwith "model does not settle" else
    let progress = ref false in
    for tid = 0 to nbase - 1 do if sys_step tid then progress := true done;
    if !progress then settle (fuel - 1) in
  if immediate then ignore (try_step 0 0) else settle 10000;
  let seen_stop = ref false in
  let out = ref [] in
  List.iteri (fun i op ->
      let tid = nbase + i in
      let before = List.length !st.ltrace in
      let na = List.length !st.sh.asinks and ns = List.length !st.sh.ssinks in
      let rec drive fuel =
        if fuel = 0 then failwith "model call does not return" else
        let th = thread tid in
        if th.t_pc = LDone && th.t_code = [] then () else begin
          let ch = (match th.t_pc, op.[0] with
                    | SyBegin, _ -> if classes.(i) = Pass then 0 else 1
                    | TrigCall, _ -> 1
                    | StFlush, _ -> if cep_flush_panics kind cepe then 1   (* F58: the flush panics, nothing is delivered *)
                                  else if cepe.c_open then (cepe.c_open <- false; 0) else 1   (* Stop flushes the open match *)
                    | _ -> 0) in
          if not (try_step tid ch) then settle 10000;
          drive (fuel - 1)
        end in
      if op = "X" then seen_stop := true;
      drive 10000; if not immediate || !seen_stop then settle 10000;
      let evs = List.filteri (fun k _ -> k < List.length !st.ltrace - before) !st.ltrace in
      let nb = List.length (List.filter (function ESinkBegin _ -> true | _ -> false) evs) in
      let r = (match op.[0] with
               | 'y' -> (match List.find_opt (function ESyncEnd _ -> true | _ -> false) evs with
                         | Some (ESyncEnd (_, ok)) -> if ok then "1" else "0" | _ -> "?")
               | 'X' ->
                   (* the flush calls every sink of the snapshot exactly once, in registration order, whatever the others do *)
                   let nf = List.length (List.filter (function ESinkBegin (_, true) -> true | _ -> false) evs) in
                   let vec n d = if n = 0 then "-" else String.make n d in
                   if nf = 0 then "1:" ^ vec na '0' ^ "/" ^ vec ns '0'
                   else if nf = na + ns then "1:" ^ vec na '1' ^ "/" ^ vec ns '1'
                   else "1:?"
               | _ -> "-") in
      out := Printf.sprintf "%d:%s" nb r :: !out) ops;
  let drained = int_of_nat !st.sh.life = 0
                && List.for_all (fun k -> let th = thread k in th.t_pc = LDone && th.t_code = []) (List.init nbase (fun k -> k)) in
  (List.rev !out, drained)

(* ---- event traces *)
let parse_event (tok : string) : levent option =
  match String.split_on_char ':' tok with
  | ["sb"; j] -> Some (EStopBegin (nat_of_int (int_of_string j)))
  | ["sr"; j; ms] -> Some (EStopReturn (nat_of_int (int_of_string j), int_of_string ms < 4500))
  | ["kb"; f] -> Some (ESinkBegin (O, f = "1"))
  | ["ke"] -> Some (ESinkEnd O)
  | ["yb"; j] -> Some (ESyncBegin (nat_of_int (int_of_string j)))
  | ["ye"; j; r] -> Some (ESyncEnd (nat_of_int (int_of_string j), r <> "0"))
  | ["to"] -> Some ETimeout
  | ["so"; j] -> Some (EStopOver (nat_of_int (int_of_string j)))
  | ["eo"; j] -> Some (EEmitOver (nat_of_int (int_of_string j)))
  | ["sx"; j] -> Some (EStopAgainOver (nat_of_int (int_of_string j)))
  | ["gr"; b; f] -> Some (EGoroutines (nat_of_int (int_of_string b), nat_of_int (int_of_string f)))
  | _ -> None

(* ---- family K: producers parked inside Emit on a full data channel while Stop runs.
   The scenario on the extracted model: the processor takes the first row and is then held inside a synchronous sink (it
   is not scheduled again), cap rows fill the channel, nprod producers move until none can (choice 0 = the send, choice 1
   = a timer: the 100 us retries of drop / expand always fire, the block timer only when it is short), the Stop caller
   runs up to its join, then every producer still inside Emit is run alone with choice 2 (the done branch) for 6 steps.
   Returns (producers parked when Stop was called, every one of them returned). *)
let run_parked strat bt cap nprod : int * bool =
  let timer_fires = bt > 0 && bt < 1000 in
  let c = { c_fixed_lock = true; c_track_sync = true; c_batch_recover = true; c_window = false; c_cep = false;
            c_strategy = (match strat with "drop" -> SDrop | "block" -> SBlock | _ -> SExpand);
            c_block_timeout = bt > 0; c_pool_cap = nat_of_int 4; c_max_cap = nat_of_int (cap * 4) } in
  let roles = [RProcessor] @ List.init (1 + cap + nprod) (fun i -> RProducer (nat_of_int i)) @ [RStopper] in
  let st = ref (linit (nat_of_int cap) [] [[]] roles) in
  let try_step tid ch = match lstep c (nat_of_int tid) (nat_of_int ch) !st with Some s -> st := s; true | None -> false in
  let finished tid = let th = List.nth !st.ths tid in th.t_pc = LDone && th.t_code = [] in
  let rec produce fuel tid =
    if fuel = 0 || finished tid then () else
    if try_step tid 0 then produce (fuel - 1) tid else
    let th = List.nth !st.ths tid in
    if (th.t_pc <> PdBlkSend || timer_fires) && try_step tid 1 then produce (fuel - 1) tid in
  ignore (try_step 0 0); ignore (try_step 0 0);          (* Start's critical section, loop head *)
  produce 20 1;                                            (* the row that holds the processor *)
  for _ = 1 to 4 do ignore (try_step 0 0) done;          (* takes it, snapshot of the sinks, the sink begins *)
  for tid = 2 to 1 + cap do produce 20 tid done;           (* the fill rows *)
  let fill_ok = List.for_all finished (List.init cap (fun i -> 2 + i)) in
  let prods = List.init nprod (fun i -> 2 + cap + i) in
  List.iter (produce 20) prods;
  let parked = List.filter (fun tid -> not (finished tid)) prods in
  let stopper = 2 + cap + nprod in
  let rec stop fuel = if fuel > 0 && try_step stopper 0 then stop (fuel - 1) in
  stop 20;
  List.iter (fun tid -> for _ = 1 to 6 do ignore (try_step tid 2) done) parked;
  (List.length parked, fill_ok && !st.sh.closed && List.for_all finished prods)

let text_of_hex (h : string) : string =
  if h = "-" then "" else
  String.init (String.length h / 2) (fun i -> Char.chr (int_of_string ("0x" ^ String.sub h (2 * i) 2)))

(* the case of an M / MX line in words *)
let describe_hammer mode kind strat nsync nemit ops gates extras =
  Printf.sprintf "%s build, query kind %s, strategy %s: %s EmitSync goroutine(s) and %s Emit goroutine(s) on one instance, %s rows each, share of rows passing the gate v > 0 per goroutine = %s%%%s"
    (if mode = "r" then "-race" else "plain") kind strat nsync nemit ops gates
    (if extras = "-" then "" else " (+ " ^ String.concat ", " (List.filter_map (function
         | 'g' -> Some "GetStats reader" | 'a' -> Some "AddSink caller" | 't' -> Some "TriggerWindow caller" | 'x' -> Some "overlapping Stop" | _ -> None)
         (List.init (String.length extras) (String.get extras))) ^ ")")

(* sp:<j> = a panic escaped Stop call j into its caller (recorded by the harness just before sr:<j>) *)
let stop_panicked tok = String.length tok > 3 && String.sub tok 0 3 = "sp:"

let handle (toks : string list) : string =
  match toks with
  | "S" :: kind :: strat :: workers :: poolcap :: sinks :: rest ->
      (match split_hash rest with
       | [ []; ops; obs ] ->
           let sinks = if sinks = "-" then [] else String.split_on_char ',' sinks in
           let gr = List.filter (fun t -> String.length t > 2 && String.sub t 0 3 = "gr:") obs in
           let obs = List.filter (fun t -> not (List.mem t gr)) obs in
           if List.mem "to" obs then begin
             (* which call: the observation list ends at the call that did not return *)
             let rec idx i = function [] -> i | "to" :: _ -> i | _ :: r -> idx (i + 1) r in
             let k = idx 0 obs in
             let op = (match nth_opt ops k with Some o -> o | None -> "?") in
             let poisoned_before = List.exists (fun o -> o = "e-7" || o = "y-7") (List.filteri (fun i _ -> i < k) ops) in
             Printf.sprintf "chk stuck a call of the script did not return: call %d (%s%s)%s" (k + 1) op
               (if op = "X" then " = Stop, 8 s" else "")
               (if poisoned_before then
                  (if is_cep kind then " after a row that panicked inside the MATCH_RECOGNIZE engine (the panic is recovered per row: later rows and Stop's flush must go on)"
                   else " after a row that panicked (recovered per row)") else "")
           end else
           let leak = (match gr with [g] -> (match parse_event g with
                                             | Some (EGoroutines (b, f)) -> int_of_nat f > int_of_nat b | _ -> false) | _ -> false) in
           if leak then "chk goroutine_leak " ^ String.concat " " gr else
           (* the property on the implementation's own output: nothing runs after the first Stop returned *)
           let ceps = if is_cep kind then cep_states kind ops else List.map (fun _ -> (false, false)) ops in
           let rec after_stop seen ops obs ces = match ops, obs, ces with
             | op :: ro, ob :: rb, (c_open, c_lastp) :: rc ->
                 let (n, r) = (match String.split_on_char ':' ob with n :: r :: _ -> (int_of_string n, r) | _ -> (0, "?")) in
                 if op = "X" && r = "2" then
                   (* Stop never panics; told apart: the flush of an open match whose MEASURES panic (cepmeas, last row -7) *)
                   Some (if kind = "cepmeas" && not seen && c_open && c_lastp
                         then "panic_escaped Stop flush_measures (the match Stop flushes ends with the row on which MEASURES panics)"
                         else "panic_escaped Stop")
                 else if seen && n > 0 then Some ("sink_after_stop op=" ^ op ^ " sink_begins=" ^ string_of_int n)
                 else if seen && op.[0] = 'y' && r <> "0" then Some ("emitsync_after_stop op=" ^ op ^ " result=" ^ r)
                 else if op.[0] = 'y' && r = "2" then Some ("panic_escaped op=" ^ op)
                 else after_stop (seen || op = "X") ro rb rc
             | _ -> None in
           (match after_stop false ops obs ceps with
            | Some v -> "chk " ^ v
            | None ->
                let (model, _) = run_script kind strat (int_of_string workers) (int_of_string poolcap) sinks ops in
                if model = obs then "ok nt"
                else
                  (* Stop's flush: every sink registered before the Stop gets the flushed matches exactly once, in the model
                     whatever the other sinks do (C18_panic_isolated_sink); a different per-sink vector is a property violation *)
                  let vec t = (match String.split_on_char ':' t with [_; _; v] -> Some v | _ -> None) in
                  let rec flush_diff ops model obs = match ops, model, obs with
                    | op :: ro, m :: rm, o :: rb ->
                        (match vec m, vec o with
                         | Some vm, Some vo when op = "X" && vm <> "?" && vm <> vo -> Some (vm, vo)
                         | _ -> flush_diff ro rm rb)
                    | _ -> None in
                  match (if List.length model = List.length obs then flush_diff ops model obs else None) with
                  | Some (vm, vo) -> Printf.sprintf "chk flush_delivery per-sink invocations caused by Stop (async/sync, registration order): model=%s impl=%s" vm vo
                  | None ->
                  let poisoned = List.exists (fun o -> o = "e-7" || o = "y-7") ops || List.exists (fun s -> s.[1] = 'x') sinks in
                  let fewer = List.exists2 (fun m o -> m <> o) model obs in
                  if poisoned && fewer && List.length model = List.length obs
                     && List.for_all2 (fun m o -> int_of_string (List.hd (String.split_on_char ':' o)) <= int_of_string (List.hd (String.split_on_char ':' m))) model obs
                  then "chk panic_not_isolated model=" ^ String.concat " " model
                  else "diff script model=" ^ String.concat " " model)
       | _ -> "bad line")
  | "B" :: _ :: _ :: _ :: mode :: "#" :: evs ->
      let tr = List.filter_map parse_event evs in
      if List.length tr <> List.length evs then "bad event token" else
      let has_begin = List.exists (function ESinkBegin _ -> true | _ -> false) tr in
      let has_ret = List.exists (function EStopReturn _ -> true | _ -> false) tr in
      (match chk_C18 tr with
       | Some ClStopGrace when mode = "h" -> if has_begin then "ok nt" else "ok"
       | Some cl -> "chk " ^ string_of_lclause cl
       | None ->
           (* mode h: the sink was still blocked when Stop returned, so a return through the join is impossible: the
              monitor has then seen the sink end after the barrier (sink_running_after_stop) -- unless no sink began *)
           if has_begin && has_ret then "ok nt" else "ok")
  | "K" :: _ :: strat :: bt :: cap :: _ :: nprod :: mode :: parked :: "#" :: evs ->
      if List.exists stop_panicked evs then "chk panic_escaped Stop" else
      let tr = List.filter_map parse_event evs in
      if List.length tr <> List.length evs then "bad event token" else
      let bt = int_of_string bt and parked = int_of_string parked in
      let (mparked, released) = run_parked strat bt (int_of_string cap) (int_of_string nprod) in
      if not released then "diff parked: in the model a producer inside Emit is not released by Stop" else
      (match chk_C18 tr with
       | Some ClEmitStuck ->
           let over = List.filter (fun t -> String.length t > 3 && String.sub t 0 3 = "eo:") evs in
           Printf.sprintf "chk emit_blocked_after_stop %d Emit call(s) in progress when Stop was called had not returned 2 s after that call (%s; 0 = the Emit made by the sink itself), although nothing drains the data channel any more and Stop has closed done; model: %d producer(s) parked, every one returns through the done branch of its select"
             (List.length over) (String.concat " " over) mparked
       | Some cl -> "chk " ^ string_of_lclause cl
       | None ->
           (* no timer can fire and nobody drains the channel: every producer must still have been inside Emit *)
           if mode = "p" && strat = "block" && (bt <= 0 || bt >= 1000) && parked <> mparked
           then Printf.sprintf "diff parked producers when Stop was called: model=%d impl=%d" mparked parked
           else if (parked > 0 || mode = "r") && List.exists (function EStopReturn _ -> true | _ -> false) tr then "ok nt" else "ok")
  | "I" :: kind :: strat :: _ :: sinks :: rows :: post :: "#" :: evs ->
      if List.exists stop_panicked evs then "chk panic_escaped Stop" else
      let tr = List.filter_map parse_event evs in
      if List.length tr <> List.length evs then "bad event token" else
      (* the model's answer for this script, the Stop caller moving before the pipeline goroutines *)
      let sinks = if sinks = "-" then [] else String.split_on_char ',' sinks in
      let ops = List.init (int_of_string rows) (fun i -> "e" ^ string_of_int i) @ ["X"]
                @ List.map (function 'e' -> "e1" | 'x' -> "X" | 't' -> "T" | 'g' -> "G" | _ -> "A")
                    (List.init (String.length post) (String.get post)) in
      (match (try Some (run_script ~immediate:true kind strat 2 4 sinks ops) with Failure _ -> None) with
       | None -> "diff immediate: the model's Stop cannot return through the join"
       | Some (_, false) -> "diff immediate: the model keeps a tracked goroutine after Stop"
       | Some (_, true) ->
           (match chk_C18 tr with
            | Some cl ->
                let leak = List.exists (function EGoroutines (b, f) -> int_of_nat f > int_of_nat b | _ -> false) tr in
                "chk " ^ string_of_lclause cl ^ (if leak && cl <> ClLeak then " + goroutine_leak" else "")
                ^ " (Execute; Stop with nothing in flight: in the model Stop joins and no goroutine is left)"
            | None -> if List.exists (function EStopReturn _ -> true | _ -> false) tr then "ok nt" else "ok"))
  | "W" :: _ :: _ :: _ :: _ :: _ :: _ :: _ :: _ :: "#" :: evs
  | "P" :: _ :: _ :: _ :: _ :: "#" :: evs
  | "R" :: _ :: _ :: _ :: "#" :: evs ->
      if List.exists stop_panicked evs then "chk panic_escaped Stop" else
      let tr = List.filter_map parse_event evs in
      if List.length tr <> List.length evs then "bad event token" else
      if List.exists (fun t -> String.length t > 3 && String.sub t 0 3 = "ye:" && String.sub t (String.length t - 2) 2 = ":2") evs
      then "chk panic_escaped EmitSync" else
      (match chk_C18 tr with
       | Some cl -> "chk " ^ string_of_lclause cl
       | None ->
           if List.exists (function ESinkBegin _ -> true | _ -> false) tr
              && List.exists (function EStopReturn _ -> true | _ -> false) tr then "ok nt" else "ok")
  | "MX" :: mode :: kind :: strat :: nsync :: nemit :: ops :: gates :: extras :: "#" :: what :: rest ->
      let d = describe_hammer mode kind strat nsync nemit ops gates extras in
      let diag = (match rest with h :: _ -> text_of_hex h | [] -> "") in
      (match what with
       | "crashed" -> Printf.sprintf "chk memory_race_crashed the process died while concurrent calls were running on one instance (%s): %s" d diag
       | "race" -> Printf.sprintf "chk memory_race_detected the race detector reports unsynchronised accesses (%s): %s" d diag
       | _ -> Printf.sprintf "chk stuck the concurrent calls did not finish (%s)" d)
  | "M" :: mode :: kind :: strat :: nsync :: nemit :: ops :: gates :: extras :: "#" :: obs ->
      let d = describe_hammer mode kind strat nsync nemit ops gates extras in
      (match obs with
       | ["to"] -> Printf.sprintf "chk stuck a call of the concurrent run (or the Stop after it) did not return (%s)" d
       | "done" :: calls :: mism :: panics :: leak :: first ->
           if int_of_string panics > 0 then Printf.sprintf "chk panic_escaped %s panic(s) escaped Emit / EmitSync into the caller (%s)" panics d
           else if int_of_string mism > 0 then begin
             let w = (match first with
                      | [f] -> (match String.split_on_char ':' f with
                                | [w; i; row; want; got] ->
                                    Printf.sprintf "; first: goroutine %s call %s row %s: a private instance answers %s, the shared instance answered %s"
                                      w i (text_of_hex row) (text_of_hex want) (text_of_hex got)
                                | _ -> "")
                      | _ -> "") in
             Printf.sprintf "chk memory_race_wrong_result %s of %s EmitSync answers differ from what a private instance of the same query gives for the goroutine's own rows, although every goroutine owns its partition (%s)%s" mism calls d w
           end
           else if leak <> "0" then Printf.sprintf "chk goroutine_leak after the concurrent run and Stop (%s)" d
           else "ok nt"
       | _ -> "bad line")
  | "D" :: kind :: _ :: how :: mode :: _ :: "#" :: evs ->
      if List.exists stop_panicked evs then "chk panic_escaped Stop" else
      if List.mem "np" evs then "ok" else      (* the first Stop was not seen to win the CAS in time: nothing to judge *)
      let tr = List.filter_map parse_event evs in
      if List.length tr <> List.length evs then "bad event token" else
      (* mode n: the sink is held beyond the grace period on purpose (as in family B mode h), so the first Stop leaving
         through its grace and the abandoned sink ending after it are the expected observations: the monitor judges the
         trace projected onto the Stop calls, the first one read as joined *)
      let tr = if mode <> "n" then tr else
          List.filter_map (function
              | EStopReturn (j, _) when int_of_nat j = 1 -> Some (EStopReturn (j, true))
              | ESinkBegin _ | ESinkEnd _ -> None
              | e -> Some e) tr in
      (match chk_C18 tr with
       | Some ClSecondStopBlocked ->
           let over = List.filter (fun t -> String.length t > 3 && String.sub t 0 3 = "sx:") evs in
           Printf.sprintf "chk second_stop_blocked %s: a Stop call made while another Stop call was in progress (or after it returned) was still running 2 s after it began (query kind %s; held sink on %s; %s); a Stop that is not the first one is a no-op: in the model it returns with three own steps enabled in every shared state (C18_stop_idempotent, C18_stop_returns_alone)"
             (String.concat " " over) kind
             (match how with "s" -> "a pipeline goroutine (AddSyncSink, asynchronous Emit path)" | "a" -> "a sink-pool worker (AddSink)" | _ -> "the EmitSync caller's goroutine")
             (match mode with
              | "c" -> "call 2 = concurrent Stop from another goroutine while the first Stop is joining the held sink, call 3 = repeated Stop after the first returned"
              | "r" -> "call 2 = Stop called by the sink itself while the first Stop is joining it, call 3 = repeated Stop after the first returned"
              | _ -> "the sink stays blocked, the first Stop leaves through its grace, call 2 = repeated Stop while the sink is still blocked")
       | Some cl -> "chk " ^ string_of_lclause cl
       | None ->
           let rets = List.length (List.filter (function EStopReturn _ -> true | _ -> false) tr) in
           if rets >= 2 then "ok nt" else "ok")
  | "L" :: "#" :: evs ->
      let tr = List.filter_map parse_event evs in
      (match chk_C18 tr with
       | Some cl -> "chk " ^ string_of_lclause cl
       | None -> (match chk_literal tr with
                  | Some cl -> "chk " ^ string_of_lclause cl
                  | None -> "ok"))
  | _ -> "bad line"

let () = Registry.register "C18" handle
