open Model
open Util

(* C18 -- replays the lines written by harness/c18.go.
   S lines: the extracted protocol model is driven by a deterministic scheduler (each call runs to completion,
            then the pipeline goroutines run until nothing is left to do) and must show the same number of sink
            invocations per call and the same EmitSync outcomes as the real code;
   R lines: the recorded event trace of a concurrent run is judged by the extracted monitor chk_C18;
   W lines: a call in flight inside user code while sinks are registered and Stop is called; judged by chk_C18;
   B lines: user code blocked / re-entering on a pipeline goroutine while Stop or an expansion arrives; judged by chk_C18,
            where leaving through the grace period is the EXPECTED verdict of mode h (the harness keeps the sink blocked
            beyond the grace period) and no other mode; so:<j> (Stop still running after grace + margin) = stop_over_grace;
   L line : two overlapping Stop calls; chk_C18 must accept, the literal reading (chk_literal) does not (F18c). *)

let string_of_lclause = function
  | ClSinkAfterStop -> "sink_after_stop" | ClSinkRunning -> "sink_running_after_stop" | ClSyncAfterStop -> "emitsync_after_stop" | ClStopGrace -> "stop_grace_expired"
  | ClStopOverGrace -> "stop_over_grace"
  | ClStuck -> "stuck" | ClLeak -> "goroutine_leak" | ClLoserEarly -> "loser_stop_returns_early"

let split_hash (toks : string list) : string list list =
  let rec go acc cur = function
    | [] -> List.rev (List.rev cur :: acc)
    | "#" :: r -> go (List.rev cur :: acc) [] r
    | t :: r -> go acc (t :: cur) r in
  go [] [] toks

let body = function
  | 'p' -> [] | 'x' -> [APanic] | 'a' -> [AAddSink false] | 's' -> [AAddSink true] | 'g' -> [AStats]
  | _ -> failwith "bad sink behaviour"

type cls = Pass | Filtered | Poison
let cls_of v = if v = -7 then Poison else if v < 0 then Filtered else Pass

let nth_opt l n = try Some (List.nth l n) with _ -> None

(* ---- deterministic drive of the model for one script *)
let run_script kind strat workers poolcap (sinks : string list) (ops : string list) : string list =
  let window = (kind = "counting1" || kind = "global1") in
  let cep = (kind = "cepopen") in
  (* cepopen = PATTERN (A+): is a match open? a row with v >= 0 opens/extends it, a row with v < 0 closes and reports it *)
  let cep_open = ref false in
  let c = { c_fixed_lock = true; c_track_sync = true; c_batch_recover = true; c_window = window; c_cep = cep;
            c_strategy = (match strat with "drop" -> SDrop | "block" -> SBlock | _ -> SExpand);
            c_block_timeout = false; c_pool_cap = nat_of_int poolcap; c_max_cap = nat_of_int 64 } in
  let base = [RProcessor] @ (if window then [RConsumer] else []) @ List.init workers (fun _ -> RWorker) in
  let nbase = List.length base in
  let value op = int_of_string (String.sub op 1 (String.length op - 1)) in
  let role i op = match op.[0] with
    | 'e' -> RProducer (nat_of_int i) | 'y' -> RSync | 'A' -> RAdd false | 'B' -> RAdd true
    | 'G' -> RStats | 'T' -> RTrigger | 'X' -> RStopper | _ -> failwith "bad op" in
  let async = List.filter_map (fun s -> if s.[0] = 'a' then Some (body s.[1]) else None) sinks in
  let sync = List.filter_map (fun s -> if s.[0] = 's' then Some (body s.[1]) else None) sinks in
  let st = ref (linit (nat_of_int 16) async sync (base @ List.mapi role ops)) in
  let classes = Array.of_list (List.map (fun op -> if op.[0] = 'e' || op.[0] = 'y' then cls_of (value op) else Pass) ops) in
  let poison_batch = ref false in
  let try_step tid ch = match lstep c (nat_of_int tid) (nat_of_int ch) !st with
    | Some s -> st := s; true | None -> false in
  let thread tid = List.nth !st.ths tid in
  (* the choice a pipeline goroutine makes *)
  let sys_step tid =
    let th = thread tid in
    if th.t_code <> [] then try_step tid 0 else
    match th.t_pc with
    | PrSelect ->
        (match !st.sh.dq with
         | id :: _ ->
             let cl = classes.(int_of_nat id) in
             if window then (match cl with
                             | Filtered -> try_step tid 1
                             | Poison -> poison_batch := true; try_step tid 0
                             | Pass -> try_step tid 0)
             else if cep then (match cl with
                               | Pass -> cep_open := true; try_step tid 1
                               | _ -> if !cep_open then (cep_open := false; try_step tid 0) else try_step tid 1)
             else (match cl with Pass -> try_step tid 0 | Filtered -> try_step tid 1 | Poison -> try_step tid 2)
         | [] -> try_step tid 3)
    | CoLoop ->
        if !st.sh.wq <> O then (if !poison_batch then (poison_batch := false; try_step tid 2) else try_step tid 0)
        else try_step tid 3
    | WkLoop -> try_step tid 0 || try_step tid 1
    | LDone -> false
    | _ -> try_step tid 0 in
  let rec settle fuel =
    if fuel = 0 then failwith "model does not settle" else
    let progress = ref false in
    for tid = 0 to nbase - 1 do if sys_step tid then progress := true done;
    if !progress then settle (fuel - 1) in
  settle 10000;
  let out = ref [] in
  List.iteri (fun i op ->
      let tid = nbase + i in
      let before = List.length !st.ltrace in
      let na = List.length !st.sh.asinks and ns = List.length !st.sh.ssinks in
      let rec drive fuel =
        if fuel = 0 then failwith "model call does not return" else
        let th = thread tid in
        if th.t_pc = LDone && th.t_code = [] then () else begin
          let ch = (match th.t_pc, op.[0] with
                    | SyBegin, _ -> if classes.(i) = Pass then 0 else 1
                    | TrigCall, _ -> 1
                    | StFlush, _ -> if !cep_open then (cep_open := false; 0) else 1   (* Stop flushes the open match *)
                    | _ -> 0) in
          if not (try_step tid ch) then settle 10000;
          drive (fuel - 1)
        end in
      drive 10000; settle 10000;
      let evs = List.filteri (fun k _ -> k < List.length !st.ltrace - before) !st.ltrace in
      let nb = List.length (List.filter (function ESinkBegin _ -> true | _ -> false) evs) in
      let r = (match op.[0] with
               | 'y' -> (match List.find_opt (function ESyncEnd _ -> true | _ -> false) evs with
                         | Some (ESyncEnd (_, ok)) -> if ok then "1" else "0" | _ -> "?")
               | 'X' ->
                   (* the flush calls every sink of the snapshot exactly once, in registration order, whatever the others do *)
                   let nf = List.length (List.filter (function ESinkBegin (_, true) -> true | _ -> false) evs) in
                   let vec n d = if n = 0 then "-" else String.make n d in
                   if nf = 0 then "1:" ^ vec na '0' ^ "/" ^ vec ns '0'
                   else if nf = na + ns then "1:" ^ vec na '1' ^ "/" ^ vec ns '1'
                   else "1:?"
               | _ -> "-") in
      out := Printf.sprintf "%d:%s" nb r :: !out) ops;
  List.rev !out

(* ---- event traces *)
let parse_event (tok : string) : levent option =
  match String.split_on_char ':' tok with
  | ["sb"; j] -> Some (EStopBegin (nat_of_int (int_of_string j)))
  | ["sr"; j; ms] -> Some (EStopReturn (nat_of_int (int_of_string j), int_of_string ms < 4500))
  | ["kb"; f] -> Some (ESinkBegin (O, f = "1"))
  | ["ke"] -> Some (ESinkEnd O)
  | ["yb"; j] -> Some (ESyncBegin (nat_of_int (int_of_string j)))
  | ["ye"; j; r] -> Some (ESyncEnd (nat_of_int (int_of_string j), r <> "0"))
  | ["to"] -> Some ETimeout
  | ["so"; j] -> Some (EStopOver (nat_of_int (int_of_string j)))
  | ["gr"; b; f] -> Some (EGoroutines (nat_of_int (int_of_string b), nat_of_int (int_of_string f)))
  | _ -> None

let handle (toks : string list) : string =
  match toks with
  | "S" :: kind :: strat :: workers :: poolcap :: sinks :: rest ->
      (match split_hash rest with
       | [ []; ops; obs ] ->
           let sinks = if sinks = "-" then [] else String.split_on_char ',' sinks in
           let gr = List.filter (fun t -> String.length t > 2 && String.sub t 0 3 = "gr:") obs in
           let obs = List.filter (fun t -> not (List.mem t gr)) obs in
           if List.mem "to" obs then "chk stuck a call of the script did not return" else
           let leak = (match gr with [g] -> (match parse_event g with
                                             | Some (EGoroutines (b, f)) -> int_of_nat f > int_of_nat b | _ -> false) | _ -> false) in
           if leak then "chk goroutine_leak " ^ String.concat " " gr else
           (* the property on the implementation's own output: nothing runs after the first Stop returned *)
           let rec after_stop seen ops obs = match ops, obs with
             | op :: ro, ob :: rb ->
                 let (n, r) = (match String.split_on_char ':' ob with n :: r :: _ -> (int_of_string n, r) | _ -> (0, "?")) in
                 if seen && n > 0 then Some ("sink_after_stop op=" ^ op ^ " sink_begins=" ^ string_of_int n)
                 else if seen && op.[0] = 'y' && r <> "0" then Some ("emitsync_after_stop op=" ^ op ^ " result=" ^ r)
                 else if op.[0] = 'y' && r = "2" then Some ("panic_escaped op=" ^ op)
                 else after_stop (seen || op = "X") ro rb
             | _ -> None in
           (match after_stop false ops obs with
            | Some v -> "chk " ^ v
            | None ->
                let model = run_script kind strat (int_of_string workers) (int_of_string poolcap) sinks ops in
                if model = obs then "ok nt"
                else
                  (* Stop's flush: every sink registered before the Stop gets the flushed matches exactly once, in the model
                     whatever the other sinks do (C18_panic_isolated_sink); a different per-sink vector is a property violation *)
                  let vec t = (match String.split_on_char ':' t with [_; _; v] -> Some v | _ -> None) in
                  let rec flush_diff ops model obs = match ops, model, obs with
                    | op :: ro, m :: rm, o :: rb ->
                        (match vec m, vec o with
                         | Some vm, Some vo when op = "X" && vm <> "?" && vm <> vo -> Some (vm, vo)
                         | _ -> flush_diff ro rm rb)
                    | _ -> None in
                  match (if List.length model = List.length obs then flush_diff ops model obs else None) with
                  | Some (vm, vo) -> Printf.sprintf "chk flush_delivery per-sink invocations caused by Stop (async/sync, registration order): model=%s impl=%s" vm vo
                  | None ->
                  let poisoned = List.exists (fun o -> o = "e-7" || o = "y-7") ops || List.exists (fun s -> s.[1] = 'x') sinks in
                  let fewer = List.exists2 (fun m o -> m <> o) model obs in
                  if poisoned && fewer && List.length model = List.length obs
                     && List.for_all2 (fun m o -> int_of_string (List.hd (String.split_on_char ':' o)) <= int_of_string (List.hd (String.split_on_char ':' m))) model obs
                  then "chk panic_not_isolated model=" ^ String.concat " " model
                  else "diff script model=" ^ String.concat " " model)
       | _ -> "bad line")
  | "B" :: _ :: _ :: _ :: mode :: "#" :: evs ->
      let tr = List.filter_map parse_event evs in
      if List.length tr <> List.length evs then "bad event token" else
      let has_begin = List.exists (function ESinkBegin _ -> true | _ -> false) tr in
      let has_ret = List.exists (function EStopReturn _ -> true | _ -> false) tr in
      (match chk_C18 tr with
       | Some ClStopGrace when mode = "h" -> if has_begin then "ok nt" else "ok"
       | Some cl -> "chk " ^ string_of_lclause cl
       | None ->
           (* mode h: the sink was still blocked when Stop returned, so a return through the join is impossible: the
              monitor has then seen the sink end after the barrier (sink_running_after_stop) -- unless no sink began *)
           if has_begin && has_ret then "ok nt" else "ok")
  | "W" :: _ :: _ :: _ :: _ :: _ :: _ :: _ :: _ :: "#" :: evs
  | "P" :: _ :: _ :: _ :: _ :: "#" :: evs
  | "R" :: _ :: _ :: _ :: "#" :: evs ->
      let tr = List.filter_map parse_event evs in
      if List.length tr <> List.length evs then "bad event token" else
      if List.exists (fun t -> String.length t > 3 && String.sub t 0 3 = "ye:" && String.sub t (String.length t - 2) 2 = ":2") evs
      then "chk panic_escaped EmitSync" else
      (match chk_C18 tr with
       | Some cl -> "chk " ^ string_of_lclause cl
       | None ->
           if List.exists (function ESinkBegin _ -> true | _ -> false) tr
              && List.exists (function EStopReturn _ -> true | _ -> false) tr then "ok nt" else "ok")
  | "L" :: "#" :: evs ->
      let tr = List.filter_map parse_event evs in
      (match chk_C18 tr with
       | Some cl -> "chk " ^ string_of_lclause cl
       | None -> (match chk_literal tr with
                  | Some cl -> "chk " ^ string_of_lclause cl
                  | None -> "ok"))
  | _ -> "bad line"

let () = Registry.register "C18" handle
