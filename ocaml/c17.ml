open Model
open Util

(* C17 case lines (written by harness/c17.go):
   <mode> # <ncols> <nfields> <column names> # <out refs> # <pred> # <binding> # <rows> # <stepped obs> [# <e2e obs>]
   binding tokens, one per aggregate call of the predicate: t (trigger-only) | b<j> (reads SELECT aggregate j) |
     wrong:<fn>:<field> (harness: the i-th extracted call is not the i-th call written)
   row values: n/d | N (NULL) | A, Ap, A=n/d, Ap=n/d (absent; family nested: the dotted path is absent, with or
     without its parent section, and "=n/d" = the row carries a top-level key named like the path's leaf, which is
     not the aggregate's input) - every A.. token is a missing value for the model
   verdicts:
     chk <clause> ...   the real window's own output violates C17 on this input (extracted checker)
     chk <clause>_casefold_binding   same, the model (which follows the observed binding) produces the same output,
                        and the only unfaithful bindings are calls bound to a SELECT aggregate of the same function
                        over a column whose name differs in letter case only (finding F55)
     diff ...           extracted model and real window disagree
     ok / ok nt         equal; nt = at least one result and at least one row without a result *)

let q_of_frac (s : string) : q =
  match String.split_on_char '/' s with
  | [n; d] -> { qnum = Win.z_of_int (int_of_string n); qden = pos_of_int (int_of_string d) }
  | [n] -> { qnum = Win.z_of_int (int_of_string n); qden = XH }
  | _ -> failwith ("bad rational " ^ s)

let scale40 = pos_of_int (1 lsl 40)
let q_of_scaled (s : string) : q = { qnum = Win.z_of_int (int_of_string s); qden = scale40 }

let ref_of_tok (s : string) : gw_ref =
  let fn = (match s.[0] with
            | 'c' -> GwCount | 's' -> GwSum | 'a' -> GwAvg | 'm' -> GwMin | 'x' -> GwMax
            | _ -> failwith ("bad ref " ^ s)) in
  let f = String.sub s 1 (String.length s - 1) in
  { gr_fn = fn; gr_fld = (if f = "*" then None else Some (nat_of_int (int_of_string f))) }

let cmp_of_tok = function
  | "gt" -> CmpGt | "ge" -> CmpGe | "lt" -> CmpLt | "le" -> CmpLe | "eq" -> CmpEq | "ne" -> CmpNe
  | s -> failwith ("bad cmp " ^ s)

let rec parse_pred (toks : string list) : gw_pred * string list =
  match toks with
  | "&" :: r -> let (p, r1) = parse_pred r in let (q, r2) = parse_pred r1 in (GPAnd (p, q), r2)
  | "|" :: r -> let (p, r1) = parse_pred r in let (q, r2) = parse_pred r1 in (GPOr (p, q), r2)
  | a :: c :: l :: r -> (GPAtom (ref_of_tok a, cmp_of_tok c, q_of_frac l), r)
  | _ -> failwith "bad predicate"

let key_of_tok (s : string) : n list =
  if s = "-" then [] else List.map (fun x -> n_of_int (int_of_string x)) (String.split_on_char ',' s)

let rec take n l = if n = 0 then ([], l) else
    (match l with x :: r -> let (a, b) = take (n - 1) r in (x :: a, b) | [] -> failwith "short section")

let rec parse_rows nf toks =
  match toks with
  | [] -> []
  | k :: r ->
      let (vs, r') = take nf r in
      { gw_key = key_of_tok k;
        gw_vals = List.map (fun v -> if v = "N" || (v <> "" && v.[0] = 'A') then None else Some (q_of_frac v)) vs } :: parse_rows nf r'

(* observed results: (row index token, key, values) *)
let rec parse_obs nouts toks =
  match toks with
  | [] -> []
  | i :: k :: r ->
      let (vs, r') = take nouts r in
      (i, k, vs) :: parse_obs nouts r'
  | _ -> failwith "bad observation"

let string_of_clause = function
  | GcFiresIff -> "fires_iff" | GcNoResultWhileFalse -> "no_result_while_false"
  | GcResultExact -> "result_exact" | GcGroupColumns -> "group_columns" | GcOneResult -> "one_result_per_row"
  | GcFiresIffSql3 -> "fires_iff_sql3vl" | GcNoResultWhileFalseSql3 -> "no_result_while_false_sql3vl"

let show_q (v : q option) = match v with
  | None -> "N"
  | Some x -> Printf.sprintf "%d/%d" (Win.int_of_z x.qnum) (int_of_pos x.qden)

(* t -> Some None ; b<j> -> Some (Some j) ; anything else -> None *)
let bind_of_tok (b : string) : nat option option =
  if b = "t" then Some None
  else if String.length b >= 2 && b.[0] = 'b' then
    (match int_of_string_opt (String.sub b 1 (String.length b - 1)) with
     | Some j when j >= 0 -> Some (Some (nat_of_int j))
     | _ -> None)
  else None

(* how call a (with binding token b) is bound: `Faithful | `Twin (a SELECT aggregate of the same function over a
   column whose name differs from the call's in letter case only) | `Other *)
let bind_kind (names : string list) (outs : gw_ref list) (a : gw_ref) (b : string) =
  match bind_of_tok b with
  | None -> `Other
  | Some None -> `Faithful
  | Some (Some j) ->
      (match List.nth_opt outs (int_of_nat j) with
       | None -> `Other
       | Some o ->
           if o = a then `Faithful
           else if o.gr_fn <> a.gr_fn then `Other
           else (match o.gr_fld, a.gr_fld with
                 | Some f, Some g ->
                     (match List.nth_opt names (int_of_nat f), List.nth_opt names (int_of_nat g) with
                      | Some nf, Some ng when nf <> ng && String.lowercase_ascii nf = String.lowercase_ascii ng -> `Twin
                      | _, _ -> `Other)
                 | _, _ -> `Other))

let handle0 (toks : string list) : string =
  match Win.split_hash toks with
  | [mode] :: (_ncols :: nf :: _names) :: outs :: pred :: bind :: rows :: obs :: rest ->
      let nf = int_of_string nf in
      let outs = List.map ref_of_tok outs in
      let nouts = List.length outs in
      let (p, left) = parse_pred pred in
      if left <> [] then "bad predicate-tail" else
      if List.exists (fun b -> bind_of_tok b = None) bind then
        "diff trigger_calls " ^ String.concat " " bind
      else
      let gbind = List.map (fun b -> match bind_of_tok b with Some x -> x | None -> None) bind in
      let cfg = { gc_outs = outs; gc_pred = p; gc_bind = gbind } in
      (* handle (below) lets only faithful and case-twin bindings through *)
      let unfaithful = not (gw_bind_okb outs (gw_calls p) gbind) in
      let h = parse_rows nf rows in
      let ob = parse_obs nouts obs in
      let bad_val = List.exists (fun (_, k, vs) -> List.exists (fun v -> v = "bad" || v = "missing") vs
                                                   || List.exists (fun x -> x = "bad" || x = "missing") (String.split_on_char ',' k)) ob in
      if List.exists (fun (i, _, _) -> i = "notamap") ob then "chk result_exact not-a-map" else
      if bad_val then "chk result_exact malformed-result " ^ String.concat " " obs else
      let res_of (_, k, vs) : gw_res = (key_of_tok k, List.map (fun v -> if v = "N" then None else Some (q_of_scaled v)) vs) in
      let per_row = List.mapi (fun i _ -> List.map res_of (List.filter (fun (j, _, _) -> j = string_of_int i) ob)) h in
      let stray = List.exists (fun (j, _, _) -> (try int_of_string j >= List.length h with _ -> true)) ob in
      if stray then "chk one_result_per_row result-without-row" else
      (* mode T: WITH(STATETTL): rest = [ttl_ms; age_0; reap_0; age_1; reap_1; ...] (what happens before row i) *)
      let (ttl_ops, ttl) =
        (match mode, rest with
         | "T", [t :: sched] ->
             let rec go rows sched = (match rows, sched with
                 | [], _ -> []
                 | r :: rt, a :: p :: st ->
                     (GtAge (Win.z_of_int (int_of_string a))) :: (if p = "1" then [GtReap] else []) @ (GtRow r :: go rt st)
                 | r :: rt, _ -> GtRow r :: go rt []) in
             (Some (go h sched), Win.z_of_int (int_of_string t))
         | _, _ -> (None, Win.z_of_int 0)) in
      let ttl_quiet = (match ttl_ops with Some ops -> gt_quiet0 ttl ops | None -> true) in
      let m = (match ttl_ops with Some ops -> gt_run0 cfg ttl ops | None -> gw_run0 cfg h) in
      let ttl_tag = (if ttl_ops <> None then " statettl_active_group_lost_rows" else "") in
      let agree = List.for_all2 (fun mo o ->
          match mo, o with
          | None, [] -> true
          | Some (k, vs), [(k', vs')] -> gw_key_eqb k k' && gw_all_close vs vs'
          | _, _ -> false) m per_row in
      (match (if ttl_quiet then chk_C17_engine cfg h per_row else None) with
       | Some cl ->
           if unfaithful && agree then Printf.sprintf "chk %s_casefold_binding" (string_of_clause cl)
           else Printf.sprintf "chk %s%s" (string_of_clause cl) ttl_tag
       | None ->
           if not agree then
             let first = ref (-1) in
             List.iteri (fun i (mo, o) ->
                 if !first < 0 then
                   (match mo, o with
                    | None, [] -> ()
                    | Some (k, vs), [(k', vs')] when gw_key_eqb k k' && gw_all_close vs vs' -> ()
                    | _, _ -> first := i)) (List.combine m per_row);
             let mo = List.nth m !first in
             Printf.sprintf "diff %s row=%d model=%s" (if ttl_ops <> None then "statettl_model_vs_window" else "model_vs_window") !first
               (match mo with None -> "none" | Some (_, vs) -> String.concat "," (List.map show_q vs))
           else
             let e2e_bad =
               (match mode, rest with
                | "E", [e] ->
                    let eo = parse_obs nouts e in
                    List.map (fun (_, k, vs) -> (k, vs)) eo <> List.map (fun (_, k, vs) -> (k, vs)) ob
                | "E", [] -> ob <> []
                | _, _ -> false) in
             if e2e_bad then "chk e2e_delivery sink-results-differ-from-window-results"
             else
               (match (if ttl_quiet then chk_C17 cfg h per_row else None) with
                | Some cl -> Printf.sprintf "chk %s%s" (string_of_clause cl)
                               (match cl with GcFiresIffSql3 | GcNoResultWhileFalseSql3 -> "" | _ -> ttl_tag)
                | None ->
                    let fired = List.exists (fun o -> o <> []) per_row
                    and quiet = List.exists (fun o -> o = []) per_row in
                    if fired && quiet then "ok nt" else "ok"))
  | _ -> "bad line"

(* If the implementation extracted other calls than those written ("wrong:..."), or bound a call to a SELECT
   aggregate that is neither the same aggregate nor its case twin, the implementation's output is still judged by
   the spec on the predicate as written (those calls taken as trigger-only): a wrong binding that changes a
   decision is reported with the failing input, not only as a disagreement. *)
let handle (toks : string list) : string =
  match Win.split_hash toks with
  | m :: ((_ :: _ :: names) as c) :: outs :: pred :: bind :: rest ->
      let calls = (try gw_calls (fst (parse_pred pred)) with _ -> []) in
      let orefs = (try List.map ref_of_tok outs with _ -> []) in
      let kinds = List.mapi (fun i b ->
          match List.nth_opt calls i with
          | Some a -> bind_kind names orefs a b
          | None -> `Other) bind in
      if List.length bind = List.length calls && not (List.mem `Other kinds) then handle0 toks
      else begin
        let shown = List.map2 (fun b k ->
            if k = `Other && bind_of_tok b <> None then "misbound:" ^ b else b) bind kinds in
        let bind' = List.map2 (fun b k -> if k = `Other then "t" else b) bind kinds in
        let sections = m :: c :: outs :: pred :: bind' :: rest in
        let toks' = List.concat (List.mapi (fun i s -> if i = 0 then s else "#" :: s) sections) in
        let v = (if List.length bind = List.length calls then handle0 toks' else "diff") in
        if String.length v >= 4 && String.sub v 0 4 = "chk " then v ^ " (and model differs: trigger_calls " ^ String.concat " " shown ^ ")"
        else "diff trigger_calls " ^ String.concat " " shown
      end
  | _ -> handle0 toks

let () = Registry.register "C17" handle
