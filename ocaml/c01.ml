open Model
open Util
open Win

let handle (toks : string list) : string =
  match toks with
  | "E" :: size :: ooo :: late :: base :: rest ->
      (match split_hash rest with
       | [ []; ops; obs ] | [ ops; obs ] when true ->
           let c = { size = zs size; ooo = zs ooo; lateness = zs late; idle = Z0 } in
           let hops = parse_ops (zs base) ops in
           let model = show_trace (run_hops c hops) in
           let impl = String.concat " " obs in
           let tbl = Hashtbl.create 64 in
           let tr = parse_trace tbl obs in
           (match chk_C01 c (zs base) tr with
            | Some clause -> "chk " ^ (string_of_clause clause)
            | None ->
               if model <> impl then "diff tumbling_trace model=" ^ model
               else if List.exists (function EvBatch b -> List.length b.b_rows >= 2 | _ -> false) tr then "ok nt" else "ok")
       | _ -> "bad line")
  | "P" :: size :: rest ->
      (match split_hash rest with
       | [ []; ops; obs ] | [ ops; obs ] when true ->
           let c = { size = zs size; ooo = Z0; lateness = Z0; idle = Z0 } in
           let rec pops = function
             | [] -> []
             | "A" :: id :: ts :: r -> PAdd (zs id, zs ts) :: pops r
             | "T" :: r -> PTrigger :: pops r
             | _ -> failwith "bad pt op" in
           let (_, evs) = prun c pst0 (pops ops) in
           let model = show_trace evs in
           let impl = String.concat " " obs in
           let tbl = Hashtbl.create 64 in
           let tr = parse_trace tbl obs in
           (match chk_C01_pt c tr with
            | Some clause -> "chk " ^ (string_of_clause clause)
            | None -> if model <> impl then "diff tumbling_pt_trace model=" ^ model else "ok nt")
       | _ -> "bad line")
  | "Q" :: rest -> Winsql.handle_q rest
  | _ -> "bad line"

let () = Registry.register "C01" handle
