open Model
open Util
open Win

(* ---- thorough tier: a sample of the very same cases is re-evaluated INSIDE Coq (vm_compute on the
   definitions the theorems are about), so that extraction + this driver are cross-checked against the
   kernel's evaluation. VERIF_COQ_OUT names the file to write, VERIF_COQ_N the sample size. ---- *)
let coq_out = (try Some (open_out (Sys.getenv "VERIF_COQ_OUT")) with Not_found -> None)
let coq_n = (try int_of_string (Sys.getenv "VERIF_COQ_N") with _ -> 40)
let coq_count = ref 0
let () = match coq_out with
  | Some oc -> output_string oc "From SV Require Import Model.Tumbling.\nOpen Scope Z_scope.\n"
  | None -> ()
let cz z = let i = int_of_z z in if i < 0 then Printf.sprintf "(%d)" i else string_of_int i
let coq_op = function
  | Add (id, ts, now) -> Printf.sprintf "Add %s %s %s" (cz id) (cz ts) (cz now)
  | AddNoTs id -> Printf.sprintf "AddNoTs %s" (cz id)
  | Tick now -> Printf.sprintf "Tick %s" (cz now)
  | DeliverBegin -> "DeliverBegin" | FireStep -> "FireStep"
let coq_ev = function
  | EvAdd (id, ts) -> Printf.sprintf "EvAdd %s %s" (cz id) (cz ts)
  | EvNoTs id -> Printf.sprintf "EvNoTs %s" (cz id)
  | EvTick -> "EvTick" | EvDB w -> Printf.sprintf "EvDB %s" (cz w) | EvD0 -> "EvD0" | EvDE -> "EvDE"
  | EvBatch b -> Printf.sprintf "EvBatch {| b_start := %s; b_end := %s; b_rows := [%s]; b_late := %s |}" (cz b.b_start) (cz b.b_end)
                   (String.concat "; " (List.map (fun r -> Printf.sprintf "(%s, %s)" (cz (fst r)) (cz (snd r))) b.b_rows)) (if b.b_late then "true" else "false")
let coq_case (c : cfg) (hops : hop list) : unit =
  match coq_out with
  | Some oc when !coq_count < coq_n ->
      incr coq_count;
      (* expand the drain op into the deliveries the model actually performs *)
      let rec go s = function
        | [] -> ([], [])
        | HOp o :: r -> let (s1, e) = step c s o in let (ts, es) = go s1 r in (Printf.sprintf "TOp (%s)" (coq_op o) :: ts, e @ es)
        | HDeliver inj :: r -> let (s1, e) = deliver c s inj in let (ts, es) = go s1 r in
            (Printf.sprintf "TDeliver [%s]" (String.concat "; " (List.map (fun l -> "[" ^ String.concat "; " (List.map coq_op l) ^ "]") inj)) :: ts, e @ es)
        | HDrain :: r ->
            let rec drain s n tacc eacc =
              if n = 0 then (s, tacc, eacc) else
              let (s1, e) = deliver c s [] in
              if e = [EvD0] then (s1, tacc @ ["TDeliver []"], eacc @ e) else drain s1 (n - 1) (tacc @ ["TDeliver []"]) (eacc @ e) in
            let (s1, ts0, es0) = drain s 200 [] [] in
            let (ts, es) = go s1 r in (ts0 @ ts, es0 @ es) in
      let (tops, evs) = go st0 hops in
      Printf.fprintf oc "Goal snd (run_top {| size := %s; ooo := %s; lateness := %s; idle := 0 |} st0 [%s]) = [%s].\nProof. vm_compute. reflexivity. Qed.\n"
        (cz c.size) (cz c.ooo) (cz c.lateness) (String.concat "; " tops) (String.concat "; " (List.map coq_ev evs));
      flush oc
  | _ -> ()

let handle (toks : string list) : string =
  match toks with
  | "E" :: size :: ooo :: late :: base :: rest ->
      (match split_hash rest with
       | [ []; ops; obs ] | [ ops; obs ] when true ->
           let c = { size = zs size; ooo = zs ooo; lateness = zs late; idle = Z0 } in
           let hops = parse_ops (zs base) ops in
           coq_case c hops;
           let model = show_trace (run_hops c hops) in
           let impl = String.concat " " obs in
           let tbl = Hashtbl.create 64 in
           let tr = parse_trace tbl obs in
           (match chk_C01 c (zs base) tr with
            | Some clause -> "chk " ^ (string_of_clause clause)
            | None ->
               if quiet_violated c.ooo (zs base) tr then "chk watermark_not_redelivered" ^ (if model <> impl then " (and model differs)" else "") else
               if model <> impl then "diff tumbling_trace model=" ^ model
               else if List.exists (function EvBatch b -> List.length b.b_rows >= 2 | _ -> false) tr then "ok nt" else "ok")
       | _ -> "bad line")
  | "P" :: size :: rest ->
      (match split_hash rest with
       | [ []; ops; obs ] | [ ops; obs ] when true ->
           let c = { size = zs size; ooo = Z0; lateness = Z0; idle = Z0 } in
           let rec pops = function
             | [] -> []
             | "A" :: id :: ts :: r -> PAdd (zs id, zs ts) :: pops r
             | "T" :: r -> PTrigger :: pops r
             | _ -> failwith "bad pt op" in
           let (_, evs) = prun c pst0 (pops ops) in
           let model = show_trace evs in
           let impl = String.concat " " obs in
           let tbl = Hashtbl.create 64 in
           let tr = parse_trace tbl obs in
           (match chk_C01_pt c tr with
            | Some clause -> "chk " ^ (string_of_clause clause)
            | None -> if model <> impl then "diff tumbling_pt_trace model=" ^ model else "ok nt")
       | _ -> "bad line")
  | "R" :: _size :: "ok" :: _ -> "ok nt"
  | "R" :: size :: "viol" :: rest -> "chk sql_processing_time size_ms=" ^ size ^ " " ^ String.concat " " rest
  | "Q" :: rest -> Winsql.handle_q rest
  | _ -> "bad line"

let () = Registry.register "C01" handle
