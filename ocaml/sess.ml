(* Session-window helpers shared by C10 and C02: parsing keyed ops, running the model, printing traces. *)
open Model
open Util
open Win

type nhop = NHOp of nop | NHDeliver of nop list * nop list list | NHDrain

let parse_nops (now : z) (toks : string list) : nhop list =
  let rec prim = function
    | "A" :: id :: ts :: key :: r -> (NAdd (zs id, zs ts, zs key, now), r)
    | "N" :: id :: r -> (NAddNoTs (zs id), r)
    | _ -> failwith "bad primitive op"
  and prims n toks = if n = 0 then ([], toks) else
      let (o, r) = prim toks in let (os, r') = prims (n - 1) r in (o :: os, r')
  and lists n toks = if n = 0 then ([], toks) else
      (match toks with
       | m :: r -> let (l, r') = prims (int_of_string m) r in
                   let (ls, r'') = lists (n - 1) r' in (l :: ls, r'')
       | [] -> failwith "bad injection list")
  and go = function
    | [] -> []
    | "E" :: m :: r ->
        let (pre, r') = prims (int_of_string m) r in
        (match r' with
         | "D" :: n :: r'' -> let (ls, r3) = lists (int_of_string n) r'' in NHDeliver (pre, ls) :: go r3
         | _ -> failwith "E without D")
    | "D" :: n :: r -> let (ls, r') = lists (int_of_string n) r in NHDeliver ([], ls) :: go r'
    | "K" :: r -> NHOp (NTick now) :: go r
    | "X" :: r -> NHDrain :: go r
    | toks -> let (o, r) = prim toks in NHOp o :: go r in
  go toks

let show_sev (e : sev) : string =
  match e with
  | SvAdd (id, ts, k) -> Printf.sprintf "a %d %d %d" (int_of_z id) (int_of_z ts) (int_of_z k)
  | SvNoTs id -> Printf.sprintf "n %d" (int_of_z id)
  | SvTick -> "k"
  | SvDB w -> Printf.sprintf "db %d" (int_of_z w)
  | SvD0 -> "d0"
  | SvDE -> "de"
  | SvBatch (k, s, e, rows) ->
      Printf.sprintf "b %d %d %d %d%s" (int_of_z k) (int_of_z s) (int_of_z e) (List.length rows)
        (String.concat "" (List.map (fun r -> " " ^ string_of_int (int_of_z (kid r))) rows))
let show_strace l = String.concat " " (List.map show_sev l)

let run_nhops (c : ncfg) (hops : nhop list) : sev list =
  let rec adds s = function [] -> (s, []) | o :: r -> let (s1, e) = nstep c s o in let (s2, e2) = adds s1 r in (s2, e @ e2) in
  let deliver s pre =
    let (s1, e1) = nstep c s NDeliverBegin in
    if e1 = [SvD0] then (s1, e1) else
    let (s2, e2) = adds s1 pre in
    let (s3, e3) = nstep c s2 NFire in (s3, e1 @ e2 @ e3) in
  let rec go s = function
    | [] -> []
    | NHOp o :: r -> let (s1, e) = nstep c s o in e @ go s1 r
    | NHDeliver (pre, _) :: r -> let (s1, e) = deliver s pre in e @ go s1 r
    | NHDrain :: r ->
        let rec drain s n acc =
          if n = 0 then (s, acc) else
          let (s1, e) = deliver s [] in
          if e = [SvD0] then (s1, acc @ e) else drain s1 (n - 1) (acc @ e) in
        let (s1, e) = drain s 200 [] in e @ go s1 r in
  go nst0 hops

let parse_strace (tbl : (int, z * z) Hashtbl.t) (toks : string list) : sev list =
  let rec take n l = if n = 0 then ([], l) else
      (match l with x :: r -> let (a, b) = take (n - 1) r in (x :: a, b) | [] -> failwith "short batch") in
  let rec go = function
    | [] -> []
    | "a" :: id :: ts :: k :: r -> Hashtbl.replace tbl (int_of_string id) (zs ts, zs k); SvAdd (zs id, zs ts, zs k) :: go r
    | "n" :: id :: r -> SvNoTs (zs id) :: go r
    | "k" :: r -> SvTick :: go r
    | "db" :: w :: r -> SvDB (zs w) :: go r
    | "d0" :: r -> SvD0 :: go r
    | "de" :: r -> SvDE :: go r
    | "b" :: k :: s :: e :: n :: r ->
        let (ids, r') = take (int_of_string n) r in
        let rows = List.map (fun i ->
            let (ts, key) = (try Hashtbl.find tbl (int_of_string i) with Not_found -> (z_of_int (-1), z_of_int (-1))) in
            ((zs i, ts), key)) ids in
        SvBatch (zs k, zs s, zs e, rows) :: go r'
    | t :: _ -> failwith ("bad trace token " ^ t) in
  go toks

let string_of_nclause = function
  | NWrongKey -> "wrong_key" | NUnknownRow -> "unknown_row" | NTwice -> "twice"
  | NEndNotLatestPlusTimeout -> "end_not_latest_plus_timeout" | NStartNotEarliest -> "start_not_earliest"
  | NGapNotSplit -> "gap_not_split" | NSplitWithinTimeout -> "split_within_timeout" | NEarlyDelivery -> "early_delivery"
  | NWatermarkOrigin -> "watermark_origin" | NOnTimeLost -> "on_time_lost" | NLateUpdateShape -> "late_update_shape"
  | NFarFuture -> "far_future"
