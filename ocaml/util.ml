(* Conversions between text tokens and the extracted datatypes (Model.positive / n / z / nat). *)
open Model

let rec pos_of_int (i : int) : positive =
  if i = 1 then XH else if i land 1 = 0 then XO (pos_of_int (i lsr 1)) else XI (pos_of_int (i lsr 1))
let n_of_int (i : int) : n = if i = 0 then N0 else Npos (pos_of_int i)
let rec int_of_pos = function XH -> 1 | XO p -> 2 * int_of_pos p | XI p -> 2 * int_of_pos p + 1
let int_of_n = function N0 -> 0 | Npos p -> int_of_pos p
let rec nat_of_int i = if i = 0 then O else S (nat_of_int (i - 1))
let rec int_of_nat = function O -> 0 | S n -> 1 + int_of_nat n

(* hex token ("-" = empty) <-> list of bytes (as n) *)
let bytes_of_hex (s : string) : n list =
  if s = "-" then [] else
  let l = String.length s / 2 in
  List.init l (fun i -> n_of_int (int_of_string ("0x" ^ String.sub s (2 * i) 2)))
let hex_of_bytes (b : n list) : string =
  if b = [] then "-" else String.concat "" (List.map (fun x -> Printf.sprintf "%02x" (int_of_n x)) b)

let split_ws (s : string) : string list =
  List.filter (fun x -> x <> "") (String.split_on_char ' ' s)

let b01 b = if b then "1" else "0"
