(* C04 (GROUP BY key encoders / grouping) -- also the parsing shared with C09.
   value tokens:  m (field missing)  n (NULL)  s<hex> / s- (string)  i<dec> (integral number)
                  f<hex of the rendered float>  b0 / b1
   lines:
     K <site> <ncols> v.. <hex key>                         one key of a real encoder
     P <site> <ncols> v.. # w.. # <hex key of v..> <hex key of w..>   two tuples through one real encoder (neighbourhood
                                                            search of harness/c04float.go): judged by tuple equality
     G <tag> <ncols> <nrows> {id v..} # {v.. count nids ids..}      results of ONE batch
     B <tag> <ncols> <nrows> {id v..} # {nids ids..}                batches of a keyed window
     T <tag> <N> <ncols> <nrows> {id v..} # {v.. count first last nids ids..}  per-key every N-th row fires
     N <tag> <T|G> <N> <ncols> <nrows> {id v..}                     output naming (harness/c04names.go):
       # <nquals> {qual} <ncols> {gf} <nsel> {expr alias} <naggs> {agg} <nsys> {sys}      the query's names (hex)
       # { <nnames> {name} <ngv> {name v} count first last nids ids.. }                   every column of every row
       the output names are computed by the MODEL (kn_outs); each row's exact name set is judged by the extracted
       chk_row_names, then the tuple read under the output names goes through the T / G judgement *)
open Model
open Util

let zs = Win.zs
let int_of_z = Win.int_of_z

let parse_value (tok : string) : kvalue option =
  let rest = String.sub tok 1 (String.length tok - 1) in
  match tok.[0] with
  | 'm' -> None
  | 'n' -> Some KNull
  | 's' -> Some (KStr (bytes_of_hex rest))
  | 'i' -> Some (KInt (zs rest))
  | 'f' -> Some (KFlt (bytes_of_hex rest))
  | 'b' -> Some (KBool (rest = "1"))
  | _ -> failwith ("bad value token " ^ tok)

let rec take n l = if n = 0 then ([], l) else
    (match l with x :: r -> let (a, b) = take (n - 1) r in (x :: a, b) | [] -> failwith "short line")

let parse_rows (ncols : int) (nrows : int) (toks : string list) : krow list * string list =
  let rec go n toks = if n = 0 then ([], toks) else
      (match toks with
       | id :: r -> let (vs, r') = take ncols r in
                    let (rows, r'') = go (n - 1) r' in
                    ({ krid = zs id; kvals = List.map parse_value vs } :: rows, r'')
       | [] -> failwith "short rows") in
  go nrows toks

let tuple_of_toks (vs : string list) : kvalue list =
  List.map (fun t -> match parse_value t with Some v -> v | None -> KNull) vs

let rec parse_idlists (toks : string list) : z list list =
  match toks with
  | [] -> []
  | n :: r -> let (ids, r') = take (int_of_string n) r in List.map zs ids :: parse_idlists r'

(* results: v*ncols count [first last] nids ids.. *)
let rec parse_results (ncols : int) (fl : bool) (toks : string list) : gres list =
  match toks with
  | [] -> []
  | _ ->
      let (vs, r) = take ncols toks in
      (match r with
       | c :: r1 ->
           let (f, l, r2) = if fl then (match r1 with f :: l :: r2 -> (zs f, zs l, r2) | _ -> failwith "short result")
                            else (Z0, Z0, r1) in
           (match r2 with
            | n :: r3 -> let (ids, r4) = take (int_of_string n) r3 in
                         { g_tuple = tuple_of_toks vs; g_count = zs c; g_ids = List.map zs ids; g_first = f; g_last = l }
                         :: parse_results ncols fl r4
            | [] -> failwith "short result")
       | [] -> failwith "short result")

let string_of_gclause = function
  | GUnknownRow -> "unknown_row" | GMerged -> "merged" | GTupleName -> "tuple_name" | GMembership -> "membership"
  | GSplit -> "split" | GMissingGroup -> "missing_group" | GCount -> "count" | GBatchSize -> "batch_size"
  | GIthBatch -> "ith_batch" | GTwice -> "twice" | GFirstLast -> "first_last"

let show_ids (l : z list) = String.concat "," (List.map (fun i -> string_of_int (int_of_z i)) l)
let show_batches (bs : z list list) = String.concat " / " (List.map show_ids bs)

let first_id (ids : z list) = match ids with [] -> min_int | i :: _ -> int_of_z i
let sort_by_first (l : (kvalue list * z list) list) = List.sort (fun (_, a) (_, b) -> compare (first_id a) (first_id b)) l

let distinct_tuples (rows : krow list) : int =
  List.length (List.fold_left (fun acc r -> let t = ktuple_of r in
                                if List.exists (fun u -> ktuple_eqb u t) acc then acc else t :: acc) [] rows)

(* model = implementation for a "per key every N-th row fires" observation, delivery order *)
let counting_verdict (n : int) (rows : krow list) (impl : z list list) : string option =
  let model = List.map (fun (_, rs) -> List.map (fun r -> r.krid) rs) (cw_run (nat_of_int n) rows) in
  if model <> impl then Some ("diff counting_batches model=" ^ show_batches model) else None

(* ---- output naming (N lines) ---------------------------------------------------------------- *)
let string_of_nclause = function NColumnMissing -> "column_missing" | NColumnExtra -> "column_extra"

let show_name (b : n list) : string =
  if b = [] then "''" else
  String.concat "" (List.map (fun x -> let c = int_of_n x in
                                if c > 32 && c < 127 && c <> 124 && c <> 44 then String.make 1 (Char.chr c)
                                else Printf.sprintf "\\x%02x" c) b)
let show_names (l : n list list) : string = if l = [] then "-" else String.concat "," (List.map show_name l)

let take_n (toks : string list) : string list * string list =
  match toks with n :: r -> take (int_of_string n) r | [] -> failwith "short section"

let rec pair_up = function a :: b :: r -> (a, b) :: pair_up r | [] -> [] | _ -> failwith "odd pairs"

type nres = { nr_names : n list list; nr_gv : (n list * kvalue) list; nr_res : gres }

let rec parse_nresults (toks : string list) : (n list list * (n list * string) list * string list) list =
  match toks with
  | [] -> []
  | _ ->
      let (names, r) = take_n toks in
      (match r with
       | ngv :: r1 ->
           let (gv, r2) = take (2 * int_of_string ngv) r1 in
           (match r2 with
            | c :: f :: l :: r3 ->
                let (ids, r4) = take_n r3 in
                (List.map bytes_of_hex names, List.map (fun (a, b) -> (bytes_of_hex a, b)) (pair_up gv), c :: f :: l :: ids)
                :: parse_nresults r4
            | _ -> failwith "short nresult")
       | [] -> failwith "short nresult")

let same_name_set (a : n list list) (b : n list list) : bool =
  List.sort_uniq compare a = List.sort_uniq compare b

(* the judgement of a "per key every N-th row fires" observation / of the results of one batch *)
let judge_T (n : int) (rows : krow list) (res : gres list) : string option =
  match chk_C09_sql (nat_of_int n) rows res with
  | Some c -> Some ("chk " ^ string_of_gclause c)
  | None -> counting_verdict n rows (List.map (fun g -> g.g_ids) res)

let judge_G (rows : krow list) (res : gres list) : string option =
  match chk_C04 rows res with
  | Some c -> Some ("chk " ^ string_of_gclause c)
  | None ->
      let model = sort_by_first (List.map (fun (t, rs) -> (t, List.map (fun r -> r.krid) rs)) (kgroup rows)) in
      let impl = sort_by_first (List.map (fun g -> (g.g_tuple, g.g_ids)) res) in
      if List.length model <> List.length impl
         || not (List.for_all2 (fun (t, a) (u, b) -> ktuple_eqb t u && a = b) model impl)
      then Some ("diff groups model=" ^ show_batches (List.map snd model)) else None

let handle_names (mode : string) (n : int) (ncols : int) (rows : krow list) (q : string list) (obs : string list) : string =
  let (quals, q1) = take_n q in
  let (gfs, q2) = take_n q1 in
  let (sel, q3) = (match q2 with k :: r -> take (2 * int_of_string k) r | [] -> failwith "short naming") in
  let (aggs, q4) = take_n q3 in
  let (sys, _) = take_n q4 in
  let quals = List.map bytes_of_hex quals and gfs = List.map bytes_of_hex gfs
  and sel = List.map (fun (a, b) -> (bytes_of_hex a, bytes_of_hex b)) (pair_up sel)
  and aggs = List.map bytes_of_hex aggs and sys = List.map bytes_of_hex sys in
  if List.length gfs <> ncols then "bad line" else
  (* the model: names of the grouping columns, and the columns of a projected row (no value is looked at) *)
  let outs = kn_outs sel quals gfs in
  let mnames = List.map fst (kn_result gfs outs (List.map (fun _ -> KNull) gfs) (List.map (fun a -> (a, KNull)) aggs)) in
  let results = parse_nresults obs in
  let bad = List.filter_map (fun (names, _, tail) ->
      match chk_row_names outs aggs sys names with
      | None -> None
      | Some c ->
          let user = List.filter (fun x -> not (List.mem x sys)) names in
          Some (Printf.sprintf "chk %s missing=%s extra=%s row_ids=%s model_agrees=%s" (string_of_nclause c)
                  (show_names (row_names_missing outs aggs names)) (show_names (row_names_extra outs aggs sys names))
                  (match tail with _ :: _ :: _ :: ids -> String.concat "," ids | _ -> "?")
                  (b01 (same_name_set user mnames)))) results in
  match bad with
  | v :: _ -> v
  | [] ->
      (* (here every row has exactly the demanded names; by C04_projected_row_passes_checker so has the model
         unless the query is outside kn_compatible, where the model must still agree with the implementation) *)
      let disagree = List.filter (fun (names, _, _) ->
          not (same_name_set (List.filter (fun x -> not (List.mem x sys)) names) mnames)) results in
      if disagree <> [] then "diff row_names model=" ^ show_names mnames else
      let res = List.map (fun (_, gv, tail) ->
          let tuple = List.map (fun o -> match List.assoc_opt o gv with
                                         | Some tok -> (match parse_value tok with Some v -> v | None -> KNull)
                                         | None -> KStr (bytes_of_hex "3f616273656e74")) outs in
          match tail with
          | c :: f :: l :: ids -> { g_tuple = tuple; g_count = zs c; g_ids = List.map zs ids; g_first = zs f; g_last = zs l }
          | _ -> failwith "short nresult") results in
      let verdict = (match mode with "T" -> judge_T n rows res | "G" -> judge_G rows res | _ -> Some "bad line") in
      match verdict with
      | Some v -> v
      | None ->
          (* non-trivial: a renamed column, a NULL/missing value in a renamed column, >= 2 tuples, some result *)
          let renamed = List.mapi (fun i o -> (i, o <> List.nth gfs i)) outs in
          let null_in_renamed = List.exists (fun r ->
              List.exists (fun (i, rn) -> rn && (match List.nth r.kvals i with None | Some KNull -> true | _ -> false)) renamed) rows in
          if null_in_renamed && distinct_tuples rows >= 2 && res <> [] then "ok nt" else "ok"

(* a value / a tuple as a reader writes it *)
let show_text (b : n list) : string =
  String.concat "" (List.map (fun x -> let c = int_of_n x in
                                if c >= 32 && c < 127 && c <> 34 && c <> 92 then String.make 1 (Char.chr c)
                                else Printf.sprintf "\\x%02x" c) b)
let show_value (v : kvalue) : string =
  match v with
  | KNull -> "NULL"
  | KStr s -> "\"" ^ show_text s ^ "\""
  | KInt z -> show_text (k_dec_Z z)
  | KFlt t -> show_text t
  | KBool b -> if b then "true" else "false"
let show_tuple (t : kvalue list) : string = "(" ^ String.concat "," (List.map show_value t) ^ ")"

let site_key (site : string) (row : krow) : n list =
  match site with
  | "agg" -> agg_key row | "cnt" -> cnt_key row | "ses" -> ses_key row | "glb" -> glb_key row
  | "part" -> k_key_part (List.hd (ktuple_of row))
  | _ -> failwith "bad site"

let handle (toks : string list) : string =
  match toks with
  | "P" :: site :: ncols :: rest ->
      let ncols = int_of_string ncols in
      let (vs, r) = take ncols rest in
      (match r with
       | "#" :: r1 ->
           let (ws, r2) = take ncols r1 in
           (match r2 with
            | [ "#"; ka; kb ] ->
                let ra = { krid = Z0; kvals = List.map parse_value vs } and rb = { krid = Z0; kvals = List.map parse_value ws } in
                let ta = ktuple_of ra and tb = ktuple_of rb in
                let teq = ktuple_eqb ta tb and keq = (ka = kb) in
                (* the model's keys: equal exactly when the tuples are (C04 injectivity theorems), except for a pair
                   outside the quantifier (two scalar kinds in one column of a text-keyed window), which is not judged *)
                let meq = (site_key site ra = site_key site rb) in
                if teq && not keq then
                  Printf.sprintf "chk key_split site=%s %s has the keys %s and %s" site (show_tuple ta) ka kb
                else if (not teq) && keq && not meq then
                  Printf.sprintf "chk key_collision site=%s %s %s share the key %s" site (show_tuple ta) (show_tuple tb) ka
                else if teq <> meq then "ok"
                else if not teq then "ok nt" else "ok"
            | _ -> "bad line")
       | _ -> "bad line")
  | "K" :: site :: ncols :: rest ->
      let ncols = int_of_string ncols in
      let (vs, r) = take ncols rest in
      let impl = (match r with [h] -> h | _ -> failwith "bad K line") in
      let row = { krid = Z0; kvals = List.map parse_value vs } in
      let model = site_key site row in
      if hex_of_bytes model <> impl then "diff key_" ^ site ^ " model=" ^ hex_of_bytes model
      else if List.exists (fun t -> t = "m" || t = "n" || String.length t > 3) vs then "ok nt" else "ok"
  | "G" :: _tag :: ncols :: nrows :: rest ->
      let ncols = int_of_string ncols in
      let (rows, r) = parse_rows ncols (int_of_string nrows) rest in
      (match r with
       | "#" :: obs ->
           let res = parse_results ncols false obs in
           (match chk_C04 rows res with
            | Some c -> "chk " ^ string_of_gclause c
            | None ->
                let model = sort_by_first (List.map (fun (t, rs) -> (t, List.map (fun r -> r.krid) rs)) (kgroup rows)) in
                let impl = sort_by_first (List.map (fun g -> (g.g_tuple, g.g_ids)) res) in
                if List.length model <> List.length impl
                   || not (List.for_all2 (fun (t, a) (u, b) -> ktuple_eqb t u && a = b) model impl)
                then "diff groups model=" ^ show_batches (List.map snd model)
                else if distinct_tuples rows >= 2 && List.exists (fun (_, ids) -> List.length ids >= 2) impl then "ok nt" else "ok")
       | _ -> "bad line")
  | "B" :: _tag :: ncols :: nrows :: rest ->
      let ncols = int_of_string ncols in
      let (rows, r) = parse_rows ncols (int_of_string nrows) rest in
      (match r with
       | "#" :: obs ->
           let batches = parse_idlists obs in
           (match chk_C04_win rows batches with
            | Some c -> "chk " ^ string_of_gclause c
            | None ->
                (* model: one entry per key of the sessions map; implementation: its batches merged per tuple *)
                let model = sort_by_first (List.map (fun (t, rs) -> (t, List.map (fun r -> r.krid) rs)) (kgroup_by ses_key rows)) in
                let tuple_of_batch b = (match b with i :: _ -> ktuple_of (List.find (fun r -> r.krid = i) rows) | [] -> []) in
                let merged = List.fold_left (fun acc b ->
                    let t = tuple_of_batch b in
                    if List.exists (fun (u, _) -> ktuple_eqb u t) acc
                    then List.map (fun (u, ids) -> if ktuple_eqb u t then (u, ids @ b) else (u, ids)) acc
                    else acc @ [(t, b)]) [] batches in
                let norm l = sort_by_first (List.map (fun (t, ids) -> (t, List.sort compare ids)) l) in
                if norm model <> norm merged then "diff session_keys model=" ^ show_batches (List.map snd model)
                else if distinct_tuples rows >= 2 then "ok nt" else "ok")
       | _ -> "bad line")
  | "T" :: _tag :: n :: ncols :: nrows :: rest ->
      let n = int_of_string n and ncols = int_of_string ncols in
      let (rows, r) = parse_rows ncols (int_of_string nrows) rest in
      (match r with
       | "#" :: obs ->
           let res = parse_results ncols true obs in
           (match chk_C09_sql (nat_of_int n) rows res with
            | Some c -> "chk " ^ string_of_gclause c
            | None ->
                (match counting_verdict n rows (List.map (fun g -> g.g_ids) res) with
                 | Some d -> d
                 | None -> if distinct_tuples rows >= 2 && res <> [] then "ok nt" else "ok"))
       | _ -> "bad line")
  | "N" :: _tag :: mode :: n :: ncols :: nrows :: rest ->
      let n = int_of_string n and ncols = int_of_string ncols in
      let (rows, r) = parse_rows ncols (int_of_string nrows) rest in
      (match Win.split_hash r with
       | [ []; q; obs ] -> handle_names mode n ncols rows q obs
       | _ -> "bad line")
  | _ -> "bad line"

let () = Registry.register "C04" handle
