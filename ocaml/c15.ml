(* C15 — MATCH_RECOGNIZE: one case line (see harness/c15.go for the format) -> verdict.
   Per partition the implementation's reported matches are judged by the extracted checker
   chk_C15 (run / valid / longest / skip / number / omitted) and compared with the extracted
   reference matcher ref_part. Family S (sparse rows): the same, on rows that lack column c (class
   code 5) or column v (v = n); with bare = 1 the bare-column MEASURES of every record are compared
   with the extracted bare_obs of the match's rows. *)
open Model
open Util
open Win

let string_of_cep_clause = function
  | ClRun -> "run" | ClValid -> "valid" | ClLongest -> "longest" | ClSkip -> "skip"
  | ClNumber -> "number" | ClOmitted -> "omitted"

let rec ppat (toks : string list) : spat * string list =
  match toks with
  | "L" :: v :: r -> (SLit (n_of_int (int_of_string v)), r)
  | "S" :: r -> let (a, r1) = ppat r in let (b, r2) = ppat r1 in (SSeq (a, b), r2)
  | "U" :: r -> let (a, r1) = ppat r in let (b, r2) = ppat r1 in (SAlt (a, b), r2)
  | "R" :: mn :: mx :: r ->
      let (a, r1) = ppat r in
      let mx = int_of_string mx in
      (SRep (nat_of_int (int_of_string mn), (if mx < 0 then None else Some (nat_of_int mx)), a), r1)
  | "M" :: k :: r ->
      let rec go n toks = if n = 0 then ([], toks) else
          let (a, r1) = ppat toks in let (l, r2) = go (n - 1) r1 in (a :: l, r2) in
      let (l, r1) = go (int_of_string k) r in (SPermute l, r1)
  | _ -> failwith "bad pattern"

let rec pdefs = function
  | [] -> []
  | m :: c :: r -> { d_mask = n_of_int (int_of_string m); d_cmp = n_of_int (int_of_string c) } :: pdefs r
  | _ -> failwith "bad defs"

let rec prows id = function
  | [] -> []
  | p :: cl :: v :: ts :: r ->
      (* class code 5 = column c absent / NULL; v = n: column v absent / NULL *)
      (n_of_int (int_of_string p), { r_id = z_of_int id; r_cls = n_of_int (int_of_string cl);
                                     r_v = (if v = "n" then z_of_int 0 else zs v); r_ts = zs ts; r_vnull = (v = "n") })
      :: prows (id + 1) r
  | _ -> failwith "bad rows"

(* impl output: part mn f l n *)
let rec pouts = function
  | [] -> []
  | p :: mn :: f :: l :: n :: r ->
      (int_of_string p, (((nat_of_int (int_of_string mn), zs f), zs l), nat_of_int (int_of_string n))) :: pouts r
  | _ -> failwith "bad outs"

let show_obs (l : cobs list) : string =
  String.concat "," (List.map (fun (((mn, f), l), n) ->
      Printf.sprintf "(%d:%d-%d/%d)" (int_of_nat mn) (int_of_z f) (int_of_z l) (int_of_nat n)) l)

(* ------------------------------------------------------------------ family K (labelled runs) *)
let rec pkdefs = function
  | [] -> []
  | m :: c :: k :: x :: a :: r ->
      { a_base = { d_mask = n_of_int (int_of_string m); d_cmp = n_of_int (int_of_string c) };
        a_kind = n_of_int (int_of_string k); a_var = n_of_int (int_of_string x); a_k = zs a } :: pkdefs r
  | _ -> failwith "bad defs"

(* one output row: part mn f l n cl, then nv times (mask cnt sum min max last) *)
type krec = { kp : int; kmn : int; kf : int; kl : int; kn : int; kcl : int; kvars : int list list }

let rec take n l = if n = 0 then ([], l) else
    match l with x :: r -> let (a, b) = take (n - 1) r in (x :: a, b) | [] -> failwith "short output record"

let rec pkouts nv toks =
  match toks with
  | [] -> []
  | p :: mn :: f :: l :: n :: cl :: r ->
      let rec vars k r = if k = 0 then ([], r) else
          let (a, r1) = take 6 r in let (l, r2) = vars (k - 1) r1 in (List.map int_of_string a :: l, r2) in
      let (vs, r1) = vars nv r in
      { kp = int_of_string p; kmn = int_of_string mn; kf = int_of_string f; kl = int_of_string l;
        kn = int_of_string n; kcl = int_of_string cl; kvars = vs } :: pkouts nv r1
  | _ -> failwith "bad outs"

let label_names = [| "A"; "B"; "C"; "D" |]
let show_labels (w : int list) = String.concat "" (List.map (fun v -> if v >= 0 && v < 4 then label_names.(v) else "?") w)

exception Kfail of string

(* the classification a record reports for the rows a .. a+n-1 of its partition: row i carries the
   weight 2^i, SUM(X.w) is the set of rows labelled X; every row must be in exactly one set *)
let decode_labels (r : krec) (a : int) : int list =
  let masks = List.map (fun v -> List.nth v 0) r.kvars in
  let all = List.fold_left (lor) 0 masks in
  let want = ((1 lsl r.kn) - 1) lsl a in
  if all <> want || List.fold_left (+) 0 masks <> want then
    raise (Kfail (Printf.sprintf "measure SUM(X.w) of match %d (ids %d-%d) do not partition its rows: %s" r.kmn r.kf r.kl
                    (String.concat "," (List.map string_of_int masks))));
  List.init r.kn (fun i ->
      let rec find x = function [] -> -1 | m :: t -> if m land (1 lsl (a + i)) <> 0 then x else find (x + 1) t in
      find 0 masks)

let handle_k (toks : string list) : string =
  match toks with
  | mode :: skip :: skipvar :: within :: rest ->
      (match split_hash rest with
       | [ []; pt; ds; rs; os ] ->
           let (sp, left) = ppat pt in
           if left <> [] then "bad pattern tail" else
           let sv = n_of_int (int_of_string skipvar) in
           let sk = (match skip with "P" -> SkPast | "N" -> SkNext | "F" -> SkFirst sv
                                   | "L" | "V" -> SkLast sv | _ -> failwith "bad skip") in
           let (nv, defs) = (match ds with n :: r -> (int_of_string n, pkdefs r) | [] -> failwith "bad defs") in
           let c = { l_pat = desugar sp; l_defs = defs; l_skip = sk; l_within = zs within } in
           let s = prows 1 rs in
           let recs = pkouts nv os in
           let parts = List.sort_uniq compare (List.map (fun (p, _) -> int_of_n p) s) in
           let verdict = ref "" and nt = ref false in
           List.iter (fun p ->
               if !verdict = "" then begin
                 let rows = part_rows (n_of_int p) s in
                 let arr = Array.of_list rows in
                 let pos_of id = let r = ref (-1) in Array.iteri (fun i x -> if int_of_z x.r_id = id then r := i) arr; !r in
                 let mine = List.filter (fun r -> r.kp = p) recs in
                 let shown = ref [] in
                 (try
                    (* every record: a run of rows of the partition, labels, measures of that labelling *)
                    let judged = List.map (fun r ->
                        let a = pos_of r.kf and b = pos_of r.kl in
                        if a < 0 || b < 0 || r.kn < 1 || b <> a + r.kn - 1 then
                          raise (Kfail (Printf.sprintf "run match %d ids %d-%d count %d is not a run of the partition" r.kmn r.kf r.kl r.kn));
                        let w = decode_labels r a in
                        let seg = Array.to_list (Array.sub arr a r.kn) in
                        (* X.id is read off the whole match also on the earlier rows of ALL ROWS PER MATCH
                           (cep/eval.go resolveSymbolField scans all labels): judged with the whole match below *)
                        let obs = List.mapi (fun xi -> function [ _; c; s; i; x; l ] ->
                            let l = if mode = "O" then z_of_int l
                              else (match lmeas seg (List.map n_of_int w) (n_of_int xi) with (_, l') -> l') in
                            ((((z_of_int c, z_of_int s), z_of_int i), z_of_int x), l) | _ -> failwith "bad var record") r.kvars in
                        if not (lmeas_ok seg (List.map n_of_int w) (n_of_int (max r.kcl 0)) obs) || r.kcl < 0 then
                          raise (Kfail (Printf.sprintf "measure match %d ids %d-%d labelled %s: CLASSIFIER()=%s, (COUNT SUM MIN(id) MAX(id) X.id) per variable = %s are not those of that labelling"
                                          r.kmn r.kf r.kl (show_labels w) (show_labels [r.kcl])
                                          (String.concat " " (List.map (function _ :: t -> "(" ^ String.concat "," (List.map string_of_int t) ^ ")" | [] -> "") r.kvars))));
                        (r, w)) mine in
                    (* ALL ROWS PER MATCH: the records of one match are its prefixes 1..k (RUNNING measures) *)
                    let matches =
                      if mode = "O" then judged
                      else begin
                        let rec group cur acc = function
                          | [] -> List.rev (match cur with Some x -> x :: acc | None -> acc)
                          | ((r, w) as x) :: t ->
                              (match cur with
                               | Some (r0, w0) when r.kn > 1 ->
                                   if List.map (fun v -> List.nth v 5) r.kvars <> List.map (fun v -> List.nth v 5) r0.kvars then
                                     raise (Kfail (Printf.sprintf "measure ALL ROWS PER MATCH: X.id differs between the rows of match %d" r.kmn));
                                   let rec is_prefix a b = match a, b with [], _ -> true | x :: s, y :: u -> x = y && is_prefix s u | _ -> false in
                                   if r.kmn <> r0.kmn || r.kf <> r0.kf || r.kn <> r0.kn + 1 || not (is_prefix w0 w) then
                                     raise (Kfail (Printf.sprintf "measure ALL ROWS PER MATCH: row %d of match %d (ids %d-%d, labels %s) does not continue the row before it (match %d, ids %d-%d, labels %s)"
                                                     r.kn r.kmn r.kf r.kl (show_labels w) r0.kmn r0.kf r0.kl (show_labels w0)));
                                   group (Some x) acc t
                               | Some x0 -> if r.kn <> 1 then raise (Kfail "run ALL ROWS PER MATCH: a match does not start with its first row");
                                   group (Some x) (x0 :: acc) t
                               | None -> if r.kn <> 1 then raise (Kfail "run ALL ROWS PER MATCH: a match does not start with its first row");
                                   group (Some x) acc t) in
                        group None [] judged
                      end in
                    shown := matches;
                    if mode <> "O" then List.iter (fun (r, w) ->
                        let a = pos_of r.kf in
                        let seg = Array.to_list (Array.sub arr a r.kn) in
                        List.iteri (fun xi v ->
                            match lmeas seg (List.map n_of_int w) (n_of_int xi) with (_, l') ->
                              if int_of_z l' <> List.nth v 5 then
                                raise (Kfail (Printf.sprintf "measure match %d ids %d-%d labelled %s: %s.id = %d" r.kmn r.kf r.kl (show_labels w) label_names.(xi) (List.nth v 5)))) r.kvars) matches;
                    let out = List.map (fun (r, w) ->
                        ((((nat_of_int r.kmn, z_of_int r.kf), z_of_int r.kl), nat_of_int r.kn), List.map n_of_int w)) matches in
                    (match chk_C15L c rows out with
                     | Some cl -> raise (Kfail (string_of_cep_clause cl))
                     | None -> ());
                    if List.exists (fun (r, w) -> r.kn >= 4 && List.length (List.sort_uniq compare w) >= 2) matches then nt := true
                  with Kfail m ->
                    let longest_at a = match llongest_at c (Array.to_list (Array.sub arr a (Array.length arr - a))) with
                      | Some k -> string_of_int (int_of_nat k) | None -> "none" in
                    verdict := Printf.sprintf "chk %s part=%d impl=%s longest_at_reported_starts=%s" m p
                        (String.concat "," (List.map (fun (r, w) -> Printf.sprintf "(%d:%d-%d/%d:%s)" r.kmn r.kf r.kl r.kn (show_labels w)) !shown))
                        (String.concat "," (List.map (fun (r, _) -> let a = pos_of r.kf in if a < 0 then "?" else longest_at a) !shown)))
               end) parts;
           if List.exists (fun r -> not (List.mem r.kp parts)) recs then "chk run a match of a partition without rows"
           else if !verdict <> "" then !verdict else if !nt then "ok nt" else "ok"
       | _ -> "bad line")
  | _ -> "bad line"

(* family S with bare = 1: records "part mn f l n bc bv"; the bare measures are split off *)
let rec split_bare = function
  | [] -> ([], [])
  | p :: mn :: f :: l :: n :: bc :: bv :: r ->
      let (o, b) = split_bare r in (p :: mn :: f :: l :: n :: o, (int_of_string p, int_of_string f, int_of_string n, bc, bv) :: b)
  | _ -> failwith "bad outs"

let show_bare = function
  | None -> "none"
  | Some (c, v) -> Printf.sprintf "(c=%s v=%s)" (let c = int_of_n c in if c >= 5 then "NULL" else String.make 1 "abcde".[c])
                     (match v with None -> "NULL" | Some z -> string_of_int (int_of_z z))

let handle_plain (bare : bool) (toks : string list) : string =
  match toks with
  | skip :: skipvar :: within :: rest ->
      (match split_hash rest with
       | [ []; pt; ds; rs; os ] ->
           let (sp, left) = ppat pt in
           if left <> [] then "bad pattern tail" else
           let sv = n_of_int (int_of_string skipvar) in
           let sk = (match skip with "P" -> SkPast | "N" -> SkNext | "F" -> SkFirst sv
                                   | "L" | "V" -> SkLast sv | _ -> failwith "bad skip") in
           let defs = (match ds with _ :: r -> pdefs r | [] -> failwith "bad defs") in
           let c = { c_pat = desugar sp; c_defs = defs; c_skip = sk; c_within = zs within } in
           let s = prows 1 rs in
           let (os, bares) = if bare then split_bare os else (os, []) in
           let outs = pouts os in
           let parts = List.sort_uniq compare (List.map (fun (p, _) -> int_of_n p) s) in
           let verdict = ref "" and nt = ref false in
           List.iter (fun p ->
               if !verdict = "" then begin
                 let impl = List.map snd (List.filter (fun (q, _) -> q = p) outs) in
                 let rows = part_rows (n_of_int p) s in
                 let model = ref_part c s (n_of_int p) in
                 (match chk_C15 c rows impl with
                  | Some cl -> verdict := Printf.sprintf "chk %s part=%d impl=%s ref=%s" (string_of_cep_clause cl) p (show_obs impl) (show_obs model)
                  | None -> if model <> impl then verdict := Printf.sprintf "diff part=%d impl=%s ref=%s" p (show_obs impl) (show_obs model));
                 (* MEASURES c AS bc, v AS bv: the bare columns of the LAST row of the match (NULL where it lacks them) *)
                 if !verdict = "" then
                   List.iter (fun (q, f, n, bc, bv) ->
                       if q = p && !verdict = "" then begin
                         let arr = Array.of_list rows in
                         let a = ref (-1) in
                         Array.iteri (fun i x -> if int_of_z x.r_id = f then a := i) arr;
                         let want = if !a < 0 || n < 1 || !a + n > Array.length arr then None
                           else bare_obs (Array.to_list (Array.sub arr !a n)) in
                         let got = (match int_of_string_opt bc with
                             | Some k -> (match bv with
                                 | "n" -> Some (n_of_int k, None)
                                 | _ -> (match int_of_string_opt bv with Some z -> Some (n_of_int k, Some (z_of_int z)) | None -> None))
                             | None -> None) in
                         if got = None || got <> want then
                           verdict := Printf.sprintf "chk measure part=%d match ids %d.. (%d rows): MEASURES c AS bc, v AS bv = (%s,%s), its last row has %s" p f n
                               (if bc = "5" then "NULL" else if got = None && int_of_string_opt bc = None then bc else String.make 1 "abcde?".[min 5 (int_of_string bc)])
                               (if bv = "n" then "NULL" else bv) (show_bare want)
                       end) bares;
                 if List.length impl >= 2 || List.exists (fun (_, n) -> int_of_nat n >= 2) impl then nt := true
               end) parts;
           if List.exists (fun (q, _) -> not (List.mem q parts)) outs then "chk run a match of a partition without rows"
           else if !verdict <> "" then !verdict else if !nt then "ok nt" else "ok"
       | _ -> "bad line")
  | _ -> "bad line"

let handle (toks : string list) : string =
  match toks with
  | "K" :: rest -> handle_k rest
  | "S" :: bare :: rest -> handle_plain (bare = "1") rest
  (* T <typed partition values> / W <pause>ms@<ids>: the descriptor is for the reader; the reference does
     not depend on it (partitions = distinct typed values; wall-clock pauses never matter) *)
  | ("T" | "W") :: _ :: rest -> handle_plain false rest
  | _ -> handle_plain false toks

let () = Registry.register "C15" handle
