(* C15 — MATCH_RECOGNIZE: one case line (see harness/c15.go for the format) -> verdict.
   Per partition the implementation's reported matches are judged by the extracted checker
   chk_C15 (run / valid / longest / skip / number / omitted) and compared with the extracted
   reference matcher ref_part. *)
open Model
open Util
open Win

let string_of_cep_clause = function
  | ClRun -> "run" | ClValid -> "valid" | ClLongest -> "longest" | ClSkip -> "skip"
  | ClNumber -> "number" | ClOmitted -> "omitted"

let rec ppat (toks : string list) : spat * string list =
  match toks with
  | "L" :: v :: r -> (SLit (n_of_int (int_of_string v)), r)
  | "S" :: r -> let (a, r1) = ppat r in let (b, r2) = ppat r1 in (SSeq (a, b), r2)
  | "U" :: r -> let (a, r1) = ppat r in let (b, r2) = ppat r1 in (SAlt (a, b), r2)
  | "R" :: mn :: mx :: r ->
      let (a, r1) = ppat r in
      let mx = int_of_string mx in
      (SRep (nat_of_int (int_of_string mn), (if mx < 0 then None else Some (nat_of_int mx)), a), r1)
  | "M" :: k :: r ->
      let rec go n toks = if n = 0 then ([], toks) else
          let (a, r1) = ppat toks in let (l, r2) = go (n - 1) r1 in (a :: l, r2) in
      let (l, r1) = go (int_of_string k) r in (SPermute l, r1)
  | _ -> failwith "bad pattern"

let rec pdefs = function
  | [] -> []
  | m :: c :: r -> { d_mask = n_of_int (int_of_string m); d_cmp = n_of_int (int_of_string c) } :: pdefs r
  | _ -> failwith "bad defs"

let rec prows id = function
  | [] -> []
  | p :: cl :: v :: ts :: r ->
      (n_of_int (int_of_string p), { r_id = z_of_int id; r_cls = n_of_int (int_of_string cl); r_v = zs v; r_ts = zs ts })
      :: prows (id + 1) r
  | _ -> failwith "bad rows"

(* impl output: part mn f l n *)
let rec pouts = function
  | [] -> []
  | p :: mn :: f :: l :: n :: r ->
      (int_of_string p, (((nat_of_int (int_of_string mn), zs f), zs l), nat_of_int (int_of_string n))) :: pouts r
  | _ -> failwith "bad outs"

let show_obs (l : cobs list) : string =
  String.concat "," (List.map (fun (((mn, f), l), n) ->
      Printf.sprintf "(%d:%d-%d/%d)" (int_of_nat mn) (int_of_z f) (int_of_z l) (int_of_nat n)) l)

let handle (toks : string list) : string =
  match toks with
  | skip :: skipvar :: within :: rest ->
      (match split_hash rest with
       | [ []; pt; ds; rs; os ] ->
           let (sp, left) = ppat pt in
           if left <> [] then "bad pattern tail" else
           let sv = n_of_int (int_of_string skipvar) in
           let sk = (match skip with "P" -> SkPast | "N" -> SkNext | "F" -> SkFirst sv
                                   | "L" | "V" -> SkLast sv | _ -> failwith "bad skip") in
           let defs = (match ds with _ :: r -> pdefs r | [] -> failwith "bad defs") in
           let c = { c_pat = desugar sp; c_defs = defs; c_skip = sk; c_within = zs within } in
           let s = prows 1 rs in
           let outs = pouts os in
           let verdict = ref "" and nt = ref false in
           List.iter (fun p ->
               if !verdict = "" then begin
                 let impl = List.map snd (List.filter (fun (q, _) -> q = p) outs) in
                 let rows = part_rows (n_of_int p) s in
                 let model = ref_part c s (n_of_int p) in
                 (match chk_C15 c rows impl with
                  | Some cl -> verdict := Printf.sprintf "chk %s part=%d impl=%s ref=%s" (string_of_cep_clause cl) p (show_obs impl) (show_obs model)
                  | None -> if model <> impl then verdict := Printf.sprintf "diff part=%d impl=%s ref=%s" p (show_obs impl) (show_obs model));
                 if List.length impl >= 2 || List.exists (fun (_, n) -> int_of_nat n >= 2) impl then nt := true
               end) [0; 1; 2];
           if List.exists (fun (q, _) -> q < 0 || q > 2) outs then "bad partition"
           else if !verdict <> "" then !verdict else if !nt then "ok nt" else "ok"
       | _ -> "bad line")
  | _ -> "bad line"

let () = Registry.register "C15" handle
