open Model
open Util

(* one line of the C13 case file -> verdict line
   "ok"                      model = implementation and the property's checker holds
   "diff <what>"             model and implementation disagree
   "chk <clause> <what>"     the implementation's answer violates the property on this input *)
let handle (toks : string list) : string =
  match toks with
  | ["M"; t; p; res] ->
      let t' = bytes_of_hex t and p' = bytes_of_hex p in
      let m = like_match t' p' in
      let spec = like p' t' in
      let exp3 = let c = b01 spec in c ^ c ^ c in
      if res <> exp3 then Printf.sprintf "chk like_matcher impl=%s spec=%s" res (b01 spec)
      else if m <> spec then "diff model_vs_spec"
      else if t' <> [] && List.exists (fun x -> x = pct || x = us) p' then "ok nt" else "ok"
  | ["R"; p; tag; arg] ->
      let p' = bytes_of_hex p in
      let (mt, ma) = rw_tag (convert p') in
      let mt = string_of_int (int_of_n mt) and ma = hex_of_bytes ma in
      if mt = tag && ma = arg then "ok"
      else Printf.sprintf "diff rewrite model=%s/%s impl=%s/%s" mt ma tag arg
  | ["S"; ctx; pres; t; p; res] ->
      let p' = bytes_of_hex p in
      let spec = (pres = "P") && like p' (bytes_of_hex t) in
      (* a NULL outcome of the CASE expression (operand missing) is 'not true' here; the CASE/NULL
         rule itself belongs to C06 *)
      let res' = if res = "n" then "0" else res in
      if res' = b01 spec then "ok nt"
      else Printf.sprintf "chk like_%s impl=%s spec=%s" ctx res (b01 spec)
  | ["N"; ctx; op; pres; res] ->
      let v = (match pres with "A" -> Absent | "N" -> Null | _ -> Present) in
      let spec = if op = "isnull" then is_null v else is_not_null v in
      if res = b01 spec then "ok nt"
      else Printf.sprintf "chk %s_%s impl=%s spec=%s" op ctx res (b01 spec)
  | ["K"; ctx; form; px; x; py; p; res] ->
      let p' = bytes_of_hex p in
      let lk = (px = "P") && like p' (bytes_of_hex x) in
      let ynull = (py <> "P") and xnull = (px <> "P") in
      let spec = (match form with
        | "like_and_notnull" -> lk && not ynull
        | "like_or_null" | "null_or_like" -> lk || ynull
        | "notnull_and_like_same" -> (not xnull) && lk
        | _ -> failwith "bad form") in
      (* CASE over a missing column yields NULL instead of a branch: that is C06's recorded finding
         (CASE/NULL rule), not a LIKE / IS NULL question, so such a case is not judged here *)
      if ctx = "case" && res = "n" && (px = "A" || py = "A") then "ok"
      else if res = b01 spec then "ok nt"
      else Printf.sprintf "chk combined_%s_%s impl=%s spec=%s" form ctx res (b01 spec)
  | ["I"; ctx; op; nh; pres; oh; opres; res] ->
      (* IS [NOT] NULL on a column whose NAME is part of the input (keyword fragments, letter case):
         the row {id, <name>, <other>} is handed to the model's named-column lookup *)
      let str s = List.init (String.length s) (fun i -> n_of_int (Char.code s.[i])) in
      let name = bytes_of_hex nh and other = bytes_of_hex oh in
      let cell k = function
        | "A" -> []
        | "N" -> [(k, None)]
        | "Pe" -> [(k, Some [])]
        | "Ps" -> [(k, Some (str "hello"))]
        | "Pz" -> [(k, Some (str "0"))]
        | "Pf" -> [(k, Some (str "false"))]
        | _ -> failwith "bad presence" in
      let row = [(str "id", Some (str "0"))] @ cell other opres @ cell name pres in
      let neg = (op = "isnotnull") in
      let spec = if neg then col_is_not_null name row else col_is_null name row in
      let model = sql_is_null_pred neg name row in
      let ascii = String.concat "" (List.map (fun x -> String.make 1 (Char.chr (int_of_n x))) name) in
      if model <> spec then "diff model_rewrite_vs_spec"
      else if res = b01 spec then "ok nt"
      else Printf.sprintf "chk named_%s_%s column=%s presence=%s impl=%s spec=%s" op ctx ascii pres res (b01 spec)
  | "G" :: agg :: op :: nh :: ph :: mode :: res :: rows when rows <> [] ->
      (* IS [NOT] NULL / LIKE inside a CASE that is the argument of an aggregate over one window:
         the per-row flags are the model's (c13_flag = the rewrite on the named-column lookup),
         the spec is the named-column truth table / the LIKE relation *)
      let name = bytes_of_hex nh and pat = bytes_of_hex ph in
      let parse tok =
        if tok = "A" then ([], None) else if tok = "N" then ([(name, None)], None)
        else if String.length tok >= 2 && String.sub tok 0 2 = "P:" then
          let t = bytes_of_hex (String.sub tok 2 (String.length tok - 2)) in ([(name, Some t)], Some t)
        else failwith "bad row" in
      let prs = List.map parse rows in
      let mrows = List.map fst prs in
      let specflags = List.map (fun (r, t) -> match op with
        | "isnull" -> col_is_null name r
        | "isnotnull" -> col_is_not_null name r
        | "like" -> (match t with Some t -> like pat t | None -> false)
        | _ -> failwith "bad op") prs in
      let cnt = List.length (List.filter (fun b -> b) specflags) in
      let spec = (match agg with
        | "sum" -> cnt
        | "max" -> if cnt > 0 then 1 else 0
        | "min" -> if cnt = List.length rows then 1 else 0
        | _ -> failwith "bad agg") in
      let model = if op = "like" then spec else
        let neg = (op = "isnotnull") in
        int_of_n (match agg with
          | "sum" -> c13_sum_flags neg name mrows
          | "max" -> c13_max_flags neg name mrows
          | _ -> c13_min_flags neg name mrows) in
      (* LIKE over a missing column makes the CASE NULL (C06's recorded CASE/NULL rule); a sum over
         nothing but NULLs may then be NULL: read as 0 here *)
      let res' = if op = "like" && res = "n" then "0" else res in
      if model <> spec then "diff model_agg_vs_spec"
      else if res' = string_of_int spec then "ok nt"
      else Printf.sprintf "chk agg_case_%s_%s mode=%s impl=%s spec=%d rows=%s" agg op mode res spec (String.concat "," rows)
  | "GP" :: _nh :: mode :: nulls :: notnulls :: total :: rows when rows <> [] ->
      (* the IS NULL sum and the IS NOT NULL sum partition the rows of the window *)
      (match int_of_string_opt nulls, int_of_string_opt notnulls, int_of_string_opt total with
       | Some a, Some b, Some c when a >= 0 && b >= 0 && c >= 0 ->
           if c13_partition_ok (n_of_int a) (n_of_int b) (n_of_int c) && c = List.length rows then "ok nt"
           else Printf.sprintf "chk agg_case_partition mode=%s nulls=%d notnulls=%d count=%d rows=%s" mode a b c (String.concat "," rows)
       | _ -> Printf.sprintf "chk agg_case_partition mode=%s nulls=%s notnulls=%s count=%s rows=%s" mode nulls notnulls total (String.concat "," rows))
  | _ -> "bad line"

let () = Registry.register "C13" handle
