open Model
open Util

(* one line of the C13 case file -> verdict line
   "ok"                      model = implementation and the property's checker holds
   "diff <what>"             model and implementation disagree
   "chk <clause> <what>"     the implementation's answer violates the property on this input *)
let handle (toks : string list) : string =
  match toks with
  | ["M"; t; p; res] ->
      let t' = bytes_of_hex t and p' = bytes_of_hex p in
      let m = like_match t' p' in
      let spec = like p' t' in
      let exp3 = let c = b01 spec in c ^ c ^ c in
      if res <> exp3 then Printf.sprintf "chk like_matcher impl=%s spec=%s" res (b01 spec)
      else if m <> spec then "diff model_vs_spec"
      else if t' <> [] && List.exists (fun x -> x = pct || x = us) p' then "ok nt" else "ok"
  | ["R"; p; tag; arg] ->
      let p' = bytes_of_hex p in
      let (mt, ma) = rw_tag (convert p') in
      let mt = string_of_int (int_of_n mt) and ma = hex_of_bytes ma in
      if mt = tag && ma = arg then "ok"
      else Printf.sprintf "diff rewrite model=%s/%s impl=%s/%s" mt ma tag arg
  | ["S"; ctx; pres; t; p; res] ->
      let p' = bytes_of_hex p in
      let spec = (pres = "P") && like p' (bytes_of_hex t) in
      (* a NULL outcome of the CASE expression (operand missing) is 'not true' here; the CASE/NULL
         rule itself belongs to C06 *)
      let res' = if res = "n" then "0" else res in
      if res' = b01 spec then "ok nt"
      else Printf.sprintf "chk like_%s impl=%s spec=%s" ctx res (b01 spec)
  | ["N"; ctx; op; pres; res] ->
      let v = (match pres with "A" -> Absent | "N" -> Null | _ -> Present) in
      let spec = if op = "isnull" then is_null v else is_not_null v in
      if res = b01 spec then "ok nt"
      else Printf.sprintf "chk %s_%s impl=%s spec=%s" op ctx res (b01 spec)
  | ["K"; ctx; form; px; x; py; p; res] ->
      let p' = bytes_of_hex p in
      let lk = (px = "P") && like p' (bytes_of_hex x) in
      let ynull = (py <> "P") and xnull = (px <> "P") in
      let spec = (match form with
        | "like_and_notnull" -> lk && not ynull
        | "like_or_null" | "null_or_like" -> lk || ynull
        | "notnull_and_like_same" -> (not xnull) && lk
        | _ -> failwith "bad form") in
      (* CASE over a missing column yields NULL instead of a branch: that is C06's recorded finding
         (CASE/NULL rule), not a LIKE / IS NULL question, so such a case is not judged here *)
      if ctx = "case" && res = "n" && (px = "A" || py = "A") then "ok"
      else if res = b01 spec then "ok nt"
      else Printf.sprintf "chk combined_%s_%s impl=%s spec=%s" form ctx res (b01 spec)
  | ["I"; ctx; op; nh; pres; oh; opres; res] ->
      (* IS [NOT] NULL on a column whose NAME is part of the input (keyword fragments, letter case):
         the row {id, <name>, <other>} is handed to the model's named-column lookup *)
      let str s = List.init (String.length s) (fun i -> n_of_int (Char.code s.[i])) in
      let name = bytes_of_hex nh and other = bytes_of_hex oh in
      let cell k = function
        | "A" -> []
        | "N" -> [(k, None)]
        | "Pe" -> [(k, Some [])]
        | "Ps" -> [(k, Some (str "hello"))]
        | "Pz" -> [(k, Some (str "0"))]
        | "Pf" -> [(k, Some (str "false"))]
        | _ -> failwith "bad presence" in
      let row = [(str "id", Some (str "0"))] @ cell other opres @ cell name pres in
      let neg = (op = "isnotnull") in
      let spec = if neg then col_is_not_null name row else col_is_null name row in
      let model = sql_is_null_pred neg name row in
      let ascii = String.concat "" (List.map (fun x -> String.make 1 (Char.chr (int_of_n x))) name) in
      if model <> spec then "diff model_rewrite_vs_spec"
      else if res = b01 spec then "ok nt"
      else Printf.sprintf "chk named_%s_%s column=%s presence=%s impl=%s spec=%s" op ctx ascii pres res (b01 spec)
  | _ -> "bad line"

let () = Registry.register "C13" handle
