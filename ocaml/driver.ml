(* Replays the case lines written by the Go harness on the extracted Coq model and prints
   one verdict per line (see the per-property modules for the line formats). *)
let () =
  let ic = if Array.length Sys.argv > 1 then open_in Sys.argv.(1) else stdin in
  let ok = ref 0 and bad = ref 0 in
  let nt : (string, unit) Hashtbl.t = Hashtbl.create 100000 in
  (try
     while true do
       let line = input_line ic in
       match Util.split_ws line with
       | prop :: rest ->
           let v = (try (Hashtbl.find Registry.handlers prop) rest with
                    | Not_found -> "bad no-handler"
                    | e -> "bad exception " ^ Printexc.to_string e) in
           if v = "ok" then incr ok
           else if v = "ok nt" then begin incr ok; Hashtbl.replace nt (Digest.string line) () end
           else begin incr bad; if !bad <= 20000 then Printf.printf "%s | %s\n" v line end
       | [] -> ()
     done
   with End_of_file -> ());
  Printf.printf "SUMMARY ok=%d bad=%d nontrivial=%d\n" !ok !bad (Hashtbl.length nt)
