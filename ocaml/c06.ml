(* C06 — scalar expressions: replays the harness lines on the extracted model.
   P <hextext> # <go tokens> # <go ast> # <expr>      parser: tokens and AST of the real tokenizer/parser
   V <hextext> # <expr> # <row> # E:.. W:.. U:.. B:..   the four entry points of expr.Expression
   HD ...                                              the same (expression,row) gave different results after different histories *)
open Model
open Util

let z_of_int = Win.z_of_int
let ten = z_of_int 10
let z_of_dec (s : string) : z =
  let neg = String.length s > 0 && s.[0] = '-' in
  let acc = ref Z0 in
  String.iteri (fun i c -> if i = 0 && (c = '-' || c = '+') then () else
    acc := Z.add (Z.mul !acc ten) (z_of_int (Char.code c - 48))) s;
  if neg then Z.opp !acc else !acc
let rec show_pos_z (x : z) : string =
  if Z.eqb x Z0 then "" else show_pos_z (Z.div x ten) ^ string_of_int (Win.int_of_z (Z.modulo x ten))
let show_z (x : z) : string =
  if Z.eqb x Z0 then "0" else if Z.ltb x Z0 then "-" ^ show_pos_z (Z.opp x) else show_pos_z x
let pos_of_z (x : z) : positive = match x with Zpos p -> p | _ -> XH
let q_of_string (s : string) : q =
  match String.split_on_char '/' s with
  | [n; d] -> { qnum = z_of_dec n; qden = pos_of_z (z_of_dec d) }
  | [n] -> { qnum = z_of_dec n; qden = XH }
  | _ -> failwith ("bad rational " ^ s)
let show_q (x : q) : string = show_z x.qnum ^ "/" ^ show_z (Zpos x.qden)

let binop_of = function
  | "add" -> OAdd | "sub" -> OSub | "mul" -> OMul | "div" -> ODiv | "mod" -> OMod | "pow" -> OPow
  | s -> failwith ("binop " ^ s)
let cmpop_of = function
  | "eq" -> CEq | "eq2" -> CEq2 | "ne" -> CNe | "ne2" -> CNe2 | "lt" -> CLt | "le" -> CLe | "gt" -> CGt | "ge" -> CGe
  | s -> failwith ("cmpop " ^ s)
let binop_name = function OAdd -> "add" | OSub -> "sub" | OMul -> "mul" | ODiv -> "div" | OMod -> "mod" | OPow -> "pow"
let cmpop_name = function CEq -> "eq" | CEq2 -> "eq2" | CNe -> "ne" | CNe2 -> "ne2" | CLt -> "lt" | CLe -> "le" | CGt -> "gt" | CGe -> "ge"

(* prefix encoding of source expressions *)
let rec p_expr (t : string list) : xexpr * string list =
  match t with
  | "n" :: q :: r -> (ENum (q_of_string q), r)
  | "s" :: h :: r -> (EStr (bytes_of_hex h), r)
  | "c" :: h :: r -> (ECol (bytes_of_hex h), r)
  | "neg" :: r -> let (e, r) = p_expr r in (ENeg e, r)
  | "par" :: r -> let (e, r) = p_expr r in (EParen e, r)
  | "and" :: r -> let (a, r) = p_expr r in let (b, r) = p_expr r in (EAnd (a, b), r)
  | "or" :: r -> let (a, r) = p_expr r in let (b, r) = p_expr r in (EOr (a, b), r)
  | "b" :: o :: r -> let (a, r) = p_expr r in let (b, r) = p_expr r in (EBin (binop_of o, a, b), r)
  | "p" :: o :: r -> let (a, r) = p_expr r in let (b, r) = p_expr r in (ECmp (cmpop_of o, a, b), r)
  | "f" :: h :: k :: r ->
      let rec args n r = if n = 0 then ([], r) else
          let (a, r) = p_expr r in let (l, r) = args (n - 1) r in (a :: l, r) in
      let (l, r) = args (int_of_string k) r in (ECall (bytes_of_hex h, l), r)
  | _ -> failwith "bad expr encoding"
let p_top_r (t : string list) : xetop * string list =
  match t with
  | "E" :: r -> let (e, r) = p_expr r in (ETop e, r)
  | "K" :: r ->
      let (v, r) = (match r with
        | "v0" :: r -> (None, r)
        | "v1" :: r -> let (e, r) = p_expr r in (Some e, r)
        | _ -> failwith "case v") in
      let (n, r) = (match r with k :: r -> (int_of_string k, r) | _ -> failwith "case n") in
      let rec ws n r = if n = 0 then ([], r) else
          let (c, r) = p_expr r in let (x, r) = p_expr r in let (l, r) = ws (n - 1) r in ((c, x) :: l, r) in
      let (l, r) = ws n r in
      let (els, r) = (match r with
        | "e0" :: r -> (None, r)
        | "e1" :: r -> let (e, r) = p_expr r in (Some e, r)
        | _ -> failwith "case e") in
      (ECase (v, l, els), r)
  | _ -> failwith "bad top encoding"
let p_top (t : string list) : xetop = fst (p_top_r t)

let show_tok = function
  | TNum q -> "n" ^ show_q q | TStr s -> "s" ^ hex_of_bytes s | TId s -> "i" ^ hex_of_bytes s
  | TBin o -> "o" ^ binop_name o | TCmp c -> "c" ^ cmpop_name c
  | TAnd -> "and" | TOr -> "or" | TLP -> "lp" | TRP -> "rp" | TComma -> "cm"
  | TCase -> "case" | TWhen -> "when" | TThen -> "then" | TElse -> "else" | TEnd -> "end"
let canon_num s = (* "n12/4" -> reduced by the model printer? numbers are compared as rationals below *) s

let rec show_node = function
  | NNum q -> "num " ^ show_q q
  | NStr s -> "str " ^ hex_of_bytes s
  | NField s -> "fld " ^ hex_of_bytes s
  | NBin (o, l, r) -> "bin " ^ binop_name o ^ " " ^ show_node l ^ " " ^ show_node r
  | NCmp (c, l, r) -> "cmp " ^ cmpop_name c ^ " " ^ show_node l ^ " " ^ show_node r
  | NAnd (l, r) -> "and " ^ show_node l ^ " " ^ show_node r
  | NOr (l, r) -> "or " ^ show_node l ^ " " ^ show_node r
  | NParen e -> "par " ^ show_node e
  | NFun (g, a) -> "fun " ^ hex_of_bytes g ^ " " ^ string_of_int (List.length a)
                   ^ String.concat "" (List.map (fun x -> " " ^ show_node x) a)
let show_top = function
  | TopE e -> show_node e
  | TopCase (v, ws, els) ->
      "case" ^ (match v with Some x -> " v1 " ^ show_node x | None -> " v0")
      ^ " " ^ string_of_int (List.length ws)
      ^ String.concat "" (List.map (fun (c, x) -> " " ^ show_node c ^ " " ^ show_node x) ws)
      ^ (match els with Some x -> " e1 " ^ show_node x | None -> " e0")

(* numbers inside token / AST dumps are compared as rationals: both sides print reduced n/d *)
let parse_row (toks : string list) : (n list * xvalue) list =
  List.filter_map (fun t ->
    if t = "-" then None else
    match String.index_opt t ':' with
    | None -> failwith ("bad cell " ^ t)
    | Some i ->
        let k = bytes_of_hex (String.sub t 0 i) in
        let v = String.sub t (i + 1) (String.length t - i - 1) in
        let body = String.sub v 1 (String.length v - 1) in
        Some (k, (match v.[0] with
          | 'N' -> VNull
          | 'i' | 'f' -> VNum (q_of_string body)
          | 's' -> VStr (bytes_of_hex body)
          | 'b' -> VBool (body = "1")
          | _ -> failwith ("bad cell value " ^ v)))) toks

let show_val = function
  | VNull -> "N" | VNum q -> "n" ^ show_q q | VStr s -> "s" ^ hex_of_bytes s | VBool b -> "b" ^ b01 b

(* observed value token vs model value *)
let val_matches (obs : string) (v : xvalue) : bool =
  match v with
  | VNull -> obs = "N"
  | VStr s -> obs = "s" ^ hex_of_bytes s
  | VBool b -> obs = "b" ^ b01 b
  | VNum q -> String.length obs > 1 && obs.[0] = 'n' && obs <> "nx" &&
              q_close q (q_of_string (String.sub obs 1 (String.length obs - 1)))

let assoc_obs (toks : string list) : (string * string) list =
  List.map (fun t -> match String.index_opt t ':' with
    | Some i -> (String.sub t 0 i, String.sub t (i + 1) (String.length t - i - 1))
    | None -> (t, "")) toks

type cmpres = Same | Differ of string | Unmodelled


(* ---- classification of a disagreement with the reference semantics (keys of known findings) ---- *)
let rec subexprs (e : xexpr) : xexpr list =
  e :: (match e with
    | ENeg x | EParen x -> subexprs x
    | EBin (_, l, r) | ECmp (_, l, r) | EAnd (l, r) | EOr (l, r) -> subexprs l @ subexprs r
    | ECall (_, a) -> List.concat_map subexprs a
    | _ -> [])
let top_exprs (t : xetop) : xexpr list =
  match t with
  | ETop e -> subexprs e
  | ECase (v, ws, els) ->
      (match v with Some x -> subexprs x | None -> [])
      @ List.concat_map (fun (c, x) -> subexprs c @ subexprs x) ws
      @ (match els with Some x -> subexprs x | None -> [])
let is_null_val row e = (match sem row e with Some VNull -> true | _ -> false)
let classify (row : xrow) (t : xetop) : string =
  let es = top_exprs t in
  let has f = List.exists f es in
  let rec strip = function EParen x -> strip x | x -> x in
  let missing_col e = (match strip e with ECol c -> xlookup row c = None | _ -> false) in
  String.concat "," (List.filter (fun x -> x <> "") [
    (if has (function ECmp (_, l, r) -> missing_col l || missing_col r | _ -> false) then "cmp_missing_column" else "");
    (if has (function ECmp ((CNe | CNe2), l, r) -> is_null_val row l || is_null_val row r | _ -> false) then "ne_null" else "");
    (if has (function ECmp ((CEq | CEq2), l, r) -> is_null_val row l && is_null_val row r | _ -> false) then "eq_both_null" else "");
    (if (match t with ECase _ -> List.mem TLP (xprint t) | _ -> false) then "case_with_parens" else "");
    (if has (function ECall (_, a) -> List.exists missing_col a | _ -> false) then "call_missing_column" else "");
    (if has (function EBin (_, l, r) -> is_null_val row l || is_null_val row r | ENeg x -> is_null_val row x | _ -> false) then "null_arith_error" else "");
    (if has (function ECmp ((CLt | CLe | CGt | CGe), l, r) -> is_null_val row l || is_null_val row r | _ -> false) then "null_order_error" else "");
    (if (match t with ETop e -> List.mem TLP (xprint t) && not (bridge_parses e) | _ -> false) then "paren_item_sql_operator" else "");
    (if (match t with ETop (ENum q) -> not (Z.ltb q.qnum Z0) | _ -> false) then "numeric_literal_item" else "") ])
  |> (fun s -> if s = "" then "unclassified" else s)


(* ---- G lines: built-ins with a Gallina meaning in Model/ExprFuncs.v (arrays of scalars included) ---- *)
let parse_scalar (v : string) : xvalue =
  let body = String.sub v 1 (String.length v - 1) in
  match v.[0] with
  | 'N' -> VNull
  | 'i' | 'f' | 'n' -> VNum (q_of_string body)
  | 's' -> VStr (bytes_of_hex body)
  | 'b' -> VBool (body = "1")
  | _ -> failwith ("bad scalar " ^ v)
let split_elems (body : string) : string list = if body = "" then [] else String.split_on_char ',' body
(* the row, and the names of the columns that hold a Go int (reflect.DeepEqual tells it from a float64) *)
let parse_yrow (toks : string list) : (n list * yvalue) list * n list list =
  let ints = ref [] in
  let row = List.filter_map (fun t ->
    if t = "-" then None else
    match String.index_opt t ':' with
    | None -> failwith ("bad cell " ^ t)
    | Some i ->
        let k = bytes_of_hex (String.sub t 0 i) in
        let v = String.sub t (i + 1) (String.length t - i - 1) in
        if v.[0] = 'A' then begin
          let es = split_elems (String.sub v 1 (String.length v - 1)) in
          if List.exists (fun e -> e.[0] = 'i') es then ints := k :: !ints;
          Some (k, YA (List.map parse_scalar es))
        end else begin
          if v.[0] = 'i' then ints := k :: !ints;
          Some (k, YS (parse_scalar v))
        end) toks in
  (row, !ints)
let show_yval = function
  | YS v -> show_val v
  | YA l -> "A" ^ String.concat "," (List.map show_val l)
let yval_matches (obs : string) (v : yvalue) : bool =
  match v with
  | YS x -> val_matches obs x
  | YA l ->
      String.length obs >= 1 && obs.[0] = 'A' &&
      (let es = split_elems (String.sub obs 1 (String.length obs - 1)) in
       List.length es = List.length l && List.for_all2 val_matches es l)
let str_of_bytes (b : n list) : string =
  let h = hex_of_bytes b in
  if h = "-" then "" else String.init (String.length h / 2) (fun i -> Char.chr (int_of_string ("0x" ^ String.sub h (2 * i) 2)))
(* where the documented equality of numbers (3 = 3.0) and reflect.DeepEqual / Go map keys part ways *)
let deep_equal_fns = [ "null_if"; "array_contains"; "array_position"; "array_remove" ]
let g_tags (ints : n list list) (t : xetop) : string =
  let es = top_exprs t in
  let is_int_lit = function ENum q -> q.qden = XH | _ -> false in
  let is_int_col = function ECol c -> List.mem c ints | _ -> false in
  let compared g a = (match str_of_bytes g, a with
    | "null_if", [ x; y ] -> [ x; y ]
    | ("array_contains" | "array_position" | "array_remove"), [ _; y ] -> [ y ]
    | _ -> []) in
  let has f = List.exists (function ECall (g, a) -> List.exists f (compared g a) | _ -> false) es in
  String.concat "," (List.filter (fun x -> x <> "") [
    (if List.exists bad_arity es then "arity" else "");
    (if has is_int_lit then "int_literal" else "");
    (if has is_int_col then "int_column" else "");
    (* a failing round(x, p): the bridge re-evaluates the text with expr-lang's own round *)
    (if List.exists (function ECall (g, [ _; _ ]) -> str_of_bytes g = "round" | _ -> false) es then "round2" else "") ])
  |> (fun s -> if s = "" then "-" else s)

let handle_g (path : string) (shape : string) (fname : string) (rest : string list) : string =
  match Win.split_hash rest with
  | [ _; enc; rowt; [ obs ] ] ->
      let et = p_top enc in
      let (row, ints) = parse_yrow rowt in
      let tags = g_tags ints et in
      let where = path ^ " " ^ shape ^ " " ^ tags ^ " " ^ fname in
      if obs = "PANIC" then "chk function_panic " ^ where
      else
      (match ysem_top row et with
       | YUnm -> "ok"
       | YOk v ->
           if yval_matches obs v then "ok nt"
           else "chk function_value " ^ where ^ " impl=" ^ obs ^ " spec=" ^ show_yval v
       | YErr ->
           (* an error: the engine and the bridge report it, a SELECT item becomes NULL *)
           if (path = "select" && obs = "N") || (path <> "select" && obs = "e") then "ok"
           else "chk function_error_expected " ^ where ^ " impl=" ^ obs)
  | _ -> "bad line"

let rec more_handle (toks : string list) : string =
  match toks with
  | "B" :: _ :: rest ->
      (match Win.split_hash rest with
       | [ _; enc; rowt; [ obs ] ] ->
           let et = p_top enc in let row = parse_row rowt in
           (match et with
            | ETop e ->
                (match bridge_eval row e with
                 | OUnm -> "ok"
                 | OErr -> if obs = "e" then "ok" else "diff bridge impl=" ^ obs ^ " model=e"
                 | OVal v -> if val_matches obs v then "ok nt" else "diff bridge impl=" ^ obs ^ " model=" ^ show_val v)
            | _ -> "ok")
       | _ -> "bad line")
  | "H" :: _ :: rest ->
      (match Win.split_hash rest with
       | [ _; enc; rowt; [ obs ] ] ->
           let et = p_top enc in let row = parse_row rowt in
           (match et with
            | ETop e ->
                (match where_true row e with
                 | None -> "ok"
                 | Some b when b01 b <> obs -> "diff where impl=" ^ obs ^ " model=" ^ b01 b
                 | Some _ ->
                     (* the statement: WHERE passes iff the condition is true in the reference semantics *)
                     (match sem row e with
                      | Some v -> (match as_bool v with
                          | Some t when b01 t <> obs ->
                              "chk where_vs_sem " ^ classify row et ^ " impl=" ^ obs ^ " spec=" ^ b01 t
                          | _ -> "ok nt")
                      | None -> "ok"))
            | _ -> "ok")
       | _ -> "bad line")
  | "S" :: _ :: rest ->
      (match Win.split_hash rest with
       | [ _; enc; rowt; [ obs ] ] ->
           let et = p_top enc in let row = parse_row rowt in
           (match (match et with ETop (ENum q) when not (Z.ltb q.qnum Z0) -> Some VNull (* rsql: a bare number is a column name *)
                          | _ -> expr_item_value row et) with
            | None -> "ok"
            | Some v when not (val_matches obs v) -> "diff select impl=" ^ obs ^ " model=" ^ show_val v
            | Some _ ->
                (match sem_top row et with
                 | Some (VBool false) when obs = "N" -> "ok nt"   (* a comparison that is not true may be NULL *)
                 | Some v when not (val_matches obs v) ->
                     "chk select_vs_sem " ^ classify row et ^ " impl=" ^ obs ^ " spec=" ^ show_val v
                 | Some _ -> "ok nt"
                 | None -> "ok"))
       | _ -> "bad line")
  | "D" :: _ :: rest ->
      (match Win.split_hash rest with
       | [ _; _; verdict :: _ ] ->
           if verdict = "same" then "ok" else "chk function_" ^ verdict ^ "_dependent"
       | _ -> "bad line")
  | "CP" :: path :: _ :: _ :: rest ->
      (* case-pair family: every member of a pair of expressions equal modulo letter case is judged on
         its own: reference semantics where defined, otherwise the model of the path *)
      (match Win.split_hash rest with
       | [ _; enc; rowt; [ obs ] ] ->
           let et = p_top enc in let row = parse_row rowt in
           let expected =
             (match sem_top row et with
              | Some v -> Some v
              | None -> (match et, path with
                  | _, "select" -> expr_item_value row et
                  | ETop e, _ -> (match bridge_eval row e with OVal v -> Some v | _ -> None)
                  | _ -> None)) in
           (match expected with
            | None -> "ok"
            | Some v when val_matches obs v -> "ok nt"
            | Some v -> "chk case_sensitive_text_" ^ path ^ " impl=" ^ obs ^ " spec=" ^ show_val v)
       | _ -> "bad line")
  | "PH" :: kind :: _ :: rest ->
      (* poisoned history: the long-lived stream (after rows that made the fast evaluator fail) must give
         what a fresh stream gives; then the value is judged like an S / H line *)
      (match List.rev rest with
       | u :: f :: before ->
           if f <> u then "chk history_dependent poisoned_history fresh=" ^ f ^ " used=" ^ u
           else if f = "PANIC" then "chk history_dependent panic"
           else more_handle (kind :: List.rev (f :: before))
       | _ -> "bad line")
  | "F" :: path :: shape :: _ :: rest ->
      (* a built-in with a Gallina meaning: the documented value (reference semantics), never a panic *)
      (match Win.split_hash rest with
       | [ _; enc; rowt; [ obs ] ] ->
           let et = p_top enc in let row = parse_row rowt in
           if obs = "PANIC" then "chk function_panic " ^ path ^ " " ^ shape
           else
           (match sem_top row et with
            | Some v when val_matches obs v -> "ok nt"
            | Some v -> "chk function_value " ^ path ^ " " ^ shape ^ " impl=" ^ obs ^ " spec=" ^ show_val v
            | None -> "ok")
       | _ -> "bad line")
  | "G" :: path :: shape :: fname :: _ :: rest -> handle_g path shape fname rest
  | "M" :: _ :: verdict :: sqlv :: _ ->
      if verdict = "ok" && sqlv <> "PANIC" then "ok" else "chk malformed_" ^ verdict
  | _ -> "bad line"

let handle (toks : string list) : string =
  match toks with
  | "P" :: _ :: rest ->
      (match Win.split_hash rest with
       | [ _; [ "rejected" ]; _ ] -> "chk parser_rejects_printed_expression"
       | [ _; gotoks; goast; enc ] ->
           let et = p_top enc in
           let mt = xprint et in
           let mtoks = List.map show_tok mt in
           (* reduce the numbers of the Go side the same way (they are already reduced by big.Rat) *)
           if mtoks <> gotoks then "diff tokens model=" ^ String.concat " " mtoks
           else (match xparse mt with
             | None -> "diff model_parser_rejects"
             | Some ast ->
                 if ast <> xelab et then "diff model_parse_vs_elab"
                 else if String.split_on_char ' ' (show_top ast) <> goast then "diff ast model=" ^ show_top ast
                 else if List.mem "lp" mtoks || List.length mtoks > 3 then "ok nt" else "ok")
       | _ -> "bad line")
  | "HD" :: _ -> "chk history_dependent"
  | "V" :: _ :: rest ->
      (match Win.split_hash rest with
       | [ _; enc; rowt; obs ] ->
           let et = p_top enc in
           let row = parse_row rowt in
           (match xparse (xprint et) with
            | None -> "diff model_parser_rejects"
            | Some t ->
                let ob = assoc_obs obs in
                let get k = try List.assoc k ob with Not_found -> "?" in
                let unm = ref false and nontriv = ref false in
                let chk_e =
                  (match top_eval row t, get "E" with
                   | OUnm, _ -> unm := true; Same
                   | OErr, "e" -> Same
                   | OVal q, o when o <> "e" && o <> "x" && q_close q (q_of_string o) -> nontriv := true; Same
                   | m, o -> Differ ("Evaluate impl=" ^ o ^ " model=" ^ (match m with OVal q -> show_q q | OErr -> "e" | OUnm -> "u"))) in
                let chk_w =
                  (match top_with_null row t, get "W" with
                   | OUnm, _ -> unm := true; Same
                   | OErr, "e" -> Same
                   | OVal (_, true), "N" -> Same
                   | OVal (q, false), o when o <> "e" && o <> "N" && o <> "x" && q_close q (q_of_string o) -> Same
                   | m, o -> Differ ("EvaluateWithNull impl=" ^ o ^ " model=" ^
                                     (match m with OVal (q, n) -> if n then "N" else show_q q | OErr -> "e" | OUnm -> "u"))) in
                let chk_u =
                  (match top_value_null row t, get "U" with
                   | OUnm, _ -> unm := true; Same
                   | OErr, "e" -> Same
                   | OVal (v, n), o when o <> "e" &&
                       (match String.rindex_opt o ':' with
                        | Some i -> val_matches (String.sub o 0 i) v && String.sub o (i + 1) 1 = b01 n
                        | None -> false) -> nontriv := true; Same
                   | m, o -> Differ ("EvaluateValueWithNull impl=" ^ o ^ " model=" ^
                                     (match m with OVal (v, n) -> show_val v ^ ":" ^ b01 n | OErr -> "e" | OUnm -> "u"))) in
                let chk_b =
                  (match top_bool row t, get "B" with
                   | OUnm, _ -> unm := true; Same
                   | OErr, "e" -> Same
                   | OVal b, o when o = b01 b -> Same
                   | m, o -> Differ ("EvaluateBool impl=" ^ o ^ " model=" ^
                                     (match m with OVal b -> b01 b | OErr -> "e" | OUnm -> "u"))) in
                (* the property on the implementation's own output: inside the reference semantics' domain
                   (and with the forced side condition on present columns) the SELECT-path value is the
                   reference value *)
                let spec =
                  (match sem_top row et with
                   | Some v when cols_ok_top row et ->
                       let o = get "U" in
                       let impl_val = if o = "e" then "N" else
                           (match String.rindex_opt o ':' with
                            | Some i -> if String.sub o (i + 1) 1 = "1" then "N" else String.sub o 0 i
                            | None -> o) in
                       if val_matches impl_val v then None
                       else Some ("chk eval_vs_sem " ^ classify row et ^ " impl=" ^ impl_val ^ " spec=" ^ show_val v)
                   | _ -> None) in
                (match spec with Some c -> c | None ->
                match List.filter (fun c -> c <> Same) [ chk_e; chk_w; chk_u; chk_b ] with
                 | Differ s :: _ -> "diff " ^ s
                 | _ -> if !nontriv && not !unm then "ok nt" else "ok"))
       | _ -> "bad line")
  | _ -> more_handle toks

let () = Registry.register "C06" handle


(* ======================= C05 (same file: it needs the C06 encodings, and modules are linked in
   alphabetical order) ======================= *)
let p_query (t : string list) : xquery =
  match t with
  | n :: r ->
      let rec items k r = if k = 0 then ([], r) else
          (match r with
           | "star" :: r -> let (l, r) = items (k - 1) r in (IStar :: l, r)
           | "col" :: a :: b :: r -> let (l, r) = items (k - 1) r in (ICol (bytes_of_hex a, bytes_of_hex b) :: l, r)
           | "lit" :: a :: b :: r -> let (l, r) = items (k - 1) r in (ILit (bytes_of_hex a, bytes_of_hex b) :: l, r)
           | "x" :: o :: r -> let (t, r) = p_top_r r in let (l, r) = items (k - 1) r in (IExpr (t, bytes_of_hex o) :: l, r)
           | _ -> failwith "bad item") in
      let (l, r) = items (int_of_string n) r in
      let w = (match r with "w0" :: _ -> None | "w1" :: r -> Some (fst (p_expr r)) | _ -> failwith "bad where") in
      { q_items = l; q_where = w }
  | [] -> failwith "empty query"

(* one observed result ("none" | "row" k=v ...) against the model's direct q row *)
type dcmp = DSame | DUnmodelled | DDiffer of string
let show_row (r : (n list * xvalue) list) : string =
  String.concat " " (List.map (fun (k, v) -> hex_of_bytes k ^ "=" ^ show_val v) r)
let cells_of (kvs : string list) : (n list * string) list =
  List.map (fun kv -> match String.index_opt kv '=' with
    | Some i -> (bytes_of_hex (String.sub kv 0 i), String.sub kv (i + 1) (String.length kv - i - 1))
    | None -> failwith "bad cell") kvs
let cmp_direct (d : xdirect) (obs : string list) : dcmp =
  match d, obs with
  | DUnm, _ -> DUnmodelled
  | DNone, [ "none" ] -> DSame
  | DRow r, "row" :: kvs ->
      let cells = cells_of kvs in
      if List.length cells = List.length r &&
         List.for_all (fun (k, o) -> match xlookup r k with Some v -> val_matches o v | None -> false) cells
      then DSame else DDiffer ("model=" ^ show_row r)
  | DNone, _ -> DDiffer "model=none"
  | DRow r, _ -> DDiffer ("model=" ^ show_row r)

let id_key = bytes_of_hex "6964"
let id_of_cells (kvs : string list) : string =
  match List.assoc_opt id_key (cells_of kvs) with Some v -> v | None -> "?"
let id_of_row (row : (n list * xvalue) list) : string =
  match xlookup row id_key with Some v -> show_val v | None -> "?"

(* X: the sink sequence of a single producer under buffer expansion *)
let handle05_x (mode : string) (rest : string list) : string =
  match Win.split_hash rest with
  | _ :: qenc :: [ n; dropped; _; _; _ ] :: secs ->
      let q = p_query qenc in
      let n = int_of_string n in
      let rec take k l = if k = 0 then ([], l) else (match l with x :: r -> let (a, b) = take (k - 1) r in (x :: a, b) | [] -> failwith "short X line") in
      let (rowsecs, ressecs) = take n secs in
      let rows = List.map parse_row rowsecs in
      (* val_matches compares numbers as rationals: ids are matched through the model's printer *)
      let norm_id s = (match s with
        | "?" -> "?"
        | _ -> if String.length s > 1 && s.[0] = 'n' then show_q (q_of_string (String.sub s 1 (String.length s - 1))) else s) in
      let row_ids = List.map (fun r -> match xlookup r id_key with Some (VNum x) -> show_q x | _ -> "?") rows in
      let res = List.map (fun sec -> match sec with
        | "row" :: kvs -> (norm_id (id_of_cells kvs), sec)
        | _ -> ("?", sec)) ressecs in
      let pos id = (let rec go i = function [] -> -1 | x :: r -> if x = id then i else go (i + 1) r in go 0 row_ids) in
      (* 1. emission order *)
      let rec order last = function
        | [] -> None
        | (id, _) :: r ->
            let p = pos id in
            if p < 0 then Some ("chk sync_async_differ " ^ mode ^ " the sink got a result of no emitted row id=" ^ id)
            else if p = last then Some ("chk sync_async_differ " ^ mode ^ " row " ^ string_of_int p ^ " delivered twice")
            else if p < last then Some ("chk producer_order " ^ mode ^ " the result of row " ^ string_of_int p
                                        ^ " reached the sink after the result of row " ^ string_of_int last)
            else order p r in
      (match order (-1) res with
       | Some c -> c
       | None ->
           (* 2. every delivered result is the model's; 3. nothing is missing or extra (unless rows were dropped at the input) *)
           let unm = ref false and bad = ref None in
           List.iteri (fun i row ->
             if !bad = None then begin
               let id = List.nth row_ids i in
               let d = direct q row in
               let got = List.filter (fun (x, _) -> x = id) res in
               (match d, got with
                | DUnm, _ -> unm := true
                | DNone, [] -> ()
                | DNone, _ -> bad := Some ("diff direct row " ^ string_of_int i ^ " model=none impl=delivered")
                | DRow _, [] ->
                    if dropped = "0" then bad := Some ("chk sync_async_differ " ^ mode ^ " row " ^ string_of_int i ^ " produces a result (model) but the sink got none")
                | DRow _, (_, sec) :: _ ->
                    (match cmp_direct d sec with
                     | DDiffer m -> bad := Some ("diff direct row " ^ string_of_int i ^ " " ^ m)
                     | _ -> ()))
             end) rows;
           (match !bad with Some c -> c | None -> if !unm then "ok" else "ok nt"))
  | _ -> "bad line"

(* E: a row's result while another row is being evaluated by the same query on the other API path *)
let handle05_e (mode : string) (path : string) (rest : string list) : string =
  match Win.split_hash rest with
  | [ _; qenc; rowt; seq; conc ] ->
      let q = p_query qenc in let row = parse_row rowt in
      let d = direct q row in
      let tag = mode ^ " " ^ path in
      if conc = [ "PANIC" ] then "chk overlap_dependent " ^ tag ^ " panic"
      else if conc = [ "dup" ] then "chk overlap_dependent " ^ tag ^ " delivered more than once"
      else
      (match cmp_direct d conc, cmp_direct d seq with
       | DSame, _ -> if seq = conc then "ok nt" else "chk overlap_dependent " ^ tag ^ " alone=" ^ String.concat " " seq ^ " overlapped=" ^ String.concat " " conc
       | DUnmodelled, _ ->
           if seq = conc then "ok" else "chk overlap_dependent " ^ tag ^ " alone=" ^ String.concat " " seq ^ " overlapped=" ^ String.concat " " conc
       | DDiffer m, DDiffer _ -> if seq = conc then "diff direct " ^ m else "chk overlap_dependent " ^ tag ^ " " ^ m ^ " alone=" ^ String.concat " " seq ^ " overlapped=" ^ String.concat " " conc
       | DDiffer m, _ -> "chk overlap_dependent " ^ tag ^ " " ^ m ^ " overlapped=" ^ String.concat " " conc)
  | _ -> "bad line"

let handle05 (toks : string list) : string =
  match toks with
  | "X" :: mode :: _ :: rest -> handle05_x mode rest
  | "E" :: mode :: path :: _ :: _ :: rest -> handle05_e mode path rest
  | "HD" :: _ -> "chk history_dependent"
  | "A" :: _ :: _ :: _ :: v :: _ -> if v = "same" then "ok" else "chk sync_async_differ"
  | "N" :: _ :: v :: _ -> if v = "same" then "ok" else "chk nested_" ^ v
  | "NS" :: _ :: rest ->
      (* nested paths x row shapes: the row's result on a fresh stream is the reference (the result
         depends only on the row and the query); implementation-level differential *)
      (match Win.split_hash rest with
       | [ _; _; [ f; u; a ] ] ->
           let v s = (match String.index_opt s '=' with Some i -> String.sub s (i + 1) (String.length s - i - 1) | None -> s) in
           if v f <> v u then "chk nested_history_dependent fresh<>used"
           else if v f <> v a then "chk nested_sync_async_differ fresh<>async"
           else if String.length (v f) > 0 then "ok nt" else "ok"
       | _ -> "bad line")
  | "Q" :: _ :: rest ->
      (match Win.split_hash rest with
       | [ _; qenc; rowt; obs ] ->
           let q = p_query qenc in let row = parse_row rowt in
           let wchk () =
             (* the statement: a result is produced iff WHERE is true in the reference semantics *)
             (match q.q_where with
              | None -> None
              | Some e -> (match sem row e with
                  | Some v -> (match as_bool v with
                      | Some t when (obs <> [ "none" ]) <> t ->
                          Some ("chk where_vs_sem " ^ classify row (ETop e) ^ " impl=" ^ b01 (obs <> [ "none" ]) ^ " spec=" ^ b01 t)
                      | _ -> None)
                  | None -> None)) in
           (match wchk () with Some c -> c | None ->
           match direct q row, obs with
            | DUnm, _ -> "ok"
            | DNone, [ "none" ] -> (match wchk () with Some c -> c | None -> "ok")
            | DRow r, "row" :: kvs ->
                let cells = List.map (fun kv -> match String.index_opt kv '=' with
                  | Some i -> (bytes_of_hex (String.sub kv 0 i), String.sub kv (i + 1) (String.length kv - i - 1))
                  | None -> failwith "bad cell") kvs in
                let ok = List.length cells = List.length r &&
                  List.for_all (fun (k, o) -> match xlookup r k with Some v -> val_matches o v | None -> false) cells in
                let star_mix = List.mem IStar q.q_items && List.length q.q_items > 1 in
                if ok then (match wchk () with Some c -> c | None -> "ok nt")
                else if star_mix && List.for_all (fun (k, o) -> match xlookup r k with Some v -> val_matches o v | None -> false) cells
                then "chk columns star_with_items_dropped"
                else "diff direct model=" ^ String.concat " " (List.map (fun (k, v) -> hex_of_bytes k ^ "=" ^ show_val v) r)
            | DNone, _ -> "diff direct model=none"
            | DRow _, _ -> "diff direct model=row")
       | _ -> "bad line")
  | _ -> "bad line"

let () = Registry.register "C05" handle05
