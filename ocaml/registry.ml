(* Each property module registers its line handler here: Registry.register "Cxx" handle. *)
let handlers : (string, string list -> string) Hashtbl.t = Hashtbl.create 32
let register (p : string) (h : string list -> string) : unit = Hashtbl.replace handlers p h
