open Model
open Util
open Win
open Slide

(* which kind of result did a too-late row change? (narrows the known finding F8) *)
let too_late_kind (c : cfg) (base : z) (tr : ev list) : string =
  let rec late_ids m = function
    | [] -> []
    | EvAdd (id, ts) :: r ->
        let i = int_of_z ts and o = int_of_z c.ooo and l = int_of_z c.lateness in
        if i <= int_of_z base + o + 86400000000000 then
          let m' = (match m with None -> i | Some x -> max i x) in
          if i < m' - o - l then int_of_z id :: late_ids (Some m') r else late_ids (Some m') r
        else late_ids m r
    | _ :: r -> late_ids m r in
  let ids = late_ids None tr in
  let seen = Hashtbl.create 16 in
  let kinds = ref [] in
  List.iter (function
    | EvBatch b ->
        let s = int_of_z b.b_start in
        let first = not (Hashtbl.mem seen s) in
        Hashtbl.replace seen s ();
        if List.exists (fun r -> List.mem (int_of_z (fst r)) ids) b.b_rows then
          kinds := (if first then "first_firing_of_unfired_window" else "late_update_before_expiry_handled") :: !kinds
    | _ -> ()) tr;
  String.concat "," (List.sort_uniq compare !kinds)

let handle (toks : string list) : string =
  match toks with
  | "T" :: size :: ooo :: late :: base :: rest ->
      (match split_hash rest with
       | [ []; ops; obs ] | [ ops; obs ] ->
           let c = { size = zs size; ooo = zs ooo; lateness = zs late; idle = Z0 } in
           let hops = parse_ops (zs base) ops in
           let model = show_trace (run_hops c hops) in
           let impl = String.concat " " obs in
           let tbl = Hashtbl.create 64 in
           let tr = parse_trace tbl obs in
           (match chk_C02 c (zs base) tr with
            | Some ClTooLateCounted -> "chk too_late_counted " ^ too_late_kind c (zs base) tr ^ (if model <> impl then " (and model differs)" else "")
            | Some clause -> "chk " ^ (string_of_clause clause)
            | None ->
               if quiet_violated c.ooo (zs base) tr then "chk watermark_not_redelivered" ^ (if model <> impl then " (and model differs)" else "") else
               if model <> impl then "diff tumbling_trace model=" ^ model
               else if List.exists (function EvBatch b -> List.length b.b_rows >= 2 | _ -> false) tr then "ok nt" else "ok")
       | _ -> "bad line")
  | "S" :: size :: slide :: ooo :: late :: base :: rest ->
      (match split_hash rest with
       | [ []; ops; obs ] | [ ops; obs ] ->
           let c = { ssize = zs size; sslide = zs slide; sooo = zs ooo; slateness = zs late } in
           let hops = parse_ops (zs base) ops in
           let model = show_trace (run_shops c hops) in
           let impl = String.concat " " obs in
           let tbl = Hashtbl.create 64 in
           let tr = parse_trace tbl obs in
           let c0 = { size = zs size; ooo = zs ooo; lateness = zs late; idle = Z0 } in
           (match chk_C02_sliding c (zs base) tr with
            | Some STooLateCounted -> "chk too_late_counted " ^ too_late_kind c0 (zs base) tr ^ (if model <> impl then " (and model differs)" else "")
            | Some cl -> "chk " ^ string_of_sclause cl
            | None -> if quiet_violated c.sooo (zs base) tr then "chk watermark_not_redelivered" ^ (if model <> impl then " (and model differs)" else "") else
                      if model <> impl then "diff sliding_trace model=" ^ model
                      else if List.exists (function EvBatch b -> List.length b.b_rows >= 2 | _ -> false) tr then "ok nt" else "ok")
       | _ -> "bad line")
  | "N" :: timeout :: ooo :: late :: base :: rest ->
      (match split_hash rest with
       | [ []; ops; obs ] | [ ops; obs ] ->
           let c = { ntimeout = zs timeout; nooo = zs ooo; nlateness = zs late } in
           let hops = Sess.parse_nops (zs base) ops in
           let model = Sess.show_strace (Sess.run_nhops c hops) in
           let impl = String.concat " " obs in
           let tbl = Hashtbl.create 64 in
           let tr = Sess.parse_strace tbl obs in
           (* session shape is C10's subject; C02 judges the watermark discipline of the same trace *)
           let shape = ["gap_not_split"; "start_not_earliest"; "end_not_latest_plus_timeout"; "split_within_timeout"] in
           let cls = List.filter (fun x -> not (List.mem x shape))
                       (List.sort_uniq compare (List.map Sess.string_of_nclause (chk_C10 c (zs base) tr))) in
           let cls = cls @ (if quiet_violated_s c.nooo (zs base) tr then ["watermark_not_redelivered"] else []) in
           if cls <> [] then "chk " ^ String.concat "," cls ^ (if model <> impl then " (and model differs)" else "")
           else if model <> impl then "diff session_trace model=" ^ model else "ok nt"
       | _ -> "bad line")
  | "M" :: size :: ooo :: late :: idle :: base :: rest ->
      (match split_hash rest with
       | [ []; ops; obs; ("W" :: curs) ] | [ ops; obs; ("W" :: curs) ] ->
           let c = { size = zs size; ooo = zs ooo; lateness = zs late; idle = zs idle } in
           (* "I d": d ns pass; the operations that follow read the later clock *)
           let rec segs now acc cur = function
             | [] -> List.rev ((now, List.rev cur) :: acc)
             | "I" :: d :: r -> segs (Z.add now (zs d)) ((now, List.rev cur) :: acc) [] r
             | t :: r -> segs now acc (t :: cur) r in
           let hops = List.concat (List.map (fun (now, toks) -> parse_ops now toks) (segs (zs base) [] [] ops)) in
           let model = show_trace (run_hops c hops) in
           let impl = String.concat " " obs in
           let cl = List.map (fun t -> if t = "-" then None else Some (zs t)) curs in
           let maxclock = List.fold_left (fun acc (now, _) -> if Z.ltb acc now then now else acc) (zs base) (segs (zs base) [] [] ops) in
           let tbl = Hashtbl.create 64 in
           let tr = parse_trace tbl obs in
           (match wm_regress cl with
            | Some i -> Printf.sprintf "chk watermark_regressed at_operation=%d observed=%s%s" (int_of_nat i)
                          (String.concat "," curs) (if model <> impl then " (and model differs)" else "")
            | None ->
             match wm_beyond_guard maxclock tr with
             | Some i -> Printf.sprintf "chk future_guard_exceeded trace_event=%d a received watermark is more than 24 h ahead of the latest clock reading %s%s"
                           (int_of_nat i) (string_of_int (int_of_z maxclock)) (if model <> impl then " (and model differs)" else "")
             | None ->
               if model <> impl then "diff tumbling_trace_idle model=" ^ model
               else if List.mem "I" ops then "ok nt" else "ok")
       | _ -> "bad line")
  | "L" :: _win :: "ok" :: _ -> "ok nt"
  | "L" :: win :: "viol" :: rest -> "chk sql_late_update " ^ win ^ " " ^ String.concat " " rest
  | "I" :: size :: ooo :: idle :: nrows :: rest ->
      (match split_hash rest with
       | [ []; emits; dels ] | [ emits; dels ] ->
           let rec pairs = function a :: b :: r -> (zs a, zs b) :: pairs r | [] -> [] | _ -> failwith "bad emits" in
           let rec triples = function a :: b :: c :: r -> ((zs a, zs b), zs c) :: triples r | [] -> [] | _ -> failwith "bad deliveries" in
           let cls = chk_idle (zs idle) (zs ooo) (z_of_int 60) (zs nrows) (pairs emits) (triples dels) in
           if cls = [] then "ok nt"
           else "chk " ^ String.concat "," (List.map (function IEarlyFire -> "idle_early_fire" | IRowsLost -> "idle_rows_lost" | INeverFired -> "idle_never_fired") cls)
       | _ -> "bad line")
  | _ -> "bad line"

let () = Registry.register "C02" handle
