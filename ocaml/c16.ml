(* C16 — stream-table JOIN: replays the lines of harness/c16.go on the extracted model (Model.JoinM) and
   judges the implementation's own output with the extracted checkers (Model.JoinS).
   Verdicts: "ok" | "ok nt" | "diff <what>" (code-level model and implementation disagree) |
             "chk <clause> <details>" (the implementation's output violates the property). *)
open Model
open Util
open JoinM

let bytes_of_ascii (s : string) : n list = List.init (String.length s) (fun i -> n_of_int (Char.code s.[i]))
let ascii_of_bytes (b : n list) : string = String.concat "" (List.map (fun x -> String.make 1 (Char.chr (int_of_n x))) b)
let z_of_dec (s : string) : z = undecZ (bytes_of_ascii s)
let dec_of_z (x : z) : string = ascii_of_bytes (decZ x)
let sbytes (s : string) : n list = if s = "-" then [] else bytes_of_hex s

let kv_of_tok (t : string) : kv =
  let rest = String.sub t 1 (String.length t - 1) in
  match t.[0] with
  | 'N' -> KNull
  | 'I' -> KInt (z_of_dec rest)
  | 'F' -> (match String.split_on_char ':' rest with
            | [m; e] -> KFlt (z_of_dec m, z_of_dec e)
            | _ -> failwith "bad float token")
  | 'S' -> KStr (sbytes rest)
  | 'B' -> KBool (rest = "1")
  | _ -> failwith ("bad value token " ^ t)

let tok_of_kv = function
  | KNull -> "N"
  | KInt x -> "I" ^ dec_of_z x
  | KFlt (m, e) -> "F" ^ dec_of_z m ^ ":" ^ dec_of_z e
  | KStr s -> "S" ^ hex_of_bytes s
  | KBool b -> if b then "B1" else "B0"

let show_row (r : row) = "{" ^ String.concat "" (List.map (fun (f, v) -> " " ^ ascii_of_bytes f ^ " " ^ tok_of_kv v) r) ^ " }"
let show_eres = function
  | EErr -> "X" | EDrop -> "D"
  | ERow w -> "R {" ^ String.concat "" (List.map (fun (k, x) -> " " ^ ascii_of_bytes k ^ " " ^
                  (match x with WV v -> tok_of_kv v | WR r -> show_row r)) w) ^ " }"
let show_out = function OutE e -> show_eres e | OutU b -> "U" ^ b01 b | OutD -> "Dl" | OutG b -> "G" ^ b01 b

let string_of_clause = function
  | JoinS.ClKeyEquality -> "key_equality" | JoinS.ClKeptDropped -> "kept_vs_dropped"
  | JoinS.ClRowContents -> "row_contents" | JoinS.ClError -> "error" | JoinS.ClUpsertResult -> "upsert_result"
  | JoinS.ClConcMonotone -> "concurrent_monotone" | JoinS.ClConcFinal -> "concurrent_final" | JoinS.ClShape -> "shape"
  | JoinS.ClWindowCount -> "window_count" | JoinS.ClWindowGroups -> "window_groups"
  | JoinS.ClWindowAggregate -> "window_aggregate"

(* ---- token stream parsing (a mutable cursor over the token list) ---- *)
type cur = { mutable t : string list }
let next c = match c.t with x :: r -> c.t <- r; x | [] -> failwith "unexpected end of line"
let peek c = match c.t with x :: _ -> Some x | [] -> None
let int c = int_of_string (next c)
let rec times n f = if n <= 0 then [] else let x = f () in x :: times (n - 1) f

let tuple c : kv list = let n = int c in times n (fun () -> kv_of_tok (next c))
let prow c : row = let n = int c in times n (fun () -> let f = bytes_of_ascii (next c) in let v = kv_of_tok (next c) in (f, v))
let ppath c : path =
  match String.split_on_char ':' (next c) with
  | ["c"; col] -> PCol (bytes_of_ascii col)
  | ["q"; a; col] -> PQual (bytes_of_ascii a, bytes_of_ascii col)
  | _ -> failwith "bad path"
(* { k v k v } with one level of nesting *)
let pmap c : wmap =
  if next c <> "{" then failwith "expected {";
  let rec inner () : row =
    match next c with
    | "}" -> []
    | k -> let v = kv_of_tok (next c) in (bytes_of_ascii k, v) :: inner () in
  let rec outer () : wmap =
    match next c with
    | "}" -> []
    | k -> (match peek c with
            | Some "{" -> ignore (next c); let r = inner () in (bytes_of_ascii k, WR r) :: outer ()
            | _ -> let v = kv_of_tok (next c) in (bytes_of_ascii k, WV v) :: outer ()) in
  outer ()
let pres c : eres =
  match next c with
  | "D" -> EDrop | "X" -> EErr | "R" -> ERow (pmap c)
  | t -> failwith ("bad result " ^ t)

(* "q.name" | "name" *)
let pfield (t : string) : onfield =
  match String.index_opt t '.' with
  | Some i -> { f_qual = Some (bytes_of_ascii (String.sub t 0 i));
                f_name = bytes_of_ascii (String.sub t (i + 1) (String.length t - i - 1)) }
  | None -> { f_qual = None; f_name = bytes_of_ascii t }

(* <src alias|-> <nj> { table I|L alias|- np { left right } } S <n> { name path } <where> *)
let pconfig (cfgt : string list) =
  let c = { t = cfgt } in
  let sa = (match next c with "-" -> None | a -> Some (bytes_of_ascii a)) in
  let nj = int c in
  let joins = times nj (fun () ->
    let table = bytes_of_ascii (next c) in
    let left = (next c = "L") in
    let alias = (match next c with "-" -> None | a -> Some (bytes_of_ascii a)) in
    let np = int c in
    let pairs = times np (fun () -> let l = pfield (next c) in let r = pfield (next c) in (l, r)) in
    { jt_table = table; jt_left = left; jt_alias = alias; jt_on = pairs }) in
  let q = { q_src_alias = sa; q_joins = joins } in
  if next c <> "S" then failwith "expected S";
  let ns = int c in
  let sel = times ns (fun () -> let name = bytes_of_ascii (next c) in let p = ppath c in (name, p)) in
  let rec pwhere () = (match next c with
    | "W0" -> WTrue
    | "WE" -> let p = ppath c in WStrEq (p, sbytes (next c))
    | "WN" -> WIsNull (ppath c)
    | "WNN" -> WNotNull (ppath c)
    | "WGT" -> let p = ppath c in WIntGt (p, z_of_dec (next c))
    | "WA" -> let a = pwhere () in let b = pwhere () in WAnd (a, b)
    | "WO" -> let a = pwhere () in let b = pwhere () in WOr (a, b)
    | t -> failwith ("bad where " ^ t)) in
  let wc = pwhere () in
  (q, sel, wc)

(* <table> <A | nk keys...> <nrows> rows... *)
let preg c : reg_call =
  let name = bytes_of_ascii (next c) in
  let keys = (match next c with
    | "A" -> None
    | nk -> Some (times (int_of_string nk) (fun () -> bytes_of_ascii (next c)))) in
  let nr = int c in
  let rows = times nr (fun () -> prow c) in
  ((name, keys), rows)

(* <n> { name <A | nk keys...> <nrows> rows... }    A = RegisterTable without key fields (derived from ON) *)
let pregs (regt : string list) : reg_call list =
  let c = { t = regt } in
  let nt = int c in
  times nt (fun () -> preg c)

(* operations of a history with what the implementation returned. Besides E / Y / U / D:
     G <R|S> <table> <A | nk keys...> <nrows> rows... <ok>   RegisterTable (R) / RegisterTableSource of a new
                                                             memory source (S) in the middle of the history
     Z U <table> <row> | Z D <table> <S v | T tuple>          Upsert / Delete through the handle of a source
                                                             that a later registration has replaced *)
let pops (opt : string list) : (hcall * out) list =
  let c = { t = opt } in
  let pdel () =
    let t = bytes_of_ascii (next c) in
    let k = (match next c with
      | "S" -> DSingle (kv_of_tok (next c))
      | "T" -> DTuple (tuple c)
      | _ -> failwith "bad delete key") in
    ODelete (t, k) in
  let rec go () : (hcall * out) list =
    match peek c with
    | None -> []
    | Some _ ->
      let x = (match next c with
        | "E" -> let r = prow c in let e = pres c in (HCOp (OEmit r), OutE e)
        | "Y" -> let r = prow c in let e = pres c in (HCOp (OEmitSync r), OutE e)
        | "U" -> let t = bytes_of_ascii (next c) in let r = prow c in let ok = (next c = "1") in (HCOp (OUpsert (t, r)), OutU ok)
        | "D" -> let o = pdel () in (HCOp o, OutD)
        | "G" -> ignore (next c); let r = preg c in let ok = (next c = "1") in (HCReg r, OutG ok)
        | "Z" -> (match next c with
                  | "U" -> let t = bytes_of_ascii (next c) in let r = prow c in (HCDetached (OUpsert (t, r)), OutD)
                  | "D" -> let o = pdel () in (HCDetached o, OutD)
                  | _ -> failwith "bad detached write")
        | t -> failwith ("bad op " ^ t)) in
      x :: go () in
  go ()

(* one history judged by the abstract specification (chk_C16_sql: the MEANING of the JOIN clause), then
   compared with the code-level model. A chk verdict says whether some ON equality is written
   table = stream ("on_swapped": the recorded finding) and whether the code-level model still agrees with
   the implementation ("model differs" = a behaviour change, never a recorded finding). *)
let is_reg = function HCReg _ -> true | _ -> false
let judge (q, sel, wc) (regs : reg_call list) (ol : (hcall * out) list) : string option =
  let ops = List.map fst ol and impl = List.map snd ol in
  let m = JoinS.api_hrun sel wc ops (model_hrun_sql q regs ops) in
  let mdiff = JoinS.chk_outs O m impl in
  match JoinS.chk_C16_hsql q sel wc regs ops impl with
  | Some (i, cl) ->
      let i = int_of_nat i in
      let exp = List.nth (JoinS.api_hrun sel wc ops (spec_hrun_sql q regs ops)) i in
      (* how many (re-)registrations precede the failing operation: the table state it must see is that
         of the last one *)
      let nreg = List.length (List.filter is_reg (List.filteri (fun j _ -> j < i) ops)) in
      Some (Printf.sprintf "chk %s op=%d expected=%s impl=%s%s%s%s" (string_of_clause cl) i
              (show_out exp) (show_out (List.nth impl i))
              (if nreg > 0 then Printf.sprintf " after_reregistration=%d" nreg else "")
              (if well_oriented q then "" else " on_swapped")
              (if mdiff = None then "" else " model differs"))
  | None ->
      (match mdiff with
       | Some (i, _) -> Some (Printf.sprintf "diff model op=%d model=%s impl=%s" (int_of_nat i)
                                (show_out (List.nth m (int_of_nat i))) (show_out (List.nth impl (int_of_nat i))))
       | None -> None)

let handle_J (toks : string list) : string =
  match Win.split_hash toks with
  | [cfgt; regt; opt] ->
      let (q, sel, wc) = pconfig cfgt in
      let regs = pregs regt in
      let ol = pops opt in
      (match judge (q, sel, wc) regs ol with
       | Some v -> v
       | None ->
           (* non-trivial: some row was enriched from a table row written by an Upsert of the history,
              or some row saw no match *)
           let ops = List.map fst ol and impl = List.map snd ol in
           let kept = List.exists (function OutE (ERow _) -> true | _ -> false) impl
           and dropped_or_null = List.exists (function OutE EDrop -> true | _ -> false) impl
           and ups = List.exists (function HCOp (OUpsert _) -> true | _ -> false) ops in
           if kept && ups && (dropped_or_null || List.exists (fun j -> j.jt_left) q.q_joins) then "ok nt" else "ok")
  | _ -> "bad line"

(* concurrent writers: <config> # <registrations> # <goroutine 1: its operations and what it observed> # ... #
   <probes after every goroutine returned>. The goroutines write key-disjoint parts of the table, so
   (C16_concurrent_writers, for every interleaving) each goroutine's own observations are those of its own
   sequence run alone, and the final probes are those after all writes in program order. *)
let handle_K (toks : string list) : string =
  match Win.split_hash toks with
  | cfgt :: regt :: rest when List.length rest >= 2 ->
      let cfg = pconfig cfgt in
      let regs = pregs regt in
      let secs = List.map pops rest in
      let n = List.length secs in
      let gs = List.filteri (fun i _ -> i < n - 1) secs and probes = List.nth secs (n - 1) in
      let rec each i = function
        | [] -> None
        | g :: r -> (match judge cfg regs g with
                     | Some v -> Some (Printf.sprintf "%s goroutine=%d" v i)
                     | None -> each (i + 1) r) in
      (match each 0 gs with
       | Some v -> v
       | None ->
           let writes = List.filter (fun (o, _) -> match o with HCOp (OUpsert _) | HCOp (ODelete _) -> true | _ -> false) (List.concat gs) in
           (match judge cfg regs (writes @ probes) with
            | Some v -> Printf.sprintf "%s after_all_writers_returned writes=%d" v (List.length writes)
            | None -> if List.length writes > 0 then "ok nt" else "ok"))
  | _ -> "bad line"

(* windowed family: <config> # <registrations> # <N> <grouped> # <ops> # <batches> [# L <op>].
   Expected = the windows (N kept rows each, in processing order) of the abstract table's per-row enrichment,
   grouped by the joined column, with COUNT / SUM / MAX over the joined column v and MAX over the stream
   column seq; judged by the extracted JoinS.chk_C16_window. *)
let show_oz = function Some z -> "I" ^ dec_of_z z | None -> "N"
let show_agg (a : JoinS.wagg) =
  Printf.sprintf "(g=%s c=%s sum=%s max=%s seq=%s)" (tok_of_kv a.JoinS.wa_g) (dec_of_z a.JoinS.wa_c)
    (show_oz a.JoinS.wa_sum) (show_oz a.JoinS.wa_max) (show_oz a.JoinS.wa_seq)
let handle_W (toks : string list) : string =
  match Win.split_hash toks with
  | cfgt :: regt :: [n; grouped] :: opt :: bt :: rest ->
      let (q, _, _) = pconfig cfgt in
      let regs = pregs regt in
      let ol = pops opt in
      let hs = List.map fst ol in
      let c = { t = bt } in
      let rec batches () =
        match peek c with
        | None -> []
        | Some _ ->
            if next c <> "B" then failwith "expected B";
            let k = int c in
            let b = times k (fun () ->
              let g = kv_of_tok (next c) in let cn = kv_of_tok (next c) in let sv = kv_of_tok (next c) in
              let mx = kv_of_tok (next c) in let ms = kv_of_tok (next c) in ((((g, cn), sv), mx), ms)) in
            b :: batches () in
      let obs = batches () in
      let j = List.hd q.q_joins in
      let alias = eff_alias j in
      let gcol = if grouped = "1" then Some (bytes_of_ascii "tag") else None in
      let vcol = bytes_of_ascii "v" and seqcol = bytes_of_ascii "seq" in
      let nn = nat_of_int (int_of_string n) in
      let show_obs b = String.concat " " (List.map (fun ((((g, cn), sv), mx), ms) ->
        Printf.sprintf "(g=%s c=%s sum=%s max=%s seq=%s)" (tok_of_kv g) (tok_of_kv cn) (tok_of_kv sv) (tok_of_kv mx) (tok_of_kv ms)) b) in
      (match rest with
       | ["L" :: i :: _] ->
           Printf.sprintf "chk row_not_looked_up op=%s (a row of a JOIN query was emitted and the table was never asked for it)" i
       | _ ->
         let exp = JoinS.windows_expected nn (JoinS.window_rows alias gcol vcol seqcol (spec_hrun_sql q regs hs)) in
         let m = JoinS.windows_expected nn (JoinS.window_rows alias gcol vcol seqcol (model_hrun_sql q regs hs)) in
         (match JoinS.chk_C16_window q regs hs nn alias gcol vcol seqcol obs with
          | Some (i, cl) ->
              let i = int_of_nat i in
              Printf.sprintf "chk %s window=%d expected=[%s] impl=[%s] windows_expected=%d windows_observed=%d%s%s"
                (string_of_clause cl) i
                (if i < List.length exp then String.concat " " (List.map show_agg (List.nth exp i)) else "-")
                (if i < List.length obs then show_obs (List.nth obs i) else "-")
                (List.length exp) (List.length obs)
                (if well_oriented q then "" else " on_swapped")
                (if JoinS.chk_windows O m obs = None then "" else " model differs")
          | None ->
              if m <> exp then "diff window model and abstract table disagree"
              else
                let upd = List.exists (function HCOp (OUpsert _) | HCOp (ODelete _) -> true | _ -> false) hs in
                if upd && List.length exp >= 2 then "ok nt" else "ok"))
  | _ -> "bad line"

(* the extracted encodeKey, memoised on the token text of its argument (a pure function; the pool x pool
   pairs evaluate it on the same ~100 values again and again, some with 300-digit expansions) *)
let memo : (string, n list) Hashtbl.t = Hashtbl.create 1024
let enc_memo (toks : string list) (l : kv list) : n list =
  let k = String.concat " " toks in
  match Hashtbl.find_opt memo k with
  | Some e -> e
  | None -> let e = encodeKey l in Hashtbl.replace memo k e; e

let handle (toks : string list) : string =
  match toks with
  | "E" :: rest ->
      (match Win.split_hash rest with
       | [kt; [h]] ->
           let c = { t = kt } in
           let l = (match next c with
             | "S" -> [kv_of_tok (next c)]        (* encodeKey(v) = encodeKey([]any{v}) *)
             | "T" -> tuple c
             | _ -> failwith "bad E line") in
           let m = hex_of_bytes (encodeKey l) in
           if m = h then (if List.length l >= 2 then "ok nt" else "ok")
           else Printf.sprintf "diff encodeKey model=%s impl=%s" m h
       | _ -> "bad line")
  | "P" :: rest ->
      (match Win.split_hash rest with
       | [at; bt; [eq]] ->
           let a = tuple { t = at } and b = tuple { t = bt } in
           let impl = (eq = "1") in
           (match JoinS.chk_key_equality a b impl with
            | Some cl -> Printf.sprintf "chk %s spec=%s impl=%s" (string_of_clause cl) (b01 (tuple_eqb a b)) eq
            | None ->
                let m = bytes_eqb (enc_memo at a) (enc_memo bt b) in
                if m <> impl then Printf.sprintf "diff encoding_equality model=%s impl=%s" (b01 m) eq
                else if a <> b then "ok nt" else "ok")
       | _ -> "bad line")
  | "J" :: rest -> handle_J rest
  | "K" :: rest -> handle_K rest
  | "W" :: rest -> handle_W rest
  | ["X"; what; sql; err] ->
      (* every generated query and registration is valid: a rejection is an error where none is due *)
      Printf.sprintf "chk %s %s rejected: %s <- %s" (string_of_clause JoinS.ClError) what
        (String.escaped (ascii_of_bytes (sbytes err))) (String.escaped (ascii_of_bytes (sbytes sql)))
  | "C" :: rest ->
      (match Win.split_hash rest with
       | [[n; _wd; fin_exp]; obs; [fin]] ->
           let nn s = n_of_int (int_of_string s) in
           (match JoinS.chk_conc (nn n) (nn fin_exp) (List.map nn obs) (nn fin) with
            | Some cl -> Printf.sprintf "chk %s" (string_of_clause cl)
            | None -> if List.exists (fun s -> s <> "0") obs then "ok nt" else "ok")
       | _ -> "bad line")
  | "G" :: rest ->
      (match Win.split_hash rest with
       | [tt; kt; gt] ->
           let c = { t = tt } in
           let left = (next c = "L") in
           let nr = int c in
           let a = bytes_of_ascii "a" and tag = bytes_of_ascii "tag" and m = bytes_of_ascii "m"
           and t1 = bytes_of_ascii "t1" and k1 = bytes_of_ascii "k1" in
           let rows = times nr (fun () -> let k = kv_of_tok (next c) in let g = kv_of_tok (next c) in [(a, k); (tag, g)]) in
           let keys = tuple { t = kt } in
           let cfg = { c_src_alias = None; c_joins = [{ j_table = t1; j_left = left; j_alias = m; j_pairs = [(k1, a)] }] } in
           let ops = List.map (fun k -> OEmitSync [(k1, k)]) keys in
           let outs = spec_run cfg [((t1, [a]), rows)] ops in
           let exp : (string, int) Hashtbl.t = Hashtbl.create 8 in
           List.iter (function
             | OutE (ERow w) -> let g = tok_of_kv (wpath w (PQual (m, tag))) in
                                Hashtbl.replace exp g (1 + (try Hashtbl.find exp g with Not_found -> 0))
             | _ -> ()) outs;
           let rec pairs = function g :: n :: r -> (g, int_of_string n) :: pairs r | _ -> [] in
           let got = pairs gt in
           let expl = List.sort compare (Hashtbl.fold (fun g n acc -> (g, n) :: acc) exp []) in
           if List.sort compare got = expl then "ok nt"
           else Printf.sprintf "chk group_counts expected=%s" (String.concat "," (List.map (fun (g, n) -> g ^ ":" ^ string_of_int n) expl))
       | _ -> "bad line")
  | _ -> "bad line"

let () = Registry.register "C16" handle
