(* C07 — post-aggregation clauses. Line formats are documented in harness/c07.go.
   "ok" / "ok nt"       model = implementation and the relational checker accepts the delivered batch
   "chk <clause> ..."   the delivered batch violates the property on this input
   "diff <what>"        model and implementation disagree (and the checker did not object) *)
open Model
open Util

let zi = Win.z_of_int
let rec nat_of i = if i <= 0 then O else S (nat_of (i - 1))

let clause_name = function
  | PaClNoHidden -> "no_hidden_columns" | PaClGroupOnce -> "group_once" | PaClItemValue -> "item_value"
  | PaClHaving -> "having_filter" | PaClHavingLost -> "having_lost" | PaClSorted -> "sort_sorted"
  | PaClLimit -> "limit_prefix" | PaClTopN -> "limit_topn" | PaClDistinct -> "distinct_nodup"
  | PaClDistinctLost -> "distinct_lost"

let mkq (n : int) (d : int) : q = { qnum = zi n; qden = pos_of_int d }

(* value token: q<num>_<den> | s<hex> | z | b0 / b1 (a Go bool) *)
let parse_val (t : string) : pa_val =
  match t.[0] with
  | 'q' ->
      let body = String.sub t 1 (String.length t - 1) in
      (match String.split_on_char '_' body with
       | [n; d] -> PaNum (mkq (int_of_string n) (int_of_string d))
       | _ -> failwith ("bad number " ^ t))
  | 's' -> PaStr (bytes_of_hex (String.sub t 1 (String.length t - 1)))
  | 'z' -> PaNull
  | 'b' -> PaBool (t = "b1")
  | _ -> failwith ("bad value " ^ t)

let parse_col (t : string) : pa_col =
  let k = int_of_string (String.sub t 1 (String.length t - 1)) in
  match t.[0] with
  | 'g' -> PaGroup (nat_of k) | 'i' -> PaItem (nat_of k) | 'h' -> PaHidden (nat_of k)
  | 'x' -> PaOther (nat_of k) | _ -> failwith ("bad column " ^ t)

let parse_op = function "+" -> PaAdd | "-" -> PaSub | "*" -> PaMul | "/" -> PaDiv | s -> failwith ("bad op " ^ s)
let parse_agg = function
  | "sum" -> PaSum | "avg" -> PaAvg | "min" -> PaMin | "max" -> PaMax | "count" -> PaCount
  | s -> failwith ("bad agg " ^ s)

let rec parse_aexp = function
  | "f" :: k :: r -> (PaField (nat_of (int_of_string k)), r)
  | "l" :: k :: r -> (PaALit (zi (int_of_string k)), r)
  | "st" :: r -> (PaStar, r)
  | "b" :: o :: r -> let (x, r1) = parse_aexp r in let (y, r2) = parse_aexp r1 in (PaABin (parse_op o, x, y), r2)
  | _ -> failwith "bad aexp"

let rec parse_pexp = function
  | "A" :: a :: r -> let (e, r1) = parse_aexp r in (PaPAgg (parse_agg a, e), r1)
  | "L" :: n :: d :: r -> (PaPLit (mkq (int_of_string n) (int_of_string d)), r)
  | "P" :: r -> let (x, r1) = parse_pexp r in (PaPParen x, r1)
  | "B" :: o :: r -> let (x, r1) = parse_pexp r in let (y, r2) = parse_pexp r1 in (PaPBin (parse_op o, x, y), r2)
  | _ -> failwith "bad pexp"

let rec parse_hexp = function
  | "c" :: c :: r -> (PaHCol (parse_col c), r)
  | "A" :: a :: r -> let (e, r1) = parse_aexp r in (PaHAgg (parse_agg a, e), r1)
  | "L" :: n :: d :: r -> (PaHLit (mkq (int_of_string n) (int_of_string d)), r)
  | "B" :: o :: r -> let (x, r1) = parse_hexp r in let (y, r2) = parse_hexp r1 in (PaHBin (parse_op o, x, y), r2)
  | _ -> failwith "bad hexp"

let parse_cmp = function
  | "gt" -> PaGt | "ge" -> PaGe | "lt" -> PaLt | "le" -> PaLe | "eq" -> PaEq | "ne" -> PaNe
  | s -> failwith ("bad cmp " ^ s)

(* searched CASE: <nwhen> <haselse> (<cmp> x y r)* [else]  ->  (ops, operands in text order) *)
let parse_case toks =
  match toks with
  | nw :: he :: r ->
      let rec whens k toks = if k = 0 then ([], [], toks) else
          (match toks with
           | c :: r0 ->
               let (x, r1) = parse_hexp r0 in let (y, r2) = parse_hexp r1 in let (res, r3) = parse_hexp r2 in
               let (ops, es, rest) = whens (k - 1) r3 in
               (parse_cmp c :: ops, x :: y :: res :: es, rest)
           | [] -> failwith "short case") in
      let (ops, es, rest) = whens (int_of_string nw) r in
      if he = "1" then let (e, rest') = parse_hexp rest in (ops, es @ [e], rest') else (ops, es, rest)
  | _ -> failwith "bad case"

let rec parse_hpred = function
  | "?" :: c :: r -> let (x, r1) = parse_hexp r in let (y, r2) = parse_hexp r1 in (PaHCmp (parse_cmp c, x, y), r2)
  | "C" :: r -> let (ops, es, r1) = parse_case r in (PaHCase (ops, es), r1)
  | "K" :: c :: r -> let (ops, es, r1) = parse_case r in let (z, r2) = parse_hexp r1 in
      (PaHCaseCmp (parse_cmp c, ops, es, z), r2)
  | "&" :: r -> let (p, r1) = parse_hpred r in let (q, r2) = parse_hpred r1 in (PaHAnd (p, q), r2)
  | "|" :: r -> let (p, r1) = parse_hpred r in let (q, r2) = parse_hpred r1 in (PaHOr (p, q), r2)
  | _ -> failwith "bad hpred"

let rec parse_keys = function
  | [] -> []
  | c :: d :: r -> (parse_col c, (if d = "d" then PaDesc else PaAsc)) :: parse_keys r
  | _ -> failwith "bad keys"

let rec take n l = if n = 0 then ([], l) else
    (match l with x :: r -> let (a, b) = take (n - 1) r in (x :: a, b) | [] -> failwith "short list")

(* one delivered row: n (col val)*, rebuilt in a canonical column order *)
let col_rank = function
  | PaGroup j -> (0, int_of_nat j) | PaItem i -> (1, int_of_nat i) | PaHidden n -> (2, int_of_nat n)
  | PaOther n -> (3, int_of_nat n) | PaPlace _ -> (4, 0)
let parse_row toks =
  match toks with
  | n :: r ->
      let (cells, rest) = take (2 * int_of_string n) r in
      let rec pairs = function c :: v :: r -> (parse_col c, parse_val v) :: pairs r | [] -> [] | _ -> failwith "odd row" in
      let row = List.stable_sort (fun (a, _) (b, _) -> compare (col_rank a) (col_rank b)) (pairs cells) in
      (row, rest)
  | [] -> failwith "missing row"
let rec parse_rows n toks = if n = 0 then ([], toks) else
    let (r, rest) = parse_row toks in let (rs, rest') = parse_rows (n - 1) rest in (r :: rs, rest')

let show_val = function
  | PaNum x -> Printf.sprintf "%d/%d" (Win.int_of_z x.qnum) (int_of_pos x.qden)
  | PaStr s -> "s" ^ hex_of_bytes s | PaNull -> "null" | PaBool b -> if b then "true" else "false"
let show_col = function
  | PaGroup j -> Printf.sprintf "g%d" (int_of_nat j) | PaItem i -> Printf.sprintf "i%d" (int_of_nat i)
  | PaHidden n -> Printf.sprintf "h%d" (int_of_nat n) | PaOther n -> Printf.sprintf "x%d" (int_of_nat n) | PaPlace _ -> "p"
let show_row r = "[" ^ String.concat "," (List.map (fun (c, v) -> show_col c ^ "=" ^ show_val v) r) ^ "]"
let show_rows rs = String.concat "" (List.map show_row rs)

(* the query sections shared by the Q and M lines *)
let parse_query hdr items having order =
  match hdr with
  | [mode; ng; di; hl; lim] ->
      let ngroup = int_of_string ng in
      let has_limit = (hl = "1") in
      let items = (match items with
          | n :: r -> let rec go k toks = if k = 0 then [] else let (p, r') = parse_pexp toks in p :: go (k - 1) r' in
              go (int_of_string n) r
          | [] -> failwith "no items") in
      let having = (match having with ["-"] -> None | l -> Some (fst (parse_hpred l))) in
      let qy = { pq_ngroup = nat_of ngroup; pq_items = items; pq_distinct = (di = "1"); pq_having = having;
                 pq_order = parse_keys order; pq_limit = nat_of (int_of_string lim) } in
      (mode, ngroup, has_limit, lim, qy)
  | _ -> failwith "bad header"

let parse_input ngroup input =
  match input with
  | n :: r ->
      let rec go k toks = if k = 0 then [] else
          let (ks, r1) = take ngroup toks in
          (match r1 with
           | t :: u :: w :: r2 ->
               (List.map parse_val ks, [(O, Win.zs t); (S O, Win.zs u); (S (S O), Win.zs w)]) :: go (k - 1) r2
           | _ -> failwith "short input row") in
      go (int_of_string n) r
  | [] -> failwith "no input"

let count_groups inp = List.length (List.sort_uniq compare (List.map (fun (k, _) -> List.map show_val k) inp))

(* one delivered batch against the checker and the model.
   The engine enumerated its groups in an order we cannot see; any order that puts the delivered groups
   first, as delivered, reproduces the delivered batch iff the batch is correct.
   `Chk: the property is violated on this batch; `Diff: only model and implementation disagree *)
let judge qy has_limit lim inp out =
  let order = List.map (fun row -> List.map (function Some v -> v | None -> PaNull)
                           (pa_row_key qy.pq_ngroup row)) out in
  let model = pa_run qy order inp in
  let same = List.length model = List.length out && List.for_all2 pa_same_row model out in
  match pa_chk qy has_limit inp out with
  | Some c ->
      `Chk (Printf.sprintf "chk %s limit=%s groups=%d impl=%s model=%s%s" (clause_name c)
              (if has_limit then lim else "none") (count_groups inp) (show_rows out) (show_rows model)
              (if same then "" else " (and model differs)"))
  | None ->
      if not same then `Diff (Printf.sprintf "diff batch impl=%s model=%s" (show_rows out) (show_rows model))
      else `Ok

let handle_q (toks : string list) : string =
  match Win.split_hash toks with
  | [hdr; items; having; order; input; output] ->
      let (mode, ngroup, has_limit, lim, qy) = parse_query hdr items having order in
      let inp = parse_input ngroup input in
      (match output with
       | nb :: r ->
           let nb = int_of_string nb in
           if nb > 1 then "chk batches more_than_one_batch" else
           let out = if nb = 0 then [] else
               (match r with n :: r' -> fst (parse_rows (int_of_string n) r') | [] -> failwith "no batch") in
           (match judge qy has_limit lim inp out with
            | `Chk s | `Diff s -> s
            | `Ok ->
                if count_groups inp >= 2 && (qy.pq_having <> None || qy.pq_order <> [] || has_limit) then "ok nt"
                else if mode = "p" then "ok nt"
              else if mode = "t" && qy.pq_distinct && count_groups inp >= 2 then "ok nt" else "ok")
       | [] -> failwith "no output")
  | _ -> "bad line"

(* M: one query, K consecutive batches, and what two consumers that kept every delivered batch hold at
   the END of the run (the result channel read only then; a sink that retained the slices it was given).
   Sections after the query: K # flags (1 = something was delivered for batch k, 0 = nothing, ? = not
   observed) # input_1 # .. # input_K # channel: n batches # sink: n batches.
   Batches are delivered in order and an empty result is not delivered, so the k-th input is judged
   against the next held batch when a delivery is expected for it (by the flag, else by the model). *)
let handle_m (toks : string list) : string =
  match Win.split_hash toks with
  | hdr :: items :: having :: order :: [k] :: flags :: rest ->
      let (_, ngroup, has_limit, lim, qy) = parse_query hdr items having order in
      let k = int_of_string k in
      let (inputs, rest) = take k rest in
      let inputs = List.map (parse_input ngroup) inputs in
      let parse_seq sec = (match sec with
          | nb :: r ->
              let rec go n toks = if n = 0 then [] else
                  (match toks with
                   | c :: r' -> let (rows, r'') = parse_rows (int_of_string c) r' in rows :: go (n - 1) r''
                   | [] -> failwith "short batch list") in
              go (int_of_string nb) r
          | [] -> failwith "no batch list") in
      (match rest with
       | [chan; sink] ->
           let consumers = [("channel", parse_seq chan); ("sink", parse_seq sink)] in
           let expect = List.map2 (fun f inp -> match f with
               | "1" -> true | "0" -> false
               | _ -> pa_run qy [] inp <> []) flags inputs in
           let worst = ref `Ok in
           let note v = (match !worst, v with
               | `Chk _, _ -> () | _, `Chk _ -> worst := v
               | `Diff _, _ -> () | _, `Diff _ -> worst := v | _ -> ()) in
           List.iter (fun (cname, held) ->
               let tag i s = Printf.sprintf "%s batch=%d/%d consumer=%s" s (i + 1) k cname in
               let held = ref held in
               List.iteri (fun i (inp, exp) ->
                   let out = (if not exp then Some [] else
                       match !held with b :: r -> held := r; Some b | [] -> None) in
                   match out with
                   | None -> note (`Chk (tag i "chk batches batch_not_delivered_or_lost"))
                   | Some out ->
                       (match judge qy has_limit lim inp out with
                        | `Chk s -> note (`Chk (tag i s)) | `Diff s -> note (`Diff (tag i s)) | `Ok -> ()))
                 (List.combine inputs expect);
               if !held <> [] then note (`Chk (Printf.sprintf "chk batches more_batches_than_expected consumer=%s extra=%s"
                                                  cname (String.concat "|" (List.map show_rows !held)))))
             consumers;
           (match !worst with
            | `Chk s | `Diff s -> s
            | `Ok -> if k >= 2 && List.exists (fun e -> e) expect then "ok nt" else "ok")
       | _ -> "bad line")
  | _ -> "bad line"

let handle_s (toks : string list) : string =
  match Win.split_hash toks with
  | [[]; keys; rows; out] ->
      let keys = parse_keys keys in
      let rows = (match rows with n :: r -> fst (parse_rows (int_of_string n) r) | [] -> failwith "no rows") in
      let tagged = List.mapi (fun i r -> (PaOther (nat_of 1000), PaNum (mkq i 1)) :: r) rows in
      let sorted = pa_sort keys tagged in
      let ids = List.map (fun r -> match r with (_, PaNum x) :: _ -> string_of_int (Win.int_of_z x.qnum) | _ -> "?") sorted in
      if ids = out then (if List.length rows >= 2 then "ok nt" else "ok")
      else begin
        (* judge the implementation's own order: is it sorted by the key list at all? *)
        let arr = Array.of_list tagged in
        let impl_rows = List.map (fun s -> arr.(int_of_string s)) out in
        let rec sorted = function
          | a :: ((b :: _) as r) -> (not (pa_less keys b a)) && sorted r
          | _ -> true in
        if List.length out = List.length rows && not (sorted impl_rows)
        then Printf.sprintf "chk sort_sorted impl=%s model=%s (and model differs)" (String.concat "," out) (String.concat "," ids)
        else Printf.sprintf "diff sort impl=%s model=%s" (String.concat "," out) (String.concat "," ids)
      end
  | _ -> "bad line"

let handle (toks : string list) : string =
  match toks with
  | "Q" :: r -> handle_q r
  | "S" :: r -> handle_s r
  | "M" :: r -> handle_m r
  | ["V"; a; b; c] ->
      let pv t = if t = "m" then None else Some (parse_val t) in
      let m = (match pa_cmp_val (pv a) (pv b) with Lt -> "-1" | Eq -> "0" | Gt -> "1") in
      if m = c then "ok nt" else Printf.sprintf "diff compare impl=%s model=%s" c m
  | _ -> "bad line"

let () = Registry.register "C07" handle
