(* C07 — post-aggregation clauses. Line formats are documented in harness/c07.go.
   "ok" / "ok nt"       model = implementation and the relational checker accepts the delivered batch
   "chk <clause> ..."   the delivered batch violates the property on this input
   "diff <what>"        model and implementation disagree (and the checker did not object) *)
open Model
open Util

let zi = Win.z_of_int
let rec nat_of i = if i <= 0 then O else S (nat_of (i - 1))

let clause_name = function
  | PaClNoHidden -> "no_hidden_columns" | PaClGroupOnce -> "group_once" | PaClItemValue -> "item_value"
  | PaClHaving -> "having_filter" | PaClHavingLost -> "having_lost" | PaClSorted -> "sort_sorted"
  | PaClLimit -> "limit_prefix" | PaClTopN -> "limit_topn" | PaClDistinct -> "distinct_nodup"

let mkq (n : int) (d : int) : q = { qnum = zi n; qden = pos_of_int d }

(* value token: q<num>_<den> | s<hex> | z *)
let parse_val (t : string) : pa_val =
  match t.[0] with
  | 'q' ->
      let body = String.sub t 1 (String.length t - 1) in
      (match String.split_on_char '_' body with
       | [n; d] -> PaNum (mkq (int_of_string n) (int_of_string d))
       | _ -> failwith ("bad number " ^ t))
  | 's' -> PaStr (bytes_of_hex (String.sub t 1 (String.length t - 1)))
  | 'z' -> PaNull
  | _ -> failwith ("bad value " ^ t)

let parse_col (t : string) : pa_col =
  let k = int_of_string (String.sub t 1 (String.length t - 1)) in
  match t.[0] with
  | 'g' -> PaGroup (nat_of k) | 'i' -> PaItem (nat_of k) | 'h' -> PaHidden (nat_of k)
  | 'x' -> PaOther (nat_of k) | _ -> failwith ("bad column " ^ t)

let parse_op = function "+" -> PaAdd | "-" -> PaSub | "*" -> PaMul | "/" -> PaDiv | s -> failwith ("bad op " ^ s)
let parse_agg = function
  | "sum" -> PaSum | "avg" -> PaAvg | "min" -> PaMin | "max" -> PaMax | "count" -> PaCount
  | s -> failwith ("bad agg " ^ s)

let rec parse_aexp = function
  | "f" :: k :: r -> (PaField (nat_of (int_of_string k)), r)
  | "l" :: k :: r -> (PaALit (zi (int_of_string k)), r)
  | "st" :: r -> (PaStar, r)
  | "b" :: o :: r -> let (x, r1) = parse_aexp r in let (y, r2) = parse_aexp r1 in (PaABin (parse_op o, x, y), r2)
  | _ -> failwith "bad aexp"

let rec parse_pexp = function
  | "A" :: a :: r -> let (e, r1) = parse_aexp r in (PaPAgg (parse_agg a, e), r1)
  | "L" :: n :: d :: r -> (PaPLit (mkq (int_of_string n) (int_of_string d)), r)
  | "P" :: r -> let (x, r1) = parse_pexp r in (PaPParen x, r1)
  | "B" :: o :: r -> let (x, r1) = parse_pexp r in let (y, r2) = parse_pexp r1 in (PaPBin (parse_op o, x, y), r2)
  | _ -> failwith "bad pexp"

let rec parse_hexp = function
  | "c" :: c :: r -> (PaHCol (parse_col c), r)
  | "A" :: a :: r -> let (e, r1) = parse_aexp r in (PaHAgg (parse_agg a, e), r1)
  | "L" :: n :: d :: r -> (PaHLit (mkq (int_of_string n) (int_of_string d)), r)
  | "B" :: o :: r -> let (x, r1) = parse_hexp r in let (y, r2) = parse_hexp r1 in (PaHBin (parse_op o, x, y), r2)
  | _ -> failwith "bad hexp"

let parse_cmp = function
  | "gt" -> PaGt | "ge" -> PaGe | "lt" -> PaLt | "le" -> PaLe | "eq" -> PaEq | "ne" -> PaNe
  | s -> failwith ("bad cmp " ^ s)

let rec parse_hpred = function
  | "?" :: c :: r -> let (x, r1) = parse_hexp r in let (y, r2) = parse_hexp r1 in (PaHCmp (parse_cmp c, x, y), r2)
  | "&" :: r -> let (p, r1) = parse_hpred r in let (q, r2) = parse_hpred r1 in (PaHAnd (p, q), r2)
  | "|" :: r -> let (p, r1) = parse_hpred r in let (q, r2) = parse_hpred r1 in (PaHOr (p, q), r2)
  | _ -> failwith "bad hpred"

let rec parse_keys = function
  | [] -> []
  | c :: d :: r -> (parse_col c, (if d = "d" then PaDesc else PaAsc)) :: parse_keys r
  | _ -> failwith "bad keys"

let rec take n l = if n = 0 then ([], l) else
    (match l with x :: r -> let (a, b) = take (n - 1) r in (x :: a, b) | [] -> failwith "short list")

(* one delivered row: n (col val)*, rebuilt in a canonical column order *)
let col_rank = function
  | PaGroup j -> (0, int_of_nat j) | PaItem i -> (1, int_of_nat i) | PaHidden n -> (2, int_of_nat n)
  | PaOther n -> (3, int_of_nat n) | PaPlace _ -> (4, 0)
let parse_row toks =
  match toks with
  | n :: r ->
      let (cells, rest) = take (2 * int_of_string n) r in
      let rec pairs = function c :: v :: r -> (parse_col c, parse_val v) :: pairs r | [] -> [] | _ -> failwith "odd row" in
      let row = List.stable_sort (fun (a, _) (b, _) -> compare (col_rank a) (col_rank b)) (pairs cells) in
      (row, rest)
  | [] -> failwith "missing row"
let rec parse_rows n toks = if n = 0 then ([], toks) else
    let (r, rest) = parse_row toks in let (rs, rest') = parse_rows (n - 1) rest in (r :: rs, rest')

let show_val = function
  | PaNum x -> Printf.sprintf "%d/%d" (Win.int_of_z x.qnum) (int_of_pos x.qden)
  | PaStr s -> "s" ^ hex_of_bytes s | PaNull -> "null"
let show_col = function
  | PaGroup j -> Printf.sprintf "g%d" (int_of_nat j) | PaItem i -> Printf.sprintf "i%d" (int_of_nat i)
  | PaHidden n -> Printf.sprintf "h%d" (int_of_nat n) | PaOther n -> Printf.sprintf "x%d" (int_of_nat n) | PaPlace _ -> "p"
let show_row r = "[" ^ String.concat "," (List.map (fun (c, v) -> show_col c ^ "=" ^ show_val v) r) ^ "]"
let show_rows rs = String.concat "" (List.map show_row rs)

let handle_q (toks : string list) : string =
  match Win.split_hash toks with
  | [[mode; ng; di; hl; lim]; items; having; order; input; output] ->
      let ngroup = int_of_string ng in
      let has_limit = (hl = "1") in
      let items = (match items with
          | n :: r -> let rec go k toks = if k = 0 then [] else let (p, r') = parse_pexp toks in p :: go (k - 1) r' in
              go (int_of_string n) r
          | [] -> failwith "no items") in
      let having = (match having with ["-"] -> None | l -> Some (fst (parse_hpred l))) in
      let qy = { pq_ngroup = nat_of ngroup; pq_items = items; pq_distinct = (di = "1"); pq_having = having;
                 pq_order = parse_keys order; pq_limit = nat_of (int_of_string lim) } in
      let inp = (match input with
          | n :: r ->
              let rec go k toks = if k = 0 then [] else
                  let (ks, r1) = take ngroup toks in
                  (match r1 with
                   | t :: u :: w :: r2 ->
                       (List.map parse_val ks, [(O, Win.zs t); (S O, Win.zs u); (S (S O), Win.zs w)]) :: go (k - 1) r2
                   | _ -> failwith "short input row") in
              go (int_of_string n) r
          | [] -> failwith "no input") in
      (match output with
       | nb :: r ->
           let nb = int_of_string nb in
           if nb > 1 then "chk batches more_than_one_batch" else
           let out = if nb = 0 then [] else
               (match r with n :: r' -> fst (parse_rows (int_of_string n) r') | [] -> failwith "no batch") in
           (* the engine enumerated its groups in an order we cannot see; any order that puts the delivered
              groups first, as delivered, reproduces the delivered batch iff the batch is correct *)
           let order = List.map (fun row -> List.map (function Some v -> v | None -> PaNull)
                                    (pa_row_key qy.pq_ngroup row)) out in
           let model = pa_run qy order inp in
           let verdict = pa_chk qy has_limit inp out in
           let ngroups = List.length (List.sort_uniq compare (List.map (fun (k, _) -> List.map show_val k) inp)) in
           (match verdict with
            | Some c ->
                Printf.sprintf "chk %s limit=%s groups=%d impl=%s model=%s" (clause_name c)
                  (if has_limit then lim else "none") ngroups (show_rows out) (show_rows model)
            | None ->
                let same = List.length model = List.length out && List.for_all2 pa_same_row model out in
                if not same then Printf.sprintf "diff batch impl=%s model=%s" (show_rows out) (show_rows model)
                else if ngroups >= 2 && (having <> None || qy.pq_order <> [] || has_limit) then "ok nt"
                else if mode = "p" then "ok nt" else "ok")
       | [] -> failwith "no output")
  | _ -> "bad line"

let handle_s (toks : string list) : string =
  match Win.split_hash toks with
  | [[]; keys; rows; out] ->
      let keys = parse_keys keys in
      let rows = (match rows with n :: r -> fst (parse_rows (int_of_string n) r) | [] -> failwith "no rows") in
      let tagged = List.mapi (fun i r -> (PaOther (nat_of 1000), PaNum (mkq i 1)) :: r) rows in
      let sorted = pa_sort keys tagged in
      let ids = List.map (fun r -> match r with (_, PaNum x) :: _ -> string_of_int (Win.int_of_z x.qnum) | _ -> "?") sorted in
      if ids = out then (if List.length rows >= 2 then "ok nt" else "ok")
      else begin
        (* judge the implementation's own order: is it sorted by the key list at all? *)
        let arr = Array.of_list tagged in
        let impl_rows = List.map (fun s -> arr.(int_of_string s)) out in
        let rec sorted = function
          | a :: ((b :: _) as r) -> (not (pa_less keys b a)) && sorted r
          | _ -> true in
        if List.length out = List.length rows && not (sorted impl_rows)
        then Printf.sprintf "chk sort_sorted impl=%s model=%s (and model differs)" (String.concat "," out) (String.concat "," ids)
        else Printf.sprintf "diff sort impl=%s model=%s" (String.concat "," out) (String.concat "," ids)
      end
  | _ -> "bad line"

let handle (toks : string list) : string =
  match toks with
  | "Q" :: r -> handle_q r
  | "S" :: r -> handle_s r
  | ["V"; a; b; c] ->
      let pv t = if t = "m" then None else Some (parse_val t) in
      let m = (match pa_cmp_val (pv a) (pv b) with Lt -> "-1" | Eq -> "0" | Gt -> "1") in
      if m = c then "ok nt" else Printf.sprintf "diff compare impl=%s model=%s" c m
  | _ -> "bad line"

let () = Registry.register "C07" handle
