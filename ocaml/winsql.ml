(* SQL-level (quiescent) lines of the time-window properties:
   Q size slide ooo wmk # (id ts key val)* # (key ws we count sum n ids..) ; ... *)
open Model
open Util
open Win

let string_of_qclause = function
  | QMembership -> "membership" | QWrongGroup -> "wrong_group" | QUnknownRow -> "unknown_row"
  | QAggregate -> "aggregate" | QTwice -> "twice" | QLost -> "lost" | QTooEarlyStart -> "too_early_start"

let handle_q (toks : string list) : string =
  match toks with
  | size :: slide :: ooo :: wmk :: rest ->
      (match split_hash rest with
       | [ []; evs; res ] | [ evs; res ] ->
           let c = { ssize = zs size; sslide = zs slide; sooo = zs ooo; slateness = Z0 } in
           let rec pe = function
             | id :: ts :: k :: v :: r -> { q_id = zs id; q_ts = zs ts; q_key = zs k; q_val = zs v } :: pe r
             | [] -> [] | _ -> failwith "bad event list" in
           let rec take n l = if n = 0 then ([], l) else
               (match l with x :: r -> let (a, b) = take (n - 1) r in (x :: a, b) | [] -> failwith "short ids") in
           let rec pr = function
             | [] -> []
             | ";" :: r -> pr r
             | k :: ws :: we :: cnt :: sum :: n :: r ->
                 let (ids, r') = take (int_of_string n) r in
                 { r_key = zs k; r_start = zs ws; r_end = zs we; r_ids = List.map zs ids; r_count = zs cnt; r_sum = zs sum } :: pr r'
             | _ -> failwith "bad result list" in
           let cls = List.sort_uniq compare (List.map string_of_qclause (chk_win_sql c (zs wmk) (pe evs) (pr res))) in
           if cls <> [] then "chk sql_" ^ String.concat ",sql_" cls else "ok nt"
       | _ -> "bad line")
  | _ -> "bad line"
