(* C03 — aggregates.  Case lines (see harness/c03.go):
     D <agg> <param> # <values> # <result>
     P <agg> <param> # <values> # <result> # <result on a shuffled copy>
     G <k> (<agg> <mode> <param>)*k # <cells batch 1> # ... # <results batch 1> # ...
     S <shape> <N> <k> (<agg> <param>)*k # <cells of all rows> # <results batch 1> # ...
     M <N> <k> (<agg> <param> <arg>)*k # <cells of all rows> # <results batch 1> # ...
       a select list whose calls have DIFFERENT arguments; <arg> = <x|dx>:<id|add|sub|mul>:<num/den>:<i|d>:<cl|lc>
     A <N> <k> (<agg> <param> <arg>)*k # <cells of all rows> # <row 1> # ...
       SELECT changed_col(true, <call>) ... : the rows delivered for the windows whose values changed ("-" = item absent)
     H <N> <k> (<agg> <param> <arg>)*k # <h> (<agg> <param> <arg>)*h # <pred> # <cells of all rows> # <batch 1> # ...
       a query with HAVING over selected and hidden calls; <batch b> = E when nothing was delivered
     GE / SE / ME / HE ...  the same lines; every missing cell was sent as an event without any column ({})
   Verdicts: "chk <clause>" = the implementation's result is not the documented definition on this input;
             "diff ..."     = the implementation's result is not the model's. *)
open Model
open Util
open Win

let z_of_dec (s : string) : z =
  let neg = String.length s > 0 && s.[0] = '-' in
  let acc = ref Z0 in
  String.iteri (fun i c ->
      if i = 0 && (c = '-' || c = '+') then ()
      else if c >= '0' && c <= '9' then acc := z_push_digit !acc (z_of_int (Char.code c - 48))
      else failwith ("bad number " ^ s)) s;
  if neg then Z.opp !acc else !acc

let q_of_frac (s : string) : q =
  match String.split_on_char '/' s with
  | [a; b] -> mkq (z_of_dec a) (z_of_dec b)
  | [a] -> mkq (z_of_dec a) (z_of_int 1)
  | _ -> failwith ("bad rational " ^ s)

let tail s = String.sub s 1 (String.length s - 1)

let cell_of_tok (t : string) : cell =
  if t = "n" then Cell VNull
  else if t = "m" then Missing
  else if t = "bt" then Cell (VBool true)
  else if t = "bf" then Cell (VBool false)
  else match t.[0] with
    | 'i' -> Cell (VInt (z_of_dec (tail t)))
    | 'f' -> Cell (VFlt (q_of_frac (tail t)))
    | 's' -> Cell (VStr (bytes_of_hex (tail t)))
    | _ -> failwith ("bad value token " ^ t)

let value_of_tok t = match cell_of_tok t with Cell v -> v | Missing -> failwith "missing in value list"

(* one observed result from the front of a token list *)
let rec take_obs (toks : string list) : obs * string list =
  match toks with
  | "[" :: r ->
      let rec go acc = function
        | "]" :: r' -> (OList (List.rev acc), r')
        | t :: r' -> go (value_of_tok t :: acc) r'
        | [] -> failwith "unterminated list" in
      go [] r
  | t :: r -> (OVal (value_of_tok t), r)
  | [] -> failwith "missing result"

let agg_of (name : string) (param : string) : agg * mode option =
  match name with
  | "sum" -> (ASum, None) | "avg" -> (AAvg, None) | "min" -> (AMin, None) | "max" -> (AMax, None)
  | "count" -> (ACount, None) | "count_star" -> (ACount, Some MStar)
  | "stddev" -> (AStdDev, None) | "stddevs" -> (AStdDevS, None) | "var" -> (AVar, None) | "vars" -> (AVarS, None)
  | "median" -> (AMedian, None) | "percentile" -> (APercentile (q_of_frac param), None)
  | "first_value" -> (AFirst, None) | "last_value" -> (ALast, None)
  | "nth_value" -> (ANth (nat_of_int (if param = "-" then 1 else int_of_string param)), None)
  | "collect" -> (ACollect, None) | "deduplicate" -> (ADedup, None) | "merge_agg" -> (AMerge, None)
  | "w_stddev" -> (WStdDev, None) | "w_stddevs" -> (WStdDevS, None) | "w_var" -> (WVar, None) | "w_vars" -> (WVarS, None)
  | _ -> failwith ("unknown aggregator " ^ name)

let keeps_null = function ANth _ | ACollect | ADedup | AMerge -> true | _ -> false
let order_free = function
  | AFirst | ALast | ANth _ | ACollect | ADedup | AMerge -> false
  | _ -> true

let known_seen : (string, int) Hashtbl.t = Hashtbl.create 8
let q0 : q = mkq Z0 (z_of_int 1)

(* judge one observed result: the definition first, then the model *)
(* sl = the float64 error budget of the aggregate over the values it was fed with (Spec/AggSpec.v fl_slack: 0 outside
   the variance family; second order in 2^-52 max|x| for the two-pass stddev / stddevs / var / vars) *)
let judge ?(sl : q = q0) (name : string) (f : agg) (known : string option) (o : obs option) (sp : res option option) (md : res option) : string option =
  let ex = exact_agg f in
  let m_ok = matches_opt_s ex sl o md in
  match sp with
  | Some sp when not (matches_opt_s ex sl o sp) ->
      (match known with
       | Some k when m_ok ->
           (* a recorded deviation that the model reproduces exactly: reported for the first 25 cases only, so that
              the driver's cap on printed verdicts can never hide a different violation *)
           let c = (try Hashtbl.find known_seen k with Not_found -> 0) in
           Hashtbl.replace known_seen k (c + 1);
           if c < 25 then Some ("chk " ^ k) else None
       | _ -> Some ("chk " ^ name ^ "_value"))
  | _ -> if m_ok then None else Some ("diff " ^ name ^ "_model")

let is_null = function VNull -> true | _ -> false
let as_number = function VInt z -> VFlt (mkq z (z_of_int 1)) | v -> v

let handle_direct (name : string) (param : string) (vals : string list) (r1 : string list) (r2 : string list option) : string =
  let (f, _) = agg_of name param in
  let vs = List.map value_of_tok vals in
  let (o, rest) = take_obs r1 in
  if rest <> [] then "bad trailing tokens" else
  let md = run f vs in
  let applicable = (not (keeps_null f)) || not (List.exists is_null vs) in
  let sp = if applicable then Some (Some (spec f vs)) else None in
  let known = (match f with AStdDev -> Some "stddev_is_sample" | _ -> None) in
  let sl = fl_slack f vs in
  match judge ~sl name f known (Some o) sp (Some md) with
  | Some v -> v
  | None ->
      (match r2 with
       | Some r2 when order_free f ->
           let (o2, _) = take_obs r2 in
           if matches_s (exact_agg f) sl o2 md then "ok nt" else "chk " ^ name ^ "_perm_invariance"
       | _ -> if List.length vs >= 2 then "ok nt" else "ok")

let rec chunks n l =
  if l = [] then [] else
  let rec take k l = if k = 0 then ([], l) else match l with x :: r -> let (a, b) = take (k - 1) r in (x :: a, b) | [] -> ([], []) in
  let (a, b) = take n l in a :: chunks n b

let rec split_at n l = if n = 0 then ([], l) else match l with x :: r -> let (a, b) = split_at (n - 1) r in (x :: a, b) | [] -> failwith "short"

(* <arg> of families M and H: <x|dx>:<id|add|sub|mul>:<num/den>:<i|d>:<cl|lc> *)
let shape_of (t : string) : shape =
  (match String.split_on_char ':' t with
   | [col; op; lit; form; _order] ->
       let nested = (match col with "x" -> false | "dx" -> true | _ -> failwith "bad column") in
       if form <> "i" && form <> "d" then failwith "bad literal form" else
       (match op with
        | "id" -> if nested then ShPath else ShId
        | "add" -> ShAff (OAdd, q_of_frac lit)
        | "sub" -> ShAff (OSub, q_of_frac lit)
        | "mul" -> ShAff (OMul, q_of_frac lit)
        | _ -> failwith "bad operator")
   | _ -> failwith ("bad argument token " ^ t))

(* c calls (<agg> <param> <arg>) from the front of a token list *)
let rec flds3 c toks = if c = 0 then ([], toks) else
    (match toks with
     | name :: param :: arg :: r ->
         let (f, star) = agg_of name param in
         let sh = shape_of arg in
         let (l, rest) = flds3 (c - 1) r in
         ((name, f, (match star with Some s -> s | None -> sql_mode sh), sh) :: l, rest)
     | _ -> failwith "bad field spec")

(* HAVING condition in prefix form: and P Q | or P Q | cmp <gt|ge|lt|le> <field> <num/den> *)
let rec take_pred (toks : string list) : hpred * string list =
  match toks with
  | "and" :: r -> let (p, r1) = take_pred r in let (q, r2) = take_pred r1 in (HAnd (p, q), r2)
  | "or" :: r -> let (p, r1) = take_pred r in let (q, r2) = take_pred r1 in (HOr (p, q), r2)
  | "cmp" :: o :: j :: k :: r ->
      let o = (match o with "gt" -> HGt | "ge" -> HGe | "lt" -> HLt | "le" -> HLe | _ -> failwith "bad comparison") in
      (HCmp (o, nat_of_int (int_of_string j), q_of_frac k), r)
  | _ -> failwith "bad HAVING condition"

let rec nth_obs toks i = let (o, r) = take_obs toks in if i = 0 then o else nth_obs r (i - 1)

let rec firstn_l n l = if n = 0 then [] else match l with x :: r -> x :: firstn_l (n - 1) r | [] -> []
let rec range a b = if a > b then [] else a :: range (a + 1) b

(* family H: consecutive batches of a query with HAVING.  The model (hav_run) says which batches come out and with
   which values; the definition says the same from the rows of the batch alone (hholds over spec_batch of every field);
   the implementation must deliver exactly those batches, every value the definition over the batch's OWN rows.
   A value (or a delivery decision) that is instead explained by the rows of the batch TOGETHER WITH those of the
   batches before it that delivered nothing is reported as batch_state_leak. *)
let handle_having (n : int) (k : int) (hdr : string list) (hid : string list) (pred : string list)
    (cells : string list) (rs : string list list) : string =
  let (vis, rest) = flds3 k hdr in
  if rest <> [] then "bad line" else
  let (hidden, rest) = (match hid with h :: r -> flds3 (int_of_string h) r | [] -> failwith "bad hidden section") in
  if rest <> [] then "bad line" else
  let (p, rest) = take_pred pred in
  if rest <> [] then "bad line" else
  let fields = vis @ hidden in
  let cells = List.map cell_of_tok cells in
  let batches = chunks n cells in
  if List.length rs <> List.length batches then "chk batch_count" else
  let sfields = List.map (fun (_, f, m, sh) -> ((f, m), sh)) fields in
  let mds = hav_run sfields (nat_of_int k) p (sel_init sfields) batches in
  let spec_row bc = List.map (fun (_, f, m, sh) -> spec_batch f m (List.map (eval_arg sh) bc)) fields in
  let delivered b = List.nth rs b <> ["E"] in
  (* the rows of batches s..b, s ranging over the stretch of undelivered batches right before b *)
  let leak_candidates b =
    let rec back s acc = if s < 0 || delivered s then acc else back (s - 1) (s :: acc) in
    List.rev (back (b - 1) []) in
  let rows_from s b = List.concat (List.map (fun i -> List.nth batches i) (range s b)) in
  let verdict = ref None in
  let soft = ref None in
  List.iteri (fun b bc ->
      if !verdict = None then begin
        let toks = List.nth rs b in
        let md = List.nth mds b in
        let sp_dec = hholds p (spec_row bc) in
        let md_dec = (md <> None) in
        if sp_dec <> md_dec then verdict := Some (Printf.sprintf "diff having_decision_model batch=%d" b)
        else if delivered b <> sp_dec then begin
          let why = List.find_opt (fun s -> hholds p (spec_row (rows_from s b)) = delivered b) (leak_candidates b) in
          verdict := Some (match why with
              | Some s -> Printf.sprintf "chk batch_state_leak batch=%d %s although HAVING over its own rows %s; it is the decision over the rows of batches %d..%d"
                            b (if sp_dec then "not delivered" else "delivered") (if sp_dec then "holds" else "fails") s b
              | None -> Printf.sprintf "chk %s batch=%d" (if sp_dec then "having_passing_batch_not_delivered" else "having_rejected_batch_delivered") b)
        end
        else if sp_dec then begin
          let mrow = (match md with Some r -> r | None -> []) in
          List.iteri (fun j (name, f, m, sh) ->
              if !verdict = None && j < k then begin
                let o = (match sh, Some (nth_obs toks j) with
                    | ShAff _, Some (OVal v) -> Some (OVal (as_number v))
                    | ShAff _, Some (OList l) -> Some (OList (List.map as_number l))
                    | _, o -> o) in
                let known = (match f, m with
                    | AStdDev, _ -> Some "stddev_is_sample"
                    | _, MExpr when keeps_null f -> Some "expr_null_not_skipped"
                    | _ -> None) in
                let sp = spec_batch f m (List.map (eval_arg sh) bc) in
                let sl = fl_slack_batch f m (List.map (eval_arg sh) bc) in
                match judge ~sl name f known o (Some sp) (List.nth mrow j) with
                | Some v when v <> "chk stddev_is_sample" ->
                    let f' = (match f with AStdDev -> AStdDevS | _ -> f) in
                    let why = List.find_opt (fun s ->
                        matches_opt (exact_agg f) o (spec_batch f' m (List.map (eval_arg sh) (rows_from s b)))) (leak_candidates b) in
                    (match why with
                     | Some s -> verdict := Some (Printf.sprintf "chk batch_state_leak field=%d batch=%d the value is the definition over the rows of batches %d..%d (%s)" j b s b v)
                     | None -> verdict := Some (Printf.sprintf "%s field=%d batch=%d" v j b))
                | Some v -> if !soft = None then soft := Some (Printf.sprintf "%s field=%d batch=%d" v j b)
                | None -> ()
              end) fields
        end
      end) batches;
  (match !verdict, !soft with Some v, _ -> v | None, Some v -> v | None, None -> "ok nt")

(* family A: a select list of changed_col(true, <aggregate call>) items only.  Per window the model (sel_run, proved
   leak-free) gives the value of every call; a row comes out for window b iff some call's value differs from its
   value for window b-1 (b = 0: always), holding exactly the changed calls (the suppression rule is the analytic
   engine's - C14's subject - applied here to the model's values).  The delivered rows, in order of arrival, must be
   those rows, every value the definition over the rows of ITS window.  The model is the code as found: a call with an
   arithmetic argument is computed over the bare column (finding F60, verdict inline_agg_arg_dropped when the
   implementation agrees with that model and not with the definition; never hides another violation of the case).  A value that is the definition over the rows
   of several consecutive windows is reported as batch_state_leak. *)
let res_same (a : res option) (b : res option) : bool =
  match a, b with
  | Some (RNum x), Some (RNum y) -> qeq_bool x y
  | _ -> a = b

let handle_suppressed (n : int) (k : int) (hdr : string list) (cells : string list) (rs : string list list) : string =
  let (fields, rest) = flds3 k hdr in
  if rest <> [] then "bad line" else
  (* the column of call j (the arg token starts with x: or dx:) *)
  let nested j = (let t = List.nth hdr (3 * j + 2) in String.length t > 2 && String.sub t 0 3 = "dx:") in
  let cells = List.map cell_of_tok cells in
  let batches = chunks n cells in
  let nb = List.length batches in
  (* the code (F60 repaired): the hidden aggregate of a call inside an analytic function carries its argument expression *)
  let _ = nested in
  let asis = List.map (fun (_, f, m, sh) -> inline_field f (m = MStar) sh) fields in
  let mds = sel_run asis (sel_init asis) batches in
  (* expected rows: (window, per call: Some model value if changed) *)
  let expected =
    List.concat (List.mapi (fun b row ->
        let flags = List.mapi (fun j v -> b = 0 || not (res_same v (List.nth (List.nth mds (b - 1)) j))) row in
        if List.exists (fun x -> x) flags then [ (b, List.map2 (fun fl v -> if fl then Some v else None) flags row) ] else []) mds) in
  let rows = if rs = [ ["E"] ] then [] else rs in
  let rows_from s e = List.concat (List.map (fun i -> List.nth batches i) (range s e)) in
  let obs_at toks j =     (* j-th item of a delivered row: None = absent *)
    let rec go toks i = (match toks with
        | "-" :: r -> if i = 0 then None else go r (i - 1)
        | _ -> let (o, r) = take_obs toks in if i = 0 then Some o else go r (i - 1)) in
    go toks j in
  (* is the value the aggregate (as the code feeds it) over the rows of windows s..e, s < e ? *)
  let leak_of j o =
    let ((f, m), sh) = List.nth asis j in
    let found = ref None in
    List.iter (fun s -> List.iter (fun e ->
        if !found = None && matches_opt (exact_agg f) (Some o) (spec_batch f m (List.map (eval_arg sh) (rows_from s e)))
        then found := Some (s, e)) (range (s + 1) (nb - 1))) (range 0 (nb - 2));
    !found in
  let verdict = ref None in
  let soft = ref None in
  List.iteri (fun r toks ->
      if !verdict = None then begin
        match List.nth_opt expected r with
        | None -> verdict := Some (Printf.sprintf "chk suppressed_run_extra_row row=%d (%d rows expected)" r (List.length expected))
        | Some (b, exp) ->
            List.iteri (fun j (name, f, m, sh) ->
                if !verdict = None then begin
                  let o = (match obs_at toks j with Some o -> Some (match o with OVal v -> OVal (as_number v) | o -> o) | None -> None) in
                  let bc = List.nth batches b in
                  let sp = spec_batch f m (List.map (eval_arg sh) bc) in
                  let known = (match sh with ShAff _ -> Some "inline_agg_arg_dropped" | _ -> None) in
                  let bad = (match o, List.nth exp j with
                      | None, None -> None
                      | Some o, Some md -> judge ~sl:(fl_slack_batch f m (List.map (eval_arg sh) bc)) name f known (Some o) (Some sp) md
                      | Some _, None -> Some "chk suppressed_run_unchanged_item_present"
                      | None, Some _ -> Some "chk suppressed_run_changed_item_absent") in
                  match bad with
                  | None -> ()
                  | Some "chk inline_agg_arg_dropped" ->
                      if !soft = None then soft := Some (Printf.sprintf "chk inline_agg_arg_dropped row=%d item=%d window=%d" r j b)
                  | Some v ->
                      (match (match o with Some o -> leak_of j o | None -> None) with
                       | Some (s, e) -> verdict := Some (Printf.sprintf "chk batch_state_leak row=%d item=%d window=%d the value is the aggregate over the rows of windows %d..%d (%s)" r j b s e v)
                       | None -> verdict := Some (Printf.sprintf "%s row=%d item=%d window=%d" v r j b))
                end) fields
      end) rows;
  (match !verdict with
   | Some v -> v
   | None ->
       if List.length rows < List.length expected
       then Printf.sprintf "chk suppressed_run_missing_row (%d rows expected, %d delivered)" (List.length expected) (List.length rows)
       else (match !soft with Some v -> v | None -> "ok nt"))

(* fields: (name, agg, mode); batches: cells per batch (already evaluated); results: token sections *)
let judge_batches (fields : (string * agg * mode) list) (batches : cell list list) (results : string list list) : string =
  if List.length results <> List.length batches then "chk batch_count" else
  let impl : obs option list list =    (* per batch, per field *)
    List.map (fun toks ->
        if toks = ["E"] then List.map (fun _ -> None) fields
        else
          let rec go toks n = if n = 0 then (if toks = [] then [] else failwith "trailing result tokens") else
              let (o, r) = take_obs toks in Some o :: go r (n - 1) in
          go toks (List.length fields)) results in
  let verdict = ref None in
  List.iteri (fun j (name, f, m) ->
      let mds = run_batches f m None batches in
      List.iteri (fun b cells ->
          if !verdict = None then begin
            let o = List.nth (List.nth impl b) j in
            let md = List.nth mds b in
            let sp = spec_batch f m cells in
            let known = (match f, m with
                | AStdDev, _ -> Some "stddev_is_sample"
                | _, MExpr when keeps_null f -> Some "expr_null_not_skipped"
                | _ -> None) in
            match judge ~sl:(fl_slack_batch f m cells) name f known o (Some sp) md with
            | Some v -> verdict := Some (Printf.sprintf "%s field=%d batch=%d" v j b)
            | None -> ()
          end) batches) fields;
  match !verdict with Some v -> v | None -> "ok nt"

let rec handle (toks : string list) : string =
  match toks with
  (* GE / SE / ME / HE: the lines of families G / S / M / H; the harness has sent every missing cell ("m") as an event
     without any column ({}), whole batches of them included (harness/c03e.go).  The model and the definition are the
     same: such an event is a row whose input is missing - count( * ) counts it, a batch of such rows has a result. *)
  | ("GE" | "SE" | "ME" | "HE" as fam) :: rest ->
      let v = handle (String.sub fam 0 1 :: rest) in
      let pre p = String.length v >= String.length p && String.sub v 0 (String.length p) = p in
      if pre "chk " || pre "diff "
      then v ^ " [m = an event without any column, {}]" else v
  | "D" :: name :: param :: rest ->
      (match split_hash rest with
       | [ []; vals; res ] -> handle_direct name param vals res None
       | _ -> "bad line")
  | "P" :: name :: param :: rest ->
      (match split_hash rest with
       | [ []; vals; r1; r2 ] -> handle_direct name param vals r1 (Some r2)
       | _ -> "bad line")
  | "G" :: k :: rest ->
      (match split_hash rest with
       | hdr :: secs ->
           let k = int_of_string k in
           let rec flds n toks = if n = 0 then [] else
               (match toks with
                | name :: md :: param :: r ->
                    let (f, star) = agg_of name param in
                    let m = (match star with Some s -> s | None -> if md = "e" then MExpr else MCol) in
                    (name, f, m) :: flds (n - 1) r
                | _ -> failwith "bad field spec") in
           let fields = flds k hdr in
           let nb = List.length secs / 2 in
           let (cs, rs) = split_at nb secs in
           let batches = List.map (List.map cell_of_tok) cs in
           judge_batches fields batches rs
       | _ -> "bad line")
  | "S" :: shape :: n :: k :: rest ->
      (match split_hash rest with
       | hdr :: cells :: rs ->
           let k = int_of_string k and n = int_of_string n in
           let sh = (match shape with
               | "col" -> ShId | "nest" -> ShPath | "add1" -> ShAdd1 | "mul2" -> ShMul2
               | _ -> failwith "bad shape") in
           let rec flds c toks = if c = 0 then [] else
               (match toks with
                | name :: param :: r ->
                    let (f, star) = agg_of name param in
                    (name, f, (match star with Some s -> s | None -> sql_mode sh)) :: flds (c - 1) r
                | _ -> failwith "bad field spec") in
           let fields = flds k hdr in
           let cells = List.map cell_of_tok cells in
           if List.length rs <> List.length (chunks n cells) then "chk batch_count" else
           (* per field: the model's cells (what the registered evaluator yields) and the definition's cells *)
           let verdict = ref None in
           List.iteri (fun j (name, f, m) ->
               if !verdict = None then begin
                 let mcells = chunks n (sql_cells sh f cells) in
                 let scells = chunks n (List.map (eval_arg sh) cells) in
                 let mds = run_batches f m None mcells in
                 List.iteri (fun b sc ->
                     if !verdict = None then begin
                       let toks = List.nth rs b in
                       let o = if toks = ["E"] then None else
                           (let rec nth_obs toks i = let (o, r) = take_obs toks in if i = 0 then o else nth_obs r (i - 1) in
                            Some (nth_obs toks j)) in
                       let known = (match f, m with
                           | AStdDev, _ -> Some "stddev_is_sample"
                           | _, MExpr when keeps_null f -> Some "expr_null_not_skipped"
                           | _ -> None) in
                       match judge ~sl:(fl_slack_batch f m sc) name f known o (Some (spec_batch f m sc)) (List.nth mds b) with
                       | Some v -> verdict := Some (Printf.sprintf "%s field=%d batch=%d" v j b)
                       | None -> ()
                     end) scells
               end) fields;
           (match !verdict with Some v -> v | None -> "ok nt")
       | _ -> "bad line")
  | "M" :: n :: k :: rest ->
      (match split_hash rest with
       | hdr :: cells :: rs ->
           let k = int_of_string k and n = int_of_string n in
           let (fields, _) = flds3 k hdr in
           let cells = List.map cell_of_tok cells in
           let batches = chunks n cells in
           if List.length rs <> List.length batches then "chk batch_count" else
           (* the model: one GroupAggregator, one state per call, every call fed with ITS argument *)
           let sfields = List.map (fun (_, f, m, sh) -> ((f, m), sh)) fields in
           let mds = sel_run sfields (sel_init sfields) batches in
           let verdict = ref None in
           let soft = ref None in      (* a recorded deviation: never hides a different violation of the same case *)
           List.iteri (fun b bc ->
               let toks = List.nth rs b in
               let obs_of j = if toks = ["E"] then None else
                   (let rec nth_obs toks i = let (o, r) = take_obs toks in if i = 0 then o else nth_obs r (i - 1) in
                    Some (nth_obs toks j)) in
               List.iteri (fun j (name, f, m, sh) ->
                   if !verdict = None then begin
                     (* the Go type (int / float64) of the value of an arithmetic argument is not modelled *)
                     let o = (match sh, obs_of j with
                         | ShAff _, Some (OVal v) -> Some (OVal (as_number v))
                         | ShAff _, Some (OList l) -> Some (OList (List.map as_number l))
                         | _, o -> o) in
                     let known = (match f, m with
                         | AStdDev, _ -> Some "stddev_is_sample"
                         | _, MExpr when keeps_null f -> Some "expr_null_not_skipped"
                         | _ -> None) in
                     let sp = spec_batch f m (List.map (eval_arg sh) bc) in
                     let sl = fl_slack_batch f m (List.map (eval_arg sh) bc) in
                     match judge ~sl name f known o (Some sp) (List.nth (List.nth mds b) j) with
                     | Some v when v <> "chk stddev_is_sample" ->
                         (* diagnosis: is it the definition applied to the argument of ANOTHER call of the list? *)
                         let other = ref None in
                         List.iteri (fun i (_, _, _, sh') ->
                             if !other = None && i <> j && sh' <> sh && m <> MStar then begin
                               let f' = (match f with AStdDev -> AStdDevS | _ -> f) in
                               let sp' = spec_batch f' m (List.map (eval_arg sh') bc) in
                               if matches_opt (exact_agg f) o sp' then other := Some i
                             end) fields;
                         (match !other with
                          | Some i -> verdict := Some (Printf.sprintf "chk expr_arg_of_other_call field=%d batch=%d other=%d (%s)" j b i v)
                          | None -> verdict := Some (Printf.sprintf "%s field=%d batch=%d" v j b))
                     | Some v -> if !soft = None then soft := Some (Printf.sprintf "%s field=%d batch=%d" v j b)
                     | None -> ()
                   end) fields) batches;
           (match !verdict, !soft with Some v, _ -> v | None, Some v -> v | None, None -> "ok nt")
       | _ -> "bad line")
  | "H" :: n :: k :: rest ->
      (match split_hash rest with
       | hdr :: hid :: pred :: cells :: rs -> handle_having (int_of_string n) (int_of_string k) hdr hid pred cells rs
       | _ -> "bad line")
  | "A" :: n :: k :: rest ->
      (match split_hash rest with
       | hdr :: cells :: rs -> handle_suppressed (int_of_string n) (int_of_string k) hdr cells rs
       | _ -> "bad line")
  | _ -> "bad line"

let () = Registry.register "C03" handle
