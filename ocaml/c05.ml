(* C05.  The Q / A / N / NS / X / E lines are handled in c06.ml (they share the C06 encodings; it is
   linked before this file).  Here: the nested-path lines, judged by the extracted resolver of
   coq/Model/NestedPath.v.
   P  <hexpath> # <value> # <ParseFieldPath: ok n parts | err | nil | panic> # <GetNestedField: found v | missing | panic>
   NQ <hexsql> # <n> (<hextext> <hexalias|~> <nsegs> seg..)* w0|w1 expr # <row> # <fresh> # <used> # <async>
   value tokens: N | n<num>/<den> | s<hex> | b0 | b1 | A<k> v.. | M<k> (hexkey v).. *)
open Model
open Util
open C06

let rec p_jvalue (t : string list) : jvalue * string list =
  match t with
  | [] -> failwith "value expected"
  | x :: r ->
      let body = String.sub x 1 (String.length x - 1) in
      (match x.[0] with
       | 'N' -> (JS VNull, r)
       | 'n' -> (JS (VNum (q_of_string body)), r)
       | 's' -> (JS (VStr (bytes_of_hex body)), r)
       | 'b' -> (JS (VBool (body = "1")), r)
       | 'A' ->
           let rec go k r = if k = 0 then ([], r) else
               let (v, r) = p_jvalue r in let (l, r) = go (k - 1) r in (v :: l, r) in
           let (l, r) = go (int_of_string body) r in (JArr l, r)
       | 'M' ->
           let rec go k r = if k = 0 then ([], r) else
               (match r with
                | key :: r -> let (v, r) = p_jvalue r in let (l, r) = go (k - 1) r in ((bytes_of_hex key, v) :: l, r)
                | [] -> failwith "key expected") in
           let (l, r) = go (int_of_string body) r in (JMap l, r)
       | 'u' -> (* a Go value of a type outside the model (e.g. the uint8 an expression engine returns for
                    an index into a string): equal to no model value *)
           (JMap [ ([ Util.n_of_int 0 ], JS (VStr (bytes_of_hex body))) ], r)
       | _ -> failwith ("bad value token " ^ x))
let jvalue_of (t : string list) : jvalue =
  match p_jvalue t with (v, []) -> v | _ -> failwith "trailing value tokens"

let q_same (a : q) (b : q) : bool = Z.eqb (Z.mul a.qnum (Zpos b.qden)) (Z.mul b.qnum (Zpos a.qden))
let rec j_same (a : jvalue) (b : jvalue) : bool =
  match a, b with
  | JS VNull, JS VNull -> true
  | JS (VNum x), JS (VNum y) -> q_same x y
  | JS (VStr x), JS (VStr y) -> x = y
  | JS (VBool x), JS (VBool y) -> x = y
  | JArr x, JArr y -> List.length x = List.length y && List.for_all2 j_same x y
  | JMap x, JMap y ->
      List.length x = List.length y &&
      List.for_all (fun (k, v) -> match List.assoc_opt k y with Some w -> j_same v w | None -> false) x
  | _ -> false
let rec show_j (v : jvalue) : string =
  match v with
  | JS x -> show_val x
  | JArr l -> String.concat " " (("A" ^ string_of_int (List.length l)) :: List.map show_j l)
  | JMap m -> String.concat " " (("M" ^ string_of_int (List.length m)) :: List.map (fun (k, v) -> hex_of_bytes k ^ " " ^ show_j v) m)

let show_part = function
  | PField n -> "f" ^ hex_of_bytes n
  | PIndex i -> "i" ^ show_z i
  | PKey k -> "k" ^ hex_of_bytes k
let show_parse (text : n list) : string =
  if text = [] then "nil" else
  match np_parse text with
  | PPanic -> "panic"
  | PErr -> "err"
  | POk ps -> String.concat " " ("ok" :: string_of_int (List.length ps) :: List.map show_part ps)

let handle_p (rest : string list) : string =
  match Win.split_hash rest with
  | [ [ path ]; data; pobs; gobs ] ->
      let text = bytes_of_hex path in
      let d = jvalue_of data in
      let mp = show_parse text in
      if mp <> String.concat " " pobs then "diff np_parse model=" ^ mp
      else
        (match nested_field d text, gobs with
         | NPanic, [ "panic" ] -> "chk nested_path_panics lone_quote_bracket"
         | NMissing, [ "missing" ] -> "ok nt"
         | NFound v, "found" :: o -> if j_same v (jvalue_of o) then "ok nt" else "diff nested_field model=found " ^ show_j v
         | NPanic, _ -> "diff nested_field model=panic"
         | NMissing, _ -> "diff nested_field model=missing"
         | NFound v, _ -> "diff nested_field model=found " ^ show_j v)
  | _ -> "bad line"

let p_nquery (t : string list) : nquery * (n list * nseg list) list =
  match t with
  | n :: r ->
      let rec segs k r = if k = 0 then ([], r) else
          (match r with
           | s :: r ->
               let body = bytes_of_hex (String.sub s 1 (String.length s - 1)) in
               let sg = (match s.[0] with 'n' -> SName body | 'r' -> SBr body | _ -> failwith "bad seg") in
               let (l, r) = segs (k - 1) r in (sg :: l, r)
           | [] -> failwith "seg expected") in
      let rec items k r = if k = 0 then ([], [], r) else
          (match r with
           | text :: alias :: ns :: r ->
               let (sg, r) = segs (int_of_string ns) r in
               let it = { ni_path = bytes_of_hex text; ni_alias = (if alias = "~" then None else Some (bytes_of_hex alias)) } in
               let (l, s, r) = items (k - 1) r in (it :: l, (bytes_of_hex text, sg) :: s, r)
           | _ -> failwith "item expected") in
      let (l, s, r) = items (int_of_string n) r in
      let w = (match r with "w0" :: _ -> None | "w1" :: r -> Some (fst (p_expr r)) | _ -> failwith "bad where") in
      ({ nq_items = l; nq_where = w }, s)
  | [] -> failwith "empty query"

type ncmp = NSame of bool | NUnmodelled | NDiffer of string
let show_cells (r : (n list * ncell) list) : string =
  String.concat " " (List.map (fun (k, c) -> hex_of_bytes k ^ "=" ^ (match c with CVal v -> show_j v | CUnm -> "?")) r)
let cmp_ndirect (q : nquery) (d : ndirect_res) (obs : string list) : ncmp =
  match d, obs with
  | NDUnm, _ -> NUnmodelled
  | NDNone, [ "none" ] -> NSame false
  | NDPanic, [ "panic" ] -> NSame true
  | NDRow r, (m :: _) when String.length m > 0 && m.[0] = 'M' ->
      (match jvalue_of obs with
       | JMap cells ->
           let ok = List.length cells = List.length r &&
             List.for_all (fun (k, c) -> match List.assoc_opt k cells with
               | Some o -> (match c with CVal v -> j_same v o | CUnm -> true)
               | None -> false) r in
           (* non-trivial: a cell of a nested path was judged by the resolver *)
           let nt = List.exists (fun it -> np_route it.ni_path = RSimple &&
                                           List.exists (fun c -> Util.int_of_n c = 46 || Util.int_of_n c = 91) it.ni_path) q.nq_items in
           if ok then NSame nt else NDiffer ("model=" ^ show_cells r)
       | _ -> NDiffer "observed is not a row")
  | NDNone, _ -> NDiffer "model=none"
  | NDPanic, _ -> NDiffer "model=panic"
  | NDRow r, _ -> NDiffer ("model=" ^ show_cells r)

(* the statement's reading of an item: the path resolved segment by segment (a name = a field, a
   bracket = its index / key), NULL when a step is missing.  np_parse (np_render segs) is that list of
   parts whenever no name or bracket content contains '.', '[' or ']' (C05_path_render_parse). *)
let seg_reference (row : (n list * jvalue) list) (sg : nseg list) : jvalue option =
  let parts = List.map np_seg_part sg in
  if List.exists (fun b -> match b with BPart _ -> false | _ -> true) parts then None
  else Some (match np_get (JMap row) (List.filter_map (fun b -> match b with BPart p -> Some p | _ -> None) parts) with
             | Some v -> v | None -> JS VNull)
let route_name = function RSimple -> "simple" | RExpr -> "expr" | ROther -> "other"

let handle_nq (rest : string list) : string =
  match Win.split_hash rest with
  | [ _; qenc; rowt; fresh; used; async ] ->
      let (q, rendered) = p_nquery qenc in
      (* the text put into the SQL statement is the canonical spelling of the structured path *)
      if List.exists (fun (text, sg) -> np_render sg <> text) rendered then "diff np_render"
      else
      (match jvalue_of rowt with
       | JMap row ->
           let d = ndirect q row in
           let stmt () =
             (* implementation = model so far; now the statement: every cell is the value of its path *)
             (match fresh with
              | m :: _ when String.length m > 0 && m.[0] = 'M' ->
                  (match jvalue_of fresh with
                   | JMap cells ->
                       let outs = List.map ni_out q.nq_items in
                       let bad = List.filter_map (fun (it, (_, sg)) ->
                         let o = ni_out it in
                         if List.length (List.filter (fun x -> x = o) outs) <> 1 then None else
                         match seg_reference row sg, List.assoc_opt o cells with
                         | Some want, Some got when not (j_same want got) ->
                             Some ("chk nested_item_vs_segments route=" ^ route_name (np_route it.ni_path)
                                   ^ (if List.exists (fun s -> match s with SBr c -> List.exists (fun x -> Util.int_of_n x = 46) c | _ -> false) sg then " dot_in_key" else "")
                                   ^ " item=" ^ hex_of_bytes it.ni_path ^ " want=" ^ show_j want ^ " got=" ^ show_j got)
                         | _ -> None) (List.combine q.nq_items rendered) in
                       (match bad with c :: _ -> Some c | [] -> None)
                   | _ -> None)
              | _ -> None) in
           (match cmp_ndirect q d fresh with
            | NDiffer m -> "diff ndirect " ^ m
            | NUnmodelled ->
                if fresh <> used then "chk nested_history_dependent fresh<>used"
                else if fresh <> async then "chk nested_sync_async_differ fresh<>async"
                else "ok"
            | NSame nt ->
                (match cmp_ndirect q d used, cmp_ndirect q d async with
                 | NDiffer m, _ -> "chk nested_history_dependent " ^ m ^ " used=" ^ String.concat " " used
                 | _, NDiffer m -> "chk nested_sync_async_differ " ^ m ^ " async=" ^ String.concat " " async
                 | _, _ ->
                     if fresh <> used then "chk nested_history_dependent fresh<>used"
                     else if fresh <> async then "chk nested_sync_async_differ fresh<>async"
                     else (match stmt () with Some c -> c | None -> if nt then "ok nt" else "ok")))
       | _ -> "bad row")
  | _ -> "bad line"

let handle05c (toks : string list) : string =
  match toks with
  | "P" :: rest -> handle_p rest
  | "NQ" :: rest -> handle_nq rest
  | _ -> handle05 toks

let () = Registry.register "C05" handle05c
