(* the C05 handler lives in c06.ml (it shares C06 encodings) and registers itself there *)
