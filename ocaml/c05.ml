(* C05.  The R (result channel) and W (flat WHERE chains) lines are handled at the end of this file.
   The Q / A / N / NS / X / E lines are handled in c06.ml (they share the C06 encodings; it is
   linked before this file).  Here: the nested-path lines, judged by the extracted resolver of
   coq/Model/NestedPath.v.
   P  <hexpath> # <value> # <ParseFieldPath: ok n parts | err | nil | panic> # <GetNestedField: found v | missing | panic>
   NQ <hexsql> # <n> (<hextext> <hexalias|~> <nsegs> seg..)* w0|w1 expr # <row> # <fresh> # <used> # <async>
   value tokens: N | n<num>/<den> | s<hex> | b0 | b1 | A<k> v.. | M<k> (hexkey v).. *)
open Model
open Util
open C06

let rec p_jvalue (t : string list) : jvalue * string list =
  match t with
  | [] -> failwith "value expected"
  | x :: r ->
      let body = String.sub x 1 (String.length x - 1) in
      (match x.[0] with
       | 'N' -> (JS VNull, r)
       | 'n' -> (JS (VNum (q_of_string body)), r)
       | 's' -> (JS (VStr (bytes_of_hex body)), r)
       | 'b' -> (JS (VBool (body = "1")), r)
       | 'A' ->
           let rec go k r = if k = 0 then ([], r) else
               let (v, r) = p_jvalue r in let (l, r) = go (k - 1) r in (v :: l, r) in
           let (l, r) = go (int_of_string body) r in (JArr l, r)
       | 'M' ->
           let rec go k r = if k = 0 then ([], r) else
               (match r with
                | key :: r -> let (v, r) = p_jvalue r in let (l, r) = go (k - 1) r in ((bytes_of_hex key, v) :: l, r)
                | [] -> failwith "key expected") in
           let (l, r) = go (int_of_string body) r in (JMap l, r)
       | 'u' -> (* a Go value of a type outside the model (e.g. the uint8 an expression engine returns for
                    an index into a string): equal to no model value *)
           (JMap [ ([ Util.n_of_int 0 ], JS (VStr (bytes_of_hex body))) ], r)
       | _ -> failwith ("bad value token " ^ x))
let jvalue_of (t : string list) : jvalue =
  match p_jvalue t with (v, []) -> v | _ -> failwith "trailing value tokens"

let q_same (a : q) (b : q) : bool = Z.eqb (Z.mul a.qnum (Zpos b.qden)) (Z.mul b.qnum (Zpos a.qden))
let rec j_same (a : jvalue) (b : jvalue) : bool =
  match a, b with
  | JS VNull, JS VNull -> true
  | JS (VNum x), JS (VNum y) -> q_same x y
  | JS (VStr x), JS (VStr y) -> x = y
  | JS (VBool x), JS (VBool y) -> x = y
  | JArr x, JArr y -> List.length x = List.length y && List.for_all2 j_same x y
  | JMap x, JMap y ->
      List.length x = List.length y &&
      List.for_all (fun (k, v) -> match List.assoc_opt k y with Some w -> j_same v w | None -> false) x
  | _ -> false
let rec show_j (v : jvalue) : string =
  match v with
  | JS x -> show_val x
  | JArr l -> String.concat " " (("A" ^ string_of_int (List.length l)) :: List.map show_j l)
  | JMap m -> String.concat " " (("M" ^ string_of_int (List.length m)) :: List.map (fun (k, v) -> hex_of_bytes k ^ " " ^ show_j v) m)

let show_part = function
  | PField n -> "f" ^ hex_of_bytes n
  | PIndex i -> "i" ^ show_z i
  | PKey k -> "k" ^ hex_of_bytes k
let show_parse (text : n list) : string =
  if text = [] then "nil" else
  match np_parse text with
  | PPanic -> "panic"
  | PErr -> "err"
  | POk ps -> String.concat " " ("ok" :: string_of_int (List.length ps) :: List.map show_part ps)

let handle_p (rest : string list) : string =
  match Win.split_hash rest with
  | [ [ path ]; data; pobs; gobs ] ->
      let text = bytes_of_hex path in
      let d = jvalue_of data in
      let mp = show_parse text in
      if mp <> String.concat " " pobs then "diff np_parse model=" ^ mp
      else
        (match nested_field d text, gobs with
         | NPanic, [ "panic" ] -> "chk nested_path_panics lone_quote_bracket"
         | NMissing, [ "missing" ] -> "ok nt"
         | NFound v, "found" :: o -> if j_same v (jvalue_of o) then "ok nt" else "diff nested_field model=found " ^ show_j v
         | NPanic, _ -> "diff nested_field model=panic"
         | NMissing, _ -> "diff nested_field model=missing"
         | NFound v, _ -> "diff nested_field model=found " ^ show_j v)
  | _ -> "bad line"

let p_nquery (t : string list) : nquery * (n list * nseg list) list =
  match t with
  | n :: r ->
      let rec segs k r = if k = 0 then ([], r) else
          (match r with
           | s :: r ->
               let body = bytes_of_hex (String.sub s 1 (String.length s - 1)) in
               let sg = (match s.[0] with 'n' -> SName body | 'r' -> SBr body | _ -> failwith "bad seg") in
               let (l, r) = segs (k - 1) r in (sg :: l, r)
           | [] -> failwith "seg expected") in
      let rec items k r = if k = 0 then ([], [], r) else
          (match r with
           | text :: alias :: ns :: r ->
               let (sg, r) = segs (int_of_string ns) r in
               let it = { ni_path = bytes_of_hex text; ni_alias = (if alias = "~" then None else Some (bytes_of_hex alias)) } in
               let (l, s, r) = items (k - 1) r in (it :: l, (bytes_of_hex text, sg) :: s, r)
           | _ -> failwith "item expected") in
      let (l, s, r) = items (int_of_string n) r in
      let w = (match r with "w0" :: _ -> None | "w1" :: r -> Some (fst (p_expr r)) | _ -> failwith "bad where") in
      ({ nq_items = l; nq_where = w }, s)
  | [] -> failwith "empty query"

type ncmp = NSame of bool | NUnmodelled | NDiffer of string
let show_cells (r : (n list * ncell) list) : string =
  String.concat " " (List.map (fun (k, c) -> hex_of_bytes k ^ "=" ^ (match c with CVal v -> show_j v | CUnm -> "?")) r)
let cmp_ndirect (q : nquery) (d : ndirect_res) (obs : string list) : ncmp =
  match d, obs with
  | NDUnm, _ -> NUnmodelled
  | NDNone, [ "none" ] -> NSame false
  | NDPanic, [ "panic" ] -> NSame true
  | NDRow r, (m :: _) when String.length m > 0 && m.[0] = 'M' ->
      (match jvalue_of obs with
       | JMap cells ->
           let ok = List.length cells = List.length r &&
             List.for_all (fun (k, c) -> match List.assoc_opt k cells with
               | Some o -> (match c with CVal v -> j_same v o | CUnm -> true)
               | None -> false) r in
           (* non-trivial: a cell of a nested path was judged by the resolver *)
           let nt = List.exists (fun it -> np_route it.ni_path = RSimple &&
                                           List.exists (fun c -> Util.int_of_n c = 46 || Util.int_of_n c = 91) it.ni_path) q.nq_items in
           if ok then NSame nt else NDiffer ("model=" ^ show_cells r)
       | _ -> NDiffer "observed is not a row")
  | NDNone, _ -> NDiffer "model=none"
  | NDPanic, _ -> NDiffer "model=panic"
  | NDRow r, _ -> NDiffer ("model=" ^ show_cells r)

(* the statement's reading of an item: the path resolved segment by segment (a name = a field, a
   bracket = its index / key), NULL when a step is missing.  np_parse (np_render segs) is that list of
   parts whenever no name or bracket content contains '.', '[' or ']' (C05_path_render_parse). *)
let seg_reference (row : (n list * jvalue) list) (sg : nseg list) : jvalue option =
  let parts = List.map np_seg_part sg in
  if List.exists (fun b -> match b with BPart _ -> false | _ -> true) parts then None
  else Some (match np_get (JMap row) (List.filter_map (fun b -> match b with BPart p -> Some p | _ -> None) parts) with
             | Some v -> v | None -> JS VNull)
let route_name = function RSimple -> "simple" | RExpr -> "expr" | ROther -> "other"

let handle_nq (rest : string list) : string =
  match Win.split_hash rest with
  | [ _; qenc; rowt; fresh; used; async ] ->
      let (q, rendered) = p_nquery qenc in
      (* the text put into the SQL statement is the canonical spelling of the structured path *)
      if List.exists (fun (text, sg) -> np_render sg <> text) rendered then "diff np_render"
      else
      (match jvalue_of rowt with
       | JMap row ->
           let d = ndirect q row in
           let stmt () =
             (* implementation = model so far; now the statement: every cell is the value of its path *)
             (match fresh with
              | m :: _ when String.length m > 0 && m.[0] = 'M' ->
                  (match jvalue_of fresh with
                   | JMap cells ->
                       let outs = List.map ni_out q.nq_items in
                       let bad = List.filter_map (fun (it, (_, sg)) ->
                         let o = ni_out it in
                         if List.length (List.filter (fun x -> x = o) outs) <> 1 then None else
                         match seg_reference row sg, List.assoc_opt o cells with
                         | Some want, Some got when not (j_same want got) ->
                             Some ("chk nested_item_vs_segments route=" ^ route_name (np_route it.ni_path)
                                   ^ (if List.exists (fun s -> match s with SBr c -> List.exists (fun x -> Util.int_of_n x = 46) c | _ -> false) sg then " dot_in_key" else "")
                                   ^ " item=" ^ hex_of_bytes it.ni_path ^ " want=" ^ show_j want ^ " got=" ^ show_j got)
                         | _ -> None) (List.combine q.nq_items rendered) in
                       (match bad with c :: _ -> Some c | [] -> None)
                   | _ -> None)
              | _ -> None) in
           (match cmp_ndirect q d fresh with
            | NDiffer m -> "diff ndirect " ^ m
            | NUnmodelled ->
                if fresh <> used then "chk nested_history_dependent fresh<>used"
                else if fresh <> async then "chk nested_sync_async_differ fresh<>async"
                else "ok"
            | NSame nt ->
                (match cmp_ndirect q d used, cmp_ndirect q d async with
                 | NDiffer m, _ -> "chk nested_history_dependent " ^ m ^ " used=" ^ String.concat " " used
                 | _, NDiffer m -> "chk nested_sync_async_differ " ^ m ^ " async=" ^ String.concat " " async
                 | _, _ ->
                     if fresh <> used then "chk nested_history_dependent fresh<>used"
                     else if fresh <> async then "chk nested_sync_async_differ fresh<>async"
                     else (match stmt () with Some c -> c | None -> if nt then "ok nt" else "ok")))
       | _ -> "bad row")
  | _ -> "bad line"

(* ---- R: the result channel under backpressure (Model/ResultChan.v, Spec/ResultChanSpec.v) ----
   R <mode> <hexsql> # <query> # <n> <dropped> <cap> <nsink> # <script: e<k> r<j> .. d | free>
     # row (x n) # sink result (x nsink) # B <phase> <batch> row k=v.. | B <phase> <batch> empty  (what was read from the channel) *)
let join_hash (secs : string list list) : string list = List.concat (List.map (fun s -> "#" :: s) secs)
let rec take_n k l = if k = 0 then ([], l) else (match l with x :: r -> let (a, b) = take_n (k - 1) r in (x :: a, b) | [] -> failwith "short R line")
let zid_of_cells (kvs : string list) : z option =
  match List.assoc_opt id_key (cells_of kvs) with
  | Some s when String.length s > 1 && s.[0] = 'n' ->
      let q = q_of_string (String.sub s 1 (String.length s - 1)) in
      (match q.qden with XH -> Some q.qnum | _ -> None)
  | _ -> None
let show_zs (l : z list) : string =
  let n = List.length l in
  let rec firstn k = function [] -> [] | x :: r -> if k = 0 then [] else x :: firstn (k - 1) r in
  "[" ^ String.concat " " (List.map show_z (firstn 24 l)) ^ (if n > 24 then " .. " ^ string_of_int n ^ " ids" else "") ^ "]"
let show_batches (l : (int * z list) list) : string =
  let rec firstn k = function [] -> [] | x :: r -> if k = 0 then [] else x :: firstn (k - 1) r in
  String.concat " " (List.map (fun (ph, ids) -> string_of_int ph ^ ":" ^ String.concat "," (List.map show_z ids)) (firstn 24 l))
  ^ (if List.length l > 24 then " .. " ^ string_of_int (List.length l) ^ " batches" else "")

let handle05_r (mode : string) (rest : string list) : string =
  match Win.split_hash rest with
  | _ :: qenc :: [ n; dropped; cap; nsink ] :: script :: secs ->
      let n = int_of_string n and nsink = int_of_string nsink and capi = int_of_string cap in
      let (rowsecs, rest1) = take_n n secs in
      let (sinksecs, chansecs) = take_n nsink rest1 in
      (* 1. the synchronous sink got the model's results, in emission order (the X clauses) *)
      let xv = handle05_x mode (join_hash ([ qenc; [ string_of_int n; dropped; cap; "0"; "0" ] ] @ rowsecs @ sinksecs)) in
      if xv <> "ok" && xv <> "ok nt" then xv else
      let sink = List.map (fun sec -> match sec with
        | "row" :: kvs -> (match zid_of_cells kvs with Some z -> (z, sec) | None -> failwith "sink result without id")
        | _ -> failwith "bad sink section") sinksecs in
      let sent = List.map fst sink in
      (* what the reader got: (phase, batch number, id, result) *)
      let chan = List.filter_map (fun sec -> match sec with
        | "B" :: ph :: bi :: "empty" :: [] -> Some (int_of_string ph, int_of_string bi, None, [])
        | "B" :: ph :: bi :: ("row" :: kvs as res) -> Some (int_of_string ph, int_of_string bi, zid_of_cells kvs, res)
        | _ -> failwith "bad channel section") chansecs in
      if List.exists (fun (_, _, id, res) -> id = None && res <> []) chan then "chk result_channel_row " ^ mode ^ " the channel delivered a row without the id column"
      else
      let seen = List.filter_map (fun (_, _, id, _) -> id) chan in
      let tag = mode ^ " cap=" ^ cap ^ " results=" ^ string_of_int nsink in
      (match rc_check sent seen with
       | RCUnknown x -> "chk result_channel_order " ^ tag ^ " the channel delivered id=" ^ show_z x ^ ", which is no result the sink got; read=" ^ show_zs seen
       | RCTwice x -> "chk result_channel_order " ^ tag ^ " id=" ^ show_z x ^ " was read from the channel twice; read=" ^ show_zs seen
       | RCOrder (x, p) -> "chk result_channel_order " ^ tag ^ " id=" ^ show_z x ^ " was read from the channel after id=" ^ show_z p
                           ^ " (emitted later, or the same result again); read=" ^ show_zs seen
       | RCOk ->
           (* 2. every row read is the result the sink got for that id *)
           let badrow = List.find_opt (fun (_, _, id, res) -> match id with
             | Some z -> (match List.assoc_opt z sink with Some sec -> sec <> res | None -> true)
             | None -> false) chan in
           (match badrow with
            | Some (_, _, Some z, res) -> "chk result_channel_row " ^ tag ^ " id=" ^ show_z z ^ " channel=" ^ String.concat " " res
                                          ^ " sink=" ^ (match List.assoc_opt z sink with Some sec -> String.concat " " sec | None -> "none")
            | Some _ -> "bad line"
            | None ->
                if mode = "quiet" && not (rc_suffix (Util.nat_of_int capi) sent seen) then
                  "chk result_channel_eviction " ^ tag ^ " nobody read while the rows were emitted: the channel must hold the newest "
                  ^ string_of_int (min capi nsink) ^ " results; read=" ^ show_zs seen
                else if mode = "free" then (if seen <> [] then "ok nt" else "ok")
                else begin
                  (* 3. the schedule replayed on the model: the batches read in every phase *)
                  let row_ids = List.map (fun sec -> match xlookup (parse_row sec) id_key with
                    | Some (VNum q) -> q.qnum | _ -> failwith "row without id") rowsecs in
                  let is_sent z = List.mem z sent in
                  let st = ref rc_init and left = ref row_ids and model = ref [] in
                  let recv ph = (match (!st).rc_chan with
                    | [] -> false
                    | b :: _ -> st := rc_step false (Util.nat_of_int capi) !st RRecv; model := (ph, b) :: !model; true) in
                  List.iteri (fun ph tok ->
                    let k () = int_of_string (String.sub tok 1 (String.length tok - 1)) in
                    match tok.[0] with
                    | 'e' -> let (now, later) = take_n (k ()) !left in
                             left := later;
                             List.iter (fun z -> if is_sent z then st := rc_step false (Util.nat_of_int capi) !st (RSend [ z ])) now
                    | 'r' -> for _ = 1 to k () do ignore (recv ph) done
                    | 'd' -> while recv ph do () done
                    | _ -> failwith "bad script") script;
                  let model = List.rev !model in
                  (* observed batches, in the order read *)
                  let obs = List.fold_left (fun acc (ph, bi, id, _) ->
                    match acc with
                    | (ph', bi', ids) :: r when bi' = bi && ph' = ph -> (ph, bi, ids @ (match id with Some z -> [ z ] | None -> [])) :: r
                    | _ -> (ph, bi, (match id with Some z -> [ z ] | None -> [])) :: acc) [] chan in
                  let obs = List.rev_map (fun (ph, _, ids) -> (ph, ids)) obs in
                  if obs = model then (if seen <> [] && xv = "ok nt" then "ok nt" else "ok")
                  else "diff result_channel " ^ tag ^ " model=" ^ show_batches model ^ " impl=" ^ show_batches obs
                end))
  | _ -> "bad line"

(* W <hexsql flat> <hexsql parenthesised> # <query (flat)> # <row> # <flat result> # <parenthesised result> *)
let handle05_w (hf : string) (rest : string list) : string =
  match Win.split_hash rest with
  | [ _; qenc; rowt; oflat; opar ] ->
      if oflat <> opar then
        let m = (match direct (p_query qenc) (parse_row rowt) with
          | DNone -> "none" | DRow r -> "row " ^ show_row r | DUnm -> "unmodelled") in
        "chk where_spelling_dependent flat=" ^ String.concat " " oflat ^ " parenthesised=" ^ String.concat " " opar ^ " model=" ^ m
      else handle05 ("Q" :: hf :: join_hash [ qenc; rowt; oflat ])
  | _ -> "bad line"

(* ---- S: column names (Spec/ColumnsSpec.v) ----
   S <hexsql> # <query> # <row> # <fresh> # <used> # <async>     results: none | row k=v .. | e | PANIC | dup *)
let show_names (l : n list list) : string = "[" ^ String.concat " " (List.map hex_of_bytes l) ^ "]"
let ascii_names (l : n list list) : string =
  String.concat " " (List.map (fun b -> "`" ^ String.concat "" (List.map (fun x ->
    let c = Util.int_of_n x in if c >= 32 && c < 127 then String.make 1 (Char.chr c) else Printf.sprintf "\\x%02x" c) b) ^ "`") l)
let handle05_s (rest : string list) : string =
  match Win.split_hash rest with
  | [ _; qenc; rowt; fresh; used; async ] ->
      let q = p_query qenc in let row = parse_row rowt in
      let star = List.mem IStar q.q_items in
      let cols () =
        (match fresh with
         | "row" :: kvs ->
             let obs = List.map fst (cells_of kvs) in
             let want = sel_columns q row in
             (match chk_columns want obs with
              | None -> None
              | Some _ ->
                  let missing = cols_missing want obs and extra = cols_extra want obs in
                  let rowkeys = List.map fst row in
                  (* F39: the items listed after * are dropped, the fields of the row are all there *)
                  if star && List.length q.q_items > 1 && extra = [] && List.for_all (fun k -> not (List.mem k rowkeys)) missing
                  then Some "chk columns star_with_items_dropped"
                  else Some ("chk columns_exact " ^ (if star then "star" else "items") ^ " missing=" ^ show_names missing ^ " extra=" ^ show_names extra
                             ^ " (missing: " ^ ascii_names missing ^ "; not selected: " ^ ascii_names extra ^ ")"))
         | _ -> None) in
      (* F39 when an item after * re-uses the name of a field of the row: the column set is the same, the
         result is the one of SELECT * alone *)
      let star_only () =
        star && List.length q.q_items > 1 &&
        (match cmp_direct (direct { q with q_items = [ IStar ] } row) fresh, fresh with DSame, "row" :: _ -> true | _ -> false) in
      (match cols () with
       | Some c -> c
       | None ->
           (match cmp_direct (direct q row) fresh with
            | DDiffer m -> if star_only () then "chk columns star_with_items_dropped" else "diff direct " ^ m
            | c ->
                if fresh <> used then "chk history_dependent fresh=" ^ String.concat " " fresh ^ " used=" ^ String.concat " " used
                else if fresh <> async then "chk sync_async_differ sync=" ^ String.concat " " fresh ^ " sink=" ^ String.concat " " async
                else (match c, fresh with DSame, "row" :: _ -> "ok nt" | _ -> "ok")))
  | _ -> "bad line"

(* ---- QI: select items with quoted parts (Model/SelectItems.v) ----
   QI <hexsql> # <n> (P <hextext> <hexalias|~> | L <quote byte> <hexcontent> <hexalias|~>)* w0|w1 expr # <row> # <fresh> # <used> # <async> *)
let p_squery (t : string list) : squery =
  match t with
  | n :: r ->
      let al a = if a = "~" then None else Some (bytes_of_hex a) in
      let rec items k r = if k = 0 then ([], r) else
          (match r with
           | "P" :: text :: a :: r -> let (l, r) = items (k - 1) r in (SPath (bytes_of_hex text, al a) :: l, r)
           | "L" :: q :: c :: a :: r -> let (l, r) = items (k - 1) r in (SLit (Util.n_of_int (int_of_string q), bytes_of_hex c, al a) :: l, r)
           | _ -> failwith "item expected") in
      let (l, r) = items (int_of_string n) r in
      let w = (match r with "w0" :: _ -> None | "w1" :: r -> Some (fst (p_expr r)) | _ -> failwith "bad where") in
      { sq_items = l; sq_where = w }
  | [] -> failwith "empty query"
let has_byte (c : int) (b : n list) : bool = List.exists (fun x -> Util.int_of_n x = c) b
let rec after_colon (b : n list) : n list option =
  match b with [] -> None | x :: r -> if Util.int_of_n x = 58 then Some r else after_colon r
let handle05_qi (rest : string list) : string =
  match Win.split_hash rest with
  | [ _; qenc; rowt; fresh; used; async ] ->
      let q = p_squery qenc in
      (match jvalue_of rowt with
       | JMap row ->
           let is_row o = (match o with m :: _ when String.length m > 0 && m.[0] = 'M' -> true | _ -> false) in
           let cells o = (match jvalue_of o with JMap c -> c | _ -> failwith "observed is not a row") in
           (* 1. the statement: exactly the columns the items name *)
           let cols () =
             if not (is_row fresh) then None else
             let obs = List.map fst (cells fresh) and want = sq_columns q in
             (match chk_columns want obs with
              | None -> None
              | Some _ ->
                  let missing = cols_missing want obs and extra = cols_extra want obs in
                  (* a literal without alias whose content holds ':': the text after its first ':' shows up as a column *)
                  let bogus = List.filter_map (fun i -> match i with SLit (_, c, None) -> after_colon c | _ -> None) q.sq_items in
                  let tag = if missing = [] && List.for_all (fun k -> List.mem k bogus) extra then "unaliased_colon_literal" else "other" in
                  Some ("chk columns_exact " ^ tag ^ " missing=" ^ show_names missing ^ " extra=" ^ show_names extra
                        ^ " (missing: " ^ ascii_names missing ^ "; not selected: " ^ ascii_names extra ^ ")")) in
           (* 2. the model *)
           let cmp o : ncmp =
             (match sdirect q row, o with
              | SDUnm, _ -> NUnmodelled
              | SDNone, [ "none" ] -> NSame false
              | SDPanic, [ "panic" ] -> NSame true
              | SDRow r, _ when is_row o ->
                  let oc = cells o in
                  if List.length oc = List.length r &&
                     List.for_all (fun (k, c) -> match List.assoc_opt k oc with
                       | Some v -> (match c with CVal w -> j_same w v | CUnm -> true)
                       | None -> false) r
                  then NSame true else NDiffer ("model=" ^ show_cells r)
              | SDNone, _ -> NDiffer "model=none"
              | SDPanic, _ -> NDiffer "model=panic"
              | SDRow r, _ -> NDiffer ("model=" ^ show_cells r)) in
           (* a literal's column must hold the literal's content *)
           let litval () =
             if not (is_row fresh) then None else
             let oc = cells fresh in
             let names = List.map si_name q.sq_items in
             List.find_map (fun i -> match i with
               | SLit (_, c, _) when List.length (List.filter (fun x -> x = si_name i) names) = 1 ->
                   (match List.assoc_opt (si_name i) oc with
                    | Some v when not (j_same (JS (VStr c)) v) ->
                        Some ("chk literal_value " ^ (if has_byte 96 c then "backquote_in_literal" else "other")
                              ^ " column=" ^ hex_of_bytes (si_name i) ^ " want=s" ^ hex_of_bytes c ^ " got=" ^ show_j v)
                    | _ -> None)
               | _ -> None) q.sq_items in
           (match cols () with
            | Some c -> c
            | None ->
            match litval () with
            | Some c -> c
            | None ->
                (match cmp fresh with
                 | NDiffer m -> "diff sdirect " ^ m
                 | c ->
                     if fresh <> used then "chk history_dependent fresh=" ^ String.concat " " fresh ^ " used=" ^ String.concat " " used
                     else if fresh <> async then "chk sync_async_differ sync=" ^ String.concat " " fresh ^ " sink=" ^ String.concat " " async
                     else (match c with NSame true -> "ok nt" | _ -> "ok")))
       | _ -> "bad row")
  | _ -> "bad line"


(* ---- T: typed histories (a column changes its Go type from row to row) ----
   T <hexsql> # <query> # <i> <carriers of rows 0..i> # <row> # <used> # <async> # <fresh>
   used  = the row's result on the stream that has seen rows 0..i-1, async = what the synchronous sink got
   for it, fresh = the row alone, its items spelled with i+1 further pairs of parentheses (a text no
   other row was evaluated with).  direct is history-free (C05_history_free) and blind to the extra
   parentheses (C05_item_extra_parens): all three must be direct q row. *)
let handle05_t (rest : string list) : string =
  match Win.split_hash rest with
  | [ _; qenc; [ i; hist ]; rowt; used; async; fresh ] ->
      let q = p_query qenc in let row = parse_row rowt in
      let d = direct q row in
      let sh l = String.concat " " l in
      let model () = (match d with DNone -> "none" | DRow r -> "row " ^ show_row r | DUnm -> "unmodelled") in
      let where = " row=" ^ i ^ " carriers_so_far=" ^ hist in
      if used = fresh && async = fresh then
        (match cmp_direct d fresh, fresh with
         | DDiffer m, _ -> "diff direct " ^ m
         | DSame, "row" :: _ -> "ok nt"
         | _, _ -> "ok")
      else if used <> fresh then
        (match cmp_direct d fresh, cmp_direct d used with
         | DDiffer m, DSame -> "diff direct (the spelling with extra parentheses) " ^ m ^ " fresh=" ^ sh fresh
         | _, _ -> "chk history_dependent typed" ^ where ^ " after_history=" ^ sh used ^ " without_history=" ^ sh fresh ^ " model=" ^ model ())
      else
        "chk sync_async_differ typed" ^ where ^ " sync=" ^ sh used ^ " sink=" ^ sh async ^ " model=" ^ model ()
  | _ -> "bad line"

(* ---- D: one producer, overflow strategy drop (Model/LossyFifo.v) ----
   D <hexsql> # <query> # <n> <dropped> <cap> <sink pause us> 0 # row (x n) # sink result (x k)
   the ids the sink got are a subsequence of the emission order (rc_check, C05_drop_passes_checker);
   then the X clauses: every delivered result is the model's, nothing is missing unless rows were dropped *)
let handle05_d (rest : string list) : string =
  match Win.split_hash rest with
  | _ :: _ :: [ n; dropped; cap; _; _ ] :: secs ->
      let n = int_of_string n in
      let (rowsecs, ressecs) = take_n n secs in
      let sent = List.map (fun sec -> match xlookup (parse_row sec) id_key with
        | Some (VNum q) -> q.qnum | _ -> failwith "row without id") rowsecs in
      let seen = List.map (fun sec -> match sec with
        | "row" :: kvs -> (match zid_of_cells kvs with Some z -> z | None -> failwith "sink result without id")
        | _ -> failwith "bad sink section") ressecs in
      let tag = "drop cap=" ^ cap ^ " emitted=" ^ string_of_int n ^ " dropped=" ^ dropped ^ " delivered=" ^ string_of_int (List.length seen) in
      let around x = (* the neighbourhood of the offending id in what the sink saw *)
        let rec go before = function
          | [] -> []
          | y :: r -> if y = x && List.length before > 0 then
                        (let rec firstn k = function [] -> [] | a :: b -> if k = 0 then [] else a :: firstn (k - 1) b in
                         List.rev (firstn 4 before) @ (y :: firstn 3 r))
                      else go (y :: before) r in
        show_zs (go [] seen) in
      (match rc_check sent seen with
       | RCUnknown x -> "chk sync_async_differ " ^ tag ^ " the sink got id=" ^ show_z x ^ ", which no emitted row has"
       | RCTwice x -> "chk sync_async_differ " ^ tag ^ " id=" ^ show_z x ^ " delivered twice"
       | RCOrder (x, p) -> "chk producer_order " ^ tag ^ " the result of id=" ^ show_z x ^ " reached the sink after the result of id=" ^ show_z p
                           ^ " (emitted later, or the same again); sink saw .. " ^ around x ^ " .."
       | RCOk -> handle05_x "drop" rest)
  | _ -> "bad line"

let handle05c (toks : string list) : string =
  match toks with
  | "P" :: rest -> handle_p rest
  | "NQ" :: rest -> handle_nq rest
  | "S" :: rest -> handle05_s rest
  | "QI" :: rest -> handle05_qi rest
  | "QR" :: _ -> "ok"
  | "T" :: rest -> handle05_t rest
  | "D" :: rest -> handle05_d rest
  | "R" :: mode :: _ :: rest -> handle05_r mode rest
  | "W" :: hf :: _ :: rest -> handle05_w hf rest
  | _ -> handle05 toks

let () = Registry.register "C05" handle05c
