(* Shared parsing/printing for the time-window properties (C01, C02, C08, C10). *)
open Model
open Util

let rec z_of_int (i : int) : z = if i = 0 then Z0 else if i > 0 then Zpos (pos_of_int i) else Zneg (pos_of_int (- i))
let int_of_z = function Z0 -> 0 | Zpos p -> int_of_pos p | Zneg p -> - (int_of_pos p)
(* decimal text of any size -> Z (values beyond OCaml's 63-bit int, e.g. uint64 group keys) *)
let z_of_dec (s : string) : z =
  let neg = String.length s > 0 && s.[0] = '-' in
  let body = if neg then String.sub s 1 (String.length s - 1) else s in
  if body = "" then failwith "bad number";
  let digits = Array.init (String.length body) (fun i ->
      let d = Char.code body.[i] - 48 in if d < 0 || d > 9 then failwith ("bad number " ^ s) else d) in
  let is_zero () = Array.for_all (fun d -> d = 0) digits in
  let halve () =
    let carry = ref 0 in
    Array.iteri (fun i d -> let cur = !carry * 10 + d in digits.(i) <- cur / 2; carry := cur mod 2) digits;
    !carry in
  let rec bits () = if is_zero () then [] else (let b = halve () in b :: bits ()) in  (* least significant first *)
  let rec pos = function
    | [1] -> XH | 0 :: r -> XO (pos r) | 1 :: r -> XI (pos r) | _ -> failwith "z_of_dec" in
  match bits () with
  | [] -> Z0
  | bl -> if neg then Zneg (pos bl) else Zpos (pos bl)
let zs (s : string) : z = match int_of_string_opt s with Some i -> z_of_int i | None -> z_of_dec s

let string_of_clause = function
  | ClMembership -> "membership" | ClUnknownRow -> "unknown_row" | ClTwice -> "twice" | ClOrder -> "order"
  | ClOnTimeLost -> "on_time_lost" | ClEarlyFire -> "early_fire" | ClWatermarkOrigin -> "watermark_origin"
  | ClLateUpdateShape -> "late_update_shape" | ClTooLateCounted -> "too_late_counted" | ClFarFuture -> "far_future"

(* split a token list at "#" separators *)
let split_hash (toks : string list) : string list list =
  let rec go acc cur = function
    | [] -> List.rev (List.rev cur :: acc)
    | "#" :: r -> go (List.rev cur :: acc) [] r
    | t :: r -> go acc (t :: cur) r in
  go [] [] toks

(* top-level op tokens:  A id ts ; N id ; D n followed by n lists (m, then m primitive ops) ; K ; X ; T *)
type hop = HOp of op | HDeliver of op list list | HDrain

let parse_ops (now : z) (toks : string list) : hop list =
  let rec prim = function
    | "A" :: id :: ts :: r -> (Add (zs id, zs ts, now), r)
    | "N" :: id :: r -> (AddNoTs (zs id), r)
    | _ -> failwith "bad primitive op"
  and prims n toks = if n = 0 then ([], toks) else
      let (o, r) = prim toks in let (os, r') = prims (n - 1) r in (o :: os, r')
  and lists n toks = if n = 0 then ([], toks) else
      (match toks with
       | m :: r -> let (l, r') = prims (int_of_string m) r in
                   let (ls, r'') = lists (n - 1) r' in (l :: ls, r'')
       | [] -> failwith "bad injection list")
  and go = function
    | [] -> []
    | "D" :: n :: r -> let (ls, r') = lists (int_of_string n) r in HDeliver ls :: go r'
    | "K" :: r -> HOp (Tick now) :: go r
    | "X" :: r -> HDrain :: go r
    | toks -> let (o, r) = prim toks in HOp o :: go r in
  go toks

let show_ev (e : ev) : string =
  match e with
  | EvAdd (id, ts) -> Printf.sprintf "a %d %d" (int_of_z id) (int_of_z ts)
  | EvNoTs id -> Printf.sprintf "n %d" (int_of_z id)
  | EvTick -> "k"
  | EvDB w -> Printf.sprintf "db %d" (int_of_z w)
  | EvD0 -> "d0"
  | EvDE -> "de"
  | EvBatch b ->
      Printf.sprintf "b %d %d %d%s" (int_of_z b.b_start) (int_of_z b.b_end) (List.length b.b_rows)
        (String.concat "" (List.map (fun r -> " " ^ string_of_int (int_of_z (fst r))) b.b_rows))

let show_trace (l : ev list) : string = String.concat " " (List.map show_ev l)

(* parse a trace back (the implementation's own output) *)
let parse_trace (ts_of : (int, z) Hashtbl.t) (toks : string list) : ev list =
  let rec take n l = if n = 0 then ([], l) else
      (match l with x :: r -> let (a, b) = take (n - 1) r in (x :: a, b) | [] -> failwith "short batch") in
  let rec go = function
    | [] -> []
    | "a" :: id :: ts :: r -> Hashtbl.replace ts_of (int_of_string id) (zs ts); EvAdd (zs id, zs ts) :: go r
    | "n" :: id :: r -> EvNoTs (zs id) :: go r
    | "k" :: r -> EvTick :: go r
    | "db" :: w :: r -> EvDB (zs w) :: go r
    | "d0" :: r -> EvD0 :: go r
    | "de" :: r -> EvDE :: go r
    | "b" :: s :: e :: n :: r ->
        let (ids, r') = take (int_of_string n) r in
        let rows = List.map (fun i -> (zs i, (try Hashtbl.find ts_of (int_of_string i) with Not_found -> z_of_int (-1)))) ids in
        EvBatch { b_start = zs s; b_end = zs e; b_rows = rows; b_late = false } :: go r'
    | t :: _ -> failwith ("bad trace token " ^ t) in
  go toks

(* run a harness-level history on the tumbling / sliding model *)
let run_hops (c : cfg) (hops : hop list) : ev list =
  let rec go s = function
    | [] -> []
    | HOp o :: r -> let (s1, e) = step c s o in e @ go s1 r
    | HDeliver inj :: r -> let (s1, e) = deliver c s inj in e @ go s1 r
    | HDrain :: r ->
        let rec drain s n acc =
          if n = 0 then (s, acc) else
          let (s1, e) = deliver c s [] in
          if e = [EvD0] then (s1, acc @ e) else drain s1 (n - 1) (acc @ e) in
        let (s1, e) = drain s 200 [] in e @ go s1 r in
  go st0 hops


