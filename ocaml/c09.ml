(* C09 (counting windows). Lines (value tokens and row syntax: see c04.ml):
     W <N> <ncols> <nrows> {id v..} # {nids ids..}                          batches read from the window's OutputChan, in order
     S <tag> <N> <ncols> <nrows> {id v..} # {v.. count first last nids ids..}   result rows through SQL, in sink order *)
open Model
open Util

let nontrivial (n : int) (rows : krow list) (batches : z list list) : bool =
  ignore n; C04.distinct_tuples rows >= 2 && List.length batches >= 2

let handle (toks : string list) : string =
  match toks with
  | "W" :: n :: ncols :: nrows :: rest ->
      let n = int_of_string n and ncols = int_of_string ncols in
      let (rows, r) = C04.parse_rows ncols (int_of_string nrows) rest in
      (match r with
       | "#" :: obs ->
           let batches = C04.parse_idlists obs in
           (match chk_C09 (nat_of_int n) rows batches with
            | Some c -> "chk " ^ C04.string_of_gclause c
            | None ->
                (match C04.counting_verdict n rows batches with
                 | Some d -> d
                 | None -> if nontrivial n rows batches then "ok nt" else "ok"))
       | _ -> "bad line")
  | "S" :: _tag :: n :: ncols :: nrows :: rest ->
      let n = int_of_string n and ncols = int_of_string ncols in
      let (rows, r) = C04.parse_rows ncols (int_of_string nrows) rest in
      (match r with
       | "#" :: obs ->
           let res = C04.parse_results ncols true obs in
           (match chk_C09_sql (nat_of_int n) rows res with
            | Some c -> "chk " ^ C04.string_of_gclause c
            | None ->
                let batches = List.map (fun g -> g.g_ids) res in
                (match C04.counting_verdict n rows batches with
                 | Some d -> d
                 | None -> if nontrivial n rows batches then "ok nt" else "ok"))
       | _ -> "bad line")
  | _ -> "bad line"

let () = Registry.register "C09" handle
