(* C09 (counting windows). Lines (value tokens and row syntax: see c04.ml):
     W <N> <ncols> <nrows> {id v..} # {nids ids..}                          batches read from the window's OutputChan, in order
     S <tag> <N> <ncols> <nrows> {id v..} # {v.. count first last nids ids..}   result rows through SQL, in sink order
     L <cfg> <cap> <sentCount> <droppedCount> <input dropped> <E> {<free rows> <held rows> <seen waiting>}xE <N> <ncols> <nrows> {id v..} # {..as S..}
         the lagging consumer (harness/c09lag.go): E episodes; in each the consumer of the window's output channel
         received every batch cut from the episode's "free" rows, was then held in a synchronous sink while the "held"
         rows were added (<seen waiting> batches in a channel of <cap> slots), and drained the channel afterwards.
         Judged by chk_C09_sql when the model of the channel (Model/CountingLag.v, lag_run on exactly that schedule)
         loses no batch, by chk_C09_lossy_sql (every result one N-block of its key, in order) when the drop-oldest
         policy evicts some; then the results must be those of the batches the model's consumer received, each
         aggregated on its own, and sentCount / droppedCount the model's. A case that passes all of that but lost
         batches no counter accounts for is reported as chk evicted_uncounted (the code as it is: known finding F57).
   Carried numbers (Model/NumCarrier.v): a numeric value token names the Go type that carries the number,
       I<type>:<decimal>      F<type>:<hex of the float64 text>:<hex of the float32 text | ->
   with <type> in int i8 i16 i32 i64 uint u8 u16 u32 u64 f32 f64; the other value tokens are those of c04.ml.
     V <tag> <N> <ncols> <nrows> {id v..} # {nids ids..}                          as W, carried rows
     Y <tag> <N> <ncols> <nrows> {id v..} # {v.. count first last nids ids..}     as S, carried rows
     N <carried value> <hex of cast.GroupKeyPart> <hex of CountingWindow.getKey>  the two key sites, one carrier
   V / Y are judged by the same checkers on the NUMBERS (erase_row); the model of the code runs on the
   carried rows: buffers keyed by c_cnt_key, every batch grouped by c_agg_key.
     F <tag> <hex SQL> <hex JSON of the emitted rows> <N> <ncols> <nrows> {id v..} # {..as S..}
         function-valued grouping keys (harness/c09fn.go): v = the VALUE of the grouping expression on that row;
         judged exactly like S (the two hex fields only document the input).
     B <tag> <BlockTimeout ms> <cap> <sentCount> <droppedCount> <E> {<rows added> <batches taken>}xE <N> <ncols> <nrows> {id v..} # {nids ids..}
         the "block" overflow strategy through the window API in real time (harness/c09block.go): E episodes, in each
         the rows are added while nobody receives, then the consumer receives up to <batches taken> waiting batches.
         Judged by chk_C09 when the model of the strategy (Model/CountingBlock.v, blk_run on that schedule) drops
         nothing, by chk_C09_lossy (N-blocks of their key, in order) when full-channel timeouts drop batches; then
         batches = the model's received batches and sentCount / droppedCount = the model's.
     P <tag> <hex SQL> <form> <N> <ncols> <nrows> {id v..} # {poisoned ids} # {error ids} # {value of v per row} # {..as S..} # {s per result}
         a batch that fails half-way (harness/c09panic.go): the SQL holds <form>(f(v)) with a registered user scalar
         function f that PANICS on the poisoned rows and returns an error on the error rows. Judged by chk_C09_sql when
         no cut batch holds a poisoned row, else by chk_C09_lossy_sql (every result exactly one N-block of its tuple,
         in order, none twice, none merged or cut: no row of a failed batch may reach another batch's result); then
         results = the model of the consumer (Model/CountingFail.v fc_run on cw_run's batches: a batch that holds a
         poisoned row is lost as a whole and leaves nothing in the aggregator), and s = <form> over the result's own rows
         (sum | sum1 = sum(f(v) + 1) | max; error rows are skipped by that field only). *)
open Model
open Util

let nontrivial (n : int) (rows : krow list) (batches : z list list) : bool =
  ignore n; C04.distinct_tuples rows >= 2 && List.length batches >= 2

(* ---- carried numbers ------------------------------------------------------------------------ *)
let gotype_of = function
  | "int" -> GInt | "i8" -> GInt8 | "i16" -> GInt16 | "i32" -> GInt32 | "i64" -> GInt64
  | "uint" -> GUint | "u8" -> GUint8 | "u16" -> GUint16 | "u32" -> GUint32 | "u64" -> GUint64
  | "f32" -> GFloat32 | "f64" -> GFloat64
  | t -> failwith ("bad carrier " ^ t)

(* decimal text of any size -> Z (uint64 values do not fit an OCaml int) *)
let z_of_dec (s : string) : z =
  let neg = String.length s > 0 && s.[0] = '-' in
  let body = if neg then String.sub s 1 (String.length s - 1) else s in
  if body = "" then failwith "bad number";
  let digits = Array.init (String.length body) (fun i ->
      let d = Char.code body.[i] - 48 in if d < 0 || d > 9 then failwith ("bad number " ^ s) else d) in
  let is_zero () = Array.for_all (fun d -> d = 0) digits in
  let halve () =
    let carry = ref 0 in
    Array.iteri (fun i d -> let cur = !carry * 10 + d in digits.(i) <- cur / 2; carry := cur mod 2) digits;
    !carry in
  let rec bits () = if is_zero () then [] else (let b = halve () in b :: bits ()) in  (* least significant first *)
  let rec pos = function
    | [1] -> XH | 0 :: r -> XO (pos r) | 1 :: r -> XI (pos r) | _ -> failwith "z_of_dec" in
  match bits () with
  | [] -> Z0
  | bl -> if neg then Zneg (pos bl) else Zpos (pos bl)

let parse_cvalue (tok : string) : cvalue =
  let rest () = String.split_on_char ':' (String.sub tok 1 (String.length tok - 1)) in
  match tok.[0] with
  | 'I' -> (match rest () with
            | [ty; d] -> CNum (gotype_of ty, NumInt (z_of_dec d))
            | _ -> failwith ("bad value token " ^ tok))
  | 'F' -> (match rest () with
            | [ty; h64; h32] ->
                CNum (gotype_of ty, NumFrac (bytes_of_hex h64, if h32 = "-" then None else Some (bytes_of_hex h32)))
            | _ -> failwith ("bad value token " ^ tok))
  | _ -> CPlain (C04.parse_value tok)

let parse_crows (ncols : int) (nrows : int) (toks : string list) : crow list * string list =
  let rec go n toks = if n = 0 then ([], toks) else
      (match toks with
       | id :: r -> let (vs, r') = C04.take ncols r in
                    let (rows, r'') = go (n - 1) r' in
                    ({ crid = C04.zs id; cvals = List.map parse_cvalue vs } :: rows, r'')
       | [] -> failwith "short rows") in
  go nrows toks

(* the model of the code on carried rows (row ids are distinct within a case) *)
let carried_model (n : int) (crows : crow list) : z list list * z list list =
  let rows = List.map erase_row crows in
  let find kr = List.find (fun c -> c.crid = kr.krid) crows in
  let batches = List.map snd (snd (cw_steps (fun kr -> c_cnt_key (find kr)) (nat_of_int n) [] rows)) in
  let ids rs = List.map (fun r -> r.krid) rs in
  let results = List.concat_map (fun b ->
      List.map snd (C04.sort_by_first (List.map (fun (t, rs) -> (t, ids rs)) (kgroup_by (fun kr -> c_agg_key (find kr)) b))))
      batches in
  (List.map ids batches, results)

(* non-trivial: some delivered batch holds one value in two different carriers *)
let mixed_carriers (crows : crow list) (batches : z list list) : bool =
  List.exists (fun b ->
      match List.filter (fun c -> List.mem c.crid b) crows with
      | c :: rest -> List.exists (fun d -> d.cvals <> c.cvals) rest
      | [] -> false) batches

let carried_verdict (chk : gclause option) (model : z list list) (impl : z list list) (crows : crow list) : string =
  let differs = if model <> impl then " (and model differs: model=" ^ C04.show_batches model ^ ")" else "" in
  match chk with
  | Some c -> "chk " ^ C04.string_of_gclause c ^ differs
  | None ->
      if model <> impl then "diff carried_batches model=" ^ C04.show_batches model
      else if mixed_carriers crows impl then "ok nt" else "ok"

let handle (toks : string list) : string =
  match toks with
  | "L" :: _cfg :: cap :: sent :: wdropped :: idropped :: e :: rest ->
      let cap = int_of_string cap and e = int_of_string e in
      let (shape, rest) = C04.take (3 * e) rest in
      (match rest with
       | n :: ncols :: nrows :: rest ->
           let n = int_of_string n and ncols = int_of_string ncols in
           let (rows, r) = C04.parse_rows ncols (int_of_string nrows) rest in
           (match r with
            | "#" :: obs ->
                if int_of_string idropped <> 0 then "ok"  (* rows were dropped before the window (C19's subject): the case does not speak about C09 *)
                else
                let res = C04.parse_results ncols true obs in
                (* the schedule of the run *)
                let rec episodes shape rows = (match shape with
                    | f :: h :: seen :: shape' ->
                        let (free, rows') = C04.take (int_of_string f) rows in
                        let (held, rows'') = C04.take (int_of_string h) rows' in
                        (free, held, int_of_string seen) :: episodes shape' rows''
                    | _ -> []) in
                let eps = episodes shape rows in
                let sched = List.concat_map (fun (free, held, _) -> lag_episode free held (nat_of_int cap)) eps in
                let s = lag_run cnt_key (nat_of_int n) (nat_of_int cap) sched in
                let lost = int_of_nat s.lg_evicted + int_of_nat s.lg_dropped in
                let chk = if lost = 0 then chk_C09_sql (nat_of_int n) rows res else chk_C09_lossy_sql (nat_of_int n) rows res in
                let ids rs = List.map (fun r -> r.krid) rs in
                let model = List.concat_map (fun (_, b) ->
                    List.map snd (C04.sort_by_first (List.map (fun (t, rs) -> (t, ids rs)) (kgroup b)))) s.lg_taken in
                let impl = List.map (fun g -> g.g_ids) res in
                let differs = model <> impl in
                (match chk with
                 | Some c -> "chk " ^ C04.string_of_gclause c ^ (if lost > 0 then "_lossy" else "")
                             ^ (if differs then " (results differ from the model's)" else "")
                 | None ->
                     if differs then "diff lag_results model=" ^ C04.show_batches model
                     else if int_of_string sent <> int_of_nat s.lg_sent || int_of_string wdropped <> int_of_nat s.lg_dropped
                     then Printf.sprintf "diff lag_counters model sentCount=%d droppedCount=%d" (int_of_nat s.lg_sent) (int_of_nat s.lg_dropped)
                     else if lost > 0 && int_of_string wdropped < lost
                     then Printf.sprintf "chk evicted_uncounted evicted=%d droppedCount=%s results_missing=%d" (int_of_nat s.lg_evicted) wdropped lost
                     else if List.exists (fun (_, _, seen) -> seen >= 2) eps then "ok nt" else "ok")
            | _ -> "bad line")
       | _ -> "bad line")
  | "B" :: _tag :: _timeout :: cap :: sent :: dropped :: e :: rest ->
      let cap = int_of_string cap and e = int_of_string e in
      let (shape, rest) = C04.take (2 * e) rest in
      (match rest with
       | n :: ncols :: nrows :: rest ->
           let n = int_of_string n and ncols = int_of_string ncols in
           let (rows, r) = C04.parse_rows ncols (int_of_string nrows) rest in
           (match r with
            | "#" :: obs ->
                let impl = C04.parse_idlists obs in
                let rec sched shape rows = (match shape with
                    | a :: t :: shape' ->
                        let (mine, rows') = C04.take (int_of_string a) rows in
                        blk_episode mine (nat_of_int (int_of_string t)) @ sched shape' rows'
                    | _ -> []) in
                let s = blk_run cnt_key (nat_of_int n) (nat_of_int cap) (sched shape rows) in
                let lost = int_of_nat s.lg_dropped in
                let chk = if lost = 0 then chk_C09 (nat_of_int n) rows impl else chk_C09_lossy (nat_of_int n) rows impl in
                let model = List.map (fun (_, b) -> List.map (fun r -> r.krid) b) s.lg_taken in
                let counters = Printf.sprintf "sentCount=%s droppedCount=%s (model: %d %d)" sent dropped (int_of_nat s.lg_sent) lost in
                (match chk with
                 | Some c -> "chk " ^ C04.string_of_gclause c ^ (if lost > 0 then "_lossy " else " ") ^ counters
                             ^ (if model <> impl then " model=" ^ C04.show_batches model else "")
                 | None ->
                     if model <> impl then "diff block_batches model=" ^ C04.show_batches model
                     else if int_of_string sent <> int_of_nat s.lg_sent || int_of_string dropped <> lost
                     then "diff block_counters " ^ counters
                     else if List.length impl >= 2 then "ok nt" else "ok")
            | _ -> "bad line")
       | _ -> "bad line")
  | "P" :: _tag :: _sql :: form :: n :: ncols :: nrows :: rest ->
      let n = int_of_string n and ncols = int_of_string ncols in
      let (rows, r) = C04.parse_rows ncols (int_of_string nrows) rest in
      (match Win.split_hash r with
       | [ []; pois; errs; vals; obs; sums ] ->
           let pois = List.map C04.zs pois and errs = List.map C04.zs errs in
           if List.length vals <> List.length rows then "bad line" else
           let value = List.combine (List.map (fun r -> r.krid) rows) (List.map int_of_string vals) in
           let res = C04.parse_results ncols true obs in
           if List.length sums <> List.length res then "bad line" else
           let ids rs = List.map (fun r -> r.krid) rs in
           let cutp = cw_run (nat_of_int n) rows in
           let cut = List.map (fun (_, rs) -> ids rs) cutp in
           let failed b = List.exists (fun i -> List.mem i pois) b in
           (* the model of the consumer (Model/CountingFail.v): one aggregator across batches, Reset on both exits *)
           let model = List.map (fun (_, rs) -> ids rs) (fc_run (fun r -> List.mem r.krid pois) cutp).fc_out in
           let lost = List.length cut - List.length model in
           let impl = List.map (fun g -> g.g_ids) res in
           let chk = if lost = 0 then chk_C09_sql (nat_of_int n) rows res else chk_C09_lossy_sql (nat_of_int n) rows res in
           let after = if lost > 0 then Printf.sprintf " after_failed_batch failed=%s" (C04.show_batches (List.filter failed cut)) else "" in
           (match chk with
            | Some c -> "chk " ^ C04.string_of_gclause c ^ after ^ " results=" ^ C04.show_batches impl
                        ^ (if model <> impl then " model=" ^ C04.show_batches model else "")
            | None ->
                if model <> impl then "diff panic_batches" ^ after ^ " model=" ^ C04.show_batches model
                else
                  (* the aggregate over exactly the result's own rows *)
                  let expected b =
                    let vs = List.filter_map (fun i -> if List.mem i errs then None else Some (List.assoc i value)) b in
                    (match form, vs with
                     | _, [] -> "n"
                     | "sum", _ -> "i" ^ string_of_int (List.fold_left (+) 0 vs)
                     | "sum1", _ -> "i" ^ string_of_int (List.fold_left (+) 0 vs + List.length vs)
                     | "max", _ -> "i" ^ string_of_int (List.fold_left max min_int vs)
                     | _ -> failwith "bad form") in
                  let bad = List.filter (fun (b, s) -> expected b <> s) (List.combine impl sums) in
                  (match bad with
                   | (b, s) :: _ -> Printf.sprintf "chk agg_value%s rows=%s %s=%s expected=%s" after (C04.show_ids b) form s (expected b)
                   | [] -> if lost > 0 && List.length impl >= 2 then "ok nt" else "ok"))
       | _ -> "bad line")
  | "F" :: _tag :: _sql :: _raw :: n :: ncols :: nrows :: rest ->
      let n = int_of_string n and ncols = int_of_string ncols in
      let (rows, r) = C04.parse_rows ncols (int_of_string nrows) rest in
      (match r with
       | "#" :: obs ->
           let res = C04.parse_results ncols true obs in
           (match chk_C09_sql (nat_of_int n) rows res with
            | Some c -> "chk " ^ C04.string_of_gclause c
            | None ->
                let batches = List.map (fun g -> g.g_ids) res in
                (match C04.counting_verdict n rows batches with
                 | Some d -> d
                 | None -> if nontrivial n rows batches then "ok nt" else "ok"))
       | _ -> "bad line")
  | "V" :: _tag :: n :: ncols :: nrows :: rest ->
      let n = int_of_string n and ncols = int_of_string ncols in
      let (crows, r) = parse_crows ncols (int_of_string nrows) rest in
      if not (List.for_all crow_carried crows) then "bad carrier cannot hold the value" else
      (match r with
       | "#" :: obs ->
           let batches = C04.parse_idlists obs in
           carried_verdict (chk_C09 (nat_of_int n) (List.map erase_row crows) batches) (fst (carried_model n crows)) batches crows
       | _ -> "bad line")
  | "Y" :: _tag :: n :: ncols :: nrows :: rest ->
      let n = int_of_string n and ncols = int_of_string ncols in
      let (crows, r) = parse_crows ncols (int_of_string nrows) rest in
      if not (List.for_all crow_carried crows) then "bad carrier cannot hold the value" else
      (match r with
       | "#" :: obs ->
           let res = C04.parse_results ncols true obs in
           carried_verdict (chk_C09_sql (nat_of_int n) (List.map erase_row crows) res) (snd (carried_model n crows))
             (List.map (fun g -> g.g_ids) res) crows
       | _ -> "bad line")
  | ["N"; tok; part; key] ->
      let c = parse_cvalue tok in
      if not (cvalue_carried c) then "bad carrier cannot hold the value" else
      let mpart = hex_of_bytes (c_agg_part c) and mkey = hex_of_bytes (c_cnt_key { crid = Z0; cvals = [c] }) in
      if mpart <> part then "diff key_part_carrier model=" ^ mpart
      else if mkey <> key then "diff key_cnt_carrier model=" ^ mkey
      else "ok nt"
  | "W" :: n :: ncols :: nrows :: rest ->
      let n = int_of_string n and ncols = int_of_string ncols in
      let (rows, r) = C04.parse_rows ncols (int_of_string nrows) rest in
      (match r with
       | "#" :: obs ->
           let batches = C04.parse_idlists obs in
           (match chk_C09 (nat_of_int n) rows batches with
            | Some c -> "chk " ^ C04.string_of_gclause c
            | None ->
                (match C04.counting_verdict n rows batches with
                 | Some d -> d
                 | None -> if nontrivial n rows batches then "ok nt" else "ok"))
       | _ -> "bad line")
  | "S" :: _tag :: n :: ncols :: nrows :: rest ->
      let n = int_of_string n and ncols = int_of_string ncols in
      let (rows, r) = C04.parse_rows ncols (int_of_string nrows) rest in
      (match r with
       | "#" :: obs ->
           let res = C04.parse_results ncols true obs in
           (match chk_C09_sql (nat_of_int n) rows res with
            | Some c -> "chk " ^ C04.string_of_gclause c
            | None ->
                let batches = List.map (fun g -> g.g_ids) res in
                (match C04.counting_verdict n rows batches with
                 | Some d -> d
                 | None -> if nontrivial n rows batches then "ok nt" else "ok"))
       | _ -> "bad line")
  | _ -> "bad line"

let () = Registry.register "C09" handle
