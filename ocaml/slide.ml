(* Sliding-window helpers shared by C02, C08. *)
open Model
open Util
open Win

let string_of_sclause = function
  | SMembership -> "membership" | SUnknownRow -> "unknown_row" | STwice -> "twice" | SOrder -> "order"
  | STooEarlyStart -> "too_early_start" | SRowMissing -> "row_missing" | SIntervalLost -> "interval_lost"
  | SEarlyFire -> "early_fire" | SWatermarkOrigin -> "watermark_origin" | SLateUpdateShape -> "late_update_shape"
  | SLateUpdateMissing -> "late_update_missing" | STooLateCounted -> "too_late_counted"


let run_shops (c : scfg) (hops : hop list) : ev list =
  let rec go s = function
    | [] -> []
    | HOp o :: r -> let (s1, e) = sstep c s o in e @ go s1 r
    | HDeliver inj :: r -> let (s1, e) = sdeliver c s inj in e @ go s1 r
    | HDrain :: r ->
        let rec drain s n acc =
          if n = 0 then (s, acc) else
          let (s1, e) = sdeliver c s [] in
          if e = [EvD0] then (s1, acc @ e) else drain s1 (n - 1) (acc @ e) in
        let (s1, e) = drain s 200 [] in e @ go s1 r in
  go sst0 hops

