open Model
open Util
open Win
open Slide

let handle (toks : string list) : string =
  match toks with
  | "S" :: size :: slide :: ooo :: late :: base :: rest ->
      (match split_hash rest with
       | [ []; ops; obs ] | [ ops; obs ] ->
           let c = { ssize = zs size; sslide = zs slide; sooo = zs ooo; slateness = zs late } in
           let hops = parse_ops (zs base) ops in
           let model = show_trace (run_shops c hops) in
           let impl = String.concat " " obs in
           let tbl = Hashtbl.create 64 in
           let tr = parse_trace tbl obs in
           (match chk_C08 c (zs base) tr with
            | Some cl -> "chk " ^ string_of_sclause cl
            | None ->
                      (* rows ingested during a delivery inside the current slot (Spec/SlideKeptSpec.v) *)
                      match chk_C08_kept c (zs base) tr with
                      | Some ((id, ts), a) ->
                          Printf.sprintf "chk kept_row_interval_lost row=%d ts=%d interval_start=%d%s" (int_of_z id) (int_of_z ts) (int_of_z a)
                            (if model <> impl then " (and model differs)" else "")
                      | None ->
                      if quiet_violated c.sooo (zs base) tr then "chk watermark_not_redelivered" ^ (if model <> impl then " (and model differs)" else "") else
                      if model <> impl then "diff sliding_trace model=" ^ model
                      else if List.exists (function EvBatch b -> List.length b.b_rows >= 2 | _ -> false) tr then "ok nt" else "ok")
       | _ -> "bad line")
  | "Q" :: rest -> Winsql.handle_q rest
  | _ -> "bad line"

let () = Registry.register "C08" handle
