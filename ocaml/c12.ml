open Model
open Util

(* C12: one line of the case file -> verdict (see harness/c12.go for the formats) *)
let bytes_of_string (s : string) : n list = List.init (String.length s) (fun i -> n_of_int (Char.code s.[i]))

let z_of_dec (s : string) : z =
  if String.length s > 0 && s.[0] = '-' then
    (match dec_value Z0 (bytes_of_string (String.sub s 1 (String.length s - 1))) with
     | Z0 -> Z0 | Zpos p -> Zneg p | Zneg p -> Zpos p)
  else dec_value Z0 (bytes_of_string s)

let rec int_of_z' = function Z0 -> 0 | Zpos p -> int_of_pos p | Zneg p -> - (int_of_pos p)

let fl_of_tok (t : string) : fl =
  match t with
  | "nan" -> FNaN | "+inf" -> FInf false | "-inf" -> FInf true
  | _ -> (match String.split_on_char ':' t with
          | [m; e] -> FFin (z_of_dec m, z_of_dec e)
          | _ -> failwith "bad float")

(* canonical text of a finite model float: odd mantissa (or 0:0) *)
let tok_of_fl (f : fl) : string =
  match f with
  | FNaN -> "nan" | FInf false -> "+inf" | FInf true -> "-inf"
  | FFin (m, e) ->
      let m = ref (int_of_z' m) and e = ref (int_of_z' e) in
      if !m = 0 then "0:0" else begin
        while !m land 1 = 0 do m := !m asr 1; incr e done;
        Printf.sprintf "%d:%d" !m !e end

let kind_of_int = function
  | 0 -> KInt | 1 -> KInt8 | 2 -> KInt16 | 3 -> KInt32 | 4 -> KInt64
  | 5 -> KUint | 6 -> KUint8 | 7 -> KUint16 | 8 -> KUint32 | 9 -> KUint64 | _ -> failwith "bad kind"

let value_of_tok (t : string) : value =
  if t = "n" then VNil else if t = "o" then VOther else
  let rest = String.sub t 2 (String.length t - 2) in
  match t.[0] with
  | 'i' -> (match String.index_opt rest ':' with
            | Some i -> VI (kind_of_int (int_of_string (String.sub rest 0 i)), z_of_dec (String.sub rest (i + 1) (String.length rest - i - 1)))
            | None -> failwith "bad int")
  | 'd' -> VF64 (fl_of_tok rest)
  | 'f' -> VF32 (fl_of_tok rest)
  | 's' -> VStr (bytes_of_hex rest)
  | 'b' -> VBool (rest = "1")
  | _ -> failwith "bad value"

let row_of_toks (ts : string list) : (n list * value) list =
  List.map (fun t -> match String.index_opt t '=' with
      | Some i -> (bytes_of_hex (String.sub t 0 i), value_of_tok (String.sub t (i + 1) (String.length t - i - 1)))
      | None -> failwith "bad row token") ts

let op_name = function OGt -> "gt" | OGe -> "ge" | OLt -> "lt" | OLe -> "le" | OEq2 -> "eq2" | OEq1 -> "eq1" | ONe -> "ne" | ONe2 -> "ne2"

let show_part (c : fcmp) : string =
  match c.f_lit with
  | FLNum f -> Printf.sprintf "%s %s N %s" (hex_of_bytes c.f_field) (op_name c.f_op) (tok_of_fl f)
  | FLStr s -> Printf.sprintf "%s %s S %s" (hex_of_bytes c.f_field) (op_name c.f_op) (hex_of_bytes s)

let show_prog (p : fastprog option) : string =
  match p with
  | None -> "0"
  | Some (FSingle c) -> "1 " ^ show_part c
  | Some (FChain (a, cs)) -> String.concat " " ((if a then "2" else "3") :: List.map show_part cs)

let obs_of_tok = function "1" -> ObsTrue | "0" -> ObsFalse | "E" -> ObsNoCompile | t -> failwith ("bad observation " ^ t)
let fast_of_tok = function "t" -> Some true | "f" -> Some false | _ -> None
let tok_of_fast = function Some true -> "t" | Some false -> "f" | None -> "-"
let clause_name = function ClFastDiffers -> "fast_differs" | ClDecisionDiffers -> "decision_differs"

let status_of_shape s = int_of_n (shape_status s)

let handle (toks : string list) : string =
  match Win.split_hash toks with
  | [["T"; text]; impl] ->
      let t = bytes_of_hex text in
      let p = fast_of_text t in
      let viashape = (match parse_shape t with Some s -> compile_fast s | None -> None) in
      let m = show_prog p in
      if m <> String.concat " " impl then Printf.sprintf "diff shape model=[%s]" m
      else if show_prog viashape <> m then Printf.sprintf "diff text_vs_shape shape=[%s]" (show_prog viashape)
      else if p <> None then "ok nt" else "ok"
  | [("E" :: text :: rowt); [plain; paren; fast]] ->
      if plain = "P" || paren = "P" then "chk panic evaluation panicked" else
      let t = bytes_of_hex text in
      let r = row_of_toks rowt in
      let prog = fast_of_text t in
      let exp_fast = (match prog with Some p -> fast_eval p r | None -> None) in
      let chk = chk_C12 (obs_of_tok plain) (obs_of_tok paren) (fast_of_tok fast) in
      (match chk with
       | Some cl -> Printf.sprintf "chk %s plain=%s paren=%s fast=%s" (clause_name cl) plain paren fast
       | None ->
         if plain <> "E" && tok_of_fast exp_fast <> fast then Printf.sprintf "diff fast model=%s impl=%s" (tok_of_fast exp_fast) fast
         else match parse_shape t with
           | None ->
             if fast <> "-" then "diff fast_without_shape" else
             (* some part is written literal-first (20 <= x): never a shortcut shape; the general evaluator
                decides, and the model reads the part as the comparison with the operands swapped *)
             (match parse_shape_any t with
              | None -> "ok"
              | Some s ->
                (match status_of_shape s with
                 | 0 ->
                   let g = b01 (eval_general s r) in
                   if g <> paren then Printf.sprintf "diff general_literal_first model=%s impl=%s" g paren
                   else if g <> plain then Printf.sprintf "diff evaluate_literal_first model=%s impl=%s" g plain
                   else "ok nt"
                 | 1 -> if plain = "E" && paren = "E" then "ok" else Printf.sprintf "diff compiles_literal_first model=no impl=%s/%s" plain paren
                 | _ -> "ok"))
           | Some s ->
             (match status_of_shape s with
              | 0 ->
                let g = b01 (eval_general s r) in
                let e = b01 (match exp_fast with Some b -> b | None -> eval_general s r) in
                let e' = b01 (evaluate s r) in
                if g <> paren then Printf.sprintf "diff general model=%s impl=%s" g paren
                else if e <> plain || e' <> plain then Printf.sprintf "diff evaluate model=%s/%s impl=%s" e e' plain
                else if fast <> "-" then "ok nt" else "ok"
              | 1 -> if plain = "E" && paren = "E" then "ok" else Printf.sprintf "diff compiles model=no impl=%s/%s" plain paren
              | _ -> "ok"))
  | [("Q" :: site :: text :: rowt); [a; b]] ->
      let t = bytes_of_hex text in
      let r = row_of_toks rowt in
      if a <> b then Printf.sprintf "chk decision_differs_%s plain=%s paren=%s" site a b else
      (match (match parse_shape t with Some s -> Some (s, true) | None -> (match parse_shape_any t with Some s -> Some (s, false) | None -> None)) with
       | None -> "bad sql predicate outside the shape language"
       | Some (s, shortcut_shape) ->
         (match status_of_shape s with
          | 0 -> let g = b01 (if shortcut_shape then evaluate s r else eval_general s r) in
                 if g = a then "ok nt" else Printf.sprintf "diff %s model=%s impl=%s" site g a
          | _ -> "ok"))
  | [("K" :: form :: text :: rowt); [seq; nt; nf; np]] ->
      (* one compiled predicate evaluated by several goroutines at once: seq = what a private compilation
         answers for the row, nt/nf/np = what the concurrent evaluations on the shared one answered *)
      if seq = "P" then "chk panic sequential evaluation panicked" else
      let t = bytes_of_hex text in
      let r = row_of_toks rowt in
      let cnt s = n_of_int (int_of_string s) in
      (match chk_C12K (seq = "1") (cnt nt) (cnt nf) (cnt np) with
       | Some ClConcurrentPanics ->
           Printf.sprintf "chk concurrent_evaluation_panics form=%s decision=%s concurrent: accepted=%s rejected=%s panicked=%s" form seq nt nf np
       | Some ClConcurrentDiffers ->
           Printf.sprintf "chk concurrent_decision_differs form=%s decision=%s concurrent: accepted=%s rejected=%s panicked=%s" form seq nt nf np
       | None ->
         if form = "a" then "ok nt" else
         (match parse_shape t with
          | None -> "bad concurrent predicate outside the shape language"
          | Some s ->
            (match status_of_shape s with
             | 0 -> let g = b01 (if form = "g" then eval_general s r else evaluate s r) in
                    if g = seq then "ok nt" else Printf.sprintf "diff concurrent_%s model=%s impl=%s" form g seq
             | _ -> "bad concurrent predicate that does not compile")))
  | [["KX"; form; _text]; [what; msg]] ->
      (* the process that evaluated this predicate from several goroutines died / never came back *)
      Printf.sprintf "chk concurrent_evaluation_%s form=%s %s" what form
        (String.concat "" (List.map (fun c -> String.make 1 (Char.chr (int_of_n c))) (bytes_of_hex msg)))
  | _ -> "bad line"

let () = Registry.register "C12" handle
