(* C05 — "the result contains exactly the selected columns (aliases, literals), or all fields for *":
   the column set the statement demands of a direct query's result, and the executable checker the
   driver runs on the IMPLEMENTATION's result (S and QI lines).  Names are byte strings compared
   exactly: a column called __seq__, __x, x__, _ or __ is a column like any other. *)
From SV Require Export Model.Direct.

Definition is_star (i : xitem) : bool := match i with IStar => true | _ => false end.
Definition q_has_star (q : xquery) : bool := existsb is_star (q_items q).

(* the output names of the items that are not * (alias, else the column itself) *)
Fixpoint sel_outs (is : list xitem) : list bytes :=
  match is with
  | [] => []
  | i :: is' => match out_name i with Some o => o :: sel_outs is' | None => sel_outs is' end
  end.

(* the columns of the result of [q] on [row]: every field of the row when * is selected, and the
   output name of every other item *)
Definition sel_columns (q : xquery) (row : xrow) : list bytes :=
  (if q_has_star q then map fst row else []) ++ sel_outs (q_items q).

Definition mem_b (k : bytes) (l : list bytes) : bool := existsb (bytes_eqb k) l.

Inductive colclause :=
| ColMissing (k : bytes)    (* a selected column / a field of the row under * is not in the result *)
| ColExtra (k : bytes).     (* the result has a column that was not selected *)

(* want = the columns the statement demands, obs = the keys of the observed result *)
Definition chk_columns (want obs : list bytes) : option colclause :=
  match find (fun k => negb (mem_b k obs)) want with
  | Some k => Some (ColMissing k)
  | None => match find (fun k => negb (mem_b k want)) obs with
            | Some k => Some (ColExtra k)
            | None => None
            end
  end.

(* every violated clause, for the report *)
Definition cols_missing (want obs : list bytes) : list bytes := filter (fun k => negb (mem_b k obs)) want.
Definition cols_extra (want obs : list bytes) : list bytes := filter (fun k => negb (mem_b k want)) obs.
