(* C11 -- vocabulary of the PATTERN theorem: "this token list is a way to WRITE this row pattern".
   The relation covers every spelling of the documented grammar of MATCH_RECOGNIZE ... PATTERN ( ... ):
     atom        ::= variable | ( alternation ) | PERMUTE ( alternation , ... ) | {- alternation -}
     quantified  ::= atom [ quantifier [ ? ] ]
     quantifier  ::= ? | * | + | { n } | { n , } | { n , m }        with n <= m  (n = m, n = 0 included)
     sequence    ::= quantified+          alternation ::= sequence ( | sequence )*
   over tokens (so over every layout and keyword casing of the text, by the lexer theorems).  A sequence or
   alternation of one element denotes that element; parentheses denote a PGroup node.  *)
From SV Require Export Model.MatchWithin.
Local Open Scope N_scope.

(* a punctuation token of the given type (its text is not word-like: true of every token the lexer makes) *)
Definition punct (ty : N) (t : token) : bool := ty_is ty t && negb (ident_like t).
(* a pattern variable: a word that is not itself punctuation and not the word PERMUTE *)
Definition var_tok (t : token) : bool :=
  ident_like t
  && negb (ty_is T_LParen t || ty_is T_LBrace t || ty_is T_Question t || ty_is T_Asterisk t || ty_is T_Plus t)
  && negb (ty_is T_Ident t && wd W_PERMUTE t).

(* the spellings of a quantifier with bounds lo .. hi *)
Inductive w_bounds : N -> option N -> list token -> Prop :=
| WB_opt : forall t, ty_is T_Question t = true -> w_bounds 0 (Some 1) [t]
| WB_star : forall t, ty_is T_Asterisk t = true -> w_bounds 0 None [t]
| WB_plus : forall t, ty_is T_Plus t = true -> w_bounds 1 None [t]
| WB_exact : forall a n b lo, ty_is T_LBrace a = true -> p_bound n = Some lo -> ty_is T_RBrace b = true ->
    w_bounds lo (Some lo) [a; n; b]
| WB_at_least : forall a n c b lo, ty_is T_LBrace a = true -> p_bound n = Some lo -> ty_is T_Comma c = true ->
    ty_is T_RBrace b = true -> w_bounds lo None [a; n; c; b]
| WB_between : forall a n c m b lo hi, ty_is T_LBrace a = true -> p_bound n = Some lo -> ty_is T_Comma c = true ->
    p_bound m = Some hi -> ty_is T_RBrace b = true -> lo <= hi -> w_bounds lo (Some hi) [a; n; c; m; b].
Inductive w_quant : N -> option N -> bool -> list token -> Prop :=
| WQ_greedy : forall lo hi q, w_bounds lo hi q -> w_quant lo hi true q
| WQ_reluctant : forall lo hi q t, w_bounds lo hi q -> ty_is T_Question t = true -> w_quant lo hi false (q ++ [t]).

Definition alt_of (p : pat) (ps : list pat) : pat := match ps with [] => p | _ => PAlt (p :: ps) end.

Inductive w_atom : pat -> list token -> Prop :=
| W_var : forall t, var_tok t = true -> w_atom (PSym (strip_bt (tval t))) [t]
| W_group : forall p l a b, w_alt p l -> punct T_LParen a = true -> punct T_RParen b = true ->
    w_atom (PGroup p) (a :: l ++ [b])
| W_excl : forall p l a d d' b, w_alt p l -> punct T_LBrace a = true -> punct T_Minus d = true ->
    punct T_Minus d' = true -> punct T_RBrace b = true -> w_atom (PExcl p) (a :: d :: l ++ [d'; b])
| W_permute : forall ps l t a b, w_alts ps l -> ident_like t = true -> ty_is T_Ident t = true -> wd W_PERMUTE t = true ->
    punct T_LParen a = true -> punct T_RParen b = true -> w_atom (PPermute ps) (t :: a :: l ++ [b])
with w_quantified : pat -> list token -> Prop :=
| W_plain : forall p l, w_atom p l -> w_quantified p l
| W_rep : forall p l lo hi g q, w_atom p l -> w_quant lo hi g q -> w_quantified (PRep p lo hi g) (l ++ q)
with w_items : list pat -> list token -> Prop :=
| W_item1 : forall p l, w_quantified p l -> w_items [p] l
| W_item_cons : forall p l ps ls, w_quantified p l -> w_items ps ls -> w_items (p :: ps) (l ++ ls)
with w_seq : pat -> list token -> Prop :=
| W_seq1 : forall p l, w_quantified p l -> w_seq p l
| W_seqn : forall p q ps l, w_items (p :: q :: ps) l -> w_seq (PSeq (p :: q :: ps)) l
with w_more : list pat -> list token -> Prop :=
| W_more_nil : w_more [] []
| W_more_cons : forall b p l ps ls, punct T_Pipe b = true -> w_seq p l -> w_more ps ls -> w_more (p :: ps) (b :: l ++ ls)
with w_alt : pat -> list token -> Prop :=
| W_alt : forall p l ps ls, w_seq p l -> w_more ps ls -> w_alt (alt_of p ps) (l ++ ls)
with w_alts : list pat -> list token -> Prop :=
| W_alts1 : forall p l, w_alt p l -> w_alts [p] l
| W_alts_cons : forall p l c ps ls, w_alt p l -> punct T_Comma c = true -> w_alts ps ls -> w_alts (p :: ps) (l ++ c :: ls).

Scheme w_atom_mind := Minimality for w_atom Sort Prop
  with w_quantified_mind := Minimality for w_quantified Sort Prop
  with w_items_mind := Minimality for w_items Sort Prop
  with w_seq_mind := Minimality for w_seq Sort Prop
  with w_more_mind := Minimality for w_more Sort Prop
  with w_alt_mind := Minimality for w_alt Sort Prop
  with w_alts_mind := Minimality for w_alts Sort Prop.
Combined Scheme w_pattern_mutind from w_atom_mind, w_quantified_mind, w_items_mind, w_seq_mind, w_more_mind, w_alt_mind, w_alts_mind.
