(* C14 — the declarative reading of a query whose PARTITION BY keys are paths into tree rows: the partition
   value of a row is the value AT THE PATH (a column literally named like the key first), NULL when the path leads
   nowhere - whatever other columns the row carries, in particular a top-level column named like the path's last
   segment.  Everything else is the specification of flat rows (Spec/AnalyticSpec.v) on the rows so resolved.
   [fb] = true gives the same specification over the code's resolution (suffix fallback): the driver uses it to
   tell the known deviation "a row whose path leads nowhere is keyed by the top-level column named like the leaf"
   from any other disagreement. *)
From SV Require Export Model.AnalyticPath Spec.AnalyticSpec Spec.AnalyticEpochSpec.

(* the partition value the statement means *)
Definition an_path_val (r : anrow) (key : bytes) : aval := an_resolve false r key.

Definition an_nmspec (fb sql : bool) (q : amquery) (h : list anrow) : list (option (list aout)) :=
  an_mspec_query sql q (an_nflat fb q h).

Definition an_nmwithin (fb : bool) (q : amquery) (h : list anrow) : bool := an_mwithin_cap q (an_nflat fb q h).

(* key-level check (P lines): the partition key of one row for a list of path keys *)
Definition an_npkey (fb : bool) (keys : list bytes) (r : anrow) : bytes :=
  an_key_of_vals (map (an_resolve fb r) keys).

(* the same on EVERY history, partitions above the cap included (Spec/AnalyticEpochSpec.v), over the rows resolved
   the way [fb] says; and the rows on which some item fails WHEN while its partition is evicted *)
Definition an_nxmspec (fb : bool) (q : amquery) (h : list anrow) : list (option (list aout)) :=
  an_xmspec_query false q (an_nflat fb q h).

Definition an_nxmevicted (fb : bool) (q : amquery) (h : list anrow) : list bool := an_xmevicted q (an_nflat fb q h).
