(* C15 for labelled runs, as an executable checker over what the implementation reported for ONE
   partition: the list of ((MATCH_NUMBER, FIRST(id), LAST(id), COUNT( * )), classification of the rows)
   in emission order. Which of several equally long classifications the engine reports is not
   determined, so there is no single reference result: the checker walks the partition's rows like
   the reference scan of Model/Cep.v, decides by [llongest_at] whether a match must start at an
   allowed row and how long it must be, demands that the reported classification is a valid one
   (word of the pattern, every row satisfies the DEFINE of ITS label against the labels before it,
   WITHIN), and computes the next allowed start from the reported labels. *)
From Coq Require Import List ZArith NArith Bool Arith.
From SV Require Export Model.CepLab Spec.CepSpec.
Import ListNotations.

Definition lobs := (cobs * list N)%type.
Definition lmatch := (nat * nat * list N)%type.   (* position, length, labels *)

Fixpoint llocate_all (rows : list crow) (out : list lobs) : option (list lmatch) :=
  match out with
  | [] => Some []
  | (o, w) :: t => match locate rows o, llocate_all rows t with
                   | Some (q, k), Some ms => if Nat.eqb (length w) k then Some ((q, k, w) :: ms) else None
                   | _, _ => None
                   end
  end.

(* [l] = the partition's rows from position [pos] on; a start is allowed iff pos >= next *)
Fixpoint lscan_chk (c : lcfg) (pos next : nat) (l : list crow) (ms : list lmatch) : option cep_clause :=
  match l with
  | [] => match ms with [] => None | _ => Some ClRun end
  | r :: t =>
      match ms with
      | [] => if Nat.ltb pos next then lscan_chk c (S pos) next t []
              else match llongest_at c l with
                   | None => lscan_chk c (S pos) next t []
                   | Some _ => Some ClOmitted
                   end
      | (q, k, w) :: ms' =>
          if Nat.ltb q pos then Some ClSkip
          else if Nat.ltb pos next then (if Nat.eqb q pos then Some ClSkip else lscan_chk c (S pos) next t ms)
          else match llongest_at c l with
               | None => if Nat.eqb q pos then Some ClValid else lscan_chk c (S pos) next t ms
               | Some k0 =>
                   if negb (Nat.eqb q pos) then Some ClOmitted
                   else if negb (lvalid_b c (firstn k l) w) then Some ClValid
                   else if negb (Nat.eqb k k0) then Some ClLongest
                   else lscan_chk c (S pos) (lskip_to (l_skip c) pos k w) t ms'
               end
      end
  end.

Definition chk_C15L (c : lcfg) (rows : list crow) (out : list lobs) : option cep_clause :=
  match llocate_all rows out with
  | None => Some ClRun
  | Some ms =>
      match lscan_chk c 0 0 rows ms with
      | Some cl => Some cl
      | None => if numbered 1 (map fst out) then None else Some ClNumber
      end
  end.
