(* C08: rows ingested WHILE one watermark is being handled (the trigger code releases the window lock around the
   callback of every firing).  After the first firing [a, a+size) of a delivery the current slot is a + slide; a row
   added then with a timestamp inside the current slot [a+slide, a+slide+size) is kept by the late-row policy
   (sadd_core: late && sinwin -> buffered; not late -> buffered), whether or not it lies behind the watermark.  It is
   an accepted event: every slide-aligned interval that covers it, starts at or after the slot and ends at or before the
   watermark being handled has to be delivered, with the row inside, before the handling of that watermark ends.
   Spec/SlideSpec.v does not state this (its row_missing / interval_lost clauses speak about on-time rows only), so it
   is a separate executable clause, applied next to chk_C08 on the real trace. *)
From SV Require Export Spec.SlideSpec.

Record kst := {
  k_dw : option Z;              (* watermark being handled *)
  k_slot : option Z;            (* start of the current slot = (start of the last first firing of this delivery) + slide *)
  k_fired : list batch;         (* latest contents per fired interval *)
  k_owed : list (row * Z)       (* (row, interval start) owed before the end of this delivery *)
}.
Definition kst0 : kst := {| k_dw := None; k_slot := None; k_fired := []; k_owed := [] |}.

Definition kept_owed (c : scfg) (base : Z) (w sl id ts : Z) : list (row * Z) :=
  if ssane c base ts && sinwin c sl ts
  then map (fun a => ((id, ts), a)) (filter (fun a => (sl <=? a) && (a + ssize c <=? w)) (covers c ts))
  else [].

Definition kchk_ev (c : scfg) (base : Z) (s : kst) (e : ev) : kst + (row * Z) :=
  match e with
  | EvDB w => inl {| k_dw := Some w; k_slot := None; k_fired := k_fired s; k_owed := [] |}
  | EvBatch b =>
      match find_fired (b_start b) (k_fired s) with
      | None => inl {| k_dw := k_dw s;
                       k_slot := match k_dw s with Some _ => Some (b_start b + sslide c) | None => k_slot s end;
                       k_fired := b :: k_fired s; k_owed := k_owed s |}
      | Some _ => inl {| k_dw := k_dw s; k_slot := k_slot s; k_fired := replace_fired b (k_fired s); k_owed := k_owed s |}
      end
  | EvAdd id ts =>
      match k_dw s, k_slot s with
      | Some w, Some sl => inl {| k_dw := k_dw s; k_slot := k_slot s; k_fired := k_fired s;
                                  k_owed := k_owed s ++ kept_owed c base w sl id ts |}
      | _, _ => inl s
      end
  | EvDE =>
      match find (fun o => negb (match find_fired (snd o) (k_fired s) with
                                 | Some b => row_in (fst o) (b_rows b) | None => false end)) (k_owed s) with
      | Some o => inr o
      | None => inl {| k_dw := None; k_slot := None; k_fired := k_fired s; k_owed := [] |}
      end
  | _ => inl s
  end.

Fixpoint kchk_trace (c : scfg) (base : Z) (s : kst) (tr : list ev) : option (row * Z) :=
  match tr with
  | [] => None
  | e :: r => match kchk_ev c base s e with inr o => Some o | inl s' => kchk_trace c base s' r end
  end.

(* Some ((id, ts), a): the row id/ts was ingested during a delivery inside the current slot, and the covering interval
   [a, a+size), whose end that watermark had passed, was not delivered with it *)
Definition chk_C08_kept (c : scfg) (base : Z) (tr : list ev) : option (row * Z) := kchk_trace c base kst0 tr.
