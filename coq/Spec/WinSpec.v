(* The time-window properties (C01, C02) as executable checkers over a trace of observable
   events. A checker returns the first violated clause (None = the trace satisfies the property).
   The same clauses are stated as Props and proved of every model trace in Proofs/. *)
From SV Require Export Model.Tumbling.

Inductive clause :=
| ClMembership        (* a batch is not a size-aligned interval holding only its own rows *)
| ClUnknownRow        (* a batch reports a row that was never added (or with another timestamp) *)
| ClTwice             (* a row is counted in two results / an interval is reported twice (lateness 0) *)
| ClOrder             (* first firings are not in increasing order *)
| ClOnTimeLost        (* an on-time row was not reported although a watermark >= its window end was handled *)
| ClEarlyFire         (* a window fired although no accepted event has ts >= end + ooo *)
| ClWatermarkOrigin   (* a delivered watermark is not (an accepted event's ts) - ooo, or decreases *)
| ClLateUpdateShape   (* a re-delivery is not: previous contents of the window plus the late row *)
| ClTooLateCounted    (* a row older than watermark - lateness changed a result *)
| ClFarFuture.        (* a far-future timestamp changed the watermark *)

Definition sane (c : cfg) (base ts : Z) : bool := ts <=? base + ooo c + day.

Definition rows_eqb (a b : list row) : bool :=
  (Nat.eqb (length a) (length b)) && forallb (fun p => (fst (fst p) =? fst (snd p)) && (snd (fst p) =? snd (snd p))) (combine a b).
Definition row_in (r : row) (l : list row) : bool := existsb (fun x => (fst x =? fst r) && (snd x =? snd r)) l.
Definition id_in (i : Z) (l : list row) : bool := existsb (fun x => fst x =? i) l.

(* checker state while scanning a trace left to right *)
Record cst := {
  seen : list row;            (* rows added so far (with usable timestamp) *)
  maxts : option Z;           (* largest sane timestamp so far *)
  owed : list row;            (* on-time sane rows added before the current delivery began, not yet reported *)
  owed_new : list row;        (* ... added since the current delivery began *)
  dw : option Z;              (* watermark being handled *)
  lastw : option Z;           (* last watermark received *)
  fired : list batch;         (* first firings so far, latest first *)
  lastadd : option row;       (* the immediately preceding event was this Add *)
  emitted : list Z            (* ids reported so far *)
}.
Definition cst0 : cst := {| seen := []; maxts := None; owed := []; owed_new := []; dw := None; lastw := None;
                            fired := []; lastadd := None; emitted := [] |}.

Definition omax (a : Z) (m : option Z) : Z := match m with None => a | Some b => Z.max a b end.
Definition winstart (c : cfg) (ts : Z) : Z := align ts (size c).

Definition find_fired (s : Z) (l : list batch) : option batch := find (fun b => b_start b =? s) l.
Fixpoint replace_fired (b : batch) (l : list batch) : list batch :=
  match l with [] => [] | x :: r => if b_start x =? b_start b then b :: r else x :: replace_fired b r end.

Definition clear_last (s : cst) : cst :=
  {| seen := seen s; maxts := maxts s; owed := owed s; owed_new := owed_new s; dw := dw s; lastw := lastw s;
     fired := fired s; lastadd := None; emitted := emitted s |}.

(* one event; which = which clauses are enforced (C01 or C02 set) *)
Definition chk_ev (c : cfg) (base : Z) (s : cst) (e : ev) : cst + clause :=
  match e with
  | EvAdd id ts =>
      let sn := sane c base ts in
      let m' := if sn then Some (omax ts (maxts s)) else maxts s in
      let ontime := sn && (match maxts s with None => true | Some m => m - ooo c <=? ts end) in
      inl {| seen := seen s ++ [(id, ts)]; maxts := m';
             owed := owed s; owed_new := if ontime then owed_new s ++ [(id, ts)] else owed_new s;
             dw := dw s; lastw := lastw s; fired := fired s; lastadd := Some (id, ts); emitted := emitted s |}
  | EvNoTs _ | EvTick | EvD0 => inl (clear_last s)
  | EvDB wmk =>
      (* origin: wmk = (some sane seen ts) - ooo, and watermarks increase *)
      if negb (existsb (fun r => sane c base (rts r) && (rts r - ooo c =? wmk)) (seen s)) then inr ClWatermarkOrigin
      else if match lastw s with Some l => wmk <=? l | None => false end then inr ClWatermarkOrigin
      else inl {| seen := seen s; maxts := maxts s; owed := owed s ++ owed_new s; owed_new := []; dw := Some wmk; lastw := Some wmk;
                  fired := fired s; lastadd := None; emitted := emitted s |}
  | EvDE =>
      match dw s with
      | None => inl (clear_last s)
      | Some wmk =>
          if existsb (fun r => winstart c (rts r) + size c <=? wmk) (owed s) then inr ClOnTimeLost
          else inl {| seen := seen s; maxts := maxts s; owed := owed s; owed_new := owed_new s; dw := None; lastw := lastw s;
                      fired := fired s; lastadd := None; emitted := emitted s |}
      end
  | EvBatch b =>
      if negb ((b_end b =? b_start b + size c) && (0 <? size c) && (b_start b mod size c =? 0)
               && forallb (fun r => inwin c (b_start b) (rts r)) (b_rows b)) then inr ClMembership
      else if negb (forallb (fun r => row_in r (seen s)) (b_rows b)) then inr ClUnknownRow
      else
      let strip := fun l => filter (fun r => negb (id_in (rid r) (b_rows b))) l in
      match find_fired (b_start b) (fired s) with
      | None =>
          (* first firing *)
          if existsb (fun r => existsb (Z.eqb (rid r)) (emitted s)) (b_rows b) then inr ClTwice
          else if match fired s with f :: _ => b_start b <=? b_start f | [] => false end then inr ClOrder
          else if match dw s with Some wmk => negb (b_end b <=? wmk) | None => true end then inr ClEarlyFire
          else inl {| seen := seen s; maxts := maxts s; owed := strip (owed s); owed_new := strip (owed_new s);
                      dw := dw s; lastw := lastw s; fired := b :: fired s; lastadd := None;
                      emitted := emitted s ++ map rid (b_rows b) |}
      | Some prev =>
          (* re-delivery of an already fired window *)
          if lateness c <=? 0 then inr ClTwice
          else match lastadd s with
               | Some r => if rows_eqb (b_rows b) (b_rows prev ++ [r]) then
                             inl {| seen := seen s; maxts := maxts s; owed := strip (owed s); owed_new := strip (owed_new s);
                                    dw := dw s; lastw := lastw s; fired := replace_fired b (fired s); lastadd := None;
                                    emitted := emitted s ++ [rid r] |}
                           else inr ClLateUpdateShape
               | None => inr ClLateUpdateShape
               end
      end
  end.

Fixpoint chk_trace (c : cfg) (base : Z) (s : cst) (tr : list ev) : option clause :=
  match tr with
  | [] => None
  | e :: r => match chk_ev c base s e with inr cl => Some cl | inl s' => chk_trace c base s' r end
  end.

Definition chk_C01 (c : cfg) (base : Z) (tr : list ev) : option clause := chk_trace c base cst0 tr.

(* ---- the extra C02 clause: a row older than (watermark - lateness) must not change a result.
   The watermark is the statement's: (largest sane timestamp up to and including the row) - ooo. ---- *)
Fixpoint too_late_rows (c : cfg) (base : Z) (m : option Z) (tr : list ev) : list Z :=
  match tr with
  | [] => []
  | EvAdd id ts :: r =>
      if sane c base ts then
        let m' := omax ts m in
        if ts <? m' - ooo c - lateness c then id :: too_late_rows c base (Some m') r
        else too_late_rows c base (Some m') r
      else too_late_rows c base m r
  | _ :: r => too_late_rows c base m r
  end.

Definition chk_too_late (c : cfg) (base : Z) (tr : list ev) : option clause :=
  let tl := too_late_rows c base None tr in
  if existsb (fun e => match e with EvBatch b => existsb (fun r => existsb (Z.eqb (rid r)) tl) (b_rows b) | _ => false end) tr
  then Some ClTooLateCounted else None.

Definition chk_C02 (c : cfg) (base : Z) (tr : list ev) : option clause :=
  match chk_trace c base cst0 tr with
  | Some cl => Some cl
  | None => chk_too_late c base tr
  end.

(* ---- processing time: every row exactly once, in the size-aligned interval of its Add time ---- *)
Fixpoint chk_pt (c : cfg) (seen : list row) (emitted : list Z) (last : option Z) (tr : list ev) : option clause :=
  match tr with
  | [] => None
  | EvAdd id ts :: r =>
      (* a row whose clock reading lies in an interval that has already been reported (or an earlier one) can
         never be reported in it: reading the clock and inserting the row are one atomic step w.r.t. a firing *)
      if match last with Some l => ts <? l + size c | None => false end then Some ClOnTimeLost
      else chk_pt c (seen ++ [(id, ts)]) emitted last r
  | EvBatch b :: r =>
      if negb ((b_end b =? b_start b + size c) && (b_start b mod size c =? 0)
               && forallb (fun x => inwin c (b_start b) (rts x)) (b_rows b)) then Some ClMembership
      else if negb (forallb (fun x => row_in x seen) (b_rows b)) then Some ClUnknownRow
      else if existsb (fun x => existsb (Z.eqb (rid x)) emitted) (b_rows b) then Some ClTwice
      else if match last with Some l => b_start b <=? l | None => false end then Some ClOrder
      (* completeness at the moment of the trigger: every row of this interval seen so far is in the batch *)
      else if negb (forallb (fun x => negb (inwin c (b_start b) (rts x)) || id_in (rid x) (b_rows b)) seen) then Some ClOnTimeLost
      else chk_pt c seen (emitted ++ map rid (b_rows b)) (Some (b_start b)) r
  | _ :: r => chk_pt c seen emitted last r
  end.
Definition chk_C01_pt (c : cfg) (tr : list ev) : option clause := chk_pt c [] [] None tr.
