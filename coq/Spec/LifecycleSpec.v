(* C18 as an executable monitor over the observable levent ltrace (stop-begin/return, lsink-begin/end,
   EmitSync begin/end). It is lrun on the traces recorded from the real code by the Go harness, and
   Proofs/LifecycleProofs.v proves that every ltrace of the model (all schedules) is accepted, the
   expiry of Stop's grace period being the only exception. *)
From SV Require Export Model.Lifecycle.
From Coq Require Import List Bool Arith.
Import ListNotations.

Inductive lclause :=
| ClSinkAfterStop     (* a lsink invocation began although a Stop had returned and no Stop was in progress *)
| ClSinkRunning       (* a sink invocation was still in progress (it ended) after the barrier was established *)
| ClSyncAfterStop     (* an EmitSync that began after the barrier was not refused *)
| ClStopGrace         (* a Stop returned only because its grace period expired (some goroutine could not be joined) *)
| ClStopOverGrace     (* a Stop call was still running after its grace period plus the harness's margin: it was held by
                         something other than the grace-bounded join (a lock kept across user code, ...) *)
| ClSecondStopBlocked (* a Stop call made while another Stop was in progress (or after one returned) did not return within
                         the harness's bound: a repeated / concurrent / re-entrant Stop must be a no-op that returns at once *)
| ClEmitStuck         (* an Emit parked on a full data channel when Stop was called was not released by that Stop *)
| ClStuck             (* a call did not return (harness patience) *)
| ClLeak              (* more goroutines after Stop than before New *)
| ClLoserEarly.       (* literal reading: a sink invocation began after SOME Stop call had returned (a Stop that lost the
                         CAS returns at once, while the winning call is still joining); not part of chk_C18 *)

Record lmon := {
  m_in : nat;          (* Stop lcalls in progress *)
  m_ret : nat;         (* Stop lcalls that returned *)
  m_bar : bool;        (* barrier established: at some point >= 1 Stop had returned and none was in progress *)
  m_late : list nat    (* EmitSync lcalls that began after the barrier *)
}.
Definition lmon0 : lmon := {| m_in := 0; m_ret := 0; m_bar := false; m_late := [] |}.

Definition lmon_ev (m : lmon) (e : levent) : lmon + lclause :=
  match e with
  | EStopBegin _ => inl {| m_in := S (m_in m); m_ret := m_ret m; m_bar := m_bar m; m_late := m_late m |}
  | EStopReturn _ j =>
      if negb j then inr ClStopGrace
      else inl {| m_in := pred (m_in m); m_ret := S (m_ret m);
                  m_bar := m_bar m || Nat.eqb (pred (m_in m)) 0; m_late := m_late m |}
  | ESinkBegin _ _ => if m_bar m then inr ClSinkAfterStop else inl m
  | ESinkEnd _ => if m_bar m then inr ClSinkRunning else inl m
  | ESyncBegin t => if m_bar m then inl {| m_in := m_in m; m_ret := m_ret m; m_bar := true; m_late := t :: m_late m |} else inl m
  | ESyncEnd t ok => if ok && existsb (Nat.eqb t) (m_late m) then inr ClSyncAfterStop else inl m
  | ETimeout => inr ClStuck
  | EStopOver _ => inr ClStopOverGrace
  | EStopAgainOver _ => inr ClSecondStopBlocked
  | EEmitOver _ => inr ClEmitStuck
  | EGoroutines b f => if b <? f then inr ClLeak else inl m
  | _ => inl m
  end.

(* over a latest-first ltrace (the representation the model lstate carries) *)
Fixpoint lmonr (l : list levent) : lmon + lclause :=
  match l with
  | [] => inl lmon0
  | e :: older => match lmonr older with inl m => lmon_ev m e | inr c => inr c end
  end.

(* over a chronological ltrace *)
Definition chk_C18 (tr : list levent) : option lclause :=
  match lmonr (rev tr) with inl _ => None | inr c => Some c end.

Definition chk_state (st : lstate) : option lclause :=
  match lmonr (ltrace st) with inl _ => None | inr c => Some c end.

(* The literal statement "after Stop returns no sink is invoked", for every Stop call including one that
   overlaps the winning call. The protocol does not satisfy it (Props: C18_loser_stop_returns_early). *)
Fixpoint sink_after_any_return (l : list levent) (ret : bool) : bool :=
  match l with
  | [] => false
  | EStopReturn _ _ :: r => sink_after_any_return r true
  | ESinkBegin _ false :: r => if ret then true else sink_after_any_return r ret
  | _ :: r => sink_after_any_return r ret
  end.
Definition chk_literal (tr : list levent) : option lclause :=
  if sink_after_any_return tr false then Some ClLoserEarly else None.
