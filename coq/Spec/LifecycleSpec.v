(* C18 as an executable monitor over the observable event trace (stop-begin/return, sink-begin/end,
   EmitSync begin/end). It is run on the traces recorded from the real code by the Go harness, and
   Proofs/LifecycleProofs.v proves that every trace of the model (all schedules) is accepted, the
   expiry of Stop's grace period being the only exception. *)
From SV Require Export Model.Lifecycle.
From Coq Require Import List Bool Arith.
Import ListNotations.

Inductive lclause :=
| ClSinkAfterStop     (* a sink invocation began although a Stop had returned and no Stop was in progress *)
| ClSyncAfterStop     (* an EmitSync that began after the barrier was not refused *)
| ClStopGrace         (* a Stop returned only because its grace period expired (some goroutine could not be joined) *)
| ClStuck             (* a call did not return (harness patience) *)
| ClLeak.             (* more goroutines after Stop than before New *)

Record mon := {
  m_in : nat;          (* Stop calls in progress *)
  m_ret : nat;         (* Stop calls that returned *)
  m_bar : bool;        (* barrier established: at some point >= 1 Stop had returned and none was in progress *)
  m_late : list nat    (* EmitSync calls that began after the barrier *)
}.
Definition mon0 : mon := {| m_in := 0; m_ret := 0; m_bar := false; m_late := [] |}.

Definition mon_ev (m : mon) (e : event) : mon + lclause :=
  match e with
  | EStopBegin _ => inl {| m_in := S (m_in m); m_ret := m_ret m; m_bar := m_bar m; m_late := m_late m |}
  | EStopReturn _ j =>
      if negb j then inr ClStopGrace
      else inl {| m_in := pred (m_in m); m_ret := S (m_ret m);
                  m_bar := m_bar m || Nat.eqb (pred (m_in m)) 0; m_late := m_late m |}
  | ESinkBegin _ _ => if m_bar m then inr ClSinkAfterStop else inl m
  | ESyncBegin t => if m_bar m then inl {| m_in := m_in m; m_ret := m_ret m; m_bar := true; m_late := t :: m_late m |} else inl m
  | ESyncEnd t ok => if ok && existsb (Nat.eqb t) (m_late m) then inr ClSyncAfterStop else inl m
  | ETimeout => inr ClStuck
  | EGoroutines b f => if b <? f then inr ClLeak else inl m
  | _ => inl m
  end.

(* over a latest-first trace (the representation the model state carries) *)
Fixpoint monr (l : list event) : mon + lclause :=
  match l with
  | [] => inl mon0
  | e :: older => match monr older with inl m => mon_ev m e | inr c => inr c end
  end.

(* over a chronological trace *)
Definition chk_C18 (tr : list event) : option lclause :=
  match monr (rev tr) with inl _ => None | inr c => Some c end.

Definition chk_state (st : state) : option lclause :=
  match monr (trace st) with inl _ => None | inr c => Some c end.
