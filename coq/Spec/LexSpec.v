(* C11 -- vocabulary of the lexer theorems: lexemes, layouts (whitespace between tokens), rendering. *)
From SV Require Export Model.Lexer.
Local Open Scope N_scope.

Definition is_quote (c : byte) : bool := N.eqb c 39 || N.eqb c 34 || N.eqb c 96.      (* single quote, double quote, backtick *)
Definition quote_type (q : byte) : N := if N.eqb q 96 then T_QIdent else T_String.
Definition tok_eqb (a b : token) : bool := N.eqb (ttype a) (ttype b) && bytes_eqb (tval a) (tval b).
(* r = body ++ [q]: the literal opened by q is closed *)
Definition closed (q : byte) (r : bytes) : bool := match rev r with x :: _ => N.eqb x q | [] => false end.

(* t is a token whose value is its own lexeme: lexing the value alone yields exactly t and consumes all of it.
   Quoted tokens must be closed (whitespace after an unterminated quote is inside the literal). *)
Definition lexeme_ok (t : token) : bool :=
  match tval t with
  | [] => false
  | c :: r => negb (is_ws c) && negb (N.eqb c 0) && (negb (is_quote c) || closed c r)
              && match lex1 c r with Some (t', []) => tok_eqb t' t | _ => false end
  end.

(* may the lexeme v be followed directly (no whitespace) by a text starting with d ? *)
Definition glue_ok (v : bytes) (d : byte) : bool :=
  match v with
  | [] => false
  | c :: r =>
    match single c with
    | Some _ => true
    | None =>
      if N.eqb c 45 then match r with [] => negb (is_digit d) | _ => negb (is_numch d) end
      else if N.eqb c 61 then match r with [] => negb (N.eqb d 61) | _ => true end
      else if N.eqb c 62 then match r with [] => negb (N.eqb d 61) | _ => true end
      else if N.eqb c 60 then match r with [] => negb (N.eqb d 61) | _ => true end
      else if N.eqb c 33 then true
      else if N.eqb c 39 || N.eqb c 34 then true
      else if N.eqb c 96 then true
      else if is_letter c then negb (is_identch d)
      else if is_digit c then negb (is_numch d)
      else true
    end
  end.

(* a layout: the whitespace written before each token, and after the last one *)
Fixpoint render (l : list (bytes * token)) (last : bytes) : bytes :=
  match l with [] => last | (g, t) :: l' => g ++ tval t ++ render l' last end.

(* every gap is whitespace; a gap may be empty only where the two lexemes cannot merge *)
Fixpoint layout_ok (prev : option token) (l : list (bytes * token)) (last : bytes) : bool :=
  match l with
  | [] => forallb is_ws last
  | (g, t) :: l' =>
    forallb is_ws g
    && match g, prev with
       | [], Some p => match tval t with d :: _ => glue_ok (tval p) d | [] => false end
       | _, _ => true
       end
    && lexeme_ok t && layout_ok (Some t) l' last
  end.
