(* C14 — the declarative meaning of the analytic functions: the value for a row as a function of the
   EARLIER counted rows of the same partition (no state), and of a whole query on the direct path.
   [an_spec_query] is what the OCaml driver compares the implementation's own output with. *)
From SV Require Export Model.Analytic Model.AnalyticMulti.

(* the values that count for a NULL-skipping function *)
Definition an_retained (ign : bool) (l : list aval) : list aval :=
  filter (fun v => negb (ign && an_is_null v)) l.

Definition an_arg (i : nat) (args : list aval) : aval := nth i args AVNull.

(* lag(v, k, d, ign): the k-th most recent retained earlier value, else the default *)
Definition an_lag_spec (k : nat) (d : aval) (ign : bool) (earlier : list aval) : aval :=
  match nth_error (rev (an_retained ign earlier)) (k - 1) with Some x => x | None => d end.

(* latest(v, d): the most recent non-NULL value up to and including this row, else the default *)
Definition an_latest_spec (d : aval) (upto : list aval) : aval :=
  match rev (an_retained true upto) with x :: _ => x | [] => d end.

(* changed_col(ign, v): Some v when v differs from the most recent retained earlier value (or there is none) *)
Definition an_changed_spec (ign : bool) (earlier : list aval) (v : aval) : option aval :=
  if ign && an_is_null v then None
  else match rev (an_retained ign earlier) with
       | p :: _ => if an_eq p v then None else Some v
       | [] => Some v
       end.

(* had_changed(ign, c1..cn): the comparison baseline of one column is its first value, replaced by every later
   retained value *)
Definition an_base (ign : bool) (col : list aval) : aval :=
  match col with [] => AVNull | v0 :: r => last (an_retained ign r) v0 end.

Definition an_column (i : nat) (tuples : list (list aval)) : list aval := map (an_arg i) tuples.

Definition an_had_spec (ign : bool) (earlier : list (list aval)) (cur : list aval) : bool :=
  match earlier with
  | [] => true
  | _ => existsb (fun i => let v := an_arg i cur in
                           negb (ign && an_is_null v) && negb (an_eq (an_base ign (an_column i earlier)) v))
                 (seq 0 (length cur))
  end.

(* acc_*(v, start, reset): the rows of the current accumulation phase = after the last reset row and, when a
   start argument is given, from the first start row on *)
Definition an_triple := (aval * bool * bool)%type.     (* value, start, reset *)

Fixpoint an_dropwhile {A : Type} (f : A -> bool) (l : list A) : list A :=
  match l with [] => [] | x :: t => if f x then an_dropwhile f t else l end.
Fixpoint an_takewhile {A : Type} (f : A -> bool) (l : list A) : list A :=
  match l with [] => [] | x :: t => if f x then x :: an_takewhile f t else [] end.

Definition an_after_reset (l : list an_triple) : list an_triple :=
  rev (an_takewhile (fun t => negb (snd t)) (rev l)).
Definition an_from_start (l : list an_triple) : list an_triple :=
  an_dropwhile (fun t => negb (snd (fst t))) l.
Definition an_phase (has_start : bool) (l : list an_triple) : list aval :=
  map (fun t => fst (fst t)) (if has_start then an_from_start (an_after_reset l) else an_after_reset l).

Fixpoint an_nums (l : list aval) : list Z :=
  match l with [] => [] | v :: t => match an_num v with Some z => z :: an_nums t | None => an_nums t end end.
Definition an_zsum (l : list Z) : Z := fold_right Z.add 0%Z l.
Definition an_zmax (l : list Z) : option Z :=
  match l with [] => None | x :: t => Some (fold_left Z.max t x) end.
Definition an_zmin (l : list Z) : option Z :=
  match l with [] => None | x :: t => Some (fold_left Z.min t x) end.
Definition an_zlen {A : Type} (l : list A) : Z := Z.of_nat (length l).

Definition an_agg (k : akind) (vals : list aval) : ares :=
  let ns := an_nums vals in
  match k with
  | AKSum => ARV (AVFlt (an_zsum ns))
  | AKCount => ARV (AVInt (an_zlen (filter (fun v => negb (an_is_null v)) vals)))
  | AKAvg => match ns with [] => ARV AVNull | _ => ARAvg (an_zsum ns) (an_zlen ns) end
  | AKMax => match an_zmax ns with Some m => ARV (AVFlt m) | None => ARV AVNull end
  | AKMin => match an_zmin ns with Some m => ARV (AVFlt m) | None => ARV AVNull end
  end.

Definition an_triple_of (args : list aval) : an_triple :=
  (an_arg 0 args, an_to_bool (an_arg 1 args), an_to_bool (an_arg 2 args)).

Definition an_acc_spec (k : akind) (upto : list (list aval)) : ares :=
  match rev upto with
  | [] => ARV AVNull
  | cur :: _ => an_agg k (an_phase (2 <=? length cur) (map an_triple_of upto))
  end.

(* one call: the argument lists of the earlier counted rows and of this row *)
Definition an_call_spec (f : afname) (earlier : list (list aval)) (cur : list aval) : ares :=
  match f with
  | AFLag =>
      match cur with
      | [] => ARV AVNull
      | _ => ARV (an_lag_spec (an_lag_off cur) (an_arg 2 cur)
                              (match nth_error cur 3 with Some b => an_to_bool b | None => true end)
                              (map (an_arg 0) earlier))
      end
  | AFLatest => ARV (an_latest_spec (an_arg 1 cur) (map (an_arg 0) (earlier ++ [cur])))
  | AFHad => ARV (AVBool (an_had_spec (an_to_bool (an_arg 0 cur)) (map (@tl aval) earlier) (tl cur)))
  | AFCcol => ARV (match an_changed_spec (an_to_bool (an_arg 0 cur)) (map (an_arg 1) earlier) (an_arg 1 cur) with
                   | Some x => x | None => AVNull end)
  | AFAcc k => an_acc_spec k (earlier ++ [cur])
  end.

Definition an_call_spec_rows (c : acall) (earlier : list arow) (r : arow) : ares :=
  let ev := fun x => map (an_eval x) (ca_args c) in
  an_call_spec (ca_fn c) (map ev earlier) (ev r).

(* had_changed(ign, * ): baseline of column n = its value in the previous row, looking further back while that
   value is a skipped NULL; a column missing from the previous row has no baseline *)
Fixpoint an_bl_rev (ign : bool) (revl : list arow) (n : bytes) : option aval :=
  match revl with
  | [] => None
  | r :: t => match alookup n r with
              | None => None
              | Some v => if an_skip ign v then an_bl_rev ign t n else Some v
              end
  end.

Definition an_named_spec (ign : bool) (earlier : list arow) (r : arow) : bool :=
  match rev earlier with
  | [] => true
  | lastrow :: _ =>
      existsb (fun kv => negb (an_skip ign (snd kv)) &&
                         match an_bl_rev ign (rev earlier) (fst kv) with
                         | Some pv => negb (an_eq pv (snd kv))
                         | None => true
                         end) r
      || existsb (fun kv => match an_bl_rev ign (rev earlier) (fst kv), alookup (fst kv) r with
                            | Some pv, None => negb (an_skip ign pv)
                            | _, _ => false
                            end) lastrow
  end.

Definition an_col_val (n : bytes) (r : arow) : aval := match alookup n r with Some v => v | None => AVNull end.

Definition an_field_spec_g (sql : bool) (k : afkind) (earlier : list arow) (r : arow) : aout :=
  match k with
  | AKSingle c => an_out_of_res (an_call_spec_rows c earlier r)
  | AKWrapF n c => an_wsub (ARV (an_col_val n r)) (an_call_spec_rows c earlier r)
  | AKWrap2 c1 c2 => an_wsub (an_call_spec_rows c1 earlier r) (an_call_spec_rows c2 earlier r)
  | AKNamed ign => AOV (AVBool (an_named_spec ign earlier r))
  | AKCols prefix ign cols =>
      let b := an_to_bool (an_eval r ign) in
      AOMap (flat_map (fun n => match an_changed_spec b (map (an_col_val n) earlier) (an_col_val n r) with
                                | Some x => [(prefix ++ n, x)]
                                | None => []
                                end) cols)
  | AKExpr cs w =>
      (* the wrapper's arithmetic over what each call returns by ITS OWN definition on the same earlier rows *)
      an_weval sql w (map (fun c => an_call_spec_rows c earlier r) cs) r
  end.

Definition an_field_spec : afkind -> list arow -> arow -> aout := an_field_spec_g false.

(* same partition = equal PARTITION BY tuples, compared structurally and with their types (1, 1.0 and "1" differ) *)
Definition aval_eqb (a b : aval) : bool :=
  match a, b with
  | AVNull, AVNull => true
  | AVInt x, AVInt y => (x =? y)%Z
  | AVFlt x, AVFlt y => (x =? y)%Z
  | AVStr x, AVStr y => bytes_eqb x y
  | AVBool x, AVBool y => Bool.eqb x y
  | _, _ => false
  end.
Fixpoint avals_eqb (a b : list aval) : bool :=
  match a, b with
  | [], [] => true
  | x :: a', y :: b' => aval_eqb x y && avals_eqb a' b'
  | _, _ => false
  end.

Definition an_same_part (f : afield) (r e : arow) : bool :=
  avals_eqb (an_part_vals (af_part f) e) (an_part_vals (af_part f) r).

(* a field on a row, given the earlier rows that were offered to the engine: WHEN-gated rows of the same
   partition count; a row whose WHEN is false repeats the partition's last result *)
Definition an_gated_spec_g (sql : bool) (f : afield) (earlier : list arow) (r : arow) : aout :=
  let mine := filter (fun e => an_same_part f r e && an_gate f e) earlier in
  if an_gate f r then an_field_spec_g sql (af_kind f) mine r
  else match rev mine with
       | [] => an_field_dflt (af_kind f)
       | l :: before => an_field_spec_g sql (af_kind f) (rev before) l
       end.

Definition an_gated_spec : afield -> list arow -> arow -> aout := an_gated_spec_g false.

(* the direct path: rows passing an analytic-free WHERE are the rows offered to the engine; when WHERE itself
   holds an analytic call every row is offered and the filter looks at the results *)
Fixpoint an_spec_aux (q : aquery) (offered : list arow) (rows : list arow) : list (option aout) :=
  match rows with
  | [] => []
  | r :: t =>
      match aq_where q with
      | AWNone => Some (an_gated_spec (aq_field q) offered r) :: an_spec_aux q (offered ++ [r]) t
      | AWCol n => if an_pos r n then Some (an_gated_spec (aq_field q) offered r) :: an_spec_aux q (offered ++ [r]) t
                   else None :: an_spec_aux q offered t
      | AWAnalytic wf =>
          (match an_gated_spec wf offered r with
           | AOV (AVBool true) => Some (an_gated_spec (aq_field q) offered r)
           | _ => None
           end) :: an_spec_aux q (offered ++ [r]) t
      end
  end.

Definition an_spec_query (q : aquery) (rows : list arow) : list (option aout) := an_spec_aux q [] rows.

(* the statement only constrains executions whose number of partitions stays within the cap *)
Fixpoint an_distinct (l : list (list aval)) : list (list aval) :=
  match l with
  | [] => []
  | x :: t => x :: filter (fun y => negb (avals_eqb x y)) (an_distinct t)
  end.

Definition an_within_cap (q : aquery) (rows : list arow) : bool :=
  let n := fun f => length (an_distinct (map (an_part_vals (af_part f)) rows)) in
  (n (aq_field q) <=? aq_cap q)%nat &&
  match aq_where q with AWAnalytic wf => (n wf <=? aq_cap q)%nat | _ => true end.

(* ---------------------------------------------------------------- several select items + analytic WHERE *)
(* every item is judged on its own: its value is its gated specification over the rows OFFERED to the engines -
   all earlier rows when WHERE holds an analytic call (also those the filter removed), the earlier rows that passed
   an analytic-free WHERE otherwise.  [sql] selects the arithmetic of wrapper items (Model: an_weval). *)
Fixpoint an_mspec_aux (sql : bool) (q : amquery) (offered : list arow) (rows : list arow)
  : list (option (list aout)) :=
  match rows with
  | [] => []
  | r :: t =>
      let vals := map (fun f => an_gated_spec_g sql f offered r) (mq_items q) in
      match mq_wan q with
      | Some (wf, tst) =>
          (if an_mcolpass q r && an_wtest tst (an_gated_spec_g sql wf offered r) then Some vals else None)
          :: an_mspec_aux sql q (offered ++ [r]) t
      | None =>
          if an_mcolpass q r then Some vals :: an_mspec_aux sql q (offered ++ [r]) t
          else None :: an_mspec_aux sql q offered t
      end
  end.

Definition an_mspec_query (sql : bool) (q : amquery) (rows : list arow) : list (option (list aout)) :=
  an_mspec_aux sql q [] rows.

Definition an_parts_of (f : afield) (rows : list arow) : nat :=
  length (an_distinct (map (an_part_vals (af_part f)) rows)).

Definition an_mwithin_cap (q : amquery) (rows : list arow) : bool :=
  forallb (fun f => (an_parts_of f rows <=? mq_cap q)%nat) (mq_items q) &&
  match mq_wan q with Some (wf, _) => (an_parts_of wf rows <=? mq_cap q)%nat | None => true end.
