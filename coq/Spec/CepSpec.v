(* C15 as an executable checker over what the implementation reported for ONE partition:
   the list of (MATCH_NUMBER, FIRST(id), LAST(id), COUNT( * )) in emission order, judged against the
   partition's rows. Returns the first violated clause (None = the property holds). The clauses are
   the Props proved of the reference matcher in Proofs/CepProofs.v. *)
From Coq Require Import List ZArith NArith Bool Arith.
From SV Require Export Model.Cep.
Import ListNotations.

Inductive cep_clause :=
| ClRun        (* a reported match is not a run of consecutive rows of the partition *)
| ClValid      (* its rows do not spell a word of the pattern under DEFINE, or exceed WITHIN *)
| ClLongest    (* a longer valid match starts at the same row *)
| ClSkip       (* starts are not increasing / a start is not allowed by AFTER MATCH SKIP (overlap) *)
| ClNumber     (* MATCH_NUMBER is not 1,2,3,... *)
| ClOmitted.   (* a valid match at an allowed start (possibly unfinished at Stop) was not reported *)

(* the declarative side conditions in boolean form *)
Definition within_b (c : ccfg) (seg : list crow) : bool :=
  match seg with
  | [] => false
  | r :: _ => forallb (fun x => Z.leb (r_ts x - r_ts r) (c_within c)) seg
  end.
Definition valid_b (c : ccfg) (seg : list crow) : bool :=
  within_b c seg && nullable (derivs (c_pat c) (preds (c_defs c) None seg)).

Fixpoint find_id (i : Z) (rows : list crow) (n : nat) : option nat :=
  match rows with
  | [] => None
  | r :: t => if Z.eqb (r_id r) i then Some n else find_id i t (S n)
  end.

(* (pos, k) of a reported match *)
Definition locate (rows : list crow) (o : cobs) : option (nat * nat) :=
  let '(_, fid, lid, n) := o in
  match find_id fid rows 0, find_id lid rows 0 with
  | Some a, Some b => if (Nat.leb 1 n) && (Nat.eqb b (a + n - 1)) then Some (a, n) else None
  | _, _ => None
  end.

Fixpoint locate_all (rows : list crow) (out : list cobs) : option (list (nat * nat)) :=
  match out with
  | [] => Some []
  | o :: t => match locate rows o, locate_all rows t with
              | Some m, Some ms => Some (m :: ms)
              | _, _ => None
              end
  end.

Definition seg_of (rows : list crow) (m : nat * nat) : list crow := firstn (snd m) (skipn (fst m) rows).

Fixpoint skip_ok (c : ccfg) (rows : list crow) (next : nat) (ms : list (nat * nat)) : bool :=
  match ms with
  | [] => true
  | m :: t => Nat.leb next (fst m) && skip_ok c rows (skip_to c (fst m) (snd m) (seg_of rows m)) t
  end.

Fixpoint numbered (i : nat) (out : list cobs) : bool :=
  match out with
  | [] => true
  | (mn, _, _, _) :: t => Nat.eqb mn i && numbered (S i) t
  end.

Definition obs_eqb (a b : cobs) : bool :=
  let '(m1, f1, l1, n1) := a in let '(m2, f2, l2, n2) := b in
  Nat.eqb m1 m2 && Z.eqb f1 f2 && Z.eqb l1 l2 && Nat.eqb n1 n2.
Fixpoint obs_list_eqb (a b : list cobs) : bool :=
  match a, b with
  | [], [] => true
  | x :: s, y :: t => obs_eqb x y && obs_list_eqb s t
  | _, _ => false
  end.

Definition chk_C15 (c : ccfg) (rows : list crow) (out : list cobs) : option cep_clause :=
  match locate_all rows out with
  | None => Some ClRun
  | Some ms =>
      if negb (forallb (fun m => valid_b c (seg_of rows m)) ms) then Some ClValid
      else if negb (forallb (fun m => match longest_at c (skipn (fst m) rows) with
                                      | Some k => Nat.eqb k (snd m) | None => false end) ms) then Some ClLongest
      else if negb (skip_ok c rows 0 ms) then Some ClSkip
      else if negb (numbered 1 out) then Some ClNumber
      else if negb (obs_list_eqb out (ref_obs c rows)) then Some ClOmitted
      else None
  end.
