(* C16 — the property as executable checkers over the implementation's own observable.
   The expected observable is computed with the ABSTRACT table (spec_run: a finite map from key tuples
   modulo key_eq to rows; no encoding involved); these functions compare it with what the real code
   returned and name the violated clause. *)
From SV Require Import Model.Join.
Import JoinM.
Module JoinS.
Open Scope Z_scope.

Inductive clause :=
| ClKeyEquality        (* two keys are (un)equal for the table but not for the property's key equality *)
| ClKeptDropped        (* a row is dropped where it must be kept (match / LEFT), or kept where INNER must drop it *)
| ClRowContents        (* kept, but the table columns (or the stream columns) are not those of the matching row *)
| ClError              (* an error where none is due, or none where the table is not registered *)
| ClUpsertResult
| ClConcMonotone       (* a reader saw an older table version after a newer one *)
| ClConcFinal          (* after the last update returned, the row does not see the last contents *)
| ClShape.             (* the observation does not have one result per operation *)

Definition kv_eqb (a b : kv) : bool :=
  match a, b with
  | KNull, KNull => true
  | KInt x, KInt y => x =? y
  | KFlt m e, KFlt m' e' => (m =? m') && (e =? e')
  | KStr s, KStr t => bytes_eqb s t
  | KBool x, KBool y => Bool.eqb x y
  | _, _ => false
  end.
(* maps are compared as maps (Go map iteration order is not observable) *)
Definition row_sub (a b : row) : bool :=
  forallb (fun fv => match get b (fst fv) with Some v => kv_eqb v (snd fv) | None => false end) a.
Definition row_eqb (a b : row) : bool := Nat.eqb (length a) (length b) && row_sub a b.
Definition wval_eqb (a b : wval) : bool :=
  match a, b with
  | WV x, WV y => kv_eqb x y
  | WR r, WR r' => row_eqb r r'
  | _, _ => false
  end.
Definition wmap_eqb (a b : wmap) : bool :=
  Nat.eqb (length a) (length b) &&
  forallb (fun kx => match wget b (fst kx) with Some y => wval_eqb (snd kx) y | None => false end) a.

(* what the caller of an operation can see: the asynchronous Emit logs a configuration error and
   produces no row *)
Definition observe (o : op) (x : out) : out :=
  match o, x with
  | OEmit _, OutE EErr => OutE EDrop
  | _, _ => x
  end.
(* the SELECT list / WHERE applied to the result of the enrichment *)
Definition api_out (sel : list (bytes * path)) (wc : wcond) (o : op) (x : out) : out :=
  match x with
  | OutE e => observe o (OutE (project sel wc e))
  | _ => x
  end.
Definition api_run (sel : list (bytes * path)) (wc : wcond) (ops : list op) (xs : list out) : list out :=
  map (fun ox => api_out sel wc (fst ox) (snd ox)) (combine ops xs).

Definition chk_out (expected impl : out) : option clause :=
  match expected, impl with
  | OutE EErr, OutE EErr => None
  | OutE EDrop, OutE EDrop => None
  | OutE (ERow w), OutE (ERow w') => if wmap_eqb w w' then None else Some ClRowContents
  | OutE EErr, OutE _ | OutE _, OutE EErr => Some ClError
  | OutE _, OutE _ => Some ClKeptDropped
  | OutU a, OutU b => if Bool.eqb a b then None else Some ClUpsertResult
  | OutD, OutD => None
  | OutG a, OutG b => if Bool.eqb a b then None else Some ClError
  | _, _ => Some ClShape
  end.
(* first violated clause with the index of the operation *)
Fixpoint chk_outs (i : nat) (expected impl : list out) : option (nat * clause) :=
  match expected, impl with
  | [], [] => None
  | e :: es, x :: xs => match chk_out e x with Some c => Some (i, c) | None => chk_outs (S i) es xs end
  | _, _ => Some (i, ClShape)
  end.

(* the judgement of one public-API history: expected = the abstract table's run *)
Definition chk_C16 (c : cfg) (sel : list (bytes * path)) (wc : wcond)
           (regs : list (bytes * list bytes * list row)) (ops : list op) (impl : list out) : option (nat * clause) :=
  chk_outs O (api_run sel wc ops (spec_run c regs ops)) impl.

(* the same from the SQL text: the JOIN clause as written (aliased or not, ON fields qualified by the
   alias / the table's own name / not at all, on either side of "="), keys derived from ON when
   RegisterTable got none; expected = the abstract table under the MEANING of the clause *)
Definition chk_C16_sql (q : qtext) (sel : list (bytes * path)) (wc : wcond)
           (regs : list reg_call) (ops : list op) (impl : list out) : option (nat * clause) :=
  chk_outs O (api_run sel wc ops (spec_run_sql q regs ops)) impl.

(* histories in which tables are registered again (RegisterTable / RegisterTableSource under a name that
   is already registered, possibly with other rows / other key fields) between rows: every row processed
   after the registration returned is enriched from the NEW table, every UpsertTable / Delete after it
   goes to the new table; writes through the handle of a replaced source change nothing *)
Definition api_hout (sel : list (bytes * path)) (wc : wcond) (h : hcall) (x : out) : out :=
  match h with
  | HCOp o => api_out sel wc o x
  | _ => x
  end.
Definition api_hrun (sel : list (bytes * path)) (wc : wcond) (hs : list hcall) (xs : list out) : list out :=
  map (fun hx => api_hout sel wc (fst hx) (snd hx)) (combine hs xs).
Definition chk_C16_hsql (q : qtext) (sel : list (bytes * path)) (wc : wcond)
           (regs : list reg_call) (hs : list hcall) (impl : list out) : option (nat * clause) :=
  chk_outs O (api_hrun sel wc hs (spec_hrun_sql q regs hs)) impl.

(* encodeKey(a) == encodeKey(b) on the real code must be the property's key equality *)
Definition chk_key_equality (a b : list kv) (impl_equal : bool) : option clause :=
  if Bool.eqb (tuple_eqb a b) impl_equal then None else Some ClKeyEquality.

(* one writer installing versions 1..n of one key in order (possibly deleting it in between), one
   reader: the versions seen (0 = no match) never go back, and the read after the writer returned sees
   the final contents *)
Fixpoint mono_from (last : N) (obs : list N) : bool :=
  match obs with
  | [] => true
  | v :: r => if N.eqb v 0 then mono_from last r else N.leb last v && mono_from v r
  end.
Definition chk_conc (n final_expected : N) (obs : list N) (final : N) : option clause :=
  if negb (mono_from 0 obs && forallb (fun v => N.leb v n) obs) then Some ClConcMonotone
  else if N.eqb final final_expected then None else Some ClConcFinal.
End JoinS.
