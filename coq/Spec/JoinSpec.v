(* C16 — the property as executable checkers over the implementation's own observable.
   The expected observable is computed with the ABSTRACT table (spec_run: a finite map from key tuples
   modulo key_eq to rows; no encoding involved); these functions compare it with what the real code
   returned and name the violated clause. *)
From SV Require Import Model.Join.
Import JoinM.
Module JoinS.
Open Scope Z_scope.

Inductive clause :=
| ClKeyEquality        (* two keys are (un)equal for the table but not for the property's key equality *)
| ClKeptDropped        (* a row is dropped where it must be kept (match / LEFT), or kept where INNER must drop it *)
| ClRowContents        (* kept, but the table columns (or the stream columns) are not those of the matching row *)
| ClError              (* an error where none is due, or none where the table is not registered *)
| ClUpsertResult
| ClConcMonotone       (* a reader saw an older table version after a newer one *)
| ClConcFinal          (* after the last update returned, the row does not see the last contents *)
| ClShape              (* the observation does not have one result per operation *)
| ClWindowCount        (* CountingWindow(N) over the enriched rows: not one result batch per N rows that reached the window *)
| ClWindowGroups       (* the groups of a window are not the joined values its rows saw when THEY were processed *)
| ClWindowAggregate.   (* COUNT / SUM / MAX over a joined column are not those of the rows' own table rows *)

Definition kv_eqb (a b : kv) : bool :=
  match a, b with
  | KNull, KNull => true
  | KInt x, KInt y => x =? y
  | KFlt m e, KFlt m' e' => (m =? m') && (e =? e')
  | KStr s, KStr t => bytes_eqb s t
  | KBool x, KBool y => Bool.eqb x y
  | _, _ => false
  end.
(* maps are compared as maps (Go map iteration order is not observable) *)
Definition row_sub (a b : row) : bool :=
  forallb (fun fv => match get b (fst fv) with Some v => kv_eqb v (snd fv) | None => false end) a.
Definition row_eqb (a b : row) : bool := Nat.eqb (length a) (length b) && row_sub a b.
Definition wval_eqb (a b : wval) : bool :=
  match a, b with
  | WV x, WV y => kv_eqb x y
  | WR r, WR r' => row_eqb r r'
  | _, _ => false
  end.
Definition wmap_eqb (a b : wmap) : bool :=
  Nat.eqb (length a) (length b) &&
  forallb (fun kx => match wget b (fst kx) with Some y => wval_eqb (snd kx) y | None => false end) a.

(* what the caller of an operation can see: the asynchronous Emit logs a configuration error and
   produces no row *)
Definition observe (o : op) (x : out) : out :=
  match o, x with
  | OEmit _, OutE EErr => OutE EDrop
  | _, _ => x
  end.
(* the SELECT list / WHERE applied to the result of the enrichment *)
Definition api_out (sel : list (bytes * path)) (wc : wcond) (o : op) (x : out) : out :=
  match x with
  | OutE e => observe o (OutE (project sel wc e))
  | _ => x
  end.
Definition api_run (sel : list (bytes * path)) (wc : wcond) (ops : list op) (xs : list out) : list out :=
  map (fun ox => api_out sel wc (fst ox) (snd ox)) (combine ops xs).

Definition chk_out (expected impl : out) : option clause :=
  match expected, impl with
  | OutE EErr, OutE EErr => None
  | OutE EDrop, OutE EDrop => None
  | OutE (ERow w), OutE (ERow w') => if wmap_eqb w w' then None else Some ClRowContents
  | OutE EErr, OutE _ | OutE _, OutE EErr => Some ClError
  | OutE _, OutE _ => Some ClKeptDropped
  | OutU a, OutU b => if Bool.eqb a b then None else Some ClUpsertResult
  | OutD, OutD => None
  | OutG a, OutG b => if Bool.eqb a b then None else Some ClError
  | _, _ => Some ClShape
  end.
(* first violated clause with the index of the operation *)
Fixpoint chk_outs (i : nat) (expected impl : list out) : option (nat * clause) :=
  match expected, impl with
  | [], [] => None
  | e :: es, x :: xs => match chk_out e x with Some c => Some (i, c) | None => chk_outs (S i) es xs end
  | _, _ => Some (i, ClShape)
  end.

(* the judgement of one public-API history: expected = the abstract table's run *)
Definition chk_C16 (c : cfg) (sel : list (bytes * path)) (wc : wcond)
           (regs : list (bytes * list bytes * list row)) (ops : list op) (impl : list out) : option (nat * clause) :=
  chk_outs O (api_run sel wc ops (spec_run c regs ops)) impl.

(* the same from the SQL text: the JOIN clause as written (aliased or not, ON fields qualified by the
   alias / the table's own name / not at all, on either side of "="), keys derived from ON when
   RegisterTable got none; expected = the abstract table under the MEANING of the clause *)
Definition chk_C16_sql (q : qtext) (sel : list (bytes * path)) (wc : wcond)
           (regs : list reg_call) (ops : list op) (impl : list out) : option (nat * clause) :=
  chk_outs O (api_run sel wc ops (spec_run_sql q regs ops)) impl.

(* histories in which tables are registered again (RegisterTable / RegisterTableSource under a name that
   is already registered, possibly with other rows / other key fields) between rows: every row processed
   after the registration returned is enriched from the NEW table, every UpsertTable / Delete after it
   goes to the new table; writes through the handle of a replaced source change nothing *)
Definition api_hout (sel : list (bytes * path)) (wc : wcond) (h : hcall) (x : out) : out :=
  match h with
  | HCOp o => api_out sel wc o x
  | _ => x
  end.
Definition api_hrun (sel : list (bytes * path)) (wc : wcond) (hs : list hcall) (xs : list out) : list out :=
  map (fun hx => api_hout sel wc (fst hx) (snd hx)) (combine hs xs).
Definition chk_C16_hsql (q : qtext) (sel : list (bytes * path)) (wc : wcond)
           (regs : list reg_call) (hs : list hcall) (impl : list out) : option (nat * clause) :=
  chk_outs O (api_hrun sel wc hs (spec_hrun_sql q regs hs)) impl.

(* ---------- windowed aggregation over joined columns ----------
   SELECT [a.g AS g,] COUNT( * ), SUM(a.v), MAX(a.v), MAX(seq) ... GROUP BY [a.g,] CountingWindow(n).
   A row is enriched when it is processed and then waits in the open window: the window reports the joined
   values each of its rows saw at ITS processing time (the per-row enrichment of the table run), whatever
   happens to the table -- Upsert, Delete, registration -- before the window fires. *)
Definition kint (v : kv) : option Z := match v with KInt x => Some x | _ => None end.
Definition oadd (a b : option Z) : option Z :=
  match a, b with Some x, Some y => Some (x + y) | Some x, None => Some x | None, y => y end.
Definition omax (a b : option Z) : option Z :=
  match a, b with Some x, Some y => Some (Z.max x y) | Some x, None => Some x | None, y => y end.
Record wrow := { wr_g : kv; wr_v : option Z; wr_seq : option Z }.
Record wagg := { wa_g : kv; wa_c : Z; wa_sum : option Z; wa_max : option Z; wa_seq : option Z }.
(* gcol = None: no group column (one group per window) *)
Definition wrow_of (alias : bytes) (gcol : option bytes) (vcol seqcol : bytes) (w : wmap) : wrow :=
  {| wr_g := match gcol with Some g => wpath w (PQual alias g) | None => KNull end;
     wr_v := kint (wpath w (PQual alias vcol));
     wr_seq := kint (wpath w (PCol seqcol)) |}.
(* the rows that reach the window, in processing order: the kept rows of the history *)
Definition window_row (alias : bytes) (gcol : option bytes) (vcol seqcol : bytes) (x : out) : list wrow :=
  match x with OutE (ERow w) => [wrow_of alias gcol vcol seqcol w] | _ => [] end.
Definition window_rows (alias : bytes) (gcol : option bytes) (vcol seqcol : bytes) (xs : list out) : list wrow :=
  flat_map (window_row alias gcol vcol seqcol) xs.
Fixpoint agg_add (r : wrow) (gs : list wagg) : list wagg :=
  match gs with
  | [] => [{| wa_g := wr_g r; wa_c := 1; wa_sum := wr_v r; wa_max := wr_v r; wa_seq := wr_seq r |}]
  | a :: gs' =>
      if tuple_eqb [wa_g a] [wr_g r]
      then {| wa_g := wa_g a; wa_c := wa_c a + 1; wa_sum := oadd (wa_sum a) (wr_v r);
              wa_max := omax (wa_max a) (wr_v r); wa_seq := omax (wa_seq a) (wr_seq r) |} :: gs'
      else a :: agg_add r gs'
  end.
Definition aggregate (rows : list wrow) : list wagg := fold_left (fun gs r => agg_add r gs) rows [].
(* the complete windows of n rows *)
Fixpoint chunks (fuel n : nat) (l : list wrow) : list (list wrow) :=
  match fuel with
  | O => []
  | S f => if Nat.ltb 0 n && Nat.leb n (length l) then firstn n l :: chunks f n (skipn n l) else []
  end.
Definition windows_expected (n : nat) (rows : list wrow) : list (list wagg) :=
  map aggregate (chunks (length rows) n rows).

(* one observed result row: g, COUNT, SUM, MAX, MAX(seq) as the sink got them *)
Definition obsrow := (kv * kv * kv * kv * kv)%type.
Definition og (o : obsrow) : kv := match o with (g, _, _, _, _) => g end.
Definition num_is (e : option Z) (x : kv) : bool :=
  match e with
  | Some z => tuple_eqb [KInt z] [x]
  | None => match x with KNull => true | _ => false end
  end.
Definition agg_matches (a : wagg) (o : obsrow) : bool :=
  match o with
  | (g, c, sv, mx, ms) =>
      tuple_eqb [wa_g a] [g] && num_is (Some (wa_c a)) c && num_is (wa_sum a) sv &&
      num_is (wa_max a) mx && num_is (wa_seq a) ms
  end.
Definition chk_window (exp : list wagg) (obs : list obsrow) : option clause :=
  if negb (Nat.eqb (length exp) (length obs)) then Some ClWindowGroups
  else if negb (forallb (fun a => existsb (fun o => tuple_eqb [wa_g a] [og o]) obs) exp) then Some ClWindowGroups
  else if forallb (fun a => existsb (agg_matches a) obs) exp then None else Some ClWindowAggregate.
Fixpoint chk_windows (i : nat) (exp : list (list wagg)) (obs : list (list obsrow)) : option (nat * clause) :=
  match exp, obs with
  | [], [] => None
  | e :: es, o :: os => match chk_window e o with Some c => Some (i, c) | None => chk_windows (S i) es os end
  | _, _ => Some (i, ClWindowCount)
  end.
(* the judgement of one windowed history: expected = the windows of the abstract table's per-row enrichment *)
Definition chk_C16_window (q : qtext) (regs : list reg_call) (hs : list hcall) (n : nat)
           (alias : bytes) (gcol : option bytes) (vcol seqcol : bytes) (obs : list (list obsrow)) : option (nat * clause) :=
  chk_windows O (windows_expected n (window_rows alias gcol vcol seqcol (spec_hrun_sql q regs hs))) obs.

(* encodeKey(a) == encodeKey(b) on the real code must be the property's key equality *)
Definition chk_key_equality (a b : list kv) (impl_equal : bool) : option clause :=
  if Bool.eqb (tuple_eqb a b) impl_equal then None else Some ClKeyEquality.

(* one writer installing versions 1..n of one key in order (possibly deleting it in between), one
   reader: the versions seen (0 = no match) never go back, and the read after the writer returned sees
   the final contents *)
Fixpoint mono_from (last : N) (obs : list N) : bool :=
  match obs with
  | [] => true
  | v :: r => if N.eqb v 0 then mono_from last r else N.leb last v && mono_from v r
  end.
Definition chk_conc (n final_expected : N) (obs : list N) (final : N) : option clause :=
  if negb (mono_from 0 obs && forallb (fun v => N.leb v n) obs) then Some ClConcMonotone
  else if N.eqb final final_expected then None else Some ClConcFinal.
End JoinS.
