(* The grouping properties (C04, C09) as executable checkers over what the implementation
   reported. A checker returns the first violated clause (None = the observation satisfies the
   property). The checkers speak about TUPLES of grouping values (ktuple_eqb), never about
   encoded keys: an implementation whose key encoding merges two tuples fails them. *)
From SV Require Export Model.GroupKey Model.Counting.

Inductive gclause :=
| GUnknownRow     (* a result reports a row id that was never added *)
| GMerged         (* one result / one batch holds rows of two different tuples (values that differ were merged) *)
| GTupleName      (* the tuple reported under the group columns is not the tuple of the rows aggregated *)
| GMembership     (* a result does not aggregate exactly the rows of its tuple (equal values split, or a row lost) *)
| GSplit          (* two results of one batch report the same tuple *)
| GMissingGroup   (* a tuple that occurs among the rows has no result *)
| GCount          (* count( * ) is not the number of rows aggregated *)
| GBatchSize      (* a counting batch does not hold exactly N rows *)
| GIthBatch       (* the batches of a key are not the consecutive N-blocks of the key's rows (order, partial, missing) *)
| GTwice          (* a row contributes to two results *)
| GFirstLast.     (* first_value / last_value are not the first / last row of the batch *)

(* one reported result row: the group columns, count( * ), collect(id), first_value(id), last_value(id) *)
Record gres := mkGRes { g_tuple : list kvalue; g_count : Z; g_ids : list Z; g_first : Z; g_last : Z }.

Definition find_row (rows : list krow) (id : Z) : option krow := find (fun r => Z.eqb (krid r) id) rows.

Fixpoint resolve (rows : list krow) (ids : list Z) : option (list krow) :=
  match ids with
  | [] => Some []
  | i :: ids' =>
      match find_row rows i, resolve rows ids' with
      | Some r, Some rs => Some (r :: rs)
      | _, _ => None
      end
  end.

Fixpoint zlist_eqb (a b : list Z) : bool :=
  match a, b with
  | [], [] => true
  | x :: a', y :: b' => Z.eqb x y && zlist_eqb a' b'
  | _, _ => false
  end.

Definition homogeneous (rs : list krow) : bool :=
  match rs with
  | [] => true
  | r :: rs' => forallb (fun x => ktuple_eqb (ktuple_of x) (ktuple_of r)) rs'
  end.

Fixpoint zmem (x : Z) (l : list Z) : bool :=
  match l with [] => false | y :: l' => Z.eqb x y || zmem x l' end.
Fixpoint znodup (l : list Z) : bool :=
  match l with [] => true | x :: l' => negb (zmem x l') && znodup l' end.

Fixpoint tmem (t : list kvalue) (l : list (list kvalue)) : bool :=
  match l with [] => false | u :: l' => ktuple_eqb t u || tmem t l' end.
Fixpoint tnodup (l : list (list kvalue)) : bool :=
  match l with [] => true | t :: l' => negb (tmem t l') && tnodup l' end.

Fixpoint first_some {A : Type} (l : list (option A)) : option A :=
  match l with [] => None | Some c :: _ => Some c | None :: l' => first_some l' end.

(* ---- C04: the results of ONE batch (rows = the batch's rows) ----------------------------- *)
Definition chk_result (rows : list krow) (g : gres) : option gclause :=
  match resolve rows (g_ids g) with
  | None => Some GUnknownRow
  | Some rs =>
      if negb (homogeneous rs) then Some GMerged
      else match rs with
           | [] => Some GMembership                      (* a group exists only if a row created it *)
           | r :: _ =>
               if negb (ktuple_eqb (g_tuple g) (ktuple_of r)) then Some GTupleName
               else if negb (zlist_eqb (g_ids g) (map krid (krows_of (ktuple_of r) rows))) then Some GMembership
               else if negb (Z.eqb (g_count g) (Z.of_nat (length rs))) then Some GCount
               else None
           end
  end.

Definition chk_C04 (rows : list krow) (res : list gres) : option gclause :=
  match first_some (map (chk_result rows) res) with
  | Some c => Some c
  | None =>
      if negb (tnodup (map g_tuple res)) then Some GSplit
      else if negb (forallb (fun r => tmem (ktuple_of r) (map g_tuple res)) rows) then Some GMissingGroup
      else None
  end.

(* ---- C04 for the keyed windows: batches (sessions) of row ids; several batches of one tuple
   are allowed (a session may legitimately be split by time), rows of two tuples in one batch
   are not, and every row must be in exactly one batch ------------------------------------------ *)
Fixpoint zinsert (x : Z) (l : list Z) : list Z :=
  match l with [] => [x] | y :: l' => if Z.leb x y then x :: l else y :: zinsert x l' end.
Definition zsort (l : list Z) : list Z := fold_right zinsert [] l.

Definition chk_batches_homog (rows : list krow) (batches : list (list Z)) : option gclause :=
  first_some (map (fun ids => match resolve rows ids with
                              | None => Some GUnknownRow
                              | Some rs => if homogeneous rs then None else Some GMerged
                              end) batches).

Definition chk_C04_win (rows : list krow) (batches : list (list Z)) : option gclause :=
  match chk_batches_homog rows batches with
  | Some c => Some c
  | None =>
      if negb (znodup (concat batches)) then Some GTwice
      else if negb (zlist_eqb (zsort (concat batches)) (zsort (map krid rows))) then Some GMembership
      else None
  end.

(* ---- C09: batches of a counting window, in delivery order ----------------------------------- *)
Fixpoint chunks (fuel n : nat) (l : list Z) : list (list Z) :=
  match fuel with
  | O => []
  | S f => if n <=? length l then firstn n l :: chunks f n (skipn n l) else []
  end.

Definition batch_tuple (rows : list krow) (ids : list Z) : option (list kvalue) :=
  match ids with
  | [] => None
  | i :: _ => option_map ktuple_of (find_row rows i)
  end.

Fixpoint zll_eqb (a b : list (list Z)) : bool :=
  match a, b with
  | [], [] => true
  | x :: a', y :: b' => zlist_eqb x y && zll_eqb a' b'
  | _, _ => false
  end.

Definition chk_C09 (n : nat) (rows : list krow) (batches : list (list Z)) : option gclause :=
  match chk_batches_homog rows batches with
  | Some c => Some c
  | None =>
      if negb (forallb (fun b => Nat.eqb (length b) n) batches) then Some GBatchSize
      else if negb (znodup (concat batches)) then Some GTwice
      else if negb (forallb (fun r =>
                      let t := ktuple_of r in
                      let mine := filter (fun b => match batch_tuple rows b with
                                                   | Some u => ktuple_eqb u t | None => false end) batches in
                      let ids := map krid (krows_of t rows) in
                      zll_eqb mine (chunks (length ids) n ids)) rows)
           then Some GIthBatch
      else None
  end.

(* the same through SQL: one result row per batch *)
Definition chk_C09_sql (n : nat) (rows : list krow) (res : list gres) : option gclause :=
  match chk_C09 n rows (map g_ids res) with
  | Some c => Some c
  | None =>
      first_some (map (fun g =>
        match batch_tuple rows (g_ids g) with
        | None => Some GUnknownRow
        | Some t =>
            if negb (ktuple_eqb (g_tuple g) t) then Some GTupleName
            else if negb (Z.eqb (g_count g) (Z.of_nat n)) then Some GCount
            else if negb (Z.eqb (g_first g) (hd 0%Z (g_ids g)) && Z.eqb (g_last g) (last (g_ids g) 0%Z)) then Some GFirstLast
            else None
        end) res)
  end.
