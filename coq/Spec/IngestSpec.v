(* C19 as an executable checker over the end state observed on the implementation:
   which rows the sync sink saw (in order), the counters, the capacity. Returns the first violated
   clause (None = the observation satisfies the property). The clauses are the boolean forms of the Props
   proved of every reachable model state in Proofs/IngestProofs.v and Proofs/IngestOrder.v (reflection
   lemmas ig_nodupb_ok, ig_orderedb_ok; the arithmetic clauses are the theorems' equations verbatim). *)
From Coq Require Import List Arith Bool PeanoNat.
From SV Require Export Model.Ingest.
Import ListNotations.

Inductive igclause :=
| IgClInputCount      (* input_count differs from the number of Emit calls *)
| IgClUnknownRow      (* a processed row was never emitted *)
| IgClDuplicate       (* a row was processed twice *)
| IgClConservation    (* processed + dropped + still queued <> emitted *)
| IgClBlockDrops      (* the block strategy without timeout dropped a row *)
| IgClCapBound        (* capacity above MaxBufferSize, below the initial one, or changed without the expand strategy *)
| IgClProducerOrder.  (* one producer's rows were processed out of emission order *)

Definition ig_ideq (a b : igid) : bool := (fst a =? fst b) && (snd a =? snd b).
Definition ig_mem (x : igid) (l : list igid) : bool := existsb (ig_ideq x) l.
Fixpoint ig_nodupb (l : list igid) : bool :=
  match l with [] => true | x :: r => negb (ig_mem x r) && ig_nodupb r end.
(* every later row of the same producer has a larger sequence number *)
Definition ig_before (x y : igid) : bool := negb (fst y =? fst x) || (snd x <? snd y).
Fixpoint ig_orderedb (l : list igid) : bool :=
  match l with [] => true | x :: r => forallb (ig_before x) r && ig_orderedb r end.
Definition ig_knownb (ns : list nat) (x : igid) : bool :=
  match nth_error ns (fst x) with Some n => snd x <? n | None => false end.
Definition ig_sum (l : list nat) : nat := fold_right Nat.add 0 l.

(* ns: rows emitted per producer; queued: rows still in the current channel (0 at quiescence) *)
Definition chk_C19 (st : igstrat) (cap0 mx : nat) (ns : list nat)
           (dropped input_count cap queued : nat) (processed : list igid) : option igclause :=
  if negb (input_count =? ig_sum ns) then Some IgClInputCount
  else if negb (forallb (ig_knownb ns) processed) then Some IgClUnknownRow
  else if negb (ig_nodupb processed) then Some IgClDuplicate
  else if negb (length processed + dropped + queued =? ig_sum ns) then Some IgClConservation
  else if (match st with IgBlock => negb (dropped =? 0) | _ => false end) then Some IgClBlockDrops
  else if (cap <? cap0) || ((0 <? mx) && (cap0 <=? mx) && (mx <? cap))
          || (match st with IgExpand => false | _ => negb (cap =? cap0) end) then Some IgClCapBound
  else if negb (ig_orderedb processed) then Some IgClProducerOrder
  else None.

Definition ig_clause_name (c : igclause) : nat :=
  match c with IgClInputCount => 0 | IgClUnknownRow => 1 | IgClDuplicate => 2 | IgClConservation => 3
             | IgClBlockDrops => 4 | IgClCapBound => 5 | IgClProducerOrder => 6 end.
