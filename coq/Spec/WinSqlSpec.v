(* Quiescent checker for the time-window properties at SQL level (public API, real goroutines):
   the schedule is not known, only the emitted events (in emission order of the single producer)
   and the result rows delivered to a synchronous sink once the run is quiescent. A final event far
   ahead has pushed the watermark to W = (its timestamp) - ooo, and the run waited several watermark
   ticks, so every interval with end <= W whose rows were on time must have been reported. *)
From SV Require Export Model.Sliding Spec.SlideSpec.

Inductive qclause :=
| QMembership     (* window_start/window_end are not a size-interval aligned to the slide holding only its rows *)
| QWrongGroup     (* a result row counts an event of another group *)
| QUnknownRow
| QAggregate      (* count / sum of the result row are not the count / sum of exactly the rows it lists *)
| QTwice          (* the same (group, interval) reported twice, or an event twice in one interval *)
| QLost           (* an on-time event is missing from a covering interval whose end the watermark passed *)
| QTooEarlyStart. (* an interval earlier than the slide-aligned start of the earliest on-time event *)

Record qev := { q_id : Z; q_ts : Z; q_key : Z; q_val : Z }.
Record qres := { r_key : Z; r_start : Z; r_end : Z; r_ids : list Z; r_count : Z; r_sum : Z }.

Definition cl_if_q (b : bool) (cl : qclause) : list qclause := if b then [cl] else [].
Definition find_ev (i : Z) (evs : list qev) : option qev := find (fun e => q_id e =? i) evs.

Fixpoint ontime_evs (c : scfg) (m : option Z) (evs : list qev) : list qev :=
  match evs with
  | [] => []
  | e :: r =>
      let ok := match m with None => true | Some mx => mx - sooo c <=? q_ts e end in
      let m' := Some (omax (q_ts e) m) in
      if ok then e :: ontime_evs c m' r else ontime_evs c m' r
  end.

Definition qchk_res (c : scfg) (evs : list qev) (r : qres) : list qclause :=
  let rows := map (fun i => find_ev i evs) (r_ids r) in
  cl_if_q (negb ((r_end r =? r_start r + ssize c) && (r_start r mod sslide c =? 0))) QMembership
  ++ cl_if_q (existsb (fun o => match o with None => true | Some _ => false end) rows) QUnknownRow
  ++ cl_if_q (existsb (fun o => match o with Some e => negb (sinwin c (r_start r) (q_ts e)) | None => false end) rows) QMembership
  ++ cl_if_q (existsb (fun o => match o with Some e => negb (q_key e =? r_key r) | None => false end) rows) QWrongGroup
  ++ cl_if_q (negb ((r_count r =? Z.of_nat (length (r_ids r)))
                    && (r_sum r =? fold_right (fun o acc => match o with Some e => q_val e + acc | None => acc end) 0 rows))) QAggregate
  ++ cl_if_q (negb (Nat.eqb (length (nodup Z.eq_dec (r_ids r))) (length (r_ids r)))) QTwice.

Fixpoint zmin_first (l : list Z) : Z := match l with [] => 0 | [x] => x | x :: r => Z.min x (zmin_first r) end.

Fixpoint dup_results (l : list qres) : bool :=
  match l with
  | [] => false
  | r :: t => existsb (fun x => (r_key x =? r_key r) && (r_start x =? r_start r)) t || dup_results t
  end.

(* lateness = 0: each (group, interval) once.  wmk = the watermark the run is known to have passed. *)
Definition chk_win_sql (c : scfg) (wmk : Z) (evs : list qev) (res : list qres) : list qclause :=
  let ot := ontime_evs c None evs in
  let first := zmin_first (map (fun e => align (q_ts e) (sslide c)) ot) in
  flat_map (qchk_res c evs) res
  ++ cl_if_q (dup_results res) QTwice
  ++ cl_if_q (existsb (fun r => r_start r <? first) res) QTooEarlyStart
  ++ cl_if_q (existsb (fun e =>
        existsb (fun a => (first <=? a) && (a + ssize c <=? wmk) &&
                          negb (existsb (fun r => (r_key r =? q_key e) && (r_start r =? a) && existsb (Z.eqb (q_id e)) (r_ids r)) res))
                (covers c (q_ts e))) ot) QLost.
