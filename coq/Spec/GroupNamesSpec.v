(* C04, "the row reports that tuple under the selected column names": the exact SET of column
   names of one emitted result row, judged against the output names of the grouping columns
   (the model's naming function decides them), the aliases of the aggregates, and the system
   columns a window may add (window_id / window_start / window_end: allowed, not demanded).
   The checker never looks at a value: the NULL group must carry the same columns as any other. *)
From SV Require Export Model.GroupNames.

Inductive nclause :=
| NColumnMissing   (* an output name of a grouping column (or an aggregate alias) is not a column of the row *)
| NColumnExtra.    (* the row has a column that was not selected (e.g. the raw GROUP BY text next to / instead of its alias) *)

Definition chk_row_names (outs aggs sys names : list bytes) : option nclause :=
  if negb (forallb (fun o => kn_mem o names) (outs ++ aggs)) then Some NColumnMissing
  else if negb (forallb (fun n => kn_mem n outs || kn_mem n aggs || kn_mem n sys) names) then Some NColumnExtra
  else None.

(* the names a checked row misses / has in excess (for the verdict text) *)
Definition row_names_missing (outs aggs names : list bytes) : list bytes :=
  filter (fun o => negb (kn_mem o names)) (outs ++ aggs).
Definition row_names_extra (outs aggs sys names : list bytes) : list bytes :=
  filter (fun n => negb (kn_mem n outs || kn_mem n aggs || kn_mem n sys)) names.
