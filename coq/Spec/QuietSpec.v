(* Delivery liveness of the watermark channel, as an executable checker over the observable trace of a time window
   (tumbling / sliding / session share window/watermark.go).
   The channel holds 100 watermarks; a send that finds it full is skipped.  The periodic tick (Watermark.update)
   re-sends the current watermark when the last send was skipped.  Observable consequence: once the trigger code has
   found the channel empty (d0), a tick happens, and the channel is drained again down to empty (d0) with no Add in
   between, the last watermark received by the trigger code is at least (largest sane timestamp) - MAXOUTOFORDERNESS.
   Together with the "handled watermark => everything due is delivered" clause of each window checker this is the
   liveness half of C01/C08/C10: a burst that overflowed the channel followed by silence still gets its windows. *)
From SV Require Export Model.Watermark Model.Tumbling Model.Session.

Inductive wev := WvAdd (ts : Z) | WvDB (x : Z) | WvD0 | WvTick.

Record qst := { q_empty : bool;          (* the channel is known to be empty *)
                q_armed : bool;          (* a tick found the channel empty and no Add happened since *)
                q_max : option Z;        (* largest sane timestamp so far *)
                q_last : option Z }.     (* last watermark received by the trigger code *)
Definition qst0 : qst := {| q_empty := true; q_armed := false; q_max := None; q_last := None |}.

Definition qmax (ts : Z) (m : option Z) : option Z := if ogt ts m then Some ts else m.

Definition quiet_bad (ooo : Z) (s : qst) : bool :=
  q_armed s && match q_max s with
               | Some x => match q_last s with Some l => l <? x - ooo | None => true end
               | None => false
               end.

Fixpoint chk_quiet (ooo base : Z) (s : qst) (tr : list wev) : bool :=      (* true = violated *)
  match tr with
  | [] => false
  | WvAdd ts :: r =>
      chk_quiet ooo base {| q_empty := false; q_armed := false;
                            q_max := if base + ooo + day <? ts then q_max s else qmax ts (q_max s);
                            q_last := q_last s |} r
  | WvDB x :: r => chk_quiet ooo base {| q_empty := q_empty s; q_armed := q_armed s; q_max := q_max s; q_last := Some x |} r
  | WvTick :: r => chk_quiet ooo base {| q_empty := false; q_armed := q_empty s; q_max := q_max s; q_last := q_last s |} r
  | WvD0 :: r =>
      if quiet_bad ooo s then true
      else chk_quiet ooo base {| q_empty := true; q_armed := false; q_max := q_max s; q_last := q_last s |} r
  end.

Definition pj_ev (e : ev) : list wev :=
  match e with EvAdd _ ts => [WvAdd ts] | EvDB x => [WvDB x] | EvD0 => [WvD0] | EvTick => [WvTick] | _ => [] end.
Definition pj_sev (e : sev) : list wev :=
  match e with SvAdd _ ts _ => [WvAdd ts] | SvDB x => [WvDB x] | SvD0 => [WvD0] | SvTick => [WvTick] | _ => [] end.

(* true = the trace violates the clause *)
Definition quiet_violated (ooo base : Z) (tr : list ev) : bool := chk_quiet ooo base qst0 (flat_map pj_ev tr).
Definition quiet_violated_s (ooo base : Z) (tr : list sev) : bool := chk_quiet ooo base qst0 (flat_map pj_sev tr).
