(* C07 as an executable checker over (query, input rows of one batch, delivered rows).
   It is relational and order-free: it does not know in which order the engine enumerated the groups.
   Returns the first violated clause (None = the delivered batch is what relational evaluation
   prescribes). *)
From Coq Require Import QArith.
From SV Require Export Model.PostAgg.

Inductive pa_clause :=
| PaClNoHidden        (* a delivered row carries a hidden / placeholder / unknown column *)
| PaClGroupOnce       (* a delivered row is not the row of exactly one group of the batch *)
| PaClItemValue       (* an item is not the arithmetic over the group's aggregate values *)
| PaClHaving          (* a delivered group does not satisfy HAVING *)
| PaClHavingLost      (* a group satisfying HAVING is missing although LIMIT does not explain it *)
| PaClSorted          (* the delivered rows are not in ORDER BY order *)
| PaClLimit           (* the number of delivered rows is not min(n, survivors) *)
| PaClTopN            (* LIMIT cut a row that sorts strictly before a delivered row *)
| PaClDistinct        (* DISTINCT: two delivered rows are equal *)
| PaClDistinctLost.   (* DISTINCT: a surviving group is missing, LIMIT does not explain it, and a delivered
                         row prints like its row without being equal to it (7 / "7", true / "true"):
                         DISTINCT took a row of another type for a duplicate *)

(* relational meaning of the HAVING condition for one group *)
Fixpoint pa_hsem_exp (items : list pa_pexp) (e : pa_hexp) (g : pa_group) : option Q :=
  match e with
  | PaHCol (PaItem i) => match nth_error items i with Some p => pa_sem p (snd g) | None => None end
  | PaHCol (PaGroup j) => match nth_error (fst g) j with Some (PaNum q) => Some q | _ => None end
  | PaHCol _ => None
  | PaHAgg c => Some (pa_agg_val c (snd g))
  | PaHLit q => Some q
  | PaHBin o x y => pa_arith o (pa_hsem_exp items x g) (pa_hsem_exp items y g)
  end.
Fixpoint pa_hsem (items : list pa_pexp) (p : pa_hpred) (g : pa_group) : bool :=
  match p with
  | PaHCmp o x y => pa_cmp_opt o (pa_hsem_exp items x g) (pa_hsem_exp items y g)
  | PaHAnd p q => pa_hsem items p g && pa_hsem items q g
  | PaHOr p q => pa_hsem items p g || pa_hsem items q g
  (* a CASE used as the condition is true iff its value is a number > 0 (NULL is not true) *)
  | PaHCase ops es => pa_truthy (pa_case_val ops (map (fun e => pa_hsem_exp items e g) es))
  | PaHCaseCmp o ops es z =>
      pa_cmp_opt o (pa_case_val ops (map (fun e => pa_hsem_exp items e g) es)) (pa_hsem_exp items z g)
  end.
Definition pa_survives (q : pa_query) (g : pa_group) : bool :=
  match pq_having q with None => true | Some p => pa_hsem (pq_items q) p g end.

(* the row relational evaluation prescribes for a group: group columns and one column per item *)
Definition pa_spec_row (q : pa_query) (g : pa_group) : pa_row :=
  pa_enum (fun j v => (PaGroup j, v)) 0 (fst g)
  ++ pa_enum (fun i p => (PaItem i, pa_of_opt (pa_sem p (snd g)))) 0 (pq_items q).

Definition pa_visible (c : pa_col) : bool :=
  match c with PaGroup _ | PaItem _ => true | _ => false end.

Definition pa_opt_val_eqb (a b : option pa_val) : bool :=
  match a, b with
  | Some x, Some y => pa_val_eqb x y
  | None, None => true
  | _, _ => false
  end.

(* same map: same number of columns and every column of [s] has the same value in [r] *)
Definition pa_same_row (s r : pa_row) : bool :=
  Nat.eqb (length s) (length r)
  && forallb (fun cv => pa_opt_val_eqb (pa_lookup (fst cv) r) (Some (snd cv))) s.

Definition pa_row_key (n : nat) (r : pa_row) : list (option pa_val) :=
  map (fun j => pa_lookup (PaGroup j) r) (seq 0 n).
Fixpoint pa_okey_eqb (a : list (option pa_val)) (k : pa_key) : bool :=
  match a, k with
  | [], [] => true
  | x :: a', y :: k' => pa_opt_val_eqb x (Some y) && pa_okey_eqb a' k'
  | _, _ => false
  end.
Definition pa_group_of (q : pa_query) (gs : list pa_group) (r : pa_row) : list pa_group :=
  filter (fun g => pa_okey_eqb (pa_row_key (pq_ngroup q) r) (fst g)) gs.

Fixpoint pa_all_pairs {A : Type} (f : A -> A -> bool) (l : list A) : bool :=
  match l with
  | [] => true
  | x :: l' => forallb (f x) l' && pa_all_pairs f l'
  end.

(* same columns, and every value prints (fmt %v) like the value of the other row *)
Definition pa_prints_like (s r : pa_row) : bool :=
  Nat.eqb (length s) (length r)
  && forallb (fun cv => match pa_lookup (fst cv) r with
                        | Some w => bytes_eqb (pa_order_string (snd cv)) (pa_order_string w)
                        | None => false
                        end) s.

Definition pa_first_fail (l : list (bool * pa_clause)) : option pa_clause :=
  match filter (fun bc => negb (fst bc)) l with
  | [] => None
  | bc :: _ => Some (snd bc)
  end.

(* has_limit: a LIMIT clause was written (Go's config cannot tell LIMIT 0 from no LIMIT) *)
Definition pa_chk (q : pa_query) (has_limit : bool) (input : list (pa_key * pa_env)) (out : list pa_row)
  : option pa_clause :=
  let gs := pa_groups input in
  let surv := filter (pa_survives q) gs in
  let matched := map (fun r => (r, pa_group_of q gs r)) out in
  let out_groups := flat_map snd matched in
  let missing := filter (fun g => negb (existsb (fun h => pa_key_eqb (fst g) (fst h)) out_groups)) surv in
  let want_len := if has_limit then Nat.min (pq_limit q) (length surv) else length surv in
  pa_first_fail [
    (forallb (fun r => forallb (fun cv => pa_visible (fst cv)) r) out, PaClNoHidden);
    (forallb (fun rg => match snd rg with [_] => true | _ => false end) matched
       && pa_all_pairs (fun g h => negb (pa_key_eqb (fst g) (fst h))) out_groups, PaClGroupOnce);
    (forallb (fun rg => match snd rg with
                        | [g] => pa_same_row (pa_spec_row q g) (fst rg)
                        | _ => true
                        end) matched, PaClItemValue);
    (forallb (pa_survives q) out_groups, PaClHaving);
    (pa_all_pairs (fun a b => negb (pa_less (pq_order q) b a)) out, PaClSorted);
    (negb (pq_distinct q) || (has_limit && negb (Nat.ltb (length out) (pq_limit q)))
       || forallb (fun g => negb (existsb (pa_prints_like (pa_spec_row q g)) out)) missing, PaClDistinctLost);
    (Nat.eqb (length out) want_len, PaClLimit);
    (match missing with [] => true | _ => has_limit end, PaClHavingLost);
    (forallb (fun g => forallb (fun r => negb (pa_less (pq_order q) (pa_spec_row q g) r)) out) missing, PaClTopN);
    (negb (pq_distinct q) || pa_all_pairs (fun a b => negb (pa_row_eqb a b)) out, PaClDistinct)
  ].
