(* C03: the documented definition of every aggregate as a function of the values of the group's rows in
   arrival order, and the executable comparison of an observed result with it. *)
From Coq Require Import Qabs.
From SV Require Export Model.Agg.

(* ---------- the definitions ---------- *)
Definition qsum (l : list Q) : Q := fold_right Qplus 0 l.
Definition mean (l : list Q) : Q := qsum l / qnat (length l).
Definition sqdev (l : list Q) : Q := qsum (map (fun x => (x - mean l) * (x - mean l)) l).
Definition var_pop (l : list Q) : Q := sqdev l / qnat (length l).            (* sum (x-mu)^2 / n *)
Definition var_samp (l : list Q) : Q := sqdev l / qnat (length l - 1).       (* sum (x-mu)^2 / (n-1) *)

(* the values of the present cells, in arrival order (missing keys are skipped; NULLs still there) *)
Definition present (cells : list cell) : list value :=
  flat_map (fun c => match c with Missing => [] | Cell v => [v] end) cells.
Definition not_null (v : value) : bool := match v with VNull => false | _ => true end.
Definition nonnull (vs : list value) : list value := filter not_null vs.
(* usable numeric inputs: non-NULL values that convert to a number *)
Definition nums (vs : list value) : list Q :=
  flat_map (fun v => match to_float v with Some x => [x] | None => [] end) vs.

Definition least (x : Q) (l : list Q) : Q := fold_left (fun m y => if qltb y m then y else m) l x.
Definition greatest (x : Q) (l : list Q) : Q := fold_left (fun m y => if qltb m y then y else m) l x.

Definition spec (f : agg) (vs : list value) : res :=
  let l := nums vs in
  match f with
  | ASum => match l with [] => RNull | _ => RNum (qsum l) end
  | AAvg => match l with [] => RNull | _ => RNum (mean l) end
  | AMin => match l with [] => RNull | x :: l' => RNum (least x l') end
  | AMax => match l with [] => RNull | x :: l' => RNum (greatest x l') end
  | ACount => RNum (qnat (length (nonnull vs)))
  | AVar | WVar => match l with [] => RNum 0 | _ => RNum (var_pop l) end
  | AVarS | WVarS => if Nat.ltb (length l) 2 then RNum 0 else RNum (var_samp l)
  | AStdDev | WStdDev => match l with [] => RNum 0 | _ => RSqrt (var_pop l) end      (* population *)
  | AStdDevS | WStdDevS => if Nat.ltb (length l) 2 then RNum 0 else RSqrt (var_samp l)
  | AMedian => match l with [] => RNum 0 | _ => RNum (median_of l) end
  | APercentile p => match l with [] => RNum 0 | _ => RNum (percentile_of p l) end
  | AFirst => RVal (hd VNull vs)
  | ALast => RVal (last vs VNull)
  | ANth n => if Nat.leb n (length (nonnull vs)) && Nat.ltb 0 n then RVal (nth (n - 1) (nonnull vs) VNull) else RNull
  | ACollect => RList (nonnull vs)
  | ADedup => RList (fold_left (fun out v => if mem_bytes (fmt_v v) (map fmt_v out) then out else out ++ [v]) (nonnull vs) [])
  | AMerge => match nonnull vs with [] => RNull | l' => RText (join_comma (map to_string l')) end
  end.

(* the definition for one batch of one field: count( * ) counts rows; an expression argument is evaluated per
   row first; a batch without rows has no result row *)
Definition spec_batch (f : agg) (m : mode) (cells : list cell) : option res :=
  match cells with
  | [] => None
  | _ => Some (match m with
               | MStar => RNum (qnat (length cells))
               | _ => spec f (present cells)
               end)
  end.

(* ---------- comparing an observed result with a res ---------- *)
Inductive obs := OVal (v : value) | OList (l : list value).

Definition tol : Q := 1 # (2 ^ 30).
Definition slack : Q := 1 # (2 ^ 40).
Definition close (exact : bool) (r q : Q) : bool :=
  if exact then Qeq_bool r q
  else Qle_bool (Qabs (r - q)) (Qabs q * tol + slack).

Definition value_eqb (a b : value) : bool :=
  match a, b with
  | VNull, VNull => true
  | VInt x, VInt y => Z.eqb x y
  | VFlt x, VFlt y => Qeq_bool x y
  | VStr x, VStr y => bytes_eqb x y
  | VBool x, VBool y => Bool.eqb x y
  | _, _ => false
  end.
Fixpoint values_eqb (a b : list value) : bool :=
  match a, b with
  | [], [] => true
  | x :: a', y :: b' => value_eqb x y && values_eqb a' b'
  | _, _ => false
  end.

(* division- and sqrt-free results are compared exactly *)
Definition exact_agg (f : agg) : bool :=
  match f with ASum | AMin | AMax | ACount | AMedian | APercentile _ => true | _ => false end.

Definition matches (exact : bool) (o : obs) (r : res) : bool :=
  match o, r with
  | OVal VNull, RNull => true
  | OVal (VFlt x), RNum q => close exact x q
  | OVal (VFlt x), RSqrt q => Qle_bool 0 x && close false (x * x) q
  | OVal v, RVal w => value_eqb v w
  | OVal (VStr s), RText t => bytes_eqb s t
  | OList l, RList l' => values_eqb l l'
  | _, _ => false
  end.

Definition matches_opt (exact : bool) (o : option obs) (r : option res) : bool :=
  match o, r with
  | None, None => true
  | Some o, Some r => matches exact o r
  | _, _ => false
  end.

(* helpers for the driver: decimal tokens -> Z without going through machine integers *)
Definition z_push_digit (acc : Z) (d : Z) : Z := acc * 10 + d.
Definition mkq (n : Z) (d : Z) : Q := match d with Zpos p => Qred (n # p) | _ => 0 end.

(* ---------- the float64 error budget of the variance family ----------
   The definitions above are over exact rationals; the code computes in float64.  On the generated inputs (ints and
   dyadic float64s whose running sums are exactly representable) sum / min / max / count / median / percentile are
   exact and avg is one rounded division, but the variance family is not: its error grows with the MAGNITUDE of the
   values relative to their spread (counters, epoch milliseconds, large negative offsets), and a comparison that is
   to tell a sound algorithm from an unsound one there needs the error bound of the sound one.  u = 2^-53.

   Two-pass algorithm (stddev / stddevs / var / vars: *AggregatorFunction.Result).  The running sum is exact, so the
   mean the code uses is c = fl(s/n), |c - mu| <= u |mu| <= u M, M = max |x|.  The second pass sums
   fl(fl(x - c)^2): every term carries a RELATIVE error <= 3u, the summation one of <= n u, and
        sum (x - c)^2 = sum (x - mu)^2 + n (c - mu)^2         (two_pass_shifted_mean, Proofs/AggFloat.v)
   so the error of the mean enters in SECOND order only:
        | var^ - var | <= (n+3) u var + (c - mu)^2 (n / (n-1))  <=  2^-40 var + 2 (u M)^2.
   [two_pass_slack] = 2 (2u M)^2 (a factor 4 in hand).  For |x| < 2^20 it is below 2^-63, for the values
   1e9+1 .. 1e9+4 it is 1e-13, for 1.7e12 (epoch ms) 3e-7, for 1e15 it reaches 0.1.  The textbook one-pass formula
   sum x^2 - (sum x)^2 / n, equal over the rationals (sqdev_alt), has an error of the order u n M^2 instead - 1e2 at
   M = 1e9 - and falls outside the bound as soon as M^2 u exceeds the variance.

   Welford recurrence (the exported StdDevFunction / VarFunction ...): mean_k = fl(mean_{k-1} + fl(fl(x - mean_{k-1}) / k)),
   m2 += fl(fl(x - mean_{k-1}) * fl(x - mean_k)).  The error e_k of mean_k obeys e_k = e_{k-1} (k-1)/k + rho_k with
   |rho_k| <= u M + 2u R / k (R = max - min >= |x - mean|), hence |e_k| <= u M (k+1)/2 + 2u R <= (k/2 + 5) u M <= E (R <= 2M);
   an increment differs from the exact (x - mu_{k-1})(x - mu_k) by e_{k-1}(x - mu_k) + e_k (x - mu_{k-1}) - e_{k-1} e_k,
   at most 2 E R + E^2 - FIRST order in the error of the mean.  [welford_slack] = 2 (2 E R + E^2), E = 2u (n+4) M.
   Both slacks come on top of the relative tolerance 2^-30 and the absolute 2^-40 of [close]. *)
Definition fl_eps : Q := 1 # (2 ^ 52).                                   (* 2u *)
Definition qmaxq (a b : Q) : Q := if Qle_bool a b then b else a.
Definition maxabs (l : list Q) : Q := fold_right (fun x m => qmaxq (Qabs x) m) 0 l.
Definition qrange (l : list Q) : Q := match l with [] => 0 | x :: l' => greatest x l' - least x l' end.
Definition two_pass_slack (l : list Q) : Q := let d := Qred (maxabs l * fl_eps) in Qred (2 * (d * d)).
Definition welford_slack (l : list Q) : Q :=
  let e := Qred (qnat (length l + 4) * maxabs l * fl_eps) in Qred (2 * (2 * e * qrange l + e * e)).
(* the absolute float64 slack of aggregate f over the values vs (0 for everything outside the variance family) *)
Definition fl_slack (f : agg) (vs : list value) : Q :=
  match f with
  | AStdDev | AStdDevS | AVar | AVarS => two_pass_slack (nums vs)
  | WStdDev | WStdDevS | WVar | WVarS => welford_slack (nums vs)
  | _ => 0
  end.
Definition fl_slack_batch (f : agg) (m : mode) (cells : list cell) : Q :=
  match m with MStar => 0 | _ => fl_slack f (present cells) end.

Definition close_s (exact : bool) (s : Q) (r q : Q) : bool :=
  if exact then Qeq_bool r q
  else Qle_bool (Qabs (r - q)) (Qabs q * tol + slack + s).
Definition matches_s (exact : bool) (s : Q) (o : obs) (r : res) : bool :=
  match o, r with
  | OVal VNull, RNull => true
  | OVal (VFlt x), RNum q => close_s exact s x q
  | OVal (VFlt x), RSqrt q => Qle_bool 0 x && close_s false s (x * x) q
  | OVal v, RVal w => value_eqb v w
  | OVal (VStr s), RText t => bytes_eqb s t
  | OList l, RList l' => values_eqb l l'
  | _, _ => false
  end.
Definition matches_opt_s (exact : bool) (s : Q) (o : option obs) (r : option res) : bool :=
  match o, r with
  | None, None => true
  | Some o, Some r => matches_s exact s o r
  | _, _ => false
  end.
