(* C03: the documented definition of every aggregate as a function of the values of the group's rows in
   arrival order, and the executable comparison of an observed result with it. *)
From Coq Require Import Qabs.
From SV Require Export Model.Agg.

(* ---------- the definitions ---------- *)
Definition qsum (l : list Q) : Q := fold_right Qplus 0 l.
Definition mean (l : list Q) : Q := qsum l / qnat (length l).
Definition sqdev (l : list Q) : Q := qsum (map (fun x => (x - mean l) * (x - mean l)) l).
Definition var_pop (l : list Q) : Q := sqdev l / qnat (length l).            (* sum (x-mu)^2 / n *)
Definition var_samp (l : list Q) : Q := sqdev l / qnat (length l - 1).       (* sum (x-mu)^2 / (n-1) *)

(* the values of the present cells, in arrival order (missing keys are skipped; NULLs still there) *)
Definition present (cells : list cell) : list value :=
  flat_map (fun c => match c with Missing => [] | Cell v => [v] end) cells.
Definition not_null (v : value) : bool := match v with VNull => false | _ => true end.
Definition nonnull (vs : list value) : list value := filter not_null vs.
(* usable numeric inputs: non-NULL values that convert to a number *)
Definition nums (vs : list value) : list Q :=
  flat_map (fun v => match to_float v with Some x => [x] | None => [] end) vs.

Definition least (x : Q) (l : list Q) : Q := fold_left (fun m y => if qltb y m then y else m) l x.
Definition greatest (x : Q) (l : list Q) : Q := fold_left (fun m y => if qltb m y then y else m) l x.

Definition spec (f : agg) (vs : list value) : res :=
  let l := nums vs in
  match f with
  | ASum => match l with [] => RNull | _ => RNum (qsum l) end
  | AAvg => match l with [] => RNull | _ => RNum (mean l) end
  | AMin => match l with [] => RNull | x :: l' => RNum (least x l') end
  | AMax => match l with [] => RNull | x :: l' => RNum (greatest x l') end
  | ACount => RNum (qnat (length (nonnull vs)))
  | AVar | WVar => match l with [] => RNum 0 | _ => RNum (var_pop l) end
  | AVarS | WVarS => if Nat.ltb (length l) 2 then RNum 0 else RNum (var_samp l)
  | AStdDev | WStdDev => match l with [] => RNum 0 | _ => RSqrt (var_pop l) end      (* population *)
  | AStdDevS | WStdDevS => if Nat.ltb (length l) 2 then RNum 0 else RSqrt (var_samp l)
  | AMedian => match l with [] => RNum 0 | _ => RNum (median_of l) end
  | APercentile p => match l with [] => RNum 0 | _ => RNum (percentile_of p l) end
  | AFirst => RVal (hd VNull vs)
  | ALast => RVal (last vs VNull)
  | ANth n => if Nat.leb n (length (nonnull vs)) && Nat.ltb 0 n then RVal (nth (n - 1) (nonnull vs) VNull) else RNull
  | ACollect => RList (nonnull vs)
  | ADedup => RList (fold_left (fun out v => if mem_bytes (fmt_v v) (map fmt_v out) then out else out ++ [v]) (nonnull vs) [])
  | AMerge => match nonnull vs with [] => RNull | l' => RText (join_comma (map to_string l')) end
  end.

(* the definition for one batch of one field: count( * ) counts rows; an expression argument is evaluated per
   row first; a batch without rows has no result row *)
Definition spec_batch (f : agg) (m : mode) (cells : list cell) : option res :=
  match cells with
  | [] => None
  | _ => Some (match m with
               | MStar => RNum (qnat (length cells))
               | _ => spec f (present cells)
               end)
  end.

(* ---------- comparing an observed result with a res ---------- *)
Inductive obs := OVal (v : value) | OList (l : list value).

Definition tol : Q := 1 # (2 ^ 30).
Definition slack : Q := 1 # (2 ^ 40).
Definition close (exact : bool) (r q : Q) : bool :=
  if exact then Qeq_bool r q
  else Qle_bool (Qabs (r - q)) (Qabs q * tol + slack).

Definition value_eqb (a b : value) : bool :=
  match a, b with
  | VNull, VNull => true
  | VInt x, VInt y => Z.eqb x y
  | VFlt x, VFlt y => Qeq_bool x y
  | VStr x, VStr y => bytes_eqb x y
  | VBool x, VBool y => Bool.eqb x y
  | _, _ => false
  end.
Fixpoint values_eqb (a b : list value) : bool :=
  match a, b with
  | [], [] => true
  | x :: a', y :: b' => value_eqb x y && values_eqb a' b'
  | _, _ => false
  end.

(* division- and sqrt-free results are compared exactly *)
Definition exact_agg (f : agg) : bool :=
  match f with ASum | AMin | AMax | ACount | AMedian | APercentile _ => true | _ => false end.

Definition matches (exact : bool) (o : obs) (r : res) : bool :=
  match o, r with
  | OVal VNull, RNull => true
  | OVal (VFlt x), RNum q => close exact x q
  | OVal (VFlt x), RSqrt q => Qle_bool 0 x && close false (x * x) q
  | OVal v, RVal w => value_eqb v w
  | OVal (VStr s), RText t => bytes_eqb s t
  | OList l, RList l' => values_eqb l l'
  | _, _ => false
  end.

Definition matches_opt (exact : bool) (o : option obs) (r : option res) : bool :=
  match o, r with
  | None, None => true
  | Some o, Some r => matches exact o r
  | _, _ => false
  end.

(* helpers for the driver: decimal tokens -> Z without going through machine integers *)
Definition z_push_digit (acc : Z) (d : Z) : Z := acc * 10 + d.
Definition mkq (n : Z) (d : Z) : Q := match d with Zpos p => Qred (n # p) | _ => 0 end.
