(* C17 as declarative notions over row lists, a reference semantics that buffers the raw rows of
   every group, and an executable checker for the implementation's own output.
   Nothing here mentions running aggregator states or placeholders; the binding of predicate calls to
   SELECT aggregates appears only in gw_bind_ok (is the binding faithful?) and gw_eff (the predicate as bound). *)
From SV Require Export Model.GlobalWin.

(* the aggregate fn(field) of a list of rows: a fresh aggregator fed with exactly these rows *)
Definition gw_agg_of (a : gw_ref) (seg : list gw_row) : option Q :=
  gw_result (fold_left (gw_feed1 a) seg (gw_new (gr_fn a))).

(* the predicate on the aggregates of a list of rows, with the condition engine's rules *)
Fixpoint gw_eval (env : gw_ref -> option Q) (p : gw_pred) : option bool :=
  match p with
  | GPAtom a c lit => gw_cmp_eval c (env a) lit
  | GPAnd p q =>
      match gw_eval env p with
      | Some true => gw_eval env q
      | Some false => Some false
      | None => None
      end
  | GPOr p q =>
      match gw_eval env p with
      | Some true => Some true
      | Some false => gw_eval env q
      | None => None
      end
  end.

Definition gw_holds (p : gw_pred) (seg : list gw_row) : bool :=
  match gw_eval (fun a => gw_agg_of a seg) p with
  | Some true => true
  | _ => false
  end.

(* the predicate with SQL's three-valued logic: a comparison with NULL is unknown (None),
   AND/OR are Kleene's *)
Definition gw_cmp3 (c : gw_cmp) (v : option Q) (lit : Q) : option bool :=
  match v with
  | Some x => gw_cmp_eval c (Some x) lit
  | None => None
  end.
Fixpoint gw_sql3 (env : gw_ref -> option Q) (p : gw_pred) : option bool :=
  match p with
  | GPAtom a c lit => gw_cmp3 c (env a) lit
  | GPAnd p q =>
      match gw_sql3 env p, gw_sql3 env q with
      | Some false, _ | _, Some false => Some false
      | Some true, Some true => Some true
      | _, _ => None
      end
  | GPOr p q =>
      match gw_sql3 env p, gw_sql3 env q with
      | Some true, _ | _, Some true => Some true
      | Some false, Some false => Some false
      | _, _ => None
      end
  end.
Definition gw_holds3 (p : gw_pred) (seg : list gw_row) : bool :=
  match gw_sql3 (fun a => gw_agg_of a seg) p with
  | Some true => true
  | _ => false
  end.

(* ---------------------------------------------------------------- binding *)
(* A binding is faithful when every bound call reads a SELECT aggregate of the same function over the
   same field. (The code's findOutputSpec compares the field names case-insensitively, so with two
   columns that differ in letter case only it produces bindings that are not faithful.) *)
Fixpoint gw_bind_okb (outs calls : list gw_ref) (bind : list (option nat)) : bool :=
  match calls with
  | [] => true
  | a :: t =>
      match hd None bind with
      | Some j => match nth_error outs j with Some o => gw_ref_eqb o a | None => true end
      | None => true
      end && gw_bind_okb outs t (tl bind)
  end.
Definition gw_bind_ok (c : gw_config) : Prop :=
  gw_bind_okb (gc_outs c) (gw_calls (gc_pred c)) (gc_bind c) = true.

(* the predicate as bound: every bound call replaced by the SELECT aggregate it reads *)
Definition gw_eff_call (outs : list gw_ref) (a : gw_ref) (b : option nat) : gw_ref :=
  match b with
  | Some j => match nth_error outs j with Some o => o | None => a end
  | None => a
  end.
Fixpoint gw_eff_calls (outs calls : list gw_ref) (bind : list (option nat)) : list gw_ref :=
  match calls with
  | [] => []
  | a :: t => gw_eff_call outs a (hd None bind) :: gw_eff_calls outs t (tl bind)
  end.
(* the i-th call of p (document order) replaced by the i-th element of l *)
Fixpoint gw_subst (p : gw_pred) (l : list gw_ref) : gw_pred :=
  match p with
  | GPAtom a c lit => GPAtom (hd a l) c lit
  | GPAnd p q => GPAnd (gw_subst p l) (gw_subst q (skipn (length (gw_calls p)) l))
  | GPOr p q => GPOr (gw_subst p l) (gw_subst q (skipn (length (gw_calls p)) l))
  end.
Definition gw_eff_pred (c : gw_config) : gw_pred :=
  gw_subst (gc_pred c) (gw_eff_calls (gc_outs c) (gw_calls (gc_pred c)) (gc_bind c)).
Definition gw_eff (c : gw_config) : gw_config :=
  {| gc_outs := gc_outs c; gc_pred := gw_eff_pred c; gc_bind := gc_bind c |}.

(* ---------------------------------------------------------------- reference semantics *)
(* per group: the rows received since the group last fired *)
Definition gw_segs := list (list N * list gw_row).

Fixpoint gw_seg_find (k : list N) (s : gw_segs) : list gw_row :=
  match s with
  | [] => []
  | (k', l) :: t => if gw_key_eqb k' k then l else gw_seg_find k t
  end.
Fixpoint gw_seg_remove (k : list N) (s : gw_segs) : gw_segs :=
  match s with
  | [] => []
  | (k', l) :: t => if gw_key_eqb k' k then gw_seg_remove k t else (k', l) :: gw_seg_remove k t
  end.
Definition gw_seg_put (k : list N) (l : list gw_row) (s : gw_segs) : gw_segs := (k, l) :: gw_seg_remove k s.

Definition gw_result_of (c : gw_config) (k : list N) (seg : list gw_row) : gw_res :=
  (k, map (fun a => gw_agg_of a seg) (gc_outs c)).

Definition gw_spec_step (c : gw_config) (s : gw_segs) (r : gw_row) : gw_segs * option gw_res :=
  let k := gw_key r in
  let seg := gw_seg_find k s ++ [r] in
  if gw_holds (gc_pred c) seg then (gw_seg_put k [] s, Some (gw_result_of c k seg))
  else (gw_seg_put k seg s, None).

Fixpoint gw_spec_run (c : gw_config) (s : gw_segs) (h : list gw_row) : list (option gw_res) :=
  match h with
  | [] => []
  | r :: t => let so := gw_spec_step c s r in snd so :: gw_spec_run c (fst so) t
  end.

(* rows of group g since g's last result, read off a sequence of (row, output) pairs *)
Fixpoint gw_since (g : list N) (hz : list (gw_row * option gw_res)) (acc : list gw_row) : list gw_row :=
  match hz with
  | [] => acc
  | (r, o) :: t =>
      if gw_key_eqb (gw_key r) g then
        match o with
        | Some _ => gw_since g t []
        | None => gw_since g t (acc ++ [r])
        end
      else gw_since g t acc
  end.

(* the outputs at the rows of group g *)
Fixpoint gw_project (g : list N) (hz : list (gw_row * option gw_res)) : list (option gw_res) :=
  match hz with
  | [] => []
  | (r, o) :: t => if gw_key_eqb (gw_key r) g then o :: gw_project g t else gw_project g t
  end.

Definition gw_is_group (g : list N) (r : gw_row) : bool := gw_key_eqb (gw_key r) g.

(* ---------------------------------------------------------------- checker *)
Inductive gw_clause :=
| GcFiresIff                  (* the predicate holds of the group's rows since its last result, but no result *)
| GcNoResultWhileFalse        (* a result although the predicate does not hold *)
| GcResultExact               (* a result whose aggregates are not those of exactly these rows *)
| GcGroupColumns              (* a result carrying another group's columns *)
| GcOneResult                 (* more than one result for one row *)
| GcFiresIffSql3              (* no result, as the engine's rules say, but the predicate is true in SQL's three-valued logic *)
| GcNoResultWhileFalseSql3.   (* a result, as the engine's rules say, but the predicate is not true in SQL's three-valued logic *)

Definition gw_tol : Q := 1 # 1099511627776.   (* 2^-40 *)

Definition gw_close (a b : option Q) : bool :=
  match a, b with
  | None, None => true
  | Some x, Some y => Qle_bool (x - y) gw_tol && Qle_bool (y - x) gw_tol
  | _, _ => false
  end.
Fixpoint gw_all_close (l1 l2 : list (option Q)) : bool :=
  match l1, l2 with
  | [], [] => true
  | a :: t1, b :: t2 => gw_close a b && gw_all_close t1 t2
  | _, _ => false
  end.

(* verdict for one row: (violated clause that is not explained by the engine's rules,
                         violated three-valued-logic clause, segments afterwards).
   The segments follow what the implementation did. *)
Definition gw_chk_row (c : gw_config) (s : gw_segs) (r : gw_row) (obs : list gw_res)
  : option gw_clause * option gw_clause * gw_segs :=
  let k := gw_key r in
  let seg := gw_seg_find k s ++ [r] in
  let h := gw_holds (gc_pred c) seg in
  let h3 := gw_holds3 (gc_pred c) seg in
  match obs with
  | [] => (if h then Some GcFiresIff else None,
           if negb h && h3 then Some GcFiresIffSql3 else None,
           gw_seg_put k seg s)
  | [res] =>
      (if negb h then Some GcNoResultWhileFalse
       else if negb (gw_key_eqb (fst res) k) then Some GcGroupColumns
       else if negb (gw_all_close (map (fun a => gw_agg_of a seg) (gc_outs c)) (snd res)) then Some GcResultExact
       else None,
       if h && negb h3 then Some GcNoResultWhileFalseSql3 else None,
       gw_seg_put k [] s)
  | _ => (Some GcOneResult, None, gw_seg_put k [] s)
  end.

Definition gw_first (a b : option gw_clause) : option gw_clause :=
  match a with Some _ => a | None => b end.

Fixpoint gw_chk_from (c : gw_config) (s : gw_segs) (h : list gw_row) (obs : list (list gw_res))
  : option gw_clause * option gw_clause :=
  match h, obs with
  | r :: t, o :: ot =>
      let '(hard, soft, s') := gw_chk_row c s r o in
      let '(hard', soft') := gw_chk_from c s' t ot in
      (gw_first hard hard', gw_first soft soft')
  | [], [] => (None, None)
  | _, _ => (Some GcOneResult, None)
  end.

(* None = the observed outputs satisfy C17 (with the engine's reading of the predicate);
   clauses not explained by the engine's rules take precedence *)
Definition chk_C17 (c : gw_config) (h : list gw_row) (obs : list (list gw_res)) : option gw_clause :=
  let '(hard, soft) := gw_chk_from c [] h obs in gw_first hard soft.

(* only the clauses of the engine's reading *)
Definition chk_C17_engine (c : gw_config) (h : list gw_row) (obs : list (list gw_res)) : option gw_clause :=
  fst (gw_chk_from c [] h obs).
