(* C12 as a checker over what the implementation itself answered for one (predicate text, row):
   [plain]  NewExprCondition(e).Evaluate(row)          (may use a compiled shortcut)
   [paren]  NewExprCondition("(" ++ e ++ ")").Evaluate(row)   (never gets a shortcut: the general evaluator)
   [fastans] what the shortcut alone answered ([None]: absent, or it declined the row).
   The differential is defined where both texts compile. Returns the violated clause. *)
From SV Require Import Model.Cond.

Inductive obs := ObsTrue | ObsFalse | ObsNoCompile.
Inductive c12_clause := ClFastDiffers | ClDecisionDiffers.

Definition obs_of_bool (b : bool) : obs := if b then ObsTrue else ObsFalse.
Definition obs_eqb (a b : obs) : bool :=
  match a, b with
  | ObsTrue, ObsTrue | ObsFalse, ObsFalse | ObsNoCompile, ObsNoCompile => true
  | _, _ => false
  end.

Definition chk_C12 (plain paren : obs) (fastans : option bool) : option c12_clause :=
  match plain, paren with
  | ObsNoCompile, _ | _, ObsNoCompile => None
  | _, _ =>
      match fastans with
      | Some b => if obs_eqb (obs_of_bool b) paren
                  then (if obs_eqb plain paren then None else Some ClDecisionDiffers)
                  else Some ClFastDiffers
      | None => if obs_eqb plain paren then None else Some ClDecisionDiffers
      end
  end.

(* Concurrent evaluations of ONE compiled predicate (K lines): the decision for a row is a function of
   the predicate and that row, whoever else evaluates the same compiled predicate at the same time.
   [expected] is the decision for the row (the model's where the text is of a shortcut shape, and what a
   private, sequentially used compilation of the same text answers); [ntrue] / [nfalse] / [npanic] count
   what the concurrent evaluations of that row on the SHARED compilation answered (accept / reject /
   the evaluation aborted the calling goroutine). *)
Inductive c12k_clause := ClConcurrentPanics | ClConcurrentDiffers.

Definition chk_C12K (expected : bool) (ntrue nfalse npanic : N) : option c12k_clause :=
  if negb (N.eqb npanic 0) then Some ClConcurrentPanics
  else if N.eqb (if expected then nfalse else ntrue) 0 then None
  else Some ClConcurrentDiffers.
