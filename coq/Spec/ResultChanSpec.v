(* C05 — what a reader of the result channel may observe, as executable checkers over row ids.
   sent = the ids of the results in emission order (distinct), seen = the ids the reader received, in
   the order it received them.
   rc_check  : seen is a subsequence of sent (results reach the channel in emission order; rows may be
               missing, nothing is delivered twice, nothing is invented);
   rc_suffix : (nobody read while the rows were emitted) what is missing was evicted from the OLD end:
               seen is the last min(capacity, |sent|) ids of sent. *)
From Coq Require Import List ZArith Bool Arith.
Import ListNotations.

Inductive subseq {A : Type} : list A -> list A -> Prop :=
| ss_nil : forall m, subseq [] m
| ss_keep : forall x l m, subseq l m -> subseq (x :: l) (x :: m)
| ss_skip : forall x l m, subseq l m -> subseq l (x :: m).

Inductive rc_verdict :=
| RCOk
| RCUnknown (x : Z)          (* the channel delivered a result of no emitted row *)
| RCTwice (x : Z)            (* ... the same result twice in a row *)
| RCOrder (x prev : Z).      (* ... x after prev although x was not emitted after prev *)

(* the part of m behind the first occurrence of x *)
Fixpoint rc_after (x : Z) (m : list Z) : option (list Z) :=
  match m with
  | [] => None
  | y :: m' => if Z.eqb x y then Some m' else rc_after x m'
  end.

Fixpoint rc_check_from (all rest : list Z) (prev : option Z) (l : list Z) : rc_verdict :=
  match l with
  | [] => RCOk
  | x :: l' =>
      match rc_after x rest with
      | Some rest' => rc_check_from all rest' (Some x) l'
      | None =>
          if existsb (Z.eqb x) all then
            match prev with
            | Some p => if Z.eqb x p then RCTwice x else RCOrder x p
            | None => RCOrder x x
            end
          else RCUnknown x
      end
  end.

Definition rc_check (sent seen : list Z) : rc_verdict := rc_check_from sent sent None seen.

Fixpoint zlist_eqb (a b : list Z) : bool :=
  match a, b with
  | [], [] => true
  | x :: a', y :: b' => Z.eqb x y && zlist_eqb a' b'
  | _, _ => false
  end.

Definition rc_suffix (cap : nat) (sent seen : list Z) : bool :=
  zlist_eqb seen (skipn (length sent - length seen) sent) &&
  Nat.eqb (length seen) (Nat.min cap (length sent)).
