(* C14 — the declarative meaning of a query on EVERY history, also when the number of partitions exceeds the cap
   (WithAnalyticMaxPartitions / defaultMaxPartitions): the engine keeps the `cap` most recently used partitions;
   a partition that drops out of them is forgotten AS A WHOLE - its state and its remembered last result - and
   starts from scratch when it returns.  So the rows that count for a row r are not all earlier rows of its
   partition that passed WHEN, but those of the partition's current RESIDENCY EPOCH: the ones since which the
   partition has, at every moment, been among the `cap` most recently used partitions.  A WHEN-false row of a
   partition that was evicted therefore yields NULL (changed_cols: no columns) until the partition's first
   WHEN-true row, never a value computed from discarded rows.
   Within the cap every partition is always resident and the epoch is the whole gated history of the partition:
   [an_xspec_query] coincides with [an_spec_query] there (Proofs/AnalyticEpoch.v). *)
From SV Require Export Spec.AnalyticSpec.

(* the partitions (PARTITION BY tuples) of the rows that passed WHEN, most recently used first; [revl] is the
   history most recent row first *)
Definition an_recent (f : afield) (revl : list arow) : list (list aval) :=
  an_distinct (map (an_part_vals (af_part f)) (filter (an_gate f) revl)).

(* the partition of r is among the cap most recently used ones *)
Definition an_resident (cap : nat) (f : afield) (revl : list arow) (r : arow) : bool :=
  existsb (avals_eqb (an_part_vals (af_part f) r)) (firstn cap (an_recent f revl)).

(* the counted rows of r's partition, walking back from the most recent row for as long as the partition stayed
   resident: a row of another partition that pushed it out of the cap most recently used ones ends the walk *)
Fixpoint an_epoch_r (cap : nat) (f : afield) (r : arow) (revl : list arow) : list arow :=
  match revl with
  | [] => []
  | e :: t =>
      if an_gate f e then
        if an_same_part f r e then e :: an_epoch_r cap f r t
        else if an_resident cap f (e :: t) r then an_epoch_r cap f r t else []
      else an_epoch_r cap f r t
  end.

Definition an_epoch (cap : nat) (f : afield) (earlier : list arow) (r : arow) : list arow :=
  rev (an_epoch_r cap f r (rev earlier)).

(* a field on a row, given ALL earlier rows offered to its engine *)
Definition an_xgated_spec_g (sql : bool) (cap : nat) (f : afield) (earlier : list arow) (r : arow) : aout :=
  let mine := an_epoch cap f earlier r in
  if an_gate f r then an_field_spec_g sql (af_kind f) mine r
  else match rev mine with
       | [] => an_field_dflt (af_kind f)
       | l :: before => an_field_spec_g sql (af_kind f) (rev before) l
       end.

Definition an_xgated_spec : nat -> afield -> list arow -> arow -> aout := an_xgated_spec_g false.

(* the direct path, as Spec/AnalyticSpec.v an_spec_aux *)
Fixpoint an_xspec_aux (q : aquery) (offered : list arow) (rows : list arow) : list (option aout) :=
  match rows with
  | [] => []
  | r :: t =>
      match aq_where q with
      | AWNone => Some (an_xgated_spec (aq_cap q) (aq_field q) offered r) :: an_xspec_aux q (offered ++ [r]) t
      | AWCol n => if an_pos r n
                   then Some (an_xgated_spec (aq_cap q) (aq_field q) offered r) :: an_xspec_aux q (offered ++ [r]) t
                   else None :: an_xspec_aux q offered t
      | AWAnalytic wf =>
          (match an_xgated_spec (aq_cap q) wf offered r with
           | AOV (AVBool true) => Some (an_xgated_spec (aq_cap q) (aq_field q) offered r)
           | _ => None
           end) :: an_xspec_aux q (offered ++ [r]) t
      end
  end.

Definition an_xspec_query (q : aquery) (rows : list arow) : list (option aout) := an_xspec_aux q [] rows.

Fixpoint an_xmspec_aux (sql : bool) (q : amquery) (offered : list arow) (rows : list arow)
  : list (option (list aout)) :=
  match rows with
  | [] => []
  | r :: t =>
      let vals := map (fun f => an_xgated_spec_g sql (mq_cap q) f offered r) (mq_items q) in
      match mq_wan q with
      | Some (wf, tst) =>
          (if an_mcolpass q r && an_wtest tst (an_xgated_spec_g sql (mq_cap q) wf offered r) then Some vals else None)
          :: an_xmspec_aux sql q (offered ++ [r]) t
      | None =>
          if an_mcolpass q r then Some vals :: an_xmspec_aux sql q (offered ++ [r]) t
          else None :: an_xmspec_aux sql q offered t
      end
  end.

Definition an_xmspec_query (sql : bool) (q : amquery) (rows : list arow) : list (option (list aout)) :=
  an_xmspec_aux sql q [] rows.

(* ---------------------------------------------------------------- naming the violated clause *)
(* r fails WHEN while its partition - which has counted rows among the earlier ones - is not among the cap most
   recently used partitions: the statement demands the default (NULL / no columns) for r *)
Definition an_evicted_gated_off (cap : nat) (f : afield) (earlier : list arow) (r : arow) : bool :=
  negb (an_gate f r) && negb (an_resident cap f (rev earlier) r) &&
  existsb (fun e => an_same_part f r e && an_gate f e) earlier.

(* per row of a history: some field of the query (select items, WHERE call) is in that situation *)
Fixpoint an_xevicted_aux (q : aquery) (offered : list arow) (rows : list arow) : list bool :=
  match rows with
  | [] => []
  | r :: t =>
      match aq_where q with
      | AWNone => an_evicted_gated_off (aq_cap q) (aq_field q) offered r :: an_xevicted_aux q (offered ++ [r]) t
      | AWCol n => if an_pos r n
                   then an_evicted_gated_off (aq_cap q) (aq_field q) offered r :: an_xevicted_aux q (offered ++ [r]) t
                   else false :: an_xevicted_aux q offered t
      | AWAnalytic wf =>
          (an_evicted_gated_off (aq_cap q) (aq_field q) offered r || an_evicted_gated_off (aq_cap q) wf offered r)
          :: an_xevicted_aux q (offered ++ [r]) t
      end
  end.

Definition an_xevicted (q : aquery) (rows : list arow) : list bool := an_xevicted_aux q [] rows.

Fixpoint an_xmevicted_aux (q : amquery) (offered : list arow) (rows : list arow) : list bool :=
  match rows with
  | [] => []
  | r :: t =>
      let ev := existsb (fun f => an_evicted_gated_off (mq_cap q) f offered r) (mq_items q) in
      match mq_wan q with
      | Some (wf, _) =>
          (ev || an_evicted_gated_off (mq_cap q) wf offered r) :: an_xmevicted_aux q (offered ++ [r]) t
      | None =>
          if an_mcolpass q r then ev :: an_xmevicted_aux q (offered ++ [r]) t
          else false :: an_xmevicted_aux q offered t
      end
  end.

Definition an_xmevicted (q : amquery) (rows : list arow) : list bool := an_xmevicted_aux q [] rows.
