(* C08 (and the sliding half of C02) as an executable checker over a trace of observable events.
   Geometry: windows [a, a+size) with a a multiple of the slide. *)
From SV Require Export Model.Sliding Spec.WinSpec.

Inductive sclause :=
| SMembership        (* a batch is not [s,s+size) with s a multiple of the slide holding only its own rows *)
| SUnknownRow
| STwice             (* an interval is reported twice although lateness = 0 *)
| SOrder             (* first firings not in increasing order *)
| STooEarlyStart     (* an interval earlier than the slide-aligned start of the earliest event *)
| SRowMissing        (* a first firing misses an on-time row with timestamp inside the interval *)
| SIntervalLost      (* a covering interval of an on-time row was not delivered although the watermark passed its end *)
| SEarlyFire
| SWatermarkOrigin
| SLateUpdateShape   (* a re-delivery is not: previous contents plus late rows of that interval *)
| SLateUpdateMissing (* a late row inside an open fired window caused no re-delivery of it *)
| STooLateCounted.

Definition ssane (c : scfg) (base ts : Z) : bool := ts <=? base + sooo c + day.

Record scst := {
  q_seen : list row; q_maxts : option Z;
  q_ontime : list row;          (* on-time sane rows received before the current delivery began *)
  q_ontime_new : list row;      (* ... since it began *)
  q_first : option Z;           (* smallest slide-aligned start of an on-time (accepted) row so far *)
  q_dw : option Z; q_lastw : option Z;
  q_fired : list batch;         (* latest contents per fired interval, latest first *)
  q_lastadd : option row;       (* the Add whose late updates may still follow *)
  q_pending : list Z            (* starts of fired intervals that must be re-delivered now *)
}.
Definition scst0 : scst := {| q_seen := []; q_maxts := None; q_ontime := []; q_ontime_new := []; q_first := None;
                              q_dw := None; q_lastw := None; q_fired := []; q_lastadd := None; q_pending := [] |}.

Definition omin (a : Z) (m : option Z) : Z := match m with None => a | Some b => Z.min a b end.

(* the covering grid intervals of ts: align(ts), align(ts)-slide, ... while they still contain ts *)
Fixpoint covering (c : scfg) (fuel : nat) (a ts : Z) : list Z :=
  match fuel with
  | O => []
  | S f => if ts <? a + ssize c then a :: covering c f (a - sslide c) ts else []
  end.
Definition covers (c : scfg) (ts : Z) : list Z :=
  covering c (Z.to_nat (ssize c / sslide c + 2)) (align ts (sslide c)) ts.

Definition sub_rows (a b : list row) : bool := forallb (fun r => row_in r b) a.

Definition set_nonbatch (s : scst) : scst + sclause :=
  match q_pending s with
  | _ :: _ => inr SLateUpdateMissing
  | [] => inl {| q_seen := q_seen s; q_maxts := q_maxts s; q_ontime := q_ontime s; q_ontime_new := q_ontime_new s;
                 q_first := q_first s; q_dw := q_dw s; q_lastw := q_lastw s; q_fired := q_fired s;
                 q_lastadd := None; q_pending := [] |}
  end.

Definition schk_ev (c : scfg) (base : Z) (s0 : scst) (e : ev) : scst + sclause :=
  match e with
  | EvBatch b =>
      let s := s0 in
      if negb ((b_end b =? b_start b + ssize c) && (0 <? sslide c) && (b_start b mod sslide c =? 0)
               && forallb (fun r => sinwin c (b_start b) (rts r)) (b_rows b)) then inr SMembership
      else if negb (sub_rows (b_rows b) (q_seen s)) then inr SUnknownRow
      else
      match find_fired (b_start b) (q_fired s) with
      | None =>
          if match q_fired s with f :: _ => b_start b <=? b_start f | [] => false end then inr SOrder
          else if match q_first s with Some f => b_start b <? f | None => true end then inr STooEarlyStart
          else if match q_dw s with Some wmk => negb (b_end b <=? wmk) | None => true end then inr SEarlyFire
          else if negb (forallb (fun r => negb (sinwin c (b_start b) (rts r)) || row_in r (b_rows b))
                                (q_ontime s ++ q_ontime_new s)) then inr SRowMissing
          else inl {| q_seen := q_seen s; q_maxts := q_maxts s; q_ontime := q_ontime s; q_ontime_new := q_ontime_new s;
                      q_first := q_first s; q_dw := q_dw s; q_lastw := q_lastw s; q_fired := b :: q_fired s;
                      q_lastadd := None; q_pending := q_pending s |}
      | Some prev =>
          if slateness c <=? 0 then inr STwice
          else match q_lastadd s with
               | None => inr SLateUpdateShape
               | Some r =>
                   let n := length (b_rows prev) in
                   let extra := skipn n (b_rows b) in
                   if rows_eqb (firstn n (b_rows b)) (b_rows prev)
                      && forallb (fun x => negb (id_in (rid x) (b_rows prev))) extra
                      && (row_in r (b_rows b) || negb (sinwin c (b_start b) (rts r)))
                   then inl {| q_seen := q_seen s; q_maxts := q_maxts s; q_ontime := q_ontime s; q_ontime_new := q_ontime_new s;
                               q_first := q_first s; q_dw := q_dw s; q_lastw := q_lastw s;
                               q_fired := replace_fired b (q_fired s); q_lastadd := q_lastadd s;
                               q_pending := filter (fun x => negb (x =? b_start b)) (q_pending s) |}
                   else inr SLateUpdateShape
               end
      end
  | _ =>
    match set_nonbatch s0 with
    | inr cl => inr cl
    | inl s =>
      match e with
      | EvAdd id ts =>
          let sn := ssane c base ts in
          let m' := if sn then Some (omax ts (q_maxts s)) else q_maxts s in
          let ontime := sn && (match q_maxts s with None => true | Some m => m - sooo c <=? ts end) in
          let late := sn && negb ontime in
          (* fired intervals containing ts that are still open by the statement's measure *)
          let pend := if late && (0 <? slateness c)
                      then map b_start (filter (fun b => sinwin c (b_start b) ts &&
                                                  (match m' with Some m => m - sooo c <? b_end b + slateness c | None => false end))
                                               (q_fired s))
                      else [] in
          inl {| q_seen := q_seen s ++ [(id, ts)]; q_maxts := m'; q_ontime := q_ontime s;
                 q_ontime_new := if ontime then q_ontime_new s ++ [(id, ts)] else q_ontime_new s;
                 q_first := if ontime then Some (omin (align ts (sslide c)) (q_first s)) else q_first s;
                 q_dw := q_dw s; q_lastw := q_lastw s; q_fired := q_fired s; q_lastadd := Some (id, ts); q_pending := pend |}
      | EvDB wmk =>
          if negb (existsb (fun r => ssane c base (rts r) && (rts r - sooo c =? wmk)) (q_seen s)) then inr SWatermarkOrigin
          else if match q_lastw s with Some l => wmk <=? l | None => false end then inr SWatermarkOrigin
          else inl {| q_seen := q_seen s; q_maxts := q_maxts s; q_ontime := q_ontime s ++ q_ontime_new s; q_ontime_new := [];
                      q_first := q_first s; q_dw := Some wmk; q_lastw := Some wmk; q_fired := q_fired s; q_lastadd := None; q_pending := [] |}
      | EvDE =>
          match q_dw s with
          | None => inl s
          | Some wmk =>
              let firstv := match q_first s with Some f => f | None => 0 end in
              let lost := existsb (fun r =>
                             existsb (fun a => (firstv <=? a) && (a + ssize c <=? wmk) &&
                                               negb (match find_fired a (q_fired s) with Some b => row_in r (b_rows b) | None => false end))
                                     (covers c (rts r))) (q_ontime s) in
              if lost then inr SIntervalLost
              else inl {| q_seen := q_seen s; q_maxts := q_maxts s; q_ontime := q_ontime s; q_ontime_new := q_ontime_new s;
                          q_first := q_first s; q_dw := None; q_lastw := q_lastw s; q_fired := q_fired s; q_lastadd := None; q_pending := [] |}
          end
      | _ => inl s
      end
    end
  end.

Fixpoint schk_trace (c : scfg) (base : Z) (s : scst) (tr : list ev) : option sclause :=
  match tr with
  | [] => match q_pending s with _ :: _ => Some SLateUpdateMissing | [] => None end
  | e :: r => match schk_ev c base s e with inr cl => Some cl | inl s' => schk_trace c base s' r end
  end.

Definition chk_C08 (c : scfg) (base : Z) (tr : list ev) : option sclause := schk_trace c base scst0 tr.

Definition as_cfg (c : scfg) : cfg := {| size := ssize c; ooo := sooo c; lateness := slateness c; idle := 0 |}.

Definition chk_C02_sliding (c : scfg) (base : Z) (tr : list ev) : option sclause :=
  match schk_trace c base scst0 tr with
  | Some cl => Some cl
  | None => match chk_too_late (as_cfg c) base tr with Some _ => Some STooLateCounted | None => None end
  end.
