(* C09 when the window's output channel may overflow (a consumer that lags by more than the channel's
   capacity): the documented policy of sendResult removes WAITING batches, whole. What is delivered must
   then still be, per key tuple, N-blocks of the key's rows -- each delivered result exactly one block
   (i-1)N+1..iN, blocks in increasing order, none twice; a block may be absent, it may not be merged with
   another one or cut. With nothing absent this is chk_C09_sql (Spec/GroupSpec.v). *)
From SV Require Export Spec.GroupSpec.

(* a is b with some elements removed (greedy matching decides it) *)
Fixpoint zll_sub (a b : list (list Z)) : bool :=
  match b with
  | [] => match a with [] => true | _ :: _ => false end
  | y :: b' =>
      match a with
      | [] => true
      | x :: a' => if zlist_eqb x y then zll_sub a' b' else zll_sub a b'
      end
  end.

Definition chk_C09_lossy (n : nat) (rows : list krow) (batches : list (list Z)) : option gclause :=
  match chk_batches_homog rows batches with
  | Some c => Some c
  | None =>
      if negb (forallb (fun b => Nat.eqb (length b) n) batches) then Some GBatchSize
      else if negb (znodup (concat batches)) then Some GTwice
      else if negb (forallb (fun r =>
                      let t := ktuple_of r in
                      let mine := filter (fun b => match batch_tuple rows b with
                                                   | Some u => ktuple_eqb u t | None => false end) batches in
                      let ids := map krid (krows_of t rows) in
                      zll_sub mine (chunks (length ids) n ids)) rows)
           then Some GIthBatch
      else None
  end.

Definition chk_C09_lossy_sql (n : nat) (rows : list krow) (res : list gres) : option gclause :=
  match chk_C09_lossy n rows (map g_ids res) with
  | Some c => Some c
  | None =>
      first_some (map (fun g =>
        match batch_tuple rows (g_ids g) with
        | None => Some GUnknownRow
        | Some t =>
            if negb (ktuple_eqb (g_tuple g) t) then Some GTupleName
            else if negb (Z.eqb (g_count g) (Z.of_nat n)) then Some GCount
            else if negb (Z.eqb (g_first g) (hd 0%Z (g_ids g)) && Z.eqb (g_last g) (last (g_ids g) 0%Z)) then Some GFirstLast
            else None
        end) res)
  end.
