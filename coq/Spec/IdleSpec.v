(* C02, idle-timeout clause at SQL level (wall clock involved, so only observable facts are judged):
   "a window result is never delivered before some ingested event has a timestamp of at least
   window_end + MAXOUTOFORDERNESS (or the idle timeout elapsed)", and no on-time row is lost.
   emits: (wall-clock ms of the Emit call, event timestamp ms); deliveries: (wall-clock ms, window_end ms,
   number of rows). Wall-clock readings come from the harness; slack absorbs scheduling jitter. *)
From Coq Require Import List ZArith Bool.
Import ListNotations.
Open Scope Z_scope.

Inductive iclause := IEarlyFire | IRowsLost | INeverFired.

Definition last_emit_before (t : Z) (emits : list (Z * Z)) : option Z :=
  fold_left (fun acc e => if fst e <=? t then Some (match acc with Some a => Z.max a (fst e) | None => fst e end) else acc) emits None.

Definition chk_idle (idle ooo slack expect_rows : Z) (emits : list (Z * Z)) (dels : list (Z * Z * Z)) : list iclause :=
  let early := existsb (fun d =>
      let '(td, wend, _) := d in
      let by_event := existsb (fun e => (fst e <=? td) && (wend + ooo <=? snd e)) emits in
      let by_idle := match last_emit_before td emits with Some l => idle - slack <=? td - l | None => false end in
      negb (by_event || by_idle)) dels in
  let total := fold_left (fun acc d => acc + snd d) dels 0 in
  (* if the producer itself stalled for the idle timeout (an overloaded machine), an idle firing in the
     middle of the stream is legitimate and later rows are rightly late: the loss clause is then not judged *)
  let stalled := (fix gaps (l : list (Z * Z)) : bool :=
                    match l with a :: ((b :: _) as r) => (idle - slack <=? fst b - fst a) || gaps r | _ => false end) emits in
  (if early then [IEarlyFire] else [])
  ++ (match dels with [] => [INeverFired] | _ => if (total =? expect_rows) || stalled then [] else [IRowsLost] end).
