(* C10 (and the session half of C02) as an executable checker over a trace of observable events. *)
From SV Require Export Model.Session.

Inductive nclause :=
| NWrongKey            (* a session result holds a row of another key *)
| NUnknownRow
| NTwice               (* a row is reported in two sessions *)
| NEndNotLatestPlusTimeout
| NStartNotEarliest    (* window_start is not the earliest timestamp of the session *)
| NGapNotSplit         (* two consecutive events of a session are further apart than the timeout *)
| NSplitWithinTimeout  (* a key's events closer than the timeout reported in different sessions *)
| NEarlyDelivery       (* a session delivered before a watermark >= its end was received *)
| NWatermarkOrigin
| NOnTimeLost          (* all sessions of a key are past the watermark, yet an on-time row is unreported *)
| NLateUpdateShape
| NFarFuture.          (* a far-future timestamp appears in a result *)

Definition nsane (c : ncfg) (base ts : Z) : bool := ts <=? base + nooo c + day.

Record fsess := { f_key : Z; f_start : Z; f_end : Z; f_rows : list krow }.

Record ncst := {
  m_seen : list krow; m_maxts : option Z;
  m_ontime : list krow;            (* on-time sane rows so far *)
  m_dw : option Z; m_lastw : option Z;
  m_fired : list fsess;            (* sessions reported so far, latest contents, latest first *)
  m_lastadd : option krow;
  m_emitted : list Z
}.
Definition ncst0 : ncst := {| m_seen := []; m_maxts := None; m_ontime := []; m_dw := None; m_lastw := None;
                              m_fired := []; m_lastadd := None; m_emitted := [] |}.

Definition krow_in (r : krow) (l : list krow) : bool :=
  existsb (fun x => (kid x =? kid r) && (kts x =? kts r) && (kkey x =? kkey r)) l.
Definition krows_eqb (a b : list krow) : bool :=
  Nat.eqb (length a) (length b) && forallb (fun p => (kid (fst p) =? kid (snd p)) && (kts (fst p) =? kts (snd p)) && (kkey (fst p) =? kkey (snd p))) (combine a b).

Fixpoint zmin_list (d : Z) (l : list Z) : Z := match l with [] => d | x :: r => Z.min x (zmin_list x r) end.
Fixpoint zmax_list (d : Z) (l : list Z) : Z := match l with [] => d | x :: r => Z.max x (zmax_list x r) end.

(* insertion sort of timestamps *)
Fixpoint zins (x : Z) (l : list Z) : list Z :=
  match l with [] => [x] | y :: r => if x <=? y then x :: l else y :: zins x r end.
Definition zsort (l : list Z) : list Z := fold_right zins [] l.
Fixpoint gaps_ok (t : Z) (l : list Z) : bool :=
  match l with x :: ((y :: _) as r) => (y - x <=? t) && gaps_ok t r | _ => true end.

Definition omaxz (a : Z) (m : option Z) : Z := match m with None => a | Some b => Z.max a b end.

Fixpoint replace_fsess (f : fsess) (l : list fsess) : list fsess :=
  match l with
  | [] => []
  | x :: r => if (f_key x =? f_key f) && (f_start x =? f_start f) then f :: r else x :: replace_fsess f r
  end.

Definition clear_nlast (s : ncst) : ncst :=
  {| m_seen := m_seen s; m_maxts := m_maxts s; m_ontime := m_ontime s; m_dw := m_dw s; m_lastw := m_lastw s;
     m_fired := m_fired s; m_lastadd := None; m_emitted := m_emitted s |}.

Definition cl_if (b : bool) (cl : nclause) : list nclause := if b then [cl] else [].

(* one event: the new checker state and the clauses this event violates (scanning continues, so that a
   recorded finding does not mask a different violation later in the same trace) *)
Definition nchk_ev (c : ncfg) (base : Z) (s : ncst) (e : sev) : ncst * list nclause :=
  match e with
  | SvAdd id ts key =>
      let sn := nsane c base ts in
      let m' := if sn then Some (omaxz ts (m_maxts s)) else m_maxts s in
      let ontime := sn && (match m_maxts s with None => true | Some m => m - nooo c <=? ts end) in
      ({| m_seen := m_seen s ++ [(id, ts, key)]; m_maxts := m';
          m_ontime := if ontime then m_ontime s ++ [(id, ts, key)] else m_ontime s;
          m_dw := m_dw s; m_lastw := m_lastw s; m_fired := m_fired s; m_lastadd := Some (id, ts, key); m_emitted := m_emitted s |}, [])
  | SvNoTs _ | SvTick | SvD0 => (clear_nlast s, [])
  | SvDB wmk =>
      ({| m_seen := m_seen s; m_maxts := m_maxts s; m_ontime := m_ontime s; m_dw := Some wmk; m_lastw := Some wmk;
          m_fired := m_fired s; m_lastadd := None; m_emitted := m_emitted s |},
       cl_if (negb (existsb (fun r => nsane c base (kts r) && (kts r - nooo c =? wmk)) (m_seen s))
              || match m_lastw s with Some l => wmk <=? l | None => false end) NWatermarkOrigin)
  | SvDE =>
      match m_dw s with
      | None => (clear_nlast s, [])
      | Some wmk =>
          (* a key all of whose on-time rows are older than wmk - timeout has no open session left *)
          let keydone := fun k => forallb (fun r => negb (kkey r =? k) || (kts r + ntimeout c <=? wmk)) (m_ontime s) in
          ({| m_seen := m_seen s; m_maxts := m_maxts s; m_ontime := m_ontime s; m_dw := None; m_lastw := m_lastw s;
              m_fired := m_fired s; m_lastadd := None; m_emitted := m_emitted s |},
           cl_if (existsb (fun r => keydone (kkey r) && negb (existsb (Z.eqb (kid r)) (m_emitted s))) (m_ontime s)) NOnTimeLost)
      end
  | SvBatch key st en rows =>
      let basic := cl_if (negb (forallb (fun r => kkey r =? key) rows)) NWrongKey
                   ++ cl_if (negb (forallb (fun r => krow_in r (m_seen s)) rows)) NUnknownRow
                   ++ cl_if (existsb (fun r => negb (nsane c base (kts r))) rows) NFarFuture in
      match find (fun f => (f_key f =? key) && (f_start f =? st) && (f_end f =? en)) (m_fired s) with
      | Some prev =>
          (* re-delivery of a reported session: previous contents plus the late row just added *)
          let ok := match m_lastadd s with
                    | Some r => (0 <? nlateness c) && krows_eqb rows (f_rows prev ++ [r]) && (kkey r =? key) && (st <=? kts r) && (kts r <? en)
                    | None => false
                    end in
          ({| m_seen := m_seen s; m_maxts := m_maxts s; m_ontime := m_ontime s; m_dw := m_dw s; m_lastw := m_lastw s;
              m_fired := replace_fsess {| f_key := key; f_start := st; f_end := en; f_rows := rows |} (m_fired s);
              m_lastadd := None; m_emitted := m_emitted s ++ match m_lastadd s with Some r => [kid r] | None => [] end |},
           basic ++ cl_if (negb ok) NLateUpdateShape)
      | None =>
          let tss := map kts rows in
          ({| m_seen := m_seen s; m_maxts := m_maxts s; m_ontime := m_ontime s; m_dw := m_dw s; m_lastw := m_lastw s;
              m_fired := {| f_key := key; f_start := st; f_end := en; f_rows := rows |} :: m_fired s;
              m_lastadd := None; m_emitted := m_emitted s ++ map kid rows |},
           basic
           ++ cl_if (existsb (fun r => existsb (Z.eqb (kid r)) (m_emitted s)) rows) NTwice
           ++ cl_if (match m_dw s with Some wmk => negb (en <=? wmk) | None => true end) NEarlyDelivery
           ++ cl_if (negb (en =? zmax_list 0 tss + ntimeout c)) NEndNotLatestPlusTimeout
           ++ cl_if (negb (gaps_ok (ntimeout c) (zsort tss))) NGapNotSplit
           ++ cl_if (negb (st =? zmin_list 0 tss)) NStartNotEarliest
           (* no other session of this key is closer than the timeout; only rows that were on time count: a late row
              absorbed by a fired session keeps that session's window_id (C02), so it does not extend it *)
           ++ cl_if (let ont := fun l => map kts (filter (fun r => krow_in r (m_ontime s)) l) in
                     existsb (fun f => (f_key f =? key) &&
                                  existsb (fun a => existsb (fun b => Z.abs (a - b) <? ntimeout c) (ont rows)) (ont (f_rows f)))
                             (m_fired s)) NSplitWithinTimeout)
      end
  end.

Fixpoint nchk_trace (c : ncfg) (base : Z) (s : ncst) (tr : list sev) : list nclause :=
  match tr with
  | [] => []
  | e :: r => let '(s', cls) := nchk_ev c base s e in cls ++ nchk_trace c base s' r
  end.

(* every clause violated somewhere in the trace (empty = the trace satisfies the property) *)
Definition chk_C10 (c : ncfg) (base : Z) (tr : list sev) : list nclause := nchk_trace c base ncst0 tr.
