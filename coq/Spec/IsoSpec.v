(* C20 — the property as checkers over the implementation's own observables.
   The observables are canonical encodings (byte strings) of nested values: a deep snapshot of the
   caller's map before and after Emit/EmitSync, a row at delivery to a sink and later, the output
   of an instance alone and next to another instance.  The property demands equality in each case;
   the checker names the violated clause. *)
From SV Require Import Base.Bytes Model.Isolation.

(* IClDeliveredAliasesCaller: after the receiver overwrote the row maps it was given, the caller's map
   (deep snapshot) differs from what it was before Emit: a delivered row IS one of the caller's maps *)
Inductive iclause := IClCallerMutated | IClSinkRowChanged | IClInstanceInterference | IClDeliveredAliasesCaller.

Definition iso_chk_same (cl : iclause) (a b : bytes) : option iclause :=
  if bytes_eqb a b then None else Some cl.

(* structural equality of model values (deep: nested lists and maps) *)
Fixpoint iso_val_eqb (a b : ival) {struct a} : bool :=
  match a, b with
  | INull, INull => true
  | IInt x, IInt y => Z.eqb x y
  | IStr x, IStr y => bytes_eqb x y
  | IList x, IList y =>
      (fix go (x y : list ival) : bool :=
         match x, y with
         | [], [] => true
         | u :: x', v :: y' => iso_val_eqb u v && go x' y'
         | _, _ => false
         end) x y
  | IMap x, IMap y =>
      (fix go (x y : list (bytes * ival)) : bool :=
         match x, y with
         | [], [] => true
         | (k, u) :: x', (k', v) :: y' => bytes_eqb k k' && iso_val_eqb u v && go x' y'
         | _, _ => false
         end) x y
  | _, _ => false
  end.

(* the caller's map after the call, as the implementation left it, against the map it passed in
   (both parsed from the snapshots, keys in canonical order) *)
Definition iso_chk_caller (before after : irow) : option iclause :=
  if iso_val_eqb (IMap before) (IMap after) then None else Some IClCallerMutated.
