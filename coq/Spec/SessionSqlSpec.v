(* Quiescent checker for session windows at SQL level (public API, real goroutines, unknown schedule):
   emitted events in emission order and the result rows of a synchronous sink; a final event of a fresh
   key far ahead pushed the watermark to wmk and the run waited for quiescence. *)
From SV Require Export Spec.SessionSpec.

Record nqres := { nr_key : Z; nr_start : Z; nr_end : Z; nr_ids : list Z; nr_count : Z }.

Fixpoint ontime_krows (c : ncfg) (m : option Z) (evs : list krow) : list krow :=
  match evs with
  | [] => []
  | e :: r =>
      let ok := match m with None => true | Some mx => mx - nooo c <=? kts e end in
      let m' := Some (omaxz (kts e) m) in
      if ok then e :: ontime_krows c m' r else ontime_krows c m' r
  end.

Definition find_krow (i : Z) (evs : list krow) : option krow := find (fun e => kid e =? i) evs.

Definition nq_res (c : ncfg) (evs : list krow) (r : nqres) : list nclause :=
  let rows := map (fun i => find_krow i evs) (nr_ids r) in
  let tss := flat_map (fun o => match o with Some e => [kts e] | None => [] end) rows in
  cl_if (existsb (fun o => match o with None => true | Some _ => false end) rows) NUnknownRow
  ++ cl_if (existsb (fun o => match o with Some e => negb (kkey e =? nr_key r) | None => false end) rows) NWrongKey
  ++ cl_if (negb (nr_count r =? Z.of_nat (length (nr_ids r)))) NLateUpdateShape   (* the reported count is not the number of listed rows *)
  ++ cl_if (negb (nr_end r =? zmax_list 0 tss + ntimeout c)) NEndNotLatestPlusTimeout
  ++ cl_if (negb (gaps_ok (ntimeout c) (zsort tss))) NGapNotSplit
  ++ cl_if (negb (nr_start r =? zmin_list 0 tss)) NStartNotEarliest.

Fixpoint dup_ids (l : list Z) : bool :=
  match l with [] => false | x :: r => existsb (Z.eqb x) r || dup_ids r end.

Definition chk_session_sql (c : ncfg) (wmk : Z) (evs : list krow) (res : list nqres) : list nclause :=
  let ot := ontime_krows c None evs in
  let reported := flat_map nr_ids res in
  let keydone := fun k => forallb (fun r => negb (kkey r =? k) || (kts r + ntimeout c <=? wmk)) ot in
  flat_map (nq_res c evs) res
  ++ cl_if (dup_ids reported) NTwice
  ++ cl_if (existsb (fun r => keydone (kkey r) && negb (existsb (Z.eqb (kid r)) reported)) ot) NOnTimeLost.
