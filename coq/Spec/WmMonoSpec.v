(* C02, watermark monotonicity as an executable clause: the current watermark, read after every operation
   (None = not set yet), never moves backwards - whichever of its two writers (an accepted event, the idle-source
   advance of the ticker) moved it last. *)
From SV Require Export Model.Tumbling.

Definition wm_le (a b : option Z) : bool :=
  match a, b with
  | None, _ => true
  | Some _, None => false
  | Some x, Some y => x <=? y
  end.

(* index of the first observation that is below its predecessor *)
Fixpoint wm_regress_at (prev : option Z) (obs : list (option Z)) (i : nat) : option nat :=
  match obs with
  | [] => None
  | o :: r => if wm_le prev o then wm_regress_at o r (S i) else Some i
  end.
Definition wm_regress (obs : list (option Z)) : option nat := wm_regress_at None obs 0.

(* the model's own observations: the current watermark after each operation of a history *)
Fixpoint run_curs (c : cfg) (s : st) (h : list op) : list (option Z) :=
  match h with
  | [] => []
  | o :: r => let s1 := fst (step c s o) in cur (w s1) :: run_curs c s1 r
  end.

(* C02, the future guard as an executable clause: no received watermark is more than a day ahead of the latest
   clock reading of the history (an event more than 24 h + MAXOUTOFORDERNESS ahead of the wall clock never moves the
   watermark, however far earlier accepted events were ahead). Index of the first offending watermark. *)
Fixpoint wm_beyond_at (limit : Z) (tr : list ev) (i : nat) : option nat :=
  match tr with
  | [] => None
  | EvDB x :: r => if limit <? x then Some i else wm_beyond_at limit r (S i)
  | _ :: r => wm_beyond_at limit r (S i)
  end.
Definition wm_beyond_guard (maxclock : Z) (tr : list ev) : option nat := wm_beyond_at (maxclock + day) tr 0.

(* every clock reading of a history is at most n *)
Definition op_clock_le (n : Z) (o : op) : Prop :=
  match o with Add _ _ now => now <= n | Tick now => now <= n | _ => True end.
