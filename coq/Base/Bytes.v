(* Byte strings: Go strings are byte strings; a byte is an N below 256. *)
From Coq Require Export List NArith ZArith Bool.
Export ListNotations.

Notation byte := N.
Notation bytes := (list byte).

Fixpoint bytes_eqb (a b : bytes) : bool :=
  match a, b with
  | [], [] => true
  | x :: a', y :: b' => N.eqb x y && bytes_eqb a' b'
  | _, _ => false
  end.

Fixpoint has_prefix (t p : bytes) {struct p} : bool :=
  match p with
  | [] => true
  | x :: p' => match t with [] => false | c :: t' => N.eqb x c && has_prefix t' p' end
  end.

Definition has_suffix (t p : bytes) : bool := has_prefix (rev t) (rev p).

Fixpoint contains (t p : bytes) : bool :=
  has_prefix t p || match t with [] => false | _ :: t' => contains t' p end.
