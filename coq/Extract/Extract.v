(* Extraction of the executable models. ExtrOcamlBasic only (bool, option, list, prod, unit,
   sumbool map to OCaml's own types); N, Z, positive, nat and Q stay the extracted inductive
   datatypes. No Extract Constant / Extract Inductive directive of our own. *)
From Coq Require Import Extraction ExtrOcamlBasic.
From SV Require Import Model.Like.
Extraction Language OCaml.
Set Extraction Optimize.
Extraction "model.ml"
  like like_match like_match_opt like_match_asis convert eval_rewritten rw_tag is_null is_not_null.
