From SV Require Import Model.Cond.
