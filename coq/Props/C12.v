(* C12 — Predicate fast paths decide exactly as the general evaluator.
   Only statements, each closed by [exact]; proofs live in Proofs/CondProofs.v.
   Model: Model/Cond.v (condition/condition.go after the three fix: commits; [_asis] = the code as found).
   [shape]  = a comparison `field OP literal` or a flat chain of them joined by only && or only ||;
   [fast s r]     = the answer of the compiled shortcut ([None]: none compiled, or it declined the row);
   [general s r]  = the general evaluator (expr-lang) on the same predicate: [GB b] or [GErr];
   [evaluate s r] = ExprCondition.Evaluate;  [compiles s] = expr.Compile accepts the text. *)
From Coq Require Import List NArith ZArith Bool.
From SV Require Import Base.Bytes Model.Cond Spec.CondSpec Proofs.CondProofs.
Import ListNotations.
Open Scope Z_scope.

(* Whenever a shortcut answers, the general evaluator gives the same answer (and does not fail):
   every operator, integer / fractional / quoted literals, every value type and value -- integers of
   all widths and of any magnitude, float64/float32 incl. NaN and +-Inf, strings, bools, nil,
   missing, other types --, single comparisons and flat chains, every row. *)
Theorem C12_fast_agrees : forall (s : shape) (r : row) (b : bool),
  compiles s = true -> fast s r = Some b -> general s r = GB b.
Proof. exact fast_agrees. Qed.
Print Assumptions C12_fast_agrees.

(* Hence Evaluate is the general evaluator's decision (an evaluation error counts as reject). *)
Theorem C12_evaluate_agrees : forall (s : shape) (r : row),
  compiles s = true -> evaluate s r = eval_general s r.
Proof. exact evaluate_agrees. Qed.
Print Assumptions C12_evaluate_agrees.

(* A predicate whose evaluation fails rejects the row, and no shortcut answers in its place. *)
Theorem C12_error_rejects : forall (s : shape) (r : row),
  compiles s = true -> general s r = GErr -> evaluate s r = false /\ fast s r = None.
Proof. exact error_rejects. Qed.
Print Assumptions C12_error_rejects.

(* Flat AND/OR chains: when every part's shortcut answers (answers bs), the shortcut of the chain
   answers their conjunction / disjunction, and that is what the general evaluator's left-to-right
   short-circuit evaluation yields. *)
Theorem C12_compound_agrees : forall (a : bool) (cs : list ccmp) (fcs : list fcmp) (r : row) (bs : list bool),
  chain_status cs = 0%N ->
  compile_all compile_fast_cmp cs = Some fcs ->
  Forall2 (fun fc b => fast_cmp_eval fc r = Some b) fcs bs ->
  let v := if a then forallb (fun x : bool => x) bs else existsb (fun x : bool => x) bs in
  fast (SChain a cs) r = Some v /\ general (SChain a cs) r = GB v.
Proof. exact compound_agrees. Qed.
Print Assumptions C12_compound_agrees.

(* Any part that has no shortcut, or whose shortcut declines the row, leaves the whole chain to the
   general evaluator. *)
Theorem C12_chain_falls_back_whole : forall (a : bool) (cs : list ccmp) (r : row),
  ((exists c, In c cs /\ compile_fast_cmp c = None) -> fast (SChain a cs) r = None) /\
  (forall fcs, compile_all compile_fast_cmp cs = Some fcs ->
     (exists fc, In fc fcs /\ fast_cmp_eval fc r = None) -> fast (SChain a cs) r = None).
Proof.
  intros a cs r. split.
  - intros H. unfold fast. rewrite (chain_not_compiled a cs H). reflexivity.
  - intros fcs Hc H. unfold fast, compile_fast, compile_fast_with. rewrite Hc. simpl.
    exact (chain_declines a fcs r a H).
Qed.
Print Assumptions C12_chain_falls_back_whole.

(* Why the repaired shortcut may compare integers as float64: the conversion is exact up to 2^53. *)
Theorem C12_float64_exact_upto_2_53 : forall z : Z, Z.abs z <= 9007199254740992 -> round64Z z = z.
Proof. exact round64Z_exact. Qed.
Print Assumptions C12_float64_exact_upto_2_53.

(* ... and beyond 2^53 it is round-to-nearest, ties-to-even, to 53 significant bits (what Go's
   float64(x) does): the result is +-q' * 2^sh with sh = floor(log2 |z|) - 52, q' of at most 53 bits,
   a nearest multiple of 2^sh, and even when z lies half-way. This is the conversion the code as
   found applied to both sides, and the one the general evaluator applies for float operands. *)
Theorem C12_zlog2_is_floor_log2 : forall a : Z, 0 < a -> 2 ^ zlog2 a <= a < 2 ^ (zlog2 a + 1).
Proof. exact zlog2_spec. Qed.
Print Assumptions C12_zlog2_is_floor_log2.

Theorem C12_float64_round_nearest_even : forall z : Z,
  9007199254740992 <= Z.abs z ->
  let a := Z.abs z in
  let sh := zlog2 a - 52 in
  1 <= sh /\
  exists q', round64Z z = Z.sgn z * (q' * 2 ^ sh) /\
             2 ^ 52 <= q' <= 2 ^ 53 /\
             2 * Z.abs (q' * 2 ^ sh - a) <= 2 ^ sh /\
             (2 * Z.abs (q' * 2 ^ sh - a) = 2 ^ sh -> Z.even q' = true).
Proof. exact round64Z_nearest_even. Qed.
Print Assumptions C12_float64_round_nearest_even.

(* The extracted checker run on the implementation's own answers says exactly "the two forms decide
   alike and the shortcut's answer is the parenthesised form's". *)
Theorem C12_checker_sound : forall plain paren f,
  chk_C12 plain paren f = None <->
  (plain <> ObsNoCompile -> paren <> ObsNoCompile ->
   plain = paren /\ forall b, f = Some b -> paren = obs_of_bool b).
Proof. exact chk_C12_sound. Qed.
Print Assumptions C12_checker_sound.

(* Concurrent evaluations of one compiled predicate (K lines of the harness): the extracted checker
   [chk_C12K] is silent exactly when no evaluation aborted and none answered the opposite of the
   expected decision ... *)
Theorem C12_concurrent_checker_sound : forall (e : bool) (nt nf np : N),
  chk_C12K e nt nf np = None <->
  (np = 0%N /\ (e = true -> nf = 0%N) /\ (e = false -> nt = 0%N)).
Proof. exact chk_C12K_sound. Qed.
Print Assumptions C12_concurrent_checker_sound.

(* ... and, fed with the counts of what any number of evaluations of one row answered, exactly when
   every one of them is the decision of the predicate for THAT row (the decision is a function of the
   predicate and the row alone, whatever else is evaluated at the same time). *)
Theorem C12_concurrent_decisions_are_the_rows : forall (s : shape) (r : row) (ds : list bool),
  chk_C12K (evaluate s r) (ncount true ds) (ncount false ds) 0%N = None <->
  (forall d, In d ds -> d = evaluate s r).
Proof. exact chk_C12K_counts. Qed.
Print Assumptions C12_concurrent_decisions_are_the_rows.

(* ---- the code as found violated the statement (repaired by fix: commits; the last conjunct shows
        the repaired shortcut declines) ---- *)
(* F9: x == 9007199254740993, x = int64(9007199254740992): shortcut true, general false *)
Theorem C12_fast_big_int_asis_refuted :
  let s := SCmp (mkCmp [120%N] OEq2 (LInt 9007199254740993)) in
  let r := [([120%N], VI KInt64 9007199254740992)] in
  compiles s = true /\ fast_asis s r = Some true /\ general s r = GB false /\ fast s r = None.
Proof. exact fast_asis_big_int_refuted. Qed.
Print Assumptions C12_fast_big_int_asis_refuted.

(* x > 5, x = uint64(18446744073709551615): shortcut true, general (int(x) = -1) false *)
Theorem C12_fast_uint64_asis_refuted :
  let s := SCmp (mkCmp [120%N] OGt (LInt 5)) in
  let r := [([120%N], VI KUint64 18446744073709551615)] in
  compiles s = true /\ fast_asis s r = Some true /\ general s r = GB false /\ fast s r = None.
Proof. exact fast_asis_uint64_refuted. Qed.
Print Assumptions C12_fast_uint64_asis_refuted.

(* x == 'a\\b' (escaped backslash), x = a\b: shortcut false, general true *)
Theorem C12_fast_escape_asis_refuted :
  let s := SCmp (mkCmp [120%N] OEq2 (LStr [97; 92; 92; 98]%N)) in
  let r := [([120%N], VStr [97; 92; 98]%N)] in
  compiles s = true /\ fast_asis s r = Some false /\ general s r = GB true /\ fast s r = None.
Proof. exact fast_asis_escape_refuted. Qed.
Print Assumptions C12_fast_escape_asis_refuted.

(* nil == 1 on a row with a column named "nil" = 1: shortcut true, general false *)
Theorem C12_fast_nil_asis_refuted :
  let s := SCmp (mkCmp w_nil OEq2 (LInt 1)) in
  let r := [(w_nil, VI KInt 1)] in
  compiles s = true /\ fast_asis s r = Some true /\ general s r = GB false /\ fast s r = None.
Proof. exact fast_asis_nil_refuted. Qed.
Print Assumptions C12_fast_nil_asis_refuted.

(* ---- escaped string literals ---- *)
(* A quoted literal that contains a backslash never gets a shortcut, alone or as a part of a flat
   chain: the predicate is decided by the general evaluator, for every row. *)
Theorem C12_escaped_literal_never_shortcut : forall (s : shape) (r : row),
  match s with
  | SCmp c => has_escaped_lit c
  | SChain _ cs => exists c, In c cs /\ has_escaped_lit c
  end ->
  compile_fast s = None /\ fast s r = None /\ evaluate s r = eval_general s r.
Proof. exact escaped_literal_never_shortcut. Qed.
Print Assumptions C12_escaped_literal_never_shortcut.

(* What the general evaluator reads: \xHH and \ooo denote the CODE POINT, written as UTF-8 ... *)
Theorem C12_hex_escape_is_a_code_point : forall h l hv lv rest,
  hex_val h = Some hv -> hex_val l = Some lv ->
  unescape (92 :: 120 :: h :: l :: rest)%N = uapp (utf8_encode (hv * 16 + lv)%N) (unescape rest).
Proof. exact unescape_hex_escape. Qed.
Print Assumptions C12_hex_escape_is_a_code_point.

Theorem C12_octal_escape_is_a_code_point : forall a b c av bv cv rest,
  oct_val a = Some av -> (av < 4)%N -> oct_val b = Some bv -> oct_val c = Some cv ->
  unescape (92 :: a :: b :: c :: rest)%N = uapp (utf8_encode ((av * 8 + bv) * 8 + cv)%N) (unescape rest).
Proof. exact unescape_octal_escape. Qed.
Print Assumptions C12_octal_escape_is_a_code_point.

(* ... which from \x80 / \200 on is at least two bytes, never the single byte HH that Go's
   strconv.Unquote gives: decoding the literal that way does not yield the literal's value. *)
Theorem C12_code_point_above_ascii_is_not_one_byte : forall v : N,
  (128 <= v)%N -> (2 <= length (utf8_encode v))%nat.
Proof. exact utf8_encode_above_ascii. Qed.
Print Assumptions C12_code_point_above_ascii_is_not_one_byte.

(* x == 'caf\xe9': the general evaluator accepts "café" (UTF-8) and rejects the Latin-1 byte string; a
   shortcut comparing with the byte reading answers the opposite on both rows; the code's declines. *)
Theorem C12_escape_byte_reading_refuted :
  let lit := [99; 97; 102; 92; 120; 101; 57]%N in
  let s := SCmp (mkCmp [120%N] OEq2 (LStr lit)) in
  let utf := [([120%N], VStr [99; 97; 102; 195; 169]%N)] in
  let lat := [([120%N], VStr [99; 97; 102; 233]%N)] in
  let bytefast := mkF [120%N] OEq2 (FLStr [99; 97; 102; 233]%N) in
  compiles s = true /\ str_value lit = UOk [99; 97; 102; 195; 169]%N /\
  general s utf = GB true /\ general s lat = GB false /\
  fast_cmp_eval bytefast utf = Some false /\ fast_cmp_eval bytefast lat = Some true /\
  fast s utf = None /\ fast s lat = None.
Proof. exact escaped_hex_byte_reading_refuted. Qed.
Print Assumptions C12_escape_byte_reading_refuted.

(* the escape decoder on samples: \t, é, \u{1F600}, \377, \U0001F600, a surrogate half (U+FFFD),
   eight digits from 80000000 on (one byte), and texts that do not compile (\x4', \477, \q, \U00110000) *)
Example C12_unescape_samples :
  unescape [97; 92; 116; 98]%N = UOk [97; 9; 98]%N /\
  unescape [92; 117; 48; 48; 101; 57]%N = UOk [195; 169]%N /\
  unescape [92; 117; 123; 49; 70; 54; 48; 48; 125]%N = UOk [240; 159; 152; 128]%N /\
  unescape [92; 51; 55; 55]%N = UOk [195; 191]%N /\
  unescape [92; 85; 48; 48; 48; 49; 70; 54; 48; 48]%N = UOk [240; 159; 152; 128]%N /\
  unescape [92; 117; 100; 56; 48; 48]%N = UOk [239; 191; 189]%N /\
  unescape [92; 85; 70; 70; 70; 70; 70; 70; 52; 49]%N = UOk [65]%N /\
  unescape [92; 120; 52]%N = UBad /\ unescape [92; 52; 55; 55]%N = UBad /\
  unescape [92; 113]%N = UBad /\ unescape [92; 85; 48; 48; 49; 49; 48; 48; 48; 48]%N = UBad.
Proof. vm_compute. repeat split; reflexivity. Qed.

(* ---- comparisons written literal-first (`20 <= x`, `'a' == status`) ---- *)
(* Such a text is not of the shortcut shape: no shortcut is compiled for it, alone or as a part of a flat
   AND/OR chain (the whole chain then falls back), so Evaluate answers what the general evaluator answers. *)
Theorem C12_literal_first_never_shortcut : forall s c, parse_cmp_lf s = Some c ->
  try_fast_compare s = None /\
  (forall t, In s (split_logic [] t) -> try_fast_compound t = None).
Proof. exact literal_first_never_shortcut. Qed.
Print Assumptions C12_literal_first_never_shortcut.

(* The reading parse_cmp_lf gives it (column first, operator mirrored) is the swap of the operands:
   `lit OP v`, i.e. OP on the three-way comparison seen from the literal, holds exactly when
   `v mirror(OP) lit` does - in particular `lit <= v` is `v >= lit`, true on v = lit. *)
Theorem C12_mirror_op_swaps_operands : forall o c,
  op_holds (mirror_op o) (option_map CompOpp c) = op_holds o c.
Proof. exact mirror_op_swaps_operands. Qed.
Print Assumptions C12_mirror_op_swaps_operands.

Theorem C12_mirror_op_involutive : forall o, mirror_op (mirror_op o) = o.
Proof. exact mirror_op_involutive. Qed.
Print Assumptions C12_mirror_op_involutive.

(* "20 <= x" and "y > 0 && 20 <= x": read as x >= 20, no shortcut, and x = 20 is accepted *)
Example C12_literal_first_example :
  let t := [50; 48; 32; 60; 61; 32; 120]%N in
  let u := [121; 32; 62; 32; 48; 32; 38; 38; 32; 50; 48; 32; 60; 61; 32; 120]%N in
  parse_cmp_lf t = Some (mkCmp [120%N] OGe (LInt 20)) /\ parse_shape t = None /\ fast_of_text t = None /\
  fast_of_text u = None /\
  parse_shape_any u = Some (SChain true [mkCmp [121%N] OGt (LInt 0); mkCmp [120%N] OGe (LInt 20)]) /\
  eval_general (SCmp (mkCmp [120%N] OGe (LInt 20))) [([120%N], VI KInt 20)] = true /\
  eval_general (SCmp (mkCmp [120%N] OGe (LInt 20))) [([120%N], VI KInt 19)] = false.
Proof. vm_compute. repeat split; reflexivity. Qed.

(* ---- non-vacuity: the hypotheses are satisfiable and the shortcuts do answer ---- *)
(* "x >= 5 && y == 'ab'" read from its text, on x = int32(7), y = "ab": chain shortcut answers true;
   on x = nil the chain is left to the general evaluator, whose evaluation fails: rejected *)
Example C12_example :
  let t := [120; 32; 62; 61; 32; 53; 32; 38; 38; 32; 121; 32; 61; 61; 32; 39; 97; 98; 39]%N in
  let s := SChain true [mkCmp [120%N] OGe (LInt 5); mkCmp [121%N] OEq2 (LStr [97; 98]%N)] in
  parse_shape t = Some s /\ compiles s = true /\ fast_of_text t = compile_fast s /\
  fast s [([120%N], VI KInt32 7); ([121%N], VStr [97; 98]%N)] = Some true /\
  fast s [([120%N], VNil); ([121%N], VStr [97; 98]%N)] = None /\
  general s [([120%N], VNil); ([121%N], VStr [97; 98]%N)] = GErr /\
  evaluate s [([120%N], VNil); ([121%N], VStr [97; 98]%N)] = false /\
  fast (SCmp (mkCmp [120%N] OLt (LFrac false 15 1))) [([120%N], VF64 FNaN)] = Some false.
Proof. vm_compute. repeat split; reflexivity. Qed.

(* the model's float64(x) is the kernel's binary64 conversion on boundary samples *)
Example C12_round64Z_matches_binary64 :
  round64Z 9007199254740993 = 9007199254740992 /\ round64Z 9007199254740995 = 9007199254740996
  /\ round64Z (-9007199254740993) = -9007199254740992 /\ round64Z 18446744073709551615 = 18446744073709551616.
Proof. vm_compute. repeat split; reflexivity. Qed.
