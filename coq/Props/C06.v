(* C06 — scalar expressions: SQL arithmetic, comparison, logic, CASE and NULL.
   Only statements, each closed by [exact]; proofs live in Proofs/Expr*.v.
   Models: Model/ExprSyntax.v (tokens, precedence-ladder parser of expr/parser.go, printer),
           Model/ExprEval.v (evaluateNodeValue / ...WithNull / evaluateBoolNode / compareValues / CASE),
           Model/Sem.v (reference semantics of the statement). *)
From Coq Require Import SetoidList Qabs.
From SV Require Import Model.Sem Model.ExprFuncs Proofs.ExprParseProofs Proofs.ExprEvalProofs Proofs.ExprPadProofs Proofs.ExprFuncsProofs.

(* precedence and parentheses: the parser reads back exactly the tree the printer wrote, where the
   printer inserts only the parentheses the ladder OR < AND < comparison < + - < * / % < ^ < unary -
   needs (and keeps those the user wrote) *)
Theorem C06_parse_print : forall t, wf_top t -> xparse (xprint t) = Some (xelab t).
Proof. exact parse_print. Qed.
Print Assumptions C06_parse_print.

(* the value a SELECT item gets (EvaluateValueWithNull, error -> NULL) is the reference value, for
   every expression in the reference semantics' domain whose comparison operands / call arguments
   are present columns (possibly NULL) *)
Theorem C06_eval_agrees_sem : forall row t v,
  sem_top row t = Some v -> cols_ok_top row t = true ->
  select_value (top_value_null row (xelab t)) = Some v.
Proof. exact top_agrees_sem. Qed.
Print Assumptions C06_eval_agrees_sem.

(* the same for conditions (EvaluateBool, WHEN): true exactly when the reference says true *)
Theorem C06_cond_agrees_sem : forall row e v b,
  sem row e = Some v -> as_bool v = Some b -> is_cond e = true -> cols_ok row Lax e = true ->
  eb row (elab 0 e) = OVal b.
Proof. exact eb_agrees_sem. Qed.
Print Assumptions C06_cond_agrees_sem.

(* a NULL or missing column makes an arithmetic expression NULL (no typing hypothesis) *)
Theorem C06_null_propagates : forall row e r,
  arith_only e = true -> has_null_col row e = true ->
  select_value (evn row (elab 0 e)) = Some r -> r = VNull.
Proof. exact null_propagates. Qed.
Print Assumptions C06_null_propagates.

(* ... and a comparison with such an operand is never true, in the hand-written engine *)
Theorem C06_cmp_null_not_true : forall row c l r,
  (arith_only l = true /\ has_null_col row l = true) \/ (arith_only r = true /\ has_null_col row r = true) ->
  eb row (elab 0 (ECmp c l r)) <> OVal true.
Proof. exact cmp_null_not_true. Qed.
Print Assumptions C06_cmp_null_not_true.

(* CASE returns the first branch whose condition is true, else ELSE, else NULL — whenever every
   condition evaluates without an error *)
Theorem C06_case_first_true : forall row ws els,
  Forall (fun w => exists b, eb row (fst w) = OVal b) ws ->
  case_search_n row ws els =
  match first_true row ws with
  | Some x => evn row x
  | None => match els with Some e => evn row e | None => OVal (VNull, true) end
  end.
Proof. exact case_first_true. Qed.
Print Assumptions C06_case_first_true.

(* lpad / rpad: the documented value.  A string that is long enough is returned unchanged; otherwise
   the result has exactly n bytes, keeps the string at its end (lpad) / start (rpad), and byte i of the
   filling is byte (i mod |pad|) of the pad - for every pad length and every gap, multiple or not *)
Theorem C06_pad_documented_value : forall (left : bool) (s : bytes) (n : nat) (pad : bytes),
  (n <= length s -> pad_value left s n pad = s)%nat /\
  (length s < n ->
     exists fill, pad_value left s n pad = (if left then fill ++ s else s ++ fill) /\
       length fill = n - length s /\
       length (pad_value left s n pad) = n /\
       (pad <> [] -> forall (i : nat) (d : byte), i < n - length s -> nth i fill d = nth (i mod length pad) pad d))%nat.
Proof. exact pad_value_spec. Qed.
Print Assumptions C06_pad_documented_value.

(* ... and it is what a call evaluates to in the model of the engine (and hence, by
   C06_eval_agrees_sem, in the reference semantics) *)
Theorem C06_pad_call : forall (left : bool) (s : bytes) (n : nat) (pad : bytes),
  fn_call (if left then nm_lpad else nm_rpad) [VStr s; VNum (inject_Z (Z.of_nat n)); VStr pad]
  = FOk (VStr (pad_value left s n pad)).
Proof. exact fn_call_pad. Qed.
Print Assumptions C06_pad_call.

(* ================= the documented value of the other built-ins (Model/ExprFuncs.v) =================
   [fx_call name args] is Validate (argument count) followed by Execute, over scalars and arrays of
   scalars; the correspondence check judges the three dispatchers of the engine by it (G lines). *)

(* a call ends in a value, an error, or outside the modelled fragment - nothing else (no panic), for
   every name and every argument list; so does every expression built from calls *)
Theorem C06_call_total : forall n args,
  (exists v, fx_call n args = YOk v) \/ fx_call n args = YErr \/ fx_call n args = YUnm.
Proof. exact fx_call_total. Qed.
Print Assumptions C06_call_total.
Theorem C06_call_expr_total : forall row t,
  (exists v, ysem_top row t = YOk v) \/ ysem_top row t = YErr \/ ysem_top row t = YUnm.
Proof. exact ysem_top_total. Qed.
Print Assumptions C06_call_expr_total.

(* a wrong number of arguments is an error, whatever the arguments are *)
Theorem C06_call_bad_arity : forall n a args,
  fx_arity n = Some a -> arity_ok a (length args) = false -> fx_call n args = YErr.
Proof. exact fx_call_bad_arity. Qed.
Print Assumptions C06_call_bad_arity.

(* ---- arrays ---- *)
(* array_distinct: no two equal elements, exactly the elements of the array, in the order of their
   first occurrences (a subsequence in which every first occurrence itself survives) *)
Theorem C06_array_distinct : forall l,
  NoDupA veqP (arr_distinct l) /\
  (forall x, InA veqP x (arr_distinct l) <-> InA veqP x l) /\
  sublist (arr_distinct l) l /\
  (forall l1 x l2, l = l1 ++ x :: l2 -> mem_v x l1 = false ->
     exists r1 r2, arr_distinct l = r1 ++ x :: r2 /\ sublist r1 l1).
Proof. exact arr_distinct_spec. Qed.
Print Assumptions C06_array_distinct.

(* array_remove removes exactly the elements equal to the value and keeps the order of the others *)
Theorem C06_array_remove : forall l v,
  arr_remove l v = filter (fun x => negb (veq x v)) l /\
  sublist (arr_remove l v) l /\
  (forall x, In x (arr_remove l v) <-> In x l /\ veq x v = false) /\
  (mem_v v l = false -> arr_remove l v = l).
Proof. exact arr_remove_spec. Qed.
Print Assumptions C06_array_remove.

(* array_position: 0 iff the value does not occur, otherwise the 1-based index of its first occurrence *)
Theorem C06_array_position : forall l v,
  (arr_position l v = O <-> mem_v v l = false) /\
  (forall p, arr_position l v = S p ->
     (p < length l)%nat /\ veq (nth p l VNull) v = true /\ forall j, (j < p)%nat -> veq (nth j l VNull) v = false).
Proof. exact arr_position_spec. Qed.
Print Assumptions C06_array_position.
Theorem C06_array_contains : forall l v,
  mem_v v l = true <-> exists y, In y l /\ veq v y = true.
Proof. exact arr_contains_spec. Qed.
Print Assumptions C06_array_contains.

(* union / intersection / difference: duplicate-free, with exactly the elements they should have;
   intersection and difference keep the order of the first array *)
Theorem C06_array_union : forall a b,
  NoDupA veqP (arr_union a b) /\
  (forall x, InA veqP x (arr_union a b) <-> InA veqP x a \/ InA veqP x b).
Proof. exact arr_union_spec. Qed.
Print Assumptions C06_array_union.
Theorem C06_array_intersect : forall a b,
  NoDupA veqP (arr_intersect a b) /\ sublist (arr_intersect a b) a /\
  (forall x, InA veqP x (arr_intersect a b) <-> InA veqP x a /\ InA veqP x b).
Proof. exact arr_intersect_spec. Qed.
Print Assumptions C06_array_intersect.
Theorem C06_array_except : forall a b,
  NoDupA veqP (arr_except a b) /\ sublist (arr_except a b) a /\
  (forall x, InA veqP x (arr_except a b) <-> InA veqP x a /\ ~ InA veqP x b).
Proof. exact arr_except_spec. Qed.
Print Assumptions C06_array_except.

(* ---- strings ---- *)
(* upper / lower keep the length, are idempotent, leave no letter of the other case, and are the
   identity on a string that has none *)
Theorem C06_upper_lower : forall s,
  length (map ascii_upper s) = length s /\ length (map ascii_lower s) = length s /\
  map ascii_upper (map ascii_upper s) = map ascii_upper s /\
  map ascii_lower (map ascii_lower s) = map ascii_lower s /\
  forallb (fun c => negb (is_lower_letter c)) (map ascii_upper s) = true /\
  forallb (fun c => negb (is_upper_letter c)) (map ascii_lower s) = true /\
  (forallb (fun c => negb (is_lower_letter c)) s = true -> map ascii_upper s = s) /\
  (forallb (fun c => negb (is_upper_letter c)) s = true -> map ascii_lower s = s).
Proof. exact upper_lower_spec. Qed.
Print Assumptions C06_upper_lower.
Theorem C06_upper_lower_call : forall s, all_ascii s = true ->
  fx_call nm_upper [YS (VStr s)] = ystr (map ascii_upper s) /\
  fx_call nm_lower [YS (VStr s)] = ystr (map ascii_lower s).
Proof. exact fx_upper_call. Qed.
Print Assumptions C06_upper_lower_call.

(* ltrim / rtrim / trim remove exactly a maximal run of blanks at the left / right / both ends:
   what is removed is all blank, what remains neither starts nor ends with a blank; trim is idempotent *)
Theorem C06_trim : forall p s,
  (exists pre, s = pre ++ trim_left p s /\ forallb p pre = true /\ head_not p (trim_left p s)) /\
  (exists post, s = trim_right p s ++ post /\ forallb p post = true /\ head_not p (rev (trim_right p s))) /\
  (exists pre post, s = pre ++ trim_both p s ++ post /\ forallb p pre = true /\ forallb p post = true /\
                    head_not p (trim_both p s) /\ head_not p (rev (trim_both p s))) /\
  trim_both p (trim_both p s) = trim_both p s.
Proof. exact trim_spec. Qed.
Print Assumptions C06_trim.

(* substring(s, start [, len]): a contiguous part of s; for 0 <= start < |s| it starts at start and has
   min(len, |s| - start) bytes; a negative start counts from the end (clamped at 0); a start beyond the
   end and a negative length give the empty string *)
Theorem C06_substring : forall s st len,
  (exists pre post, s = pre ++ substring_b s st len ++ post) /\
  (forall l, (0 <= st < Z.of_nat (length s))%Z -> (0 <= l)%Z -> len = Some l ->
     substring_b s st len = firstn (Z.to_nat l) (skipn (Z.to_nat st) s) /\
     Z.of_nat (length (substring_b s st len)) = Z.min l (Z.of_nat (length s) - st)) /\
  ((0 <= st < Z.of_nat (length s))%Z -> len = None -> substring_b s st len = skipn (Z.to_nat st) s) /\
  ((st < 0)%Z -> substring_b s st len = substring_b s (Z.max 0 (Z.of_nat (length s) + st)) len) /\
  ((Z.of_nat (length s) <= st)%Z -> substring_b s st len = []) /\
  (forall l, (l < 0)%Z -> len = Some l -> substring_b s st len = []).
Proof. exact substring_b_spec. Qed.
Print Assumptions C06_substring.

(* split: the pieces joined by the separator give the string back; without an occurrence there is one piece *)
Theorem C06_split_join : forall s sep, sep <> [] -> join_b sep (split_b s sep) = s.
Proof. exact split_join. Qed.
Print Assumptions C06_split_join.
Theorem C06_split_absent : forall s sep, sep <> [] -> contains s sep = false -> split_b s sep = [s].
Proof. exact split_absent. Qed.
Print Assumptions C06_split_absent.

(* replace(s, old, new) = join(split(s, old), new); an absent needle and new = old leave s unchanged *)
Theorem C06_replace : forall s old new, old <> [] ->
  replace_b s old new = join_b new (split_b s old) /\
  (contains s old = false -> replace_b s old new = s) /\
  replace_b s old old = s.
Proof. exact replace_spec. Qed.
Print Assumptions C06_replace.
Theorem C06_replace_empty_needle : forall s new,
  replace_b s [] new = new ++ flat_map (fun c => c :: new) s /\
  length (replace_b s [] new) = (length s + (length s + 1) * length new)%nat.
Proof. exact replace_empty_spec. Qed.
Print Assumptions C06_replace_empty_needle.

(* startswith / endswith *)
Theorem C06_startswith : forall p t, has_prefix t p = true <-> exists r, t = p ++ r.
Proof. exact has_prefix_iff. Qed.
Print Assumptions C06_startswith.
Theorem C06_endswith : forall p t, has_suffix t p = true <-> exists r, t = r ++ p.
Proof. exact has_suffix_iff. Qed.
Print Assumptions C06_endswith.

(* indexof: -1 iff the needle does not occur; otherwise the needle starts there and nowhere before *)
Theorem C06_indexof : forall s p,
  ((index_b s p = -1)%Z <-> contains s p = false) /\
  (forall k, index_b s p = Z.of_nat k ->
     (k <= length s)%nat /\ has_prefix (skipn k s) p = true /\ forall m, (m < k)%nat -> has_prefix (skipn m s) p = false) /\
  (-1 <= index_b s p <= Z.of_nat (length s))%Z.
Proof. exact index_b_spec. Qed.
Print Assumptions C06_indexof.

Theorem C06_concat : forall l, l <> [] ->
  fx_call nm_concat (map (fun s => YS (VStr s)) l) = ystr (concat l).
Proof. exact fx_concat_strings. Qed.
Print Assumptions C06_concat.

(* ---- numbers ---- *)
(* floor <= x < floor + 1, ceil - 1 < x <= ceil, |x - round x| <= 1/2 *)
Theorem C06_floor_ceil_round : forall q,
  (inject_Z (qfloor q) <= q /\ q < inject_Z (qfloor q) + 1) /\
  (q <= inject_Z (qceil q) /\ inject_Z (qceil q) - 1 < q) /\
  (inject_Z (qround q) - (1 # 2) <= q /\ q <= inject_Z (qround q) + (1 # 2)) /\
  (qfloor q <= qceil q)%Z.
Proof. exact floor_ceil_round_bracket. Qed.
Print Assumptions C06_floor_ceil_round.
Theorem C06_floor_ceil_round_call : forall q,
  fx_call nm_floor [YS (VNum q)] = ynum (qofz (qfloor q)) /\
  fx_call nm_ceil [YS (VNum q)] = ynum (qofz (qceil q)) /\
  fx_call nm_round [YS (VNum q)] = ynum (qofz (qround q)) /\
  fx_call nm_abs [YS (VNum q)] = ynum (qn (Qabs q)).
Proof. exact fx_floor_call. Qed.
Print Assumptions C06_floor_ceil_round_call.

Theorem C06_abs_sign : forall q,
  0 <= qn (Qabs q) /\ (qn (Qabs q) == q \/ qn (Qabs q) == - q) /\
  exists s, fx_call nm_sign [YS (VNum q)] = ynum s /\
            ((0 < q /\ s = 1) \/ (q < 0 /\ s = inject_Z (-1)) \/ (q == 0 /\ s = 0)).
Proof. exact abs_sign_spec. Qed.
Print Assumptions C06_abs_sign.

(* mod(x, y) = x - y * trunc(x / y) (the sign of x); a zero divisor is an error *)
Theorem C06_mod : forall x y, ~ y == 0 ->
  qmod x y == x - y * inject_Z (qtrunc (x / y)) /\
  fx_call nm_mod [YS (VNum x); YS (VNum y)] = ynum (qmod x y) /\
  fx_call nm_mod [YS (VNum x); YS (VNum 0)] = YErr.
Proof. exact mod_spec. Qed.
Print Assumptions C06_mod.

Theorem C06_power : forall x (n m : nat),
  qpown x 0 = 1 /\ qpown x (S n) == x * qpown x n /\ qpown x (n + m) == qpown x n * qpown x m.
Proof. exact power_spec. Qed.
Print Assumptions C06_power.

(* trunc(x, p) cuts toward zero and is less than 10^-p away *)
Theorem C06_trunc : forall q k,
  let u := 1 / inject_Z (p10 k) in
  (0 <= q -> trunc_val q k <= q /\ q < trunc_val q k + u) /\
  (q < 0 -> q <= trunc_val q k /\ trunc_val q k - u < q).
Proof. exact trunc_spec. Qed.
Print Assumptions C06_trunc.
Theorem C06_trunc_call : forall q (k : nat), (Z.of_nat k <= 15)%Z ->
  fx_call nm_trunc [YS (VNum q); YS (VNum (inject_Z (Z.of_nat k)))] = ynum (trunc_val q k).
Proof. exact fx_trunc_call. Qed.
Print Assumptions C06_trunc_call.

(* bitand / bitor / bitxor / bitnot on int64 values are the bitwise operations *)
Theorem C06_bit_ops : forall a b, (Z.abs a < two63)%Z -> (Z.abs b < two63)%Z ->
  fx_call nm_bitand [YS (VNum (inject_Z a)); YS (VNum (inject_Z b))] = yint (Z.land a b) /\
  fx_call nm_bitor [YS (VNum (inject_Z a)); YS (VNum (inject_Z b))] = yint (Z.lor a b) /\
  fx_call nm_bitxor [YS (VNum (inject_Z a)); YS (VNum (inject_Z b))] = yint (Z.lxor a b) /\
  fx_call nm_bitnot [YS (VNum (inject_Z a))] = yint (Z.lnot a) /\
  (forall i, (0 <= i)%Z ->
     Z.testbit (Z.land a b) i = Z.testbit a i && Z.testbit b i /\
     Z.testbit (Z.lor a b) i = Z.testbit a i || Z.testbit b i /\
     Z.testbit (Z.lxor a b) i = xorb (Z.testbit a i) (Z.testbit b i) /\
     Z.testbit (Z.lnot a) i = negb (Z.testbit a i)).
Proof. exact bit_ops_spec. Qed.
Print Assumptions C06_bit_ops.

(* ---- conditionals and type tests ---- *)
(* greatest / least over numbers return one of their arguments, which bounds all of them *)
Theorem C06_greatest_least : forall (gt : bool) q0 qs,
  exists qr, fx_call (if gt then nm_greatest else nm_least) (map (fun q => YS (VNum q)) (q0 :: qs)) = ynum qr /\
             In qr (q0 :: qs) /\ forall q, In q (q0 :: qs) -> if gt then q <= qr else qr <= q.
Proof. exact greatest_least_spec. Qed.
Print Assumptions C06_greatest_least.

(* coalesce returns its first argument that is not NULL, and NULL when every argument is NULL *)
Theorem C06_coalesce : forall args, args <> [] ->
  fx_call nm_coalesce args = YOk (first_non_null args) /\
  (forall pre v post, args = pre ++ v :: post -> Forall (fun x => x = YS VNull) pre -> v <> YS VNull ->
     first_non_null args = v) /\
  (Forall (fun x => x = YS VNull) args -> first_non_null args = YS VNull).
Proof. exact coalesce_spec. Qed.
Print Assumptions C06_coalesce.

(* null_if(x, y) is NULL when x equals y and x otherwise (so null_if(x, x) is NULL); if_null(x, y) is y for a NULL x *)
Theorem C06_null_if : forall x y,
  fx_call nm_null_if [x; y] = (if yeq x y then ynull else YOk x) /\
  fx_call nm_if_null [x; y] = YOk (match x with YS VNull => y | _ => x end) /\
  yeq x x = true.
Proof. exact null_if_spec. Qed.
Print Assumptions C06_null_if.

Theorem C06_type_tests : forall v,
  fx_call nm_is_null [v] = ybool (match v with YS VNull => true | _ => false end) /\
  fx_call nm_is_not_null [v] = ybool (match v with YS VNull => false | _ => true end) /\
  fx_call nm_is_numeric [v] = ybool (match v with YS (VNum _) => true | _ => false end) /\
  fx_call nm_is_string [v] = ybool (match v with YS (VStr _) => true | _ => false end) /\
  fx_call nm_is_bool [v] = ybool (match v with YS (VBool _) => true | _ => false end) /\
  fx_call nm_is_array [v] = ybool (match v with YA _ => true | _ => false end) /\
  fx_call nm_array_length [v] = (match v with YA l => yint (Z.of_nat (length l)) | YS _ => YErr end).
Proof. exact type_tests_spec. Qed.
Print Assumptions C06_type_tests.

(* ---- conversions ---- *)
(* the decimal text of an integer reads back as that integer (strconv.Itoa / Atoi), and through the
   calls: cast(z, 'string') is the text, cast(text, 'int') is z, length(z) counts its characters *)
Theorem C06_decimal_text : forall z, atoi (dec_of_Z z) = Some z.
Proof. exact atoi_dec_of_Z. Qed.
Print Assumptions C06_decimal_text.
Theorem C06_cast_roundtrip : forall z, (Z.abs z < 10 ^ 15)%Z ->
  fx_call nm_cast [YS (VNum (inject_Z z)); YS (VStr ty_string)] = ystr (dec_of_Z z) /\
  fx_call nm_cast [YS (VStr (dec_of_Z z)); YS (VStr ty_int)] = yint z /\
  fx_call nm_length [YS (VNum (inject_Z z))] = yint (Z.of_nat (length (dec_of_Z z))).
Proof. exact cast_int_text_roundtrip. Qed.
Print Assumptions C06_cast_roundtrip.

(* hex2dec(dec2hex(z)) = z *)
Theorem C06_hex_roundtrip : forall z, (Z.abs z < 16 ^ 15)%Z ->
  parse_hex (hex_of_Z z) = OVal z /\
  fx_call nm_dec2hex [YS (VNum (inject_Z z))] = ystr (hex_of_Z z) /\
  fx_call nm_hex2dec [YS (VStr (hex_of_Z z))] = yint z.
Proof. exact hex_text_roundtrip. Qed.
Print Assumptions C06_hex_roundtrip.

(* url_encode / url_decode and encode / decode with the formats 'url' and 'hex' are inverse on every
   byte string; the hexadecimal text has two characters per byte *)
Theorem C06_url_codec : forall s, Forall is_byte s -> url_unescape (url_escape s) = Some s.
Proof. exact url_codec_roundtrip. Qed.
Print Assumptions C06_url_codec.
Theorem C06_hex_codec : forall s, Forall is_byte s ->
  hex_decode (hex_encode s) = Some s /\ length (hex_encode s) = (2 * length s)%nat.
Proof. exact hex_codec_roundtrip. Qed.
Print Assumptions C06_hex_codec.
Theorem C06_codec_calls : forall s, Forall is_byte s ->
  fx_call nm_url_encode [YS (VStr s)] = ystr (url_escape s) /\
  fx_call nm_url_decode [YS (VStr (url_escape s))] = ystr s /\
  fx_call nm_encode [YS (VStr s); YS (VStr fmt_hex)] = ystr (hex_encode s) /\
  fx_call nm_decode [YS (VStr (hex_encode s)); YS (VStr fmt_hex)] = ystr s /\
  fx_call nm_encode [YS (VStr s); YS (VStr fmt_url)] = ystr (url_escape s) /\
  fx_call nm_decode [YS (VStr (url_escape s)); YS (VStr fmt_url)] = ystr s.
Proof. exact codec_calls_roundtrip. Qed.
Print Assumptions C06_codec_calls.

(* ---- the new model extends the old one ---- *)
(* on scalar arguments a function of Model/ExprEval.v has the value it has there: what is proved about
   fn_call (C06_pad_call, and through sem the agreement theorems above) holds of fx_call *)
Theorem C06_call_extends : forall n a vs,
  fx_arity n = Some a -> arity_ok a (length vs) = true ->
  (forall v, fn_call n vs = FOk v -> fx_call n (map YS vs) = YOk (YS v)) /\
  (fn_call n vs = FErr -> fx_call n (map YS vs) = YErr).
Proof. exact fx_call_extends_fn_call. Qed.
Print Assumptions C06_call_extends.
Theorem C06_pad_call_x : forall (left : bool) (s : bytes) (n : nat) (pad : bytes),
  fx_call (if left then nm_lpad else nm_rpad) [YS (VStr s); YS (VNum (inject_Z (Z.of_nat n))); YS (VStr pad)]
  = ystr (pad_value left s n pad).
Proof. exact fx_pad_call. Qed.
Print Assumptions C06_pad_call_x.

(* the two judges agree: where the reference semantics (sem, which judges the V / S / F lines) gives an
   expression built from calls a value, the model of the built-ins (ysem, which judges the G lines)
   gives the same value - or leaves it outside its fragment (a computed zero rendered as text) *)
Theorem C06_call_model_consistent : forall row e v,
  sem row e = Some v -> cols_ok row Strict e = true ->
  ysem (lift_row row) e = YOk (YS v) \/ ysem (lift_row row) e = YUnm.
Proof. exact ysem_consistent_with_sem. Qed.
Print Assumptions C06_call_model_consistent.

(* ---- where the code violates the statement (findings; witnesses replayed on the real engine) ---- *)
Definition col_a : bytes := [97]%N.
Definition case_a_gt_2 : xetop :=
  ECase None [(ECmp CGt (ECol col_a) (ENum 2), ENum 1)] (Some (ENum 0)).

(* F19: CASE WHEN a > 2 THEN 1 ELSE 0 END on a row without column a: the statement demands the ELSE
   value 0 (a missing operand makes the comparison not true); the engine fails in the comparison
   and the SELECT item becomes NULL.  So [cols_ok_top] cannot be dropped from C06_eval_agrees_sem. *)
Theorem C06_case_missing_column_refuted :
  sem_top [] case_a_gt_2 = Some (VNum 0) /\
  select_value (top_value_null [] (xelab case_a_gt_2)) = Some VNull.
Proof. split; vm_compute; reflexivity. Qed.
Print Assumptions C06_case_missing_column_refuted.

(* F20: text that looks like a number is compared numerically: '9' < '10' is true for the engine,
   false for SQL's string comparison.  So [looks_numeric] cannot be dropped from the reference's domain. *)
Theorem C06_numeric_text_refuted :
  cmp_values CLt (VStr [57]%N) (VStr [49;48]%N) = XOk true /\ cmp_strings CLt [57]%N [49;48]%N = false.
Proof. split; vm_compute; reflexivity. Qed.
Print Assumptions C06_numeric_text_refuted.

(* ---- non-vacuity ---- *)
Definition col_b : bytes := [98]%N.
(* (a + b) * 2 > 9 OR a = 1   on a = 3, b = 2.5 *)
Example C06_example :
  let e := EOr (ECmp CGt (EBin OMul (EBin OAdd (ECol col_a) (ECol col_b)) (ENum 2)) (ENum 9))
               (ECmp CEq (ECol col_a) (ENum 1)) in
  let row := [(col_a, VNum 3); (col_b, VNum (5 # 2))] in
  wf_top (ETop e) /\ sem_top row (ETop e) = Some (VBool true) /\ cols_ok_top row (ETop e) = true
  /\ xparse (xprint (ETop e)) = Some (xelab (ETop e))
  /\ has_null_col [(col_b, VNum 1)] (EBin OAdd (ECol col_a) (ECol col_b)) = true.
Proof. vm_compute. repeat split; reflexivity. Qed.

(* lpad('hello', 8, 'ab') = 'abahello' (gap 3, pad of 2 bytes), rpad('hello', 6, 'xyz') = 'hellox' *)
Example C06_pad_example :
  let hello := [104;101;108;108;111]%N in
  sem_top [] (ETop (ECall nm_lpad [EStr hello; ENum 8; EStr [97;98]%N])) = Some (VStr ([97;98;97]%N ++ hello)) /\
  sem_top [] (ETop (ECall nm_rpad [EStr hello; ENum 6; EStr [120;121;122]%N])) = Some (VStr (hello ++ [120]%N)).
Proof. vm_compute. split; reflexivity. Qed.

(* ---- non-vacuity of the built-in theorems: each hypothesis is satisfiable on a non-trivial instance ---- *)
Definition b_ (l : list N) : bytes := l.
Example C06_funcs_example :
  let x := VStr [120]%N in
  let arr := [VNum 1; x; VNum 2; x; VNull; VBool true; VNum (2 # 2)] in
  (* arrays: [1,'x',2,'x',NULL,true,1] *)
  arr_distinct arr = [VNum 1; x; VNum 2; VNull; VBool true] /\
  arr_remove arr x = [VNum 1; VNum 2; VNull; VBool true; VNum (2 # 2)] /\
  arr_position arr (VNum 2) = 3%nat /\ mem_v (VNum 3) arr = false /\
  arr_union arr [x; VNum 3] = [VNum 1; x; VNum 2; VNull; VBool true; VNum 3] /\
  arr_intersect arr [x; VNum 3] = [x] /\
  arr_except arr [x; VNum 3] = [VNum 1; VNum 2; VNull; VBool true] /\
  (* strings: 'hello' *)
  let hello := [104;101;108;108;111]%N in
  replace_b hello [108]%N [76;76]%N = [104;101;76;76;76;76;111]%N /\
  split_b hello [108]%N = [[104;101]%N; []; [111]%N] /\ contains hello [122]%N = false /\
  substring_b hello (-2) None = [108;111]%N /\ substring_b hello 1 (Some 2%Z) = [101;108]%N /\
  index_b hello [108]%N = 2%Z /\ index_b hello [122]%N = (-1)%Z /\
  trim_both is_space_go [32;9;120;32;121;10]%N = [120;32;121]%N /\
  all_ascii hello = true /\
  (* numbers *)
  qfloor (-5 # 2) = (-3)%Z /\ qceil (-5 # 2) = (-2)%Z /\ qround (-5 # 2) = (-3)%Z /\ qround (5 # 2) = 3%Z /\
  trunc_val (-43 # 4) 1 == -107 # 10 /\ ~ (3 # 1) == 0 /\ qmod (-7) 3 == -1 /\
  (Z.abs (-42) < 10 ^ 15)%Z /\ dec_of_Z (-42) = [45;52;50]%N /\ (Z.abs 6 < two63)%Z /\
  (* calls *)
  fx_call nm_upper [YS (VStr hello); YS (VStr hello)] = YErr /\
  fx_arity nm_upper = Some (1%nat, Some 1%nat) /\ arity_ok (1%nat, Some 1%nat) 2 = false /\
  fx_call nm_null_if [YS (VNum 3); YS (VNum (6 # 2))] = ynull /\
  fx_call nm_array_contains [YA arr; YS (VNum 2)] = ybool true /\
  fx_call nm_array_length [YS x] = YErr /\
  fx_call nm_hex2dec [YS (VStr [45;49;102]%N)] = yint (-31) /\
  fx_call nm_chr [YS (VNum 128)] = YErr /\
  fx_call nm_power [YS (VNum 2); YS (VNum (-1))] = ynum (1 # 2) /\
  fx_call nm_coalesce [YS VNull; YA []; YS x] = YOk (YA []) /\
  Forall is_byte [97; 32; 38; 233]%N /\ url_escape [97; 32; 38; 233]%N = [97; 43; 37; 50; 54; 37; 69; 57]%N /\
  hex_encode [97; 255]%N = [54; 49; 102; 102]%N /\ (Z.abs (-31) < 16 ^ 15)%Z /\ hex_of_Z (-31) = [45; 49; 102]%N /\
  fx_call nm_decode [YS (VStr [54]%N); YS (VStr fmt_hex)] = YErr.
Proof.
  vm_compute. repeat split; try reflexivity; try discriminate.
  repeat constructor.
Qed.

(* upper(lpad(s, 7, 'ab')) on s = 'hello': both semantics give 'ABHELLO' *)
Example C06_consistent_example :
  let hello := [104;101;108;108;111]%N in
  let row := [([115]%N, VStr hello)] in
  let e := ECall nm_upper [ECall nm_lpad [ECol [115]%N; ENum 7; EStr [97;98]%N]] in
  sem row e = Some (VStr [65;66;72;69;76;76;79]%N) /\ cols_ok row Strict e = true /\
  ysem (lift_row row) e = YOk (YS (VStr [65;66;72;69;76;76;79]%N)).
Proof. vm_compute. repeat split; reflexivity. Qed.
