(* C06 — scalar expressions: SQL arithmetic, comparison, logic, CASE and NULL.
   Only statements, each closed by [exact]; proofs live in Proofs/Expr*.v.
   Models: Model/ExprSyntax.v (tokens, precedence-ladder parser of expr/parser.go, printer),
           Model/ExprEval.v (evaluateNodeValue / ...WithNull / evaluateBoolNode / compareValues / CASE),
           Model/Sem.v (reference semantics of the statement). *)
From SV Require Import Model.Sem Proofs.ExprParseProofs Proofs.ExprEvalProofs Proofs.ExprPadProofs.

(* precedence and parentheses: the parser reads back exactly the tree the printer wrote, where the
   printer inserts only the parentheses the ladder OR < AND < comparison < + - < * / % < ^ < unary -
   needs (and keeps those the user wrote) *)
Theorem C06_parse_print : forall t, wf_top t -> xparse (xprint t) = Some (xelab t).
Proof. exact parse_print. Qed.
Print Assumptions C06_parse_print.

(* the value a SELECT item gets (EvaluateValueWithNull, error -> NULL) is the reference value, for
   every expression in the reference semantics' domain whose comparison operands / call arguments
   are present columns (possibly NULL) *)
Theorem C06_eval_agrees_sem : forall row t v,
  sem_top row t = Some v -> cols_ok_top row t = true ->
  select_value (top_value_null row (xelab t)) = Some v.
Proof. exact top_agrees_sem. Qed.
Print Assumptions C06_eval_agrees_sem.

(* the same for conditions (EvaluateBool, WHEN): true exactly when the reference says true *)
Theorem C06_cond_agrees_sem : forall row e v b,
  sem row e = Some v -> as_bool v = Some b -> is_cond e = true -> cols_ok row Lax e = true ->
  eb row (elab 0 e) = OVal b.
Proof. exact eb_agrees_sem. Qed.
Print Assumptions C06_cond_agrees_sem.

(* a NULL or missing column makes an arithmetic expression NULL (no typing hypothesis) *)
Theorem C06_null_propagates : forall row e r,
  arith_only e = true -> has_null_col row e = true ->
  select_value (evn row (elab 0 e)) = Some r -> r = VNull.
Proof. exact null_propagates. Qed.
Print Assumptions C06_null_propagates.

(* ... and a comparison with such an operand is never true, in the hand-written engine *)
Theorem C06_cmp_null_not_true : forall row c l r,
  (arith_only l = true /\ has_null_col row l = true) \/ (arith_only r = true /\ has_null_col row r = true) ->
  eb row (elab 0 (ECmp c l r)) <> OVal true.
Proof. exact cmp_null_not_true. Qed.
Print Assumptions C06_cmp_null_not_true.

(* CASE returns the first branch whose condition is true, else ELSE, else NULL — whenever every
   condition evaluates without an error *)
Theorem C06_case_first_true : forall row ws els,
  Forall (fun w => exists b, eb row (fst w) = OVal b) ws ->
  case_search_n row ws els =
  match first_true row ws with
  | Some x => evn row x
  | None => match els with Some e => evn row e | None => OVal (VNull, true) end
  end.
Proof. exact case_first_true. Qed.
Print Assumptions C06_case_first_true.

(* lpad / rpad: the documented value.  A string that is long enough is returned unchanged; otherwise
   the result has exactly n bytes, keeps the string at its end (lpad) / start (rpad), and byte i of the
   filling is byte (i mod |pad|) of the pad - for every pad length and every gap, multiple or not *)
Theorem C06_pad_documented_value : forall (left : bool) (s : bytes) (n : nat) (pad : bytes),
  (n <= length s -> pad_value left s n pad = s)%nat /\
  (length s < n ->
     exists fill, pad_value left s n pad = (if left then fill ++ s else s ++ fill) /\
       length fill = n - length s /\
       length (pad_value left s n pad) = n /\
       (pad <> [] -> forall (i : nat) (d : byte), i < n - length s -> nth i fill d = nth (i mod length pad) pad d))%nat.
Proof. exact pad_value_spec. Qed.
Print Assumptions C06_pad_documented_value.

(* ... and it is what a call evaluates to in the model of the engine (and hence, by
   C06_eval_agrees_sem, in the reference semantics) *)
Theorem C06_pad_call : forall (left : bool) (s : bytes) (n : nat) (pad : bytes),
  fn_call (if left then nm_lpad else nm_rpad) [VStr s; VNum (inject_Z (Z.of_nat n)); VStr pad]
  = FOk (VStr (pad_value left s n pad)).
Proof. exact fn_call_pad. Qed.
Print Assumptions C06_pad_call.

(* ---- where the code violates the statement (findings; witnesses replayed on the real engine) ---- *)
Definition col_a : bytes := [97]%N.
Definition case_a_gt_2 : xetop :=
  ECase None [(ECmp CGt (ECol col_a) (ENum 2), ENum 1)] (Some (ENum 0)).

(* F19: CASE WHEN a > 2 THEN 1 ELSE 0 END on a row without column a: the statement demands the ELSE
   value 0 (a missing operand makes the comparison not true); the engine fails in the comparison
   and the SELECT item becomes NULL.  So [cols_ok_top] cannot be dropped from C06_eval_agrees_sem. *)
Theorem C06_case_missing_column_refuted :
  sem_top [] case_a_gt_2 = Some (VNum 0) /\
  select_value (top_value_null [] (xelab case_a_gt_2)) = Some VNull.
Proof. split; vm_compute; reflexivity. Qed.
Print Assumptions C06_case_missing_column_refuted.

(* F20: text that looks like a number is compared numerically: '9' < '10' is true for the engine,
   false for SQL's string comparison.  So [looks_numeric] cannot be dropped from the reference's domain. *)
Theorem C06_numeric_text_refuted :
  cmp_values CLt (VStr [57]%N) (VStr [49;48]%N) = XOk true /\ cmp_strings CLt [57]%N [49;48]%N = false.
Proof. split; vm_compute; reflexivity. Qed.
Print Assumptions C06_numeric_text_refuted.

(* ---- non-vacuity ---- *)
Definition col_b : bytes := [98]%N.
(* (a + b) * 2 > 9 OR a = 1   on a = 3, b = 2.5 *)
Example C06_example :
  let e := EOr (ECmp CGt (EBin OMul (EBin OAdd (ECol col_a) (ECol col_b)) (ENum 2)) (ENum 9))
               (ECmp CEq (ECol col_a) (ENum 1)) in
  let row := [(col_a, VNum 3); (col_b, VNum (5 # 2))] in
  wf_top (ETop e) /\ sem_top row (ETop e) = Some (VBool true) /\ cols_ok_top row (ETop e) = true
  /\ xparse (xprint (ETop e)) = Some (xelab (ETop e))
  /\ has_null_col [(col_b, VNum 1)] (EBin OAdd (ECol col_a) (ECol col_b)) = true.
Proof. vm_compute. repeat split; reflexivity. Qed.

(* lpad('hello', 8, 'ab') = 'abahello' (gap 3, pad of 2 bytes), rpad('hello', 6, 'xyz') = 'hellox' *)
Example C06_pad_example :
  let hello := [104;101;108;108;111]%N in
  sem_top [] (ETop (ECall nm_lpad [EStr hello; ENum 8; EStr [97;98]%N])) = Some (VStr ([97;98;97]%N ++ hello)) /\
  sem_top [] (ETop (ECall nm_rpad [EStr hello; ENum 6; EStr [120;121;122]%N])) = Some (VStr (hello ++ [120]%N)).
Proof. vm_compute. split; reflexivity. Qed.
