(* C10 — Session windows split a key's events at gaps above the timeout, each event once.
   Statements only; proofs in Proofs/SessionProofs.v. The model follows the code, and the code does
   NOT satisfy the whole statement: the gap, start and speed clauses are refuted below (recorded
   findings F3a/F3c); what does hold for all histories is proved at full strength. *)
From Coq Require Import Lia.
From SV Require Import Model.Session Proofs.SessionProofs Spec.QuietSpec Proofs.QuietProofs Spec.SessionSpec Proofs.SessionSpecSound.

(* with distinct event ids, no event is reported in two session results (nor twice in one) *)
Theorem C10_each_event_at_most_once : forall c h i,
  NoDup (flat_map op_ids h) -> (occ i (run_fired c nst0 h) <= 1)%nat.
Proof. exact session_at_most_once. Qed.
Print Assumptions C10_each_event_at_most_once.

(* an accepted event (not late on arrival, not far-future) is never lost: after any continuation it is
   in an open session of its key or it has been reported *)
Theorem C10_accepted_event_never_lost : forall c h i,
  (1 <= occ i (run_accepted c nst0 h))%nat ->
  (1 <= occ i (flat_rows (n_sess (fst (nrun c nst0 h)))) + occ i (run_fired c nst0 h))%nat.
Proof. exact session_never_lost. Qed.
Print Assumptions C10_accepted_event_never_lost.

(* every delivered session: only rows of its own key, window_end = latest timestamp + timeout,
   window_start = timestamp of its first-arrived event, delivered only under a watermark >= its end;
   and after a watermark has been handled no open session ends at or before it (so, with the theorem
   above, every accepted event is reported once the watermark passes its session's end) *)
Theorem C10_session_results : forall c s s' evs wmk,
  NWf c s -> n_pend s = Some wmk -> nfire c s = (s', evs) ->
  (forall k st en rows, In (SvBatch k st en rows) evs ->
      rows <> [] /\ Forall (fun r => kkey r = k) rows /\
      (exists r, In r rows /\ en = kts r + ntimeout c) /\ (forall r, In r rows -> kts r + ntimeout c <= en) /\
      (exists r0 rest, rows = r0 :: rest /\ st = kts r0) /\ en <= wmk) /\
  (forall k se, In (k, se) (n_sess s') -> wmk < se_end se) /\ n_pend s' = None.
Proof. exact nfire_shape. Qed.
Print Assumptions C10_session_results.

(* the hypothesis of the previous theorem holds in every reachable state *)
Theorem C10_reachable_well_formed : forall c h, NWf c (fst (nrun c nst0 h)).
Proof. intros c h. exact (nrun_wf c h nst0 (NWf_0 c)). Qed.
Print Assumptions C10_reachable_well_formed.

(* REFUTED (finding F3a): two consecutive events of a reported session further apart than the timeout *)
Theorem C10_gap_splits_refuted :
  exists h k st en r1 r2 rows,
    In (SvBatch k st en rows) (snd (nrun ncfg1 nst0 h)) /\ In r1 rows /\ In r2 rows /\
    kts r1 + ntimeout ncfg1 < kts r2 /\ (forall r, In r rows -> kts r <= kts r1 \/ kts r2 <= kts r).
Proof. exact gap_splits_refuted. Qed.
Print Assumptions C10_gap_splits_refuted.

(* REFUTED (finding F3c): window_start later than one of the session's own events *)
Theorem C10_start_is_earliest_refuted :
  exists h k st en rows r, In (SvBatch k st en rows) (snd (nrun {| ntimeout := 1000; nooo := 500; nlateness := 0 |} nst0 h)) /\
    In r rows /\ kts r < st.
Proof. exact start_is_earliest_refuted. Qed.
Print Assumptions C10_start_is_earliest_refuted.

(* REFUTED (finding F3a, second face): for in-order input the outcome depends on how fast it is fed *)
Theorem C10_speed_independent_refuted :
  exists h1 h2,
    fired_rows (snd (nrun ncfg1 nst0 h1)) = [(1, 10000, 1); (2, 10100, 1); (5, 12000, 2)] /\
    In (SvBatch 1 10000 16000 [(1, 10000, 1); (2, 10100, 1); (3, 15000, 1)]) (snd (nrun ncfg1 nst0 h2)).
Proof. exact speed_independent_refuted. Qed.
Print Assumptions C10_speed_independent_refuted.

(* delivery liveness across a channel overflow (see Spec/QuietSpec.v): after "channel empty, tick, drained again" with no
   Add in between, the last watermark received is >= (largest sane timestamp) - ooo on every trace; by
   C10_session_results every session that ended before it has then been delivered *)
Theorem C10_tick_redelivers_skipped_watermark : forall c base h,
  Forall (nnow_is base) h -> quiet_violated_s (nooo c) base (snd (nrun c nst0 h)) = false.
Proof. exact session_quiet. Qed.
Print Assumptions C10_tick_redelivers_skipped_watermark.

(* the executable checker the harness applies to the real window's trace (Spec/SessionSpec.v, chk_C10 = the list of ALL
   violated clauses), run on the traces of the model: for every history of atomic steps with distinct row ids, one wall
   clock, a positive timeout and a non-negative out-of-order tolerance (any timestamps, any allowed lateness), the only
   clauses ever reported are the gap and the start clause, i.e. the recorded findings F3a / F3c.  NWrongKey, NUnknownRow,
   NTwice, NEndNotLatestPlusTimeout, NSplitWithinTimeout, NEarlyDelivery, NWatermarkOrigin, NOnTimeLost,
   NLateUpdateShape and NFarFuture are never violated by the model. *)
Theorem C10_model_violates_only_known_clauses : forall c base,
  0 < ntimeout c -> 0 <= nooo c ->
  forall h, (forall id ts key now, In (NAdd id ts key now) h -> now = base) -> NoDup (flat_map op_ids h) ->
  forall cl, In cl (chk_C10 c base (snd (nrun c nst0 h))) -> cl = NGapNotSplit \/ cl = NStartNotEarliest.
Proof. exact model_only_known_clauses_clock. Qed.
Print Assumptions C10_model_violates_only_known_clauses.

(* ... and both of them are reachable (F3a: 10.0, 10.1, 15.0 with timeout 1.0 reported as one session;
   F3c: window_start is the first-arrived timestamp 10.4, not the earliest 10.1) *)
Theorem C10_gap_clause_reachable :
  chk_C10 ncfg1 0 (snd (nrun ncfg1 nst0 ([NAdd 1 10000 1 0; NAdd 2 10100 1 0; NAdd 3 15000 1 0] ++ drainN ++ [NAdd 4 30000 99 0] ++ drainN)))
  = [NGapNotSplit].
Proof. exact gap_clause_reachable. Qed.
Print Assumptions C10_gap_clause_reachable.

Theorem C10_start_clause_reachable :
  chk_C10 {| ntimeout := 1000; nooo := 500; nlateness := 0 |} 0
    (snd (nrun {| ntimeout := 1000; nooo := 500; nlateness := 0 |} nst0 ([NAdd 1 10400 1 0; NAdd 2 10100 1 0; NAdd 3 30000 99 0] ++ drainN)))
  = [NStartNotEarliest].
Proof. exact start_clause_reachable. Qed.
Print Assumptions C10_start_clause_reachable.
