(* C15 — MATCH_RECOGNIZE reports exactly the valid leftmost-longest matches per partition.
   Only statements, each closed by [exact]; proofs live in Proofs/CepProofs.v. The theorems are about
   the reference matcher of Model/Cep.v (patterns, DEFINE classification, WITHIN, AFTER MATCH SKIP,
   MATCH_NUMBER, partitions, end of stream); the Go engine is tied to it by the correspondence run. *)
From Coq Require Import List ZArith NArith Bool Arith Lia.
From Coq Require Import Permutation.
From SV Require Import Model.Cep Spec.CepSpec Proofs.CepProofs Proofs.CepSugar Proofs.CepChecker Proofs.CepSparse.
From SV Require Import Model.CepLab Spec.CepLabSpec Proofs.CepLabProofs.
Import ListNotations.

(* Brzozowski derivatives decide the pattern language, for every pattern and every word *)
Theorem C15_deriv_correct : forall p w, nullable (derivs p (map N.eqb w)) = true <-> word_in p w.
Proof. exact deriv_correct. Qed.
Print Assumptions C15_deriv_correct.

(* ... and, driven by the rows' DEFINE classification, exactly the runs that can be labelled by a
   word of the pattern *)
Theorem C15_deriv_rows : forall fs p,
  nullable (derivs p fs) = true <-> exists w, Forall2 (fun f v => f v = true) fs w /\ word_in p w.
Proof. exact derivs_iff. Qed.
Print Assumptions C15_deriv_rows.

(* every reported match is a non-empty run of consecutive rows of the partition that spells a word
   of PATTERN, every row satisfying the DEFINE of its variable (PREV = previous row of the match),
   all rows within WITHIN of the first *)
Theorem C15_ref_valid : forall c rows q k, In (q, k) (ref_matches c rows) ->
  1 <= k /\ q + k <= length rows /\ valid c (firstn k (skipn q rows)).
Proof. exact ref_valid. Qed.
Print Assumptions C15_ref_valid.

(* greedy: no longer run starting at the same row is a valid match *)
Theorem C15_ref_longest : forall c rows q k, In (q, k) (ref_matches c rows) ->
  forall k', k < k' -> q + k' <= length rows -> ~ valid c (firstn k' (skipn q rows)).
Proof. exact ref_longest. Qed.
Print Assumptions C15_ref_longest.

(* starts are taken leftmost-first subject to AFTER MATCH SKIP; under SKIP PAST LAST ROW two
   reported matches never share a row *)
Theorem C15_ref_leftmost_skip : forall c rows i j q1 k1 q2 k2, i < j ->
  nth_error (ref_matches c rows) i = Some (q1, k1) -> nth_error (ref_matches c rows) j = Some (q2, k2) ->
  q1 < q2 /\ skip_to c q1 k1 (firstn k1 (skipn q1 rows)) <= q2 /\ (c_skip c = SkPast -> q1 + k1 <= q2).
Proof. exact ref_leftmost_skip. Qed.
Print Assumptions C15_ref_leftmost_skip.

(* no valid match at an allowed start is omitted *)
Theorem C15_ref_complete : forall c rows q k0, valid c (firstn k0 (skipn q rows)) ->
  (exists k, In (q, k) (ref_matches c rows)) \/
  exists q0 k1, In (q0, k1) (ref_matches c rows) /\ q0 < q /\
                q < skip_to c q0 k1 (firstn k1 (skipn q0 rows)).
Proof. exact ref_complete. Qed.
Print Assumptions C15_ref_complete.

(* unfinished accepting runs are reported at Stop: a valid match that reaches the partition's last
   row at an allowed start is in the result *)
Theorem C15_ref_flush : forall c rows q, q < length rows -> valid c (skipn q rows) ->
  In (q, length rows - q) (ref_matches c rows) \/
  exists q0 k1, In (q0, k1) (ref_matches c rows) /\ q0 < q /\
                q < skip_to c q0 k1 (firstn k1 (skipn q0 rows)).
Proof. exact ref_flush. Qed.
Print Assumptions C15_ref_flush.

(* MATCH_NUMBER counts 1,2,3,.. per partition *)
Theorem C15_ref_match_number : forall c rows,
  map (fun o : cobs => fst (fst (fst o))) (ref_obs c rows) = seq 1 (length (ref_matches c rows)).
Proof. exact ref_match_number. Qed.
Print Assumptions C15_ref_match_number.

(* other partitions' events never matter *)
Theorem C15_ref_partition_isolation : forall c s1 s2 p,
  part_rows p s1 = part_rows p s2 -> ref_part c s1 p = ref_part c s2 p.
Proof. exact ref_partition_isolation. Qed.
Print Assumptions C15_ref_partition_isolation.

Theorem C15_other_partition_row_ignored : forall c p q r s1 s2, q <> p ->
  ref_part c (s1 ++ (q, r) :: s2) p = ref_part c (s1 ++ s2) p.
Proof. intros. apply ref_partition_isolation. apply part_rows_other. assumption. Qed.
Print Assumptions C15_other_partition_row_ignored.

(* the extracted checker that judges the implementation's output raises no alarm exactly when the
   implementation reported the reference's result (row ids are distinct) *)
Theorem C15_checker_sound : forall c rows out, chk_C15 c rows out = None -> out = ref_obs c rows.
Proof. exact chk_sound. Qed.
Print Assumptions C15_checker_sound.

Theorem C15_checker_iff : forall c rows out, NoDup (map r_id rows) ->
  (chk_C15 c rows out = None <-> out = ref_obs c rows).
Proof. exact chk_iff. Qed.
Print Assumptions C15_checker_iff.

(* the surface operators denote what they say (desugaring = cep/pattern.go compileRepeat/compilePermute):
   {n,m}, ?, {n}: between n and m copies; {n,}, *, +: at least n copies; PERMUTE: any order *)
Theorem C15_rep_bounded : forall mn mx s w, mn <= mx ->
  (word_in (desugar (SRep mn (Some mx) s)) w <->
   exists ws, mn <= length ws <= mx /\ Forall (word_in (desugar s)) ws /\ w = concat ws).
Proof. exact rep_bounded. Qed.
Print Assumptions C15_rep_bounded.

Theorem C15_rep_unbounded : forall mn s w,
  word_in (desugar (SRep mn None s)) w <->
  exists ws, mn <= length ws /\ Forall (word_in (desugar s)) ws /\ w = concat ws.
Proof. exact rep_unbounded. Qed.
Print Assumptions C15_rep_unbounded.

Theorem C15_permute : forall l w,
  word_in (desugar (SPermute l)) w <->
  exists l', Permutation (map desugar l) l' /\ word_in (seq_list l') w.
Proof. exact permute_iff. Qed.
Print Assumptions C15_permute.

(* non-vacuity. PATTERN (A B+ C?) with DEFINE A: class 0, B: class 1 and v > PREV(v), C: class 2,
   SKIP PAST LAST ROW, WITHIN 10, on the classes 0 1 1 2 0 1 (v rising, then falling): the matches
   are rows 0..3 and rows 4..5 (the second one unfinished at the end of the stream) *)
Definition ex_cfg : ccfg :=
  mkCfg (desugar (SSeq (SLit 0) (SSeq (SRep 1 None (SLit 1)) (SRep 0 (Some 1) (SLit 2)))))
        [mkDef 1 0; mkDef 2 1; mkDef 4 0] SkPast 10.
Definition ex_rows : list crow :=
  [mkCRow 1 0 5 1 false; mkCRow 2 1 6 2 false; mkCRow 3 1 7 3 false; mkCRow 4 2 0 4 false; mkCRow 5 0 9 5 false; mkCRow 6 1 10 6 false].
Example C15_example :
  ref_obs ex_cfg ex_rows = [(1, 1%Z, 4%Z, 4); (2, 5%Z, 6%Z, 2)] /\ valid ex_cfg (firstn 4 ex_rows)
  /\ chk_C15 ex_cfg ex_rows [(1, 1%Z, 4%Z, 4); (2, 5%Z, 6%Z, 2)] = None
  /\ chk_C15 ex_cfg ex_rows [(1, 1%Z, 3%Z, 3); (2, 5%Z, 6%Z, 2)] = Some ClLongest
  /\ chk_C15 ex_cfg ex_rows [(1, 1%Z, 4%Z, 4)] = Some ClOmitted.
Proof.
  split; [vm_compute; reflexivity|]. split; [apply valid_b_iff; vm_compute; reflexivity|].
  repeat split; vm_compute; reflexivity.
Qed.

(* history: what the engine reported before the three repairs (fix: commits in the repository copy),
   judged by the checker. F5: partition rows with ids 1,3,5,6 (ids 2,4 belong to another partition),
   PATTERN (A B) without DEFINE, SKIP PAST LAST ROW: overlapping matches. F21: PATTERN (A (B C)?) on
   classes a b d: the match on row 1 was lost (also for WITHIN: A+ WITHIN 5 on ts 1 2 10 11). F22:
   PATTERN (A B C | B) on a b c: (2,2) was reported instead of (1,3). *)
Definition ex_defs4 : list cdef := [mkDef 1 0; mkDef 2 0; mkDef 4 0; mkDef 8 0].
Example C15_asis_witnesses :
  chk_C15 (mkCfg (desugar (SSeq (SLit 0) (SLit 1))) [mkDef 31 0; mkDef 31 0] SkPast 3600000000000)
          [mkCRow 1 0 0 1 false; mkCRow 3 0 2 3 false; mkCRow 5 0 1 5 false; mkCRow 6 0 2 6 false]
          [(1, 1%Z, 3%Z, 2); (2, 3%Z, 5%Z, 2); (3, 5%Z, 6%Z, 2)] = Some ClSkip
  /\ chk_C15 (mkCfg (desugar (SSeq (SLit 0) (SRep 0 (Some 1) (SSeq (SLit 1) (SLit 2))))) ex_defs4 SkPast 3600000000000)
          [mkCRow 1 0 0 1 false; mkCRow 2 1 1 2 false; mkCRow 3 3 2 3 false] [] = Some ClOmitted
  /\ chk_C15 (mkCfg (desugar (SRep 1 None (SLit 0))) ex_defs4 SkPast 5)
          [mkCRow 1 0 0 1 false; mkCRow 2 0 1 2 false; mkCRow 3 0 2 10 false; mkCRow 4 3 0 11 false] [(1, 3%Z, 3%Z, 1)] = Some ClOmitted
  /\ chk_C15 (mkCfg (desugar (SAlt (SSeq (SSeq (SLit 0) (SLit 1)) (SLit 2)) (SLit 1))) ex_defs4 SkPast 3600000000000)
          [mkCRow 1 0 0 1 false; mkCRow 2 1 1 2 false; mkCRow 3 2 2 3 false] [(1, 2%Z, 2%Z, 1)] = Some ClOmitted.
Proof. repeat split; vm_compute; reflexivity. Qed.

(* ------------------------------------------------------------------ sparse rows
   Events are heterogeneous (a heartbeat without the reading next to a reading): a row may lack
   column c (class code >= 5) or column v (r_vnull). A DEFINE condition that reads a column which the
   candidate row - or, through PREV, the previous row of the run - does not carry is NULL, i.e. not
   true, whatever rows evaluated earlier (of this or another partition) carried in that column. *)
Theorem C15_absent_column_not_true : forall defs prev r v,
  reads_missing defs prev r v -> sat defs prev r v = false.
Proof. exact sat_reads_missing. Qed.
Print Assumptions C15_absent_column_not_true.

(* every reported match has a classification (a word of PATTERN) that labels no row with a variable
   whose DEFINE reads a column the row (or its PREV row) lacks *)
Theorem C15_ref_sparse_rows : forall c rows q k, In (q, k) (ref_matches c rows) ->
  exists w, word_in (c_pat c) w /\ length w = k /\
    forall i r v, nth_error (firstn k (skipn q rows)) i = Some r -> nth_error w i = Some v ->
      ~ reads_missing (c_defs c) (prev_at None (firstn k (skipn q rows)) i) r v.
Proof. exact ref_sparse_rows. Qed.
Print Assumptions C15_ref_sparse_rows.

(* MEASURES over bare columns (c AS bc, v AS bv) are those of the LAST row of the match: NULL where
   that row lacks the column *)
Theorem C15_bare_measure_last_row : forall seg r, bare_obs (seg ++ [r]) = Some (bare_of r).
Proof. exact bare_obs_last. Qed.
Print Assumptions C15_bare_measure_last_row.

Theorem C15_bare_measure_absent : forall seg r, (5 <= r_cls r)%N -> r_vnull r = true ->
  bare_obs (seg ++ [r]) = Some (5%N, None).
Proof. exact bare_obs_absent. Qed.
Print Assumptions C15_bare_measure_absent.

(* non-vacuity: PATTERN (A{2}), A AS c = 'a'. A reading (class a), a heartbeat without column c, a
   reading of class b: no match; a report of rows 1..2 (the heartbeat judged with the reading's
   column) is rejected. Same for A AS v > PREV(v) .. with a row that lacks v. *)
Definition exs_cfg : ccfg := mkCfg (desugar (SRep 2 (Some 2) (SLit 0))) [mkDef 1 0] SkPast 3600000000000.
Definition exs_rows : list crow := [mkCRow 1 0 60 1 false; mkCRow 2 5 0 2 true; mkCRow 3 1 10 3 false].
Example C15_sparse_example :
  ref_obs exs_cfg exs_rows = [] /\ chk_C15 exs_cfg exs_rows [] = None
  /\ chk_C15 exs_cfg exs_rows [(1, 1%Z, 2%Z, 2)] = Some ClValid
  /\ reads_missing (c_defs exs_cfg) (Some (mkCRow 1 0 60 1 false)) (mkCRow 2 5 0 2 true) 0%N
  /\ ref_obs (mkCfg (desugar (SSeq (SLit 0) (SRep 1 None (SLit 1)))) [mkDef 31 0; mkDef 31 1] SkPast 3600000000000)
             [mkCRow 1 0 1 1 false; mkCRow 2 0 2 2 false; mkCRow 3 0 0 3 true; mkCRow 4 0 5 4 false; mkCRow 5 0 6 5 false]
     = [(1, 1%Z, 2%Z, 2); (2, 4%Z, 5%Z, 2)]
  /\ bare_obs [mkCRow 1 0 60 1 false; mkCRow 2 5 0 2 true] = Some (5%N, None).
Proof.
  split; [vm_compute; reflexivity|]. split; [vm_compute; reflexivity|]. split; [vm_compute; reflexivity|].
  split; [|split; vm_compute; reflexivity].
  exists (mkDef 1 0). split; [reflexivity|]. left. simpl. split; lia.
Qed.

(* ------------------------------------------------------------------ labelled runs (Model/CepLab.v)
   The engine carries the classification of a run (which variable consumed which row); DEFINE
   conditions may read it (v > AVG(A.v), COUNT(A.v) <= k, v > A.v ..), MEASURES and SKIP TO FIRST/LAST X
   read it. [lvalid c seg w]: the rows seg labelled w are a valid match: w is a word of PATTERN, every
   row satisfies the DEFINE of ITS label against the labelled rows before it, all within WITHIN. *)

Theorem C15_lab_valid_decided : forall c seg w, lvalid_b c seg w = true <-> lvalid c seg w.
Proof. exact lvalid_b_iff. Qed.
Print Assumptions C15_lab_valid_decided.

(* the reference over ALL classifications: the first m rows carry a valid classification and no
   classification makes a longer run starting at the same row a valid match ... *)
Theorem C15_lab_longest : forall c l m, llongest_at c l = Some m ->
  1 <= m <= length l /\ (exists w, lvalid c (firstn m l) w)
  /\ forall k w, m < k <= length l -> ~ lvalid c (firstn k l) w.
Proof. exact llongest_at_some. Qed.
Print Assumptions C15_lab_longest.

(* ... and when it finds none, no run starting at that row is a valid match under any classification *)
Theorem C15_lab_none : forall c l, llongest_at c l = None -> forall k w, ~ lvalid c (firstn k l) w.
Proof. exact llongest_at_none. Qed.
Print Assumptions C15_lab_none.

(* conservative: without conditions over the classification the labelled reference is the
   derivative reference of Model/Cep.v (all theorems above apply to it) *)
Theorem C15_lab_conservative : forall c l, no_agg c -> llongest_at c l = longest_at (base_cfg c) l.
Proof. exact llongest_at_conservative. Qed.
Print Assumptions C15_lab_conservative.

(* the extracted checker for reports that expose the label of every row is silent exactly when the
   report is exact: every match valid under ITS labels, longest over all classifications, starts
   leftmost-first with the next allowed start computed from ITS labels (SKIP TO FIRST/LAST X), nothing
   omitted up to the end of the stream, MATCH_NUMBER 1,2,3.. *)
Theorem C15_lab_checker_iff : forall c rows out,
  chk_C15L c rows out = None <->
  exists ms, llocate_all rows out = Some ms /\ lexact c rows 0 ms /\ numbered 1 (map fst out) = true.
Proof. exact chk_C15L_iff. Qed.
Print Assumptions C15_lab_checker_iff.

(* non-vacuity and the two shapes of a classification mixed up between sibling runs.
   PATTERN (A+ B), A: class 0 or 1, B: class 0; twelve rows of class 0 then one of class 4: the only
   valid classification of rows 1..12 is A x11, B; a report labelled A A A B A A A B A B B B is no word.
   PATTERN (A+ B), A: class 0, B: v > AVG(A.v) on v = 1 1 1 5 2 0: rows 1..4 (A A A B) is the longest
   match; rows 1..5 is valid under no classification. *)
Definition exl_rows12 : list crow :=
  map (fun i => mkCRow (Z.of_nat i) 0 (Z.of_nat (i mod 10)) (Z.of_nat i) false) (seq 1 12) ++ [mkCRow 13 4 0 13 false].
Definition exl_cfg1 : lcfg :=
  mkLCfg (desugar (SSeq (SRep 1 None (SLit 0)) (SLit 1))) [mkADef (mkDef 3 0) 0 0 0; mkADef (mkDef 1 0) 0 0 0] SkPast 3600000000000.
Definition exl_cfg2 : lcfg :=
  mkLCfg (desugar (SSeq (SRep 1 None (SLit 0)) (SLit 1))) [mkADef (mkDef 1 0) 0 0 0; mkADef (mkDef 31 0) 1 0 0] SkPast 3600000000000.
Definition exl_rows6 : list crow :=
  [mkCRow 1 0 1 1 false; mkCRow 2 0 1 2 false; mkCRow 3 0 1 3 false; mkCRow 4 0 5 4 false; mkCRow 5 0 2 5 false; mkCRow 6 4 0 6 false].
Example C15_lab_example :
  llongest_at exl_cfg1 exl_rows12 = Some 12
  /\ chk_C15L exl_cfg1 exl_rows12 [((1, 1%Z, 12%Z, 12), [0;0;0;0;0;0;0;0;0;0;0;1]%N)] = None
  /\ chk_C15L exl_cfg1 exl_rows12 [((1, 1%Z, 12%Z, 12), [0;0;0;1;0;0;0;1;0;1;1;1]%N)] = Some ClValid
  /\ llongest_at exl_cfg2 exl_rows6 = Some 4
  /\ chk_C15L exl_cfg2 exl_rows6 [((1, 1%Z, 4%Z, 4), [0;0;0;1]%N)] = None
  /\ chk_C15L exl_cfg2 exl_rows6 [((1, 1%Z, 5%Z, 5), [0;0;0;0;1]%N)] = Some ClValid
  /\ lmeas_ok (firstn 4 exl_rows6) [0;0;0;1]%N 1%N [(3, 3, 1, 3, 3)%Z; (1, 5, 4, 4, 4)%Z] = true.
Proof. repeat split; vm_compute; reflexivity. Qed.
