From SV Require Import Model.Join.
Example C16_placeholder : True. Proof. exact I. Qed.
