(* C16 — Stream-table JOIN enriches each row from the table state at processing time.
   Only statements, each closed by [exact]; proofs live in Proofs/JoinKeyProofs.v and Proofs/JoinProofs.v.
   Model: Model/Join.v (module JoinM) follows stream/table_store.go and stream/join.go AFTER the two fix: commits
   (length-prefixed components, exact integer rendering). key_eqb / tuple_eqb is the property's key
   equality: numbers numerically (an int z is z*2^0, a float is m*2^e), strings exactly, 1 = 1.0 <> '1';
   NULL = NULL is what the code does and is recorded here, not judged. *)
From Coq Require Import Lia.
From SV Require Import Model.Join Spec.JoinSpec Proofs.JoinKeyProofs Proofs.JoinProofs.
Import JoinM.
Open Scope Z_scope.

(* ---- the key encoder ---- *)

(* "numerically": num_eqb compares m1*2^e1 and m2*2^e2 after scaling both by any common power of two
   that makes the exponents non-negative *)
Theorem C16_numeric_equality : forall m1 e1 m2 e2 t, - e1 <= t -> - e2 <= t ->
  (num_eqb m1 e1 m2 e2 = true <-> m1 * 2 ^ (e1 + t) = m2 * 2 ^ (e2 + t)).
Proof. intros m1 e1 m2 e2 t H1 H2. rewrite num_eqb_deq. exact (deq_scaled m1 e1 m2 e2 t H1 H2). Qed.
Print Assumptions C16_numeric_equality.

(* one component: equal encodings exactly for equal keys (all ints, all dyadic floats, all strings) *)
Theorem C16_encode_one_injective : forall a b : kv, encodeOne a = encodeOne b <-> key_eqb a b = true.
Proof. exact encodeOne_inj. Qed.
Print Assumptions C16_encode_one_injective.

(* tuples of any lengths: the table index key is injective modulo the key equality *)
Theorem C16_encode_key_injective : forall a b : list kv, encodeKey a = encodeKey b <-> tuple_eqb a b = true.
Proof. exact encodeKey_inj. Qed.
Print Assumptions C16_encode_key_injective.

(* composite keys match only when every component matches *)
Theorem C16_composite_all_components : forall a b : list kv,
  encodeKey a = encodeKey b <-> Forall2 (fun x y => key_eqb x y = true) a b.
Proof. intros a b. rewrite encodeKey_inj. exact (tuple_eqb_Forall2 a b). Qed.
Print Assumptions C16_composite_all_components.

(* the key equality is an equivalence relation *)
Theorem C16_key_equality_equivalence :
  (forall a, tuple_eqb a a = true) /\ (forall a b, tuple_eqb a b = tuple_eqb b a) /\
  (forall a b c, tuple_eqb a b = true -> tuple_eqb b c = true -> tuple_eqb a c = true).
Proof. exact (conj tuple_eqb_refl (conj tuple_eqb_sym tuple_eqb_trans)). Qed.
Print Assumptions C16_key_equality_equivalence.

(* F6 (history): joining the components with \x1f, as the code did before the fix, is not injective:
   ("x","y\x1fs:z") and ("x\x1fs:y","z") had one table key *)
Theorem C16_encode_key_asis_refuted :
  exists a b, encodeKey_asis a = encodeKey_asis b /\ tuple_eqb a b = false.
Proof. exact (ex_intro _ f6_a (ex_intro _ f6_b asis_collision)). Qed.
Print Assumptions C16_encode_key_asis_refuted.

(* ---- the table store refines a finite map keyed by key tuples modulo the key equality ---- *)

(* lookup in the encoded index = lookup in the abstract index *)
Theorem C16_lookup_refines : forall (k : list kv) (t : list (list kv * row)),
  slookup bytes_eqb (encodeKey k) (enc_index t) = slookup tuple_eqb k t.
Proof. exact slookup_enc. Qed.
Print Assumptions C16_lookup_refines.

(* whole histories: for every configuration (any number of joins, INNER/LEFT, aliases), all registered
   tables and every sequence of Emit / EmitSync / Upsert / Delete, the code-level model (index keyed by
   encodeKey) returns exactly the outputs of the abstract table (no encoding, key_eq only) *)
Theorem C16_refinement : forall (c : cfg) (regs : list (bytes * list bytes * list row)) (ops : list op),
  model_run c regs ops = spec_run c regs ops.
Proof. exact refinement. Qed.
Print Assumptions C16_refinement.

(* finite-map laws of the code-level store, for EVERY index contents: after Upsert under key k a lookup
   with k' finds the new row iff k' equals k (numerically / exactly, every component), and is unchanged
   otherwise; likewise Delete; equal keys see the same row *)
Theorem C16_store_laws : forall (k k' : list kv) (r : row) (t : list (bytes * row)),
  slookup bytes_eqb (encodeKey k') (sset bytes_eqb (encodeKey k) r t) =
    (if tuple_eqb k k' then Some r else slookup bytes_eqb (encodeKey k') t) /\
  slookup bytes_eqb (encodeKey k') (sremove bytes_eqb (encodeKey k) t) =
    (if tuple_eqb k k' then None else slookup bytes_eqb (encodeKey k') t) /\
  (tuple_eqb k k' = true -> slookup bytes_eqb (encodeKey k) t = slookup bytes_eqb (encodeKey k') t).
Proof.
  intros k k' r t.
  exact (conj (M_lookup_sset k k' r t) (conj (M_lookup_sremove k k' t) (M_lookup_congr k k' t))).
Qed.
Print Assumptions C16_store_laws.

(* read-your-writes over every history: what a row with join key k sees in table [name] after the
   operations ops is decided by the last Upsert / Delete of ops on an equal key (last write wins), and
   is the earlier contents if there is none *)
Theorem C16_read_your_writes : forall c ops (ts : tables bytes) name keys k,
  keys_of ts name = Some keys ->
  lookup_in (final bytes bytes_eqb encodeKey c ts ops) name k = hist_lookup keys name k (lookup_in ts name k) ops.
Proof. exact read_your_writes. Qed.
Print Assumptions C16_read_your_writes.

(* a row processed right after Upsert / Delete returned sees the new contents; other keys and other
   tables are unaffected; Emit / EmitSync do not change the tables *)
Theorem C16_step_effects : forall c (ts : tables bytes) n name k,
  (forall r keys, keys_of ts n = Some keys ->
     lookup_in (fst (step bytes bytes_eqb encodeKey c ts (OUpsert n r))) name k =
     if bytes_eqb name n && tuple_eqb (row_key keys r) k then Some r else lookup_in ts name k) /\
  (forall dk, keys_of ts n <> None ->
     lookup_in (fst (step bytes bytes_eqb encodeKey c ts (ODelete n dk))) name k =
     if bytes_eqb name n && tuple_eqb (dkey_tuple dk) k then None else lookup_in ts name k) /\
  (forall r, fst (step bytes bytes_eqb encodeKey c ts (OEmit r)) = ts /\
             fst (step bytes bytes_eqb encodeKey c ts (OEmitSync r)) = ts).
Proof.
  intros c ts n name k. split; [|split].
  - intros r keys H. exact (step_upsert_lookup c ts n r keys name k H).
  - intros dk H. exact (step_delete_lookup c ts n dk name k H).
  - intros r. exact (step_emit_state c ts r).
Qed.
Print Assumptions C16_step_effects.

(* rows processed before an update are unaffected by it: the outputs of a prefix of the history do not
   depend on the rest, and the rest runs on exactly the state the prefix left *)
Theorem C16_earlier_results_unaffected : forall c ops1 ops2 (ts : tables bytes),
  run bytes bytes_eqb encodeKey c ts (ops1 ++ ops2) =
  run bytes bytes_eqb encodeKey c ts ops1 ++
  run bytes bytes_eqb encodeKey c (final bytes bytes_eqb encodeKey c ts ops1) ops2.
Proof. exact run_app. Qed.
Print Assumptions C16_earlier_results_unaffected.

(* INNER / LEFT for one join on a registered table: a match binds the table row to the alias in a copy
   of the stream row (plus the row itself under the FROM alias); no match: LEFT binds the empty row,
   INNER drops the row *)
Theorem C16_inner_left : forall c (ts : tables bytes) d j,
  c_joins c = [j] -> keys_of ts (j_table j) <> None ->
  enrich bytes bytes_eqb encodeKey c ts d =
  match lookup_in ts (j_table j) (stream_key j d) with
  | Some r => ERow (wset (j_alias j) (WR r) (base_map c d))
  | None => if j_left j then ERow (wset (j_alias j) (WR []) (base_map c d)) else EDrop
  end.
Proof. exact inner_left_one. Qed.
Print Assumptions C16_inner_left.

(* table columns are read under the alias: alias.col is the matched row's column (NULL if the row has
   none), NULL for the unmatched LEFT JOIN; every other entry of the working map is untouched *)
Theorem C16_alias_columns : forall a r w col,
  wpath (wset a (WR r) w) (PQual a col) = getnil r col /\
  wpath (wset a (WR []) w) (PQual a col) = KNull /\
  (forall b v, bytes_eqb a b = false -> wget (wset a v w) b = wget w b).
Proof.
  intros a r w col.
  exact (conj (alias_column a r w col) (conj (alias_column_left_null a w col)
        (fun b v H => wget_wset_other a b v w H))).
Qed.
Print Assumptions C16_alias_columns.

(* ---- the JOIN clause as written: aliases, ON qualifiers, key derivation (rsql/parser.go parseJoin) ---- *)

(* ON fields: a field qualified by the table's alias -- for an un-aliased table: by the table's own
   name -- or by the stream alias reads the bare column; a bare name is itself. (So "JOIN meta ON
   deviceId = meta.deviceId" keys the table on deviceId, exactly as "JOIN meta m ON deviceId = m.deviceId".) *)
Theorem C16_on_qualifiers : forall sa (j : jtext) (f : onfield),
  (jt_alias j = None -> f_qual f = Some (jt_table j) -> strip_alias sa (eff_alias j) f = f_name f) /\
  (forall a, jt_alias j = Some a -> f_qual f = Some a -> strip_alias sa (eff_alias j) f = f_name f) /\
  (forall s, sa = Some s -> f_qual f = Some s -> strip_alias sa (eff_alias j) f = f_name f) /\
  (f_qual f = None -> strip_alias sa (eff_alias j) f = f_name f).
Proof.
  intros sa j f. split; [|split; [|split]].
  - exact (strip_alias_unaliased sa j f).
  - intros a. exact (strip_alias_aliased sa j a f).
  - intros s Hs. subst sa. exact (strip_alias_stream s (eff_alias j) f).
  - exact (strip_alias_bare sa (eff_alias j) f).
Qed.
Print Assumptions C16_on_qualifiers.

(* the key RegisterTable derives from "ON l = <alias or table name>.col" is [col] *)
Theorem C16_derived_key : forall sa (j : jtext) l r, jt_on j = [(l, r)] -> f_qual r = Some (eff_alias j) ->
  join_key_fields [parse_join_code sa j] (jt_table j) = Some [f_name r].
Proof. exact derived_key_single. Qed.
Print Assumptions C16_derived_key.

(* from the SQL text on: for every query whose ON equalities are written stream = table (or carry no
   deciding qualifier), every registration (keys derived from ON or explicit) and every history, the
   code-level model (parse as the code does, index by encodeKey) returns exactly the outputs of the
   abstract table under the meaning of the clause *)
Theorem C16_refinement_sql : forall (q : qtext) (regs : list reg_call) (ops : list op),
  well_oriented q = true -> model_run_sql q regs ops = spec_run_sql q regs ops.
Proof. exact refinement_sql. Qed.
Print Assumptions C16_refinement_sql.

(* the meaning of ON is symmetric in "=" *)
Theorem C16_on_symmetric : forall sa ta a b, swapped sa ta (a, b) = true ->
  on_pair_spec sa ta (a, b) = on_pair_spec sa ta (b, a).
Proof. exact on_pair_spec_sym. Qed.
Print Assumptions C16_on_symmetric.

(* ... as found the code was positional (finding F56): "JOIN t m ON m.a = k" took a for the stream field and k for
   the table key; with t = [{a:1, v:7}] the row {k:2}, which has no match, was enriched with v = 7.
   Repaired (parseJoin turns a pair around when its qualifiers say table = stream): the refinement from the
   SQL text on now holds for EVERY query, whatever the orientation of its ON equalities *)
Theorem C16_refinement_sql_any_orientation : forall (q : qtext) (regs : list reg_call) (ops : list op),
  model_run_sql q regs ops = spec_run_sql q regs ops.
Proof. exact refinement_sql_all. Qed.
Print Assumptions C16_refinement_sql_any_orientation.

Theorem C16_on_swapped_asfound_refuted : exists q regs ops,
  well_oriented q = false /\ model_run_sql_asfound q regs ops <> spec_run_sql q regs ops /\
  model_run_sql q regs ops = spec_run_sql q regs ops.
Proof.
  exists sw_q, sw_regs, sw_ops. destruct swapped_on_refuted as [H0 [H1 [H2 H3]]]. split; [exact H0|]. split; [|exact H3].
  rewrite H1, H2. discriminate.
Qed.
Print Assumptions C16_on_swapped_asfound_refuted.

(* ---- tables registered again while rows are being processed ---- *)
(* RegisterTable / RegisterTableSource under a name the store already holds replaces the source (the
   documented way to rebuild a table wholesale). Histories of Emit / EmitSync / Upsert / Delete /
   Register / writes through the handle of a replaced source: *)

(* the code-level model returns exactly the outputs of the abstract table, also from the SQL text on *)
Theorem C16_refinement_reregistration : forall (c : cfg) (regs : list (bytes * list bytes * list row)) (hs : list hop),
  model_hrun c regs hs = spec_hrun c regs hs.
Proof. exact hrefinement. Qed.
Print Assumptions C16_refinement_reregistration.

Theorem C16_refinement_sql_reregistration : forall (q : qtext) (regs : list reg_call) (hs : list hcall),
  model_hrun_sql q regs hs = spec_hrun_sql q regs hs.
Proof. exact hrefinement_sql. Qed.
Print Assumptions C16_refinement_sql_reregistration.

(* conservative: a history without registrations is a history of the old kind *)
Theorem C16_reregistration_conservative : forall c regs ops, model_hrun c regs (map HOp ops) = model_run c regs ops.
Proof. exact model_hrun_ops. Qed.
Print Assumptions C16_reregistration_conservative.

(* a registration replaces: right after it the table of that name holds exactly the new rows under the
   new key fields (last row with an equal key wins, any other key sees nothing), whatever the name held
   before; every other table is untouched *)
Theorem C16_register_replaces : forall (ts : tables bytes) n keys rows name k,
  view (register bytes bytes_eqb encodeKey ts n keys rows) name k =
  if bytes_eqb name n then Some (keys, reg_view keys name k rows) else view ts name k.
Proof. exact view_register. Qed.
Print Assumptions C16_register_replaces.

(* read-your-writes over every such history: what key k sees in table [name] at the end is decided by
   the LAST registration of the name and the Upserts / Deletes after it; registrations of other names,
   Emits and writes through detached handles change nothing *)
Theorem C16_read_your_writes_reregistration : forall c hs (ts : tables bytes) name k,
  view (hfinal bytes bytes_eqb encodeKey c ts hs) name k = hview name k (view ts name k) hs.
Proof. exact h_read_your_writes. Qed.
Print Assumptions C16_read_your_writes_reregistration.

(* nothing of the past survives a registration: whatever tables were registered, rows processed and
   updates made before (hs0, ts), after RegisterTable returned a row / an UpsertTable finds under the name
   what it finds in a store (ts') in which only this registration and the later operations happened.
   (A lookup that keeps hitting the source resolved for an earlier row contradicts this.) *)
Theorem C16_register_forgets : forall c hs0 hs (ts ts' : tables bytes) n keys rows k,
  view (hfinal bytes bytes_eqb encodeKey c ts (hs0 ++ HReg n keys rows :: hs)) n k =
  view (hfinal bytes bytes_eqb encodeKey c ts' (HReg n keys rows :: hs)) n k.
Proof. exact register_forgets. Qed.
Print Assumptions C16_register_forgets.

(* results already produced do not depend on what happens later, registrations included *)
Theorem C16_earlier_results_unaffected_reregistration : forall c hs1 hs2 (ts : tables bytes),
  hrun bytes bytes_eqb encodeKey c ts (hs1 ++ hs2) =
  hrun bytes bytes_eqb encodeKey c ts hs1 ++
  hrun bytes bytes_eqb encodeKey c (hfinal bytes bytes_eqb encodeKey c ts hs1) hs2.
Proof. exact hrun_app. Qed.
Print Assumptions C16_earlier_results_unaffected_reregistration.

(* ---- concurrent table updates ---- *)
(* every Upsert / Delete / Lookup is one atomic step, so a concurrent run of two goroutines is a merge
   of their operation sequences; for EVERY merge: what key k sees afterwards is what it sees after the
   operations of the one goroutine alone, provided the other never writes a key equal to k. A lost
   update, a resurrected row or a reverted replace under concurrent writers contradicts this. *)
Theorem C16_concurrent_writers : forall c (ts : tables bytes) name keys k a b ops,
  keys_of ts name = Some keys -> merge a b ops -> filter (touches keys name k) b = [] ->
  lookup_in (final bytes bytes_eqb encodeKey c ts ops) name k =
  lookup_in (final bytes bytes_eqb encodeKey c ts a) name k.
Proof. exact concurrent_writers. Qed.
Print Assumptions C16_concurrent_writers.

(* ---- WHERE over stream columns of a JOIN query; rows waiting in an open window ---- *)
(* FROM stream s JOIN ...: on the enriched row of every kept row "s.col" is the stream row's column (the FROM
   alias exists on the enriched row only: a WHERE evaluated on the raw row reads NULL there and drops rows
   that must be kept), and so is the bare "col" unless it is the name of an alias; the tables play no part *)
Theorem C16_where_stream_columns : forall c (ts : tables bytes) d w col,
  c_joins c <> [] -> enrich bytes bytes_eqb encodeKey c ts d = ERow w ->
  forallb (fun j => negb (bytes_eqb (j_alias j) col)) (c_joins c) = true ->
  (forall s, c_src_alias c = Some s ->
     forallb (fun j => negb (bytes_eqb (j_alias j) s)) (c_joins c) = true ->
     wpath w (PQual s col) = getnil d col) /\
  (match c_src_alias c with Some s => bytes_eqb s col = false | None => True end ->
     wpath w (PCol col) = getnil d col).
Proof.
  intros c ts d w col Hj H Hn. split.
  - intros s Hs Hns. exact (where_from_alias_column _ _ _ c ts d w s col Hj Hs Hns H).
  - intros Hs. exact (where_bare_column _ _ _ c ts d w col Hj Hs Hn H).
Qed.
Print Assumptions C16_where_stream_columns.

(* a row is enriched when it is processed and then waits in the open window: the first n rows of the window
   (group key, values to aggregate: JoinS.window_rows) are fixed by the history up to their processing --
   no Upsert, Delete, registration or row that comes later changes what the window reports for them *)
Theorem C16_window_contents_fixed : forall a g v s c hs1 hs2 (ts : tables bytes) n,
  (n <= length (JoinS.window_rows a g v s (hrun bytes bytes_eqb encodeKey c ts hs1)))%nat ->
  firstn n (JoinS.window_rows a g v s (hrun bytes bytes_eqb encodeKey c ts (hs1 ++ hs2))) =
  firstn n (JoinS.window_rows a g v s (hrun bytes bytes_eqb encodeKey c ts hs1)).
Proof. exact window_contents_fixed. Qed.
Print Assumptions C16_window_contents_fixed.

(* ---- non-vacuity ---- *)
(* 1 = 1.0 (= 4*2^-2), 1 <> '1', -0.0 = 0, 2^53 <> 2^53+1 (int/int and float/int), 1.5 = 3*2^-1 *)
Example C16_key_examples :
  key_eqb (KInt 1) (KFlt 1 0) = true /\ key_eqb (KInt 1) (KFlt 4 (-2)) = true /\
  key_eqb (KInt 1) (KStr [49]%N) = false /\ key_eqb (KFlt 0 0) (KInt 0) = true /\
  key_eqb (KInt 9007199254740992) (KInt 9007199254740993) = false /\
  key_eqb (KFlt 1 53) (KInt 9007199254740993) = false /\ key_eqb (KFlt 1 53) (KInt 9007199254740992) = true /\
  key_eqb (KFlt 3 (-1)) (KFlt 6 (-2)) = true /\ key_eqb KNull (KStr [60; 110; 105; 108; 62]%N) = false /\
  encodeOne (KFlt (-11) (-2)) = [110; 58; 45; 50; 46; 55; 53]%N (* "n:-2.75" *).
Proof. repeat split; reflexivity. Qed.

(* a history through the code-level model: table t keyed by column a; INNER JOIN t m ON k = m.a.
   Upsert {a:1,v:7}; a row with k = 1.0 is enriched, k = '1' is dropped; after Delete(1.0) the row is dropped *)
Example C16_history_example :
  let t := [116]%N in let a := [97]%N in let v := [118]%N in let k := [107]%N in let m := [109]%N in
  let c := {| c_src_alias := None;
              c_joins := [{| j_table := t; j_left := false; j_alias := m; j_pairs := [(k, a)] |}] |} in
  model_run c [(t, [a], [])]
    [OUpsert t [(a, KInt 1); (v, KInt 7)]; OEmitSync [(k, KFlt 1 0)]; OEmitSync [(k, KStr [49]%N)];
     ODelete t (DSingle (KFlt 1 0)); OEmit [(k, KInt 1)]] =
  [OutU true; OutE (ERow [(k, WV (KFlt 1 0)); (m, WR [(a, KInt 1); (v, KInt 7)])]); OutE EDrop; OutD; OutE EDrop].
Proof. reflexivity. Qed.

(* the hypotheses of C16_read_your_writes / C16_inner_left are satisfiable: a registered table *)
Example C16_registered_example :
  keys_of (register_all bytes bytes_eqb encodeKey [([116]%N, [[97]%N], [])]) [116]%N = Some [[97]%N].
Proof. reflexivity. Qed.

(* a history with two re-registrations (other rows, then other key fields), an Upsert after the first and a
   Delete through the replaced handle *)
Example C16_reregistration_example :
  model_hrun rr_cfg [(sw_t, [sw_a], [[(sw_a, KInt 1); (sw_v, KInt 7)]])] rr_hs =
  [OutE (ERow [(sw_k, WV (KInt 1)); (sw_m, WR [(sw_a, KInt 1); (sw_v, KInt 7)])]);
   OutG true;
   OutE (ERow [(sw_k, WV (KInt 1)); (sw_m, WR [(sw_a, KInt 1); (sw_v, KInt 8)])]);
   OutE (ERow [(sw_k, WV (KInt 2)); (sw_m, WR [(sw_a, KInt 2); (sw_v, KInt 9)])]);
   OutU true; OutD;
   OutE (ERow [(sw_k, WV (KInt 1)); (sw_m, WR [(sw_a, KInt 1); (sw_v, KInt 10)])]);
   OutG true;
   OutE (ERow [(sw_k, WV (KInt 9)); (sw_m, WR [(sw_a, KInt 2); (sw_v, KInt 9)])]);
   OutE EDrop].
Proof. exact rereg_example. Qed.

(* merges exist: the concatenation is one *)
Example C16_merge_example : forall a b, merge a b (a ++ b).
Proof. exact merge_app. Qed.
(* a well-oriented query: JOIN t ON k = t.a (no alias, table-name qualifier) *)
Example C16_oriented_example :
  let q := {| q_src_alias := None;
              q_joins := [{| jt_table := [116]%N; jt_left := false; jt_alias := None;
                             jt_on := [({| f_qual := None; f_name := [107]%N |},
                                        {| f_qual := Some [116]%N; f_name := [97]%N |})] |}] |} in
  well_oriented q = true /\
  parse_code q = {| c_src_alias := None;
                    c_joins := [{| j_table := [116]%N; j_left := false; j_alias := [116]%N; j_pairs := [([107]%N, [97]%N)] |}] |}.
Proof. split; reflexivity. Qed.

(* the reviewer's shape of history: row A (k = 1) is processed while the table row says red; the row is deleted
   and created again as blue; row B (k = 1) is processed: a CountingWindow(2) grouped by m.tag reports one row
   under red and one under blue *)
Example C16_window_example :
  let t := [116]%N in let a := [97]%N in let v := [118]%N in let k := [107]%N in let m := [109]%N in
  let tag := [103]%N in let sq := [115]%N in let red := KStr [114]%N in let blue := KStr [98]%N in
  let c := {| c_src_alias := None;
              c_joins := [{| j_table := t; j_left := false; j_alias := m; j_pairs := [(k, a)] |}] |} in
  JoinS.windows_expected 2 (JoinS.window_rows m (Some tag) v sq
    (model_hrun c [(t, [a], [[(a, KInt 1); (tag, red); (v, KInt 7)]])]
       [HOp (OEmit [(k, KInt 1); (sq, KInt 1)]); HOp (ODelete t (DSingle (KInt 1)));
        HOp (OUpsert t [(a, KInt 1); (tag, blue); (v, KInt 9)]); HOp (OEmit [(k, KInt 1); (sq, KInt 2)])])) =
  [[{| JoinS.wa_g := red; JoinS.wa_c := 1; JoinS.wa_sum := Some 7; JoinS.wa_max := Some 7; JoinS.wa_seq := Some 1 |};
    {| JoinS.wa_g := blue; JoinS.wa_c := 1; JoinS.wa_sum := Some 9; JoinS.wa_max := Some 9; JoinS.wa_seq := Some 2 |}]].
Proof. reflexivity. Qed.
