(* C04 — GROUP BY partitions each window's rows by the grouping key tuple.
   Only statements, each closed by [exact]; proofs live in Proofs/GroupKeyProofs.v. *)
From SV Require Import Model.GroupKey Proofs.GroupKeyProofs.

(* the length-prefixed key encoder of the aggregator after the repair is injective on tuples of grouping values -- any numbers of columns, any bytes in the
   strings (separators, NUL, empty), NULL, numbers, bools *)
Theorem C04_enc_injective : forall a b : list kvalue, enc_tuple a = enc_tuple b -> a = b.
Proof. exact enc_tuple_inj. Qed.
Print Assumptions C04_enc_injective.

(* one encoded column is self-delimiting: whatever bytes follow it *)
Theorem C04_segment_self_delimiting : forall v w x y,
  k_key_part v ++ x = k_key_part w ++ y -> v = w /\ x = y.
Proof. exact key_part_app_inj. Qed.
Print Assumptions C04_segment_self_delimiting.

(* the escaping encoder of the three window sites (columns joined by '|', '\' and '|' escaped
   inside a column, NULL = "\N") is injective on tuples that agree column by column in kind:
   every column NULL-or-string (all bytes, incl. '|', '\', the text "\N" itself) or
   NULL-or-number, NULL-or-bool *)
Theorem C04_window_enc_injective : forall sch a b,
  conforms sch a -> conforms sch b -> enc_win a = enc_win b -> a = b.
Proof. intros sch a b Ha Hb. apply enc_win_inj. eapply conforms_same_kind; eauto. Qed.
Print Assumptions C04_window_enc_injective.

Theorem C04_window_enc_injective_strings : forall a b,
  Forall (fun v => of_kind KdStr v) a -> Forall (fun v => of_kind KdStr v) b -> length a = length b ->
  enc_win a = enc_win b -> a = b.
Proof. exact enc_win_inj_strings. Qed.
Print Assumptions C04_window_enc_injective_strings.

Theorem C04_window_enc_injective_numbers : forall a b,
  Forall (fun v => of_kind KdInt v) a -> Forall (fun v => of_kind KdInt v) b -> length a = length b ->
  enc_win a = enc_win b -> a = b.
Proof. exact enc_win_inj_numbers. Qed.
Print Assumptions C04_window_enc_injective_numbers.

(* the per-site keys ("__global__" / "default" when there is no grouping column) identify the
   tuple among rows of one query (one schema: same number of grouping columns, one scalar type
   per column) *)
Theorem C04_site_keys_injective : forall g sch r1 r2,
  conforms sch (ktuple_of r1) -> conforms sch (ktuple_of r2) ->
  (win_key g r1 = win_key g r2 <-> ktuple_of r1 = ktuple_of r2).
Proof. exact win_key_iff. Qed.
Print Assumptions C04_site_keys_injective.

Theorem C04_agg_key_injective : forall r1 r2, agg_key r1 = agg_key r2 <-> ktuple_of r1 = ktuple_of r2.
Proof. exact agg_key_iff. Qed.
Print Assumptions C04_agg_key_injective.

(* group_partition: the aggregator (GroupAggregator.Add + GetResults) on the rows of one batch
   yields exactly one result per distinct tuple, and the rows aggregated in the result of tuple t
   are exactly the batch's rows whose tuple is t, in arrival order (so: every row in the group of
   its own tuple and in no other; differing values never merged, equal values never split) *)
Theorem C04_group_partition : forall rows,
  let res := kgroup rows in
  NoDup (map fst res)
  /\ (forall t, In t (map fst res) <-> exists r, In r rows /\ ktuple_of r = t)
  /\ (forall t rs, In (t, rs) res ->
        rs = filter (fun r => ktuple_eqb (ktuple_of r) t) rows /\ rs <> []).
Proof. exact group_partition. Qed.
Print Assumptions C04_group_partition.

(* the same for the per-key maps of the keyed windows (sessionMap, global groups): keyed by the
   site key, rows of one query *)
Theorem C04_group_partition_windows : forall g sch rows,
  Forall (fun r => conforms sch (ktuple_of r)) rows ->
  let res := kgroup_by (win_key g) rows in
  NoDup (map fst res)
  /\ (forall t, In t (map fst res) <-> exists r, In r rows /\ ktuple_of r = t)
  /\ (forall t rs, In (t, rs) res ->
        rs = filter (fun r => ktuple_eqb (ktuple_of r) t) rows /\ rs <> []).
Proof. exact group_partition_win. Qed.
Print Assumptions C04_group_partition_windows.

(* the tuple is reported under the selected output names (projectGroupColumns; names are
   distinct: compileOutputNames rejects a query where two group columns resolve to one name) *)
Theorem C04_reported_under_names : forall names t i n,
  NoDup names -> length names = length t -> nth_error names i = Some n ->
  klookup n (kreport names t) = nth_error t i.
Proof. exact report_lookup. Qed.
Print Assumptions C04_reported_under_names.

(* history (F2): the encoders as written before the fix were not injective *)
Theorem C04_aggregator_old_sep_refuted :
  exists a b, a <> b /\ length a = length b /\ enc_old_agg a = enc_old_agg b.
Proof. exact enc_old_agg_sep_refuted. Qed.
Print Assumptions C04_aggregator_old_sep_refuted.

Theorem C04_aggregator_old_null_refuted :
  exists a b, a <> b /\ length a = length b /\ enc_old_agg a = enc_old_agg b.
Proof. exact enc_old_agg_null_refuted. Qed.
Print Assumptions C04_aggregator_old_null_refuted.

Theorem C04_windows_old_sep_refuted :
  exists a b, a <> b /\ length a = length b /\ enc_old_win a = enc_old_win b.
Proof. exact enc_old_win_sep_refuted. Qed.
Print Assumptions C04_windows_old_sep_refuted.

Theorem C04_windows_old_null_refuted :
  exists a b, a <> b /\ length a = length b /\ enc_old_win a = enc_old_win b.
Proof. exact enc_old_win_null_refuted. Qed.
Print Assumptions C04_windows_old_null_refuted.

(* non-vacuity: the two tuples the old encoders confused get different keys, and are two groups *)
Example C04_example :
  enc_tuple [KStr [97; 124; 98]; KStr [99]]%N <> enc_tuple [KStr [97]; KStr [98; 124; 99]]%N
  /\ enc_win [KStr [97; 124; 98]; KStr [99]]%N <> enc_win [KStr [97]; KStr [98; 124; 99]]%N
  /\ enc_win [KNull] <> enc_win [KStr [92; 78]]%N /\ enc_win [KNull] <> enc_win [KStr []]
  /\ conforms [KdStr; KdStr] [KStr [97; 124; 98]; KNull]%N
  /\ length (kgroup [mkKRow 1 [Some (KStr [97; 124; 98]); Some (KStr [99])];
                     mkKRow 2 [Some (KStr [97]); Some (KStr [98; 124; 99])];
                     mkKRow 3 [None; Some (KStr [])]; mkKRow 4 [Some KNull; Some (KStr [])]]%N%Z) = 3.
Proof.
  split; [intro H; apply enc_tuple_inj in H; discriminate H|].
  split; [intro H; vm_compute in H; discriminate H|].
  split; [intro H; vm_compute in H; discriminate H|].
  split; [intro H; vm_compute in H; discriminate H|].
  split; [repeat constructor|reflexivity].
Qed.
