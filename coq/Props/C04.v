(* C04 — GROUP BY partitions each window's rows by the grouping key tuple.
   Only statements, each closed by [exact]; proofs live in Proofs/GroupKeyProofs.v. *)
From SV Require Import Model.GroupKey Proofs.GroupKeyProofs Proofs.GroupPairProofs.
From SV Require Import Model.GroupNames Spec.GroupNamesSpec Proofs.GroupNamesProofs.

(* the length-prefixed key encoder of the aggregator after the repair is injective on tuples of grouping values -- any numbers of columns, any bytes in the
   strings (separators, NUL, empty), NULL, numbers, bools *)
Theorem C04_enc_injective : forall a b : list kvalue, enc_tuple a = enc_tuple b -> a = b.
Proof. exact enc_tuple_inj. Qed.
Print Assumptions C04_enc_injective.

(* one encoded column is self-delimiting: whatever bytes follow it *)
Theorem C04_segment_self_delimiting : forall v w x y,
  k_key_part v ++ x = k_key_part w ++ y -> v = w /\ x = y.
Proof. exact key_part_app_inj. Qed.
Print Assumptions C04_segment_self_delimiting.

(* the escaping encoder of the three window sites (columns joined by '|', '\' and '|' escaped
   inside a column, NULL = "\N") is injective on tuples that agree column by column in kind:
   every column NULL-or-string (all bytes, incl. '|', '\', the text "\N" itself) or
   NULL-or-number, NULL-or-bool *)
Theorem C04_window_enc_injective : forall sch a b,
  conforms sch a -> conforms sch b -> enc_win a = enc_win b -> a = b.
Proof. intros sch a b Ha Hb. apply enc_win_inj. eapply conforms_same_kind; eauto. Qed.
Print Assumptions C04_window_enc_injective.

Theorem C04_window_enc_injective_strings : forall a b,
  Forall (fun v => of_kind KdStr v) a -> Forall (fun v => of_kind KdStr v) b -> length a = length b ->
  enc_win a = enc_win b -> a = b.
Proof. exact enc_win_inj_strings. Qed.
Print Assumptions C04_window_enc_injective_strings.

Theorem C04_window_enc_injective_numbers : forall a b,
  Forall (fun v => of_kind KdInt v) a -> Forall (fun v => of_kind KdInt v) b -> length a = length b ->
  enc_win a = enc_win b -> a = b.
Proof. exact enc_win_inj_numbers. Qed.
Print Assumptions C04_window_enc_injective_numbers.

(* the per-site keys ("__global__" / "default" when there is no grouping column) identify the
   tuple among rows of one query (one schema: same number of grouping columns, one scalar type
   per column) *)
Theorem C04_site_keys_injective : forall g sch r1 r2,
  conforms sch (ktuple_of r1) -> conforms sch (ktuple_of r2) ->
  (win_key g r1 = win_key g r2 <-> ktuple_of r1 = ktuple_of r2).
Proof. exact win_key_iff. Qed.
Print Assumptions C04_site_keys_injective.

Theorem C04_agg_key_injective : forall r1 r2, agg_key r1 = agg_key r2 <-> ktuple_of r1 = ktuple_of r2.
Proof. exact agg_key_iff. Qed.
Print Assumptions C04_agg_key_injective.

(* group_partition: the aggregator (GroupAggregator.Add + GetResults) on the rows of one batch
   yields exactly one result per distinct tuple, and the rows aggregated in the result of tuple t
   are exactly the batch's rows whose tuple is t, in arrival order (so: every row in the group of
   its own tuple and in no other; differing values never merged, equal values never split) *)
Theorem C04_group_partition : forall rows,
  let res := kgroup rows in
  NoDup (map fst res)
  /\ (forall t, In t (map fst res) <-> exists r, In r rows /\ ktuple_of r = t)
  /\ (forall t rs, In (t, rs) res ->
        rs = filter (fun r => ktuple_eqb (ktuple_of r) t) rows /\ rs <> []).
Proof. exact group_partition. Qed.
Print Assumptions C04_group_partition.

(* the same for the per-key maps of the keyed windows (sessionMap, global groups): keyed by the
   site key, rows of one query *)
Theorem C04_group_partition_windows : forall g sch rows,
  Forall (fun r => conforms sch (ktuple_of r)) rows ->
  let res := kgroup_by (win_key g) rows in
  NoDup (map fst res)
  /\ (forall t, In t (map fst res) <-> exists r, In r rows /\ ktuple_of r = t)
  /\ (forall t rs, In (t, rs) res ->
        rs = filter (fun r => ktuple_eqb (ktuple_of r) t) rows /\ rs <> []).
Proof. exact group_partition_win. Qed.
Print Assumptions C04_group_partition_windows.

(* the tuple is reported under the selected output names (projectGroupColumns; names are
   distinct: compileOutputNames rejects a query where two group columns resolve to one name) *)
Theorem C04_reported_under_names : forall names t i n,
  NoDup names -> length names = length t -> nth_error names i = Some n ->
  klookup n (kreport names t) = nth_error t i.
Proof. exact report_lookup. Qed.
Print Assumptions C04_reported_under_names.

(* ---- output naming of the grouping columns (Model/GroupNames.v) -----------------------------------
   the name of a grouping column: its AS alias if the SELECT list has one for that very text ... *)
Theorem C04_out_name_alias : forall sel quals gf a, kn_alias sel gf = Some a -> kn_out sel quals gf = a.
Proof. exact kn_out_alias. Qed.
Print Assumptions C04_out_name_alias.

(* (the last SELECT item `gf AS a` with a non-empty alias is the one that counts) *)
Theorem C04_alias_of_selected_item : forall sel gf a,
  a <> [] -> (forall x b, In (x, b) sel -> x <> gf) -> forall pre, kn_alias (pre ++ (gf, a) :: sel) gf = Some a.
Proof. exact kn_alias_last. Qed.
Print Assumptions C04_alias_of_selected_item.

(* ... otherwise the text itself, without its qualifier if that is the FROM alias or a JOIN alias
   (m.location -> location); a foreign qualifier and an unqualified text stay as written *)
Theorem C04_out_name_qualified : forall sel quals q rest,
  kn_alias sel (q ++ k_dot :: rest) = None -> q <> [] -> ~ In k_dot q -> In q quals ->
  kn_out sel quals (q ++ k_dot :: rest) = rest.
Proof. exact kn_out_qualified. Qed.
Print Assumptions C04_out_name_qualified.

Theorem C04_out_name_foreign_qualifier : forall sel quals q rest,
  kn_alias sel (q ++ k_dot :: rest) = None -> ~ In k_dot q -> ~ In q quals ->
  kn_out sel quals (q ++ k_dot :: rest) = q ++ k_dot :: rest.
Proof. exact kn_out_foreign_qualifier. Qed.
Print Assumptions C04_out_name_foreign_qualifier.

Theorem C04_out_name_plain : forall sel quals gf,
  kn_alias sel gf = None -> ~ In k_dot gf -> kn_out sel quals gf = gf.
Proof. exact kn_out_plain. Qed.
Print Assumptions C04_out_name_plain.

(* projectGroupColumns on the row the aggregator emits (grouping values under the GROUP BY texts,
   aggregates under their aliases): for ANY values -- the type of values is a parameter, so NULL is
   just one of them -- the row that reaches the sink holds the i-th grouping value under the i-th output
   name, every aggregate under its alias, and no other column. Conditions: GROUP BY texts distinct,
   output names distinct, aggregate aliases apart from both, and an output name that is also a GROUP BY
   text belongs to that very column. *)
Theorem C04_projected_row : forall (A : Type) gfs outs (t : list A) aggs,
  kn_compatible gfs outs (map fst aggs) -> length t = length gfs ->
  let row := kn_result gfs outs t aggs in
  (forall i o, nth_error outs i = Some o -> kn_get o row = nth_error t i)
  /\ (forall a, In a (map fst aggs) -> kn_get a row = kn_get a aggs)
  /\ (forall n, kn_get n row <> None -> In n outs \/ In n (map fst aggs)).
Proof. exact @project_correct. Qed.
Print Assumptions C04_projected_row.

(* ... hence every model row passes the executable name-set checker the harness applies to the rows
   of the implementation (system columns allowed, not demanded) *)
Theorem C04_projected_row_passes_checker : forall (A : Type) gfs outs (t : list A) aggs sys,
  kn_compatible gfs outs (map fst aggs) -> length t = length gfs ->
  chk_row_names outs (map fst aggs) sys (map fst (kn_result gfs outs t aggs)) = None.
Proof. exact @project_passes_checker. Qed.
Print Assumptions C04_projected_row_passes_checker.

(* the last condition is needed and NOT checked by the code (finding F61 in known_findings.d/C04.jsonl): with an alias that is the
   GROUP BY text of another column (SELECT k1 AS k2, k2 AS z .. GROUP BY k1, k2) the emitted row is
   {z: v2}: the first grouping value is lost, its column missing *)
Theorem C04_alias_onto_group_column_refuted :
  exists gfs outs (t : list kvalue),
    length outs = length gfs /\ length t = length gfs /\ NoDup gfs /\ NoDup outs
    /\ chk_row_names outs [] [] (map fst (kn_result gfs outs t [])) = Some NColumnMissing
    /\ kn_tuple outs (kn_result gfs outs t []) = [None; nth_error t 1].
Proof. exact alias_onto_group_column_refuted. Qed.
Print Assumptions C04_alias_onto_group_column_refuted.

(* non-vacuity: SELECT s.k1 AS dev, m.loc, upper(k3) AS u .. FROM stream s LEFT JOIN meta m .. GROUP BY
   s.k1, m.loc, upper(k3): names dev, loc, u; the NULL group {NULL, NULL, NULL} is reported under them *)
Example C04_names_example :
  let sel := [([115; 46; 107; 49], [100; 101; 118]); ([109; 46; 108; 111; 99], []);
              ([117; 40; 107; 51; 41], [117])]%N in
  let gfs := [[115; 46; 107; 49]; [109; 46; 108; 111; 99]; [117; 40; 107; 51; 41]]%N in
  let outs := kn_outs sel [[115]; [109]]%N gfs in
  outs = [[100; 101; 118]; [108; 111; 99]; [117]]%N
  /\ kn_compatible gfs outs [[99]]%N
  /\ kn_tuple outs (kn_result gfs outs [KNull; KNull; KNull] [([99]%N, KInt 2)]) = [Some KNull; Some KNull; Some KNull].
Proof.
  split; [reflexivity|]. split; [|reflexivity].
  unfold kn_compatible. simpl.
  split; [reflexivity|].
  split; [repeat constructor; simpl; intuition discriminate|].
  split; [repeat constructor; simpl; intuition discriminate|].
  split.
  - intros g o [H|[H|[H|[]]]] Hin; injection H as <- <-; destruct Hin as [E|[E|[E|[]]]]; discriminate E.
  - intros a [<-|[]]. split; intuition discriminate.
Qed.

(* history (F2): the encoders as written before the fix were not injective *)
Theorem C04_aggregator_old_sep_refuted :
  exists a b, a <> b /\ length a = length b /\ enc_old_agg a = enc_old_agg b.
Proof. exact enc_old_agg_sep_refuted. Qed.
Print Assumptions C04_aggregator_old_sep_refuted.

Theorem C04_aggregator_old_null_refuted :
  exists a b, a <> b /\ length a = length b /\ enc_old_agg a = enc_old_agg b.
Proof. exact enc_old_agg_null_refuted. Qed.
Print Assumptions C04_aggregator_old_null_refuted.

Theorem C04_windows_old_sep_refuted :
  exists a b, a <> b /\ length a = length b /\ enc_old_win a = enc_old_win b.
Proof. exact enc_old_win_sep_refuted. Qed.
Print Assumptions C04_windows_old_sep_refuted.

Theorem C04_windows_old_null_refuted :
  exists a b, a <> b /\ length a = length b /\ enc_old_win a = enc_old_win b.
Proof. exact enc_old_win_null_refuted. Qed.
Print Assumptions C04_windows_old_null_refuted.

(* the pair judgement of the correspondence check (P lines: two tuples pushed through ONE real encoder): on the
   model, key equality and tuple equality are the same boolean -- for the aggregator on all tuples, for the
   segment encoder on all values, for the window sites on rows of one schema. So `chk key_collision` (different
   tuples, one key) and `chk key_split` (one tuple, two keys) are never raised against an encoder that behaves
   like the model; two floats are different values exactly when their shortest renderings differ *)
Theorem C04_pair_judgement_aggregator : forall r1 r2,
  bytes_eqb (agg_key r1) (agg_key r2) = ktuple_eqb (ktuple_of r1) (ktuple_of r2).
Proof. exact pair_judgement_agg. Qed.
Print Assumptions C04_pair_judgement_aggregator.

Theorem C04_pair_judgement_segment : forall v w,
  bytes_eqb (k_key_part v) (k_key_part w) = kvalue_eqb v w.
Proof. exact pair_judgement_part. Qed.
Print Assumptions C04_pair_judgement_segment.

Theorem C04_pair_judgement_windows : forall g sch r1 r2,
  conforms sch (ktuple_of r1) -> conforms sch (ktuple_of r2) ->
  bytes_eqb (win_key g r1) (win_key g r2) = ktuple_eqb (ktuple_of r1) (ktuple_of r2).
Proof. exact pair_judgement_win. Qed.
Print Assumptions C04_pair_judgement_windows.

(* non-vacuity: 31.2304001 and 31.2304002 (equal as float32) are two keys, two groups, at every site *)
Example C04_near_floats_example :
  let a := KFlt [51; 49; 46; 50; 51; 48; 52; 48; 48; 49]%N in
  let b := KFlt [51; 49; 46; 50; 51; 48; 52; 48; 48; 50]%N in
  agg_key (mkKRow 1 [Some a]) <> agg_key (mkKRow 2 [Some b])
  /\ cnt_key (mkKRow 1 [Some a]) <> cnt_key (mkKRow 2 [Some b])
  /\ conforms [KdFlt] [a] /\ conforms [KdFlt] [b]
  /\ length (kgroup [mkKRow 1 [Some a]; mkKRow 2 [Some b]; mkKRow 3 [Some a]]%Z) = 2.
Proof.
  cbv zeta.
  split; [intro H; vm_compute in H; discriminate H|].
  split; [intro H; vm_compute in H; discriminate H|].
  split; [repeat constructor|]. split; [repeat constructor|reflexivity].
Qed.

(* the escaping of one column is injective on BYTE strings: the model never decodes the text (no UTF-8
   reading), so values that differ in bytes that are not valid UTF-8 keep different escaped texts; an
   implementation that walks runes (invalid byte -> U+FFFD) disagrees with k_esc on the K lines and is
   judged key_collision / merged on the invalid-UTF-8 family (harness/c04utf8.go) *)
Theorem C04_escape_bytewise_injective : forall s s' : bytes, k_esc s = k_esc s' -> s = s'.
Proof. exact esc_inj. Qed.
Print Assumptions C04_escape_bytewise_injective.

(* non-vacuity: "a|\xff", "a|\xfe" and "a|" ++ U+FFFD (the image of both under a UTF-8 decoding walk) are
   three window keys and three groups *)
Example C04_invalid_utf8_example :
  let a := KStr [97; 124; 255]%N in
  let b := KStr [97; 124; 254]%N in
  let c := KStr [97; 124; 239; 191; 189]%N in
  cnt_key (mkKRow 1 [Some a]) <> cnt_key (mkKRow 2 [Some b])
  /\ cnt_key (mkKRow 1 [Some a]) <> cnt_key (mkKRow 3 [Some c])
  /\ ses_key (mkKRow 2 [Some b]) <> ses_key (mkKRow 3 [Some c])
  /\ conforms [KdStr] [a] /\ conforms [KdStr] [b] /\ conforms [KdStr] [c]
  /\ length (kgroup [mkKRow 1 [Some a]; mkKRow 2 [Some b]; mkKRow 3 [Some c]; mkKRow 4 [Some a]]%Z) = 3.
Proof.
  cbv zeta.
  split; [intro H; vm_compute in H; discriminate H|].
  split; [intro H; vm_compute in H; discriminate H|].
  split; [intro H; vm_compute in H; discriminate H|].
  split; [repeat constructor|]. split; [repeat constructor|]. split; [repeat constructor|reflexivity].
Qed.

(* non-vacuity: the two tuples the old encoders confused get different keys, and are two groups *)
Example C04_example :
  enc_tuple [KStr [97; 124; 98]; KStr [99]]%N <> enc_tuple [KStr [97]; KStr [98; 124; 99]]%N
  /\ enc_win [KStr [97; 124; 98]; KStr [99]]%N <> enc_win [KStr [97]; KStr [98; 124; 99]]%N
  /\ enc_win [KNull] <> enc_win [KStr [92; 78]]%N /\ enc_win [KNull] <> enc_win [KStr []]
  /\ conforms [KdStr; KdStr] [KStr [97; 124; 98]; KNull]%N
  /\ length (kgroup [mkKRow 1 [Some (KStr [97; 124; 98]); Some (KStr [99])];
                     mkKRow 2 [Some (KStr [97]); Some (KStr [98; 124; 99])];
                     mkKRow 3 [None; Some (KStr [])]; mkKRow 4 [Some KNull; Some (KStr [])]]%N%Z) = 3.
Proof.
  split; [intro H; apply enc_tuple_inj in H; discriminate H|].
  split; [intro H; vm_compute in H; discriminate H|].
  split; [intro H; vm_compute in H; discriminate H|].
  split; [intro H; vm_compute in H; discriminate H|].
  split; [repeat constructor|reflexivity].
Qed.
