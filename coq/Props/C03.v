(* C03 — Aggregate functions equal their mathematical definition on the rows of the batch.
   Only statements, each closed by [exact]; proofs live in Proofs/AggProofs.v and Proofs/AggFront.v.
   [batch f m cells]  = the model of GroupAggregator for one field: Add every row of the batch, GetResults.
   [spec_batch f m cells] = the documented definition applied to the present cells in arrival order
   (Spec/AggSpec.v: NULL / missing / non-numeric inputs skipped, SUM/AVG/MIN/MAX of nothing = NULL, COUNT = 0,
   VAR = sum (x-mu)^2 / n, VARS = .../(n-1), STDDEV(S) = sqrt of them, FIRST/LAST_VALUE keep an explicit NULL). *)
From Coq Require Import QArith Permutation.
From SV Require Import Model.Agg Spec.AggSpec Proofs.AggProofs Proofs.AggFront Proofs.AggHaving Proofs.AggFloat.

(* every registered aggregate except STDDEV, for a bare column / nested path (MCol) and for an expression
   argument evaluated per row (MExpr; code after fix d3cad79), for every batch *)
Theorem C03_batch_correct : forall f m cells,
  f <> AStdDev -> m <> MStar ->
  match f with WStdDev | WStdDevS | WVar | WVarS => False | _ => True end ->
  ores_eq (batch f m cells) (spec_batch f m cells).
Proof. exact batch_correct. Qed.
Print Assumptions C03_batch_correct.

(* one aggregator object (New / Add* / Result) on arbitrary values, incl. the exported Welford variants *)
Theorem C03_object_correct : forall f vs,
  f <> AStdDev -> (keeps_null f = false \/ nonnull vs = vs) -> res_eq (run f vs) (spec f vs).
Proof. exact run_correct. Qed.
Print Assumptions C03_object_correct.

(* the Welford recurrence: m2 accumulates sum (x - mean)^2, so VAR = sum (x-mu)^2 / n for every input list *)
Theorem C03_welford_var : forall vs, res_eq (run WVar vs) (spec WVar vs).
Proof. exact welford_var_correct. Qed.
Print Assumptions C03_welford_var.
Theorem C03_welford_vars : forall vs, res_eq (run WVarS vs) (spec WVarS vs).
Proof. exact welford_vars_correct. Qed.
Print Assumptions C03_welford_vars.
Theorem C03_welford_stddev : forall vs, res_eq (run WStdDev vs) (spec WStdDev vs).
Proof. exact welford_stddev_correct. Qed.
Print Assumptions C03_welford_stddev.
Theorem C03_welford_stddevs : forall vs, res_eq (run WStdDevS vs) (spec WStdDevS vs).
Proof. exact welford_stddevs_correct. Qed.
Print Assumptions C03_welford_stddevs.

(* the float64 error budget of the variance family (Spec/AggSpec.v fl_slack; the driver compares var / vars /
   stddev / stddevs with |r - q| <= 2^-30 |q| + 2^-40 + fl_slack).  A second pass around a point c that is not exactly
   the mean overshoots sum (x-mu)^2 by n (c-mu)^2 - never undershoots - so the rounding of the mean (<= 2^-53 max|x|)
   enters the two-pass result in second order: two_pass_slack = 2 (2^-52 max|x|)^2.  The one-pass formula
   sum x^2 - (sum x)^2 / n is the same rational number (the model cannot tell the algorithms apart), but in float64
   it loses the spread of large-offset values (1e9+1 .. 1e9+4: 0 instead of 1.25), far outside that slack. *)
Theorem C03_two_pass_shifted_mean : forall l c, l <> [] ->
  qsum (map (fun x => (x - c) * (x - c)) l) == sqdev l + qnat (length l) * ((c - mean l) * (c - mean l)).
Proof. exact two_pass_shifted_mean. Qed.
Print Assumptions C03_two_pass_shifted_mean.
Theorem C03_two_pass_never_below : forall l c, l <> [] ->
  sqdev l <= qsum (map (fun x => (x - c) * (x - c)) l).
Proof. exact two_pass_never_below. Qed.
Print Assumptions C03_two_pass_never_below.
Theorem C03_one_pass_same_rational : forall l, l <> [] ->
  sqdev l == qsum (map (fun x => x * x) l) - qsum l * qsum l / qnat (length l).
Proof. exact one_pass_same_rational. Qed.
Print Assumptions C03_one_pass_same_rational.
(* the slack is never negative, is 0 outside the variance family, slack 0 is the plain comparison, a larger slack only
   accepts more, and the exactly compared aggregates stay exactly compared *)
Theorem C03_fl_slack_nonneg : forall f vs, 0 <= fl_slack f vs.
Proof. exact fl_slack_nonneg. Qed.
Print Assumptions C03_fl_slack_nonneg.
Theorem C03_fl_slack_only_variance : forall f vs,
  match f with AStdDev | AStdDevS | AVar | AVarS | WStdDev | WStdDevS | WVar | WVarS => True | _ => fl_slack f vs = 0 end.
Proof. exact fl_slack_only_variance. Qed.
Print Assumptions C03_fl_slack_only_variance.
Theorem C03_matches_slack_zero : forall ex o r, matches_s ex 0 o r = matches ex o r.
Proof. exact matches_s_zero. Qed.
Print Assumptions C03_matches_slack_zero.
Theorem C03_matches_slack_mono : forall ex s s' o r,
  s <= s' -> matches_s ex s o r = true -> matches_s ex s' o r = true.
Proof. exact matches_s_mono. Qed.
Print Assumptions C03_matches_slack_mono.
(* non-vacuity: the slack of 1e9+1 .. 1e9+4 is 2 (1000000004 / 2^52)^2 ~ 1e-13, and the one-pass result 0 is rejected
   for var = 5/4 while a result within the slack is accepted *)
Example C03_fl_slack_example :
  let vs := [VInt 1000000001; VInt 1000000002; VInt 1000000003; VInt 1000000004] in
  (res_eq (spec AVar vs) (RNum (5 # 4))) /\
  (Qeq (fl_slack AVar vs) (2 * ((1000000004 # 1) * fl_eps) * ((1000000004 # 1) * fl_eps))) /\
  (matches_s false (fl_slack AVar vs) (OVal (VFlt 0)) (spec AVar vs) = false) /\
  (matches_s false (fl_slack AVar vs) (OVal (VFlt (5 # 4))) (spec AVar vs) = true).
Proof. vm_compute. repeat split. Qed.

(* what MIN / MAX of the definition mean *)
Theorem C03_min_is_least : forall l x,
  In (least x l) (x :: l) /\ least x l <= x /\ forall y, In y l -> least x l <= y.
Proof. exact least_spec. Qed.
Print Assumptions C03_min_is_least.
Theorem C03_max_is_greatest : forall l x,
  In (greatest x l) (x :: l) /\ x <= greatest x l /\ forall y, In y l -> y <= greatest x l.
Proof. exact greatest_spec. Qed.
Print Assumptions C03_max_is_greatest.

Theorem C03_count_star_counts_rows : forall f cells, cells <> [] ->
  batch ACount MStar cells = Some (RNum (qnat (length cells))) /\
  spec_batch f MStar cells = Some (RNum (qnat (length cells))).
Proof. exact count_star_counts_rows. Qed.
Print Assumptions C03_count_star_counts_rows.

(* an event without any column ({}): every input of the row is missing, yet it is a row of the batch.  A batch of n+1
   such events has a result row - every field that reads a column reports the value of "no usable input" (result of the
   initial state: sum avg min max NULL, count 0, ...), count( * ) reports n+1 -, and such an event anywhere in a
   batch changes nothing for the fields that read a column (it is counted by count( * ): C03_count_star_counts_rows).
   An implementation that drops the event before the group is created is told apart (families GE SE ME HE). *)
Theorem C03_batch_of_empty_events : forall f m n, m <> MStar ->
  batch f m (repeat Missing (S n)) = Some (result f (init f)) /\
  batch ACount MStar (repeat Missing (S n)) = Some (RNum (qnat (S n))).
Proof. exact batch_of_empty_events. Qed.
Print Assumptions C03_batch_of_empty_events.
Theorem C03_empty_event_in_batch : forall f m pre post, m <> MStar -> pre ++ post <> [] ->
  batch f m (pre ++ Missing :: post) = batch f m (pre ++ post).
Proof. exact empty_event_in_batch. Qed.
Print Assumptions C03_empty_event_in_batch.
Example C03_empty_events_witness :
  batch ASum MCol [Missing; Missing; Missing] = Some RNull /\
  batch ACount MCol [Missing; Missing; Missing] = Some (RNum 0) /\
  batch ACount MStar [Cell (VInt 1); Missing; Cell (VFlt (5 # 2)); Missing] = Some (RNum 4).
Proof. vm_compute. repeat split; reflexivity. Qed.

Theorem C03_empty_group : forall vs, nums vs = [] ->
  spec ASum vs = RNull /\ spec AAvg vs = RNull /\ spec AMin vs = RNull /\ spec AMax vs = RNull.
Proof. exact empty_group. Qed.
Print Assumptions C03_empty_group.
Theorem C03_empty_count : forall vs, nonnull vs = [] -> spec ACount vs = RNum 0.
Proof. exact empty_count. Qed.
Print Assumptions C03_empty_count.

Theorem C03_first_last_explicit_null : forall m cells, m <> MStar ->
  (forall rest, present cells = VNull :: rest -> batch AFirst m cells = Some (RVal VNull)) /\
  (forall front, present cells = front ++ [VNull] -> batch ALast m cells = Some (RVal VNull)).
Proof. exact first_last_explicit_null. Qed.
Print Assumptions C03_first_last_explicit_null.

(* order-insensitive aggregates are invariant under permutation of the batch *)
Theorem C03_perm_invariant : forall f vs vs', order_free f = true -> Permutation vs vs' ->
  res_eq (spec f vs) (spec f vs').
Proof. exact spec_perm_invariant. Qed.
Print Assumptions C03_perm_invariant.
Theorem C03_min_perm_invariant : forall x l y l', Permutation (x :: l) (y :: l') -> least x l == least y l'.
Proof. exact min_perm_invariant. Qed.
Print Assumptions C03_min_perm_invariant.
Theorem C03_max_perm_invariant : forall x l y l', Permutation (x :: l) (y :: l') -> greatest x l == greatest y l'.
Proof. exact max_perm_invariant. Qed.
Print Assumptions C03_max_perm_invariant.

(* state never leaks from one batch into the next (Reset): consecutive batches on one instance *)
Theorem C03_no_leak : forall f m bs, run_batches f m None bs = map (batch f m) bs.
Proof. exact no_leak. Qed.
Print Assumptions C03_no_leak.
Theorem C03_no_leak_after_reset : forall f m g b bs,
  run_batches f m g (b :: bs) = batch_from f m g b :: map (batch f m) bs.
Proof. exact no_leak_after_reset. Qed.
Print Assumptions C03_no_leak_after_reset.

(* several aggregate calls in one select list (one GroupAggregator, one state per call): the j-th call yields the
   definition applied to ITS OWN argument expression evaluated per row -- whatever the other calls of the list and
   their arguments are (same column, same aggregate, nested path, decimal literal ...) *)
Theorem C03_select_list_correct : forall fs cells j f m sh,
  nth_error fs j = Some (f, m, sh) ->
  f <> AStdDev -> m <> MStar ->
  match f with WStdDev | WStdDevS | WVar | WVarS => False | _ => True end ->
  exists r, nth_error (sel_batch fs cells) j = Some r /\
            ores_eq r (spec_batch f m (map (eval_arg sh) cells)).
Proof. exact select_list_correct. Qed.
Print Assumptions C03_select_list_correct.
(* consecutive batches of a select list on one instance: every batch, every call, a function of the own batch and
   the own argument only *)
Theorem C03_select_list_batches : forall fs bs,
  sel_run fs (sel_init fs) bs = map (fun b => map (field_batch b) fs) bs.
Proof. exact sel_run_fields. Qed.
Print Assumptions C03_select_list_batches.
Example C03_select_list_example :
  sel_batch [(ASum, MExpr, ShAff OMul 2); (ASum, MExpr, ShAff OAdd 1);
             (AMin, MExpr, ShAff OMul (5 # 2)); (AFirst, MExpr, ShAff OAdd 1)]
            [Cell (VInt 1); Cell (VInt (-4)); Cell VNull; Missing; Cell (VInt 10)]
  = [Some (RNum 14); Some (RNum 10); Some (RNum (-10)); Some (RVal (VFlt 2))].
Proof. exact select_list_example. Qed.

(* consecutive batches of a query WITH a HAVING clause on one instance (Model/Agg.v hav_run: fs = the selected calls
   followed by the hidden __having_n__ ones, the first nvis are delivered; p = the condition as the code evaluates it):
   batch i of the run is hav_batch of ITS OWN rows - whether the earlier batches were delivered or rejected by HAVING
   (a rejected batch hands nothing to the sinks, and leaves nothing behind either) *)
Theorem C03_having_run_own_batch : forall fs nvis p bs,
  hav_run fs nvis p (sel_init fs) bs = map (hav_batch fs nvis p) bs.
Proof. exact hav_run_own_batch. Qed.
Print Assumptions C03_having_run_own_batch.
Theorem C03_having_rejected_batch_invisible : forall fs nvis p b bs,
  hav_batch fs nvis p b = None ->
  hav_run fs nvis p (sel_init fs) (b :: bs) = None :: hav_run fs nvis p (sel_init fs) bs.
Proof. exact hav_rejected_batch_invisible. Qed.
Print Assumptions C03_having_rejected_batch_invisible.
(* every value of a delivered batch = the definition applied to the call's own argument over the rows of that batch *)
Theorem C03_having_delivered_correct : forall fs nvis p bs i b row j f m sh,
  nth_error bs i = Some b ->
  nth_error (hav_run fs nvis p (sel_init fs) bs) i = Some (Some row) ->
  (j < nvis)%nat -> nth_error fs j = Some (f, m, sh) -> regular (f, m, sh) ->
  exists r, nth_error row j = Some r /\ ores_eq r (spec_batch f m (map (eval_arg sh) b)).
Proof. exact hav_delivered_correct. Qed.
Print Assumptions C03_having_delivered_correct.
(* which batches come out is decided by the definitions' values over the own rows, and so are the delivered values *)
Theorem C03_having_run_spec : forall fs nvis p bs, Forall regular fs ->
  Forall2 (fun b out =>
             match out with
             | None => hholds p (map (field_spec b) fs) = false
             | Some row => hholds p (map (field_spec b) fs) = true /\
                           Forall2 ores_eq row (firstn nvis (map (field_spec b) fs))
             end) bs (hav_run fs nvis p (sel_init fs) bs).
Proof. exact hav_run_spec. Qed.
Print Assumptions C03_having_run_spec.
(* non-vacuity: HAVING sum(x) > 10 over CountingWindow(2) batches 1 2 | 20 30 | 5 6; and the same run with a Reset
   that is skipped when nothing was delivered (NOT the code) reports count( * ) = 4 and collect = [1 2 20 30] *)
Example C03_having_example :
  hav_run hav_ex_fields 4 (HCmp HGt 0 10) (sel_init hav_ex_fields) hav_ex_batches =
  [None;
   Some [Some (RNum 50); Some (RNum 2); Some (RNum 20); Some (RList [VInt 20; VInt 30])];
   Some [Some (RNum 11); Some (RNum 2); Some (RNum 5); Some (RList [VInt 5; VInt 6])]].
Proof. exact hav_example. Qed.
Example C03_having_lazy_reset_leaks :
  hav_run_lazy_reset hav_ex_fields 4 (HCmp HGt 0 10) (sel_init hav_ex_fields) hav_ex_batches =
  [None;
   Some [Some (RNum 53); Some (RNum 4); Some (RNum 1); Some (RList [VInt 1; VInt 2; VInt 20; VInt 30])];
   Some [Some (RNum 11); Some (RNum 2); Some (RNum 5); Some (RList [VInt 5; VInt 6])]].
Proof. exact hav_lazy_reset_leaks. Qed.

(* FINDING: the registered STDDEV is the sample deviation, the documentation says population *)
Theorem C03_stddev_population_refuted :
  exists vs, run AStdDev vs = RSqrt 1 /\ spec AStdDev vs = RSqrt (var_pop [1; 2; 3]) /\ var_pop [1; 2; 3] == 2 # 3.
Proof. exact stddev_population_refuted. Qed.
Print Assumptions C03_stddev_population_refuted.
Theorem C03_stddev_partial : forall m cells, m <> MStar ->
  ores_eq (batch AStdDev m cells) (spec_batch AStdDevS m cells).
Proof. exact batch_stddev_sample. Qed.
Print Assumptions C03_stddev_partial.

(* FINDING F60 (as found; repaired): an aggregate call with an arithmetic argument written inside an analytic
   function of a windowed query - changed_col(true, sum(x + 1)), lag(max(d.x * 2)) - runs over the bare column *)
Theorem C03_inline_agg_arg_dropped_refuted :
  exists cells,
    sel_batch [inline_field_asis ASum false false (ShAff OAdd 1)] cells = [Some (RNum 2)] /\
    spec_batch ASum MExpr (map (eval_arg (ShAff OAdd 1)) cells) = Some (RNum 5).
Proof. exact inline_agg_arg_dropped_refuted. Qed.
Print Assumptions C03_inline_agg_arg_dropped_refuted.
(* the repaired code: the hidden field of such a call computes the definition over ITS argument evaluated per row *)
Theorem C03_inline_agg_correct : forall f sh cells,
  f <> AStdDev ->
  match f with WStdDev | WStdDevS | WVar | WVarS => False | _ => True end ->
  exists r, sel_batch [inline_field f false sh] cells = [r] /\
            ores_eq r (spec_batch f (sql_mode sh) (map (eval_arg sh) cells)).
Proof. exact inline_agg_correct. Qed.
Print Assumptions C03_inline_agg_correct.
(* what held of the code as found *)
Theorem C03_inline_agg_partial : forall f nested sh cells,
  f <> AStdDev ->
  match f with WStdDev | WStdDevS | WVar | WVarS => False | _ => True end ->
  exists r, sel_batch [inline_field_asis f false nested sh] cells = [r] /\
            ores_eq r (spec_batch f (sql_mode (inline_shape_asis nested sh))
                                  (map (eval_arg (inline_shape_asis nested sh)) cells)).
Proof. exact inline_agg_asis_bare_column. Qed.
Print Assumptions C03_inline_agg_partial.

(* HISTORY (F22, repaired): on the pinned commit percentile(x * 2, 0.5) / nth_value(x + 1, k) never saw their argument *)
Theorem C03_two_arg_expr_arg_lost_refuted :
  exists cells,
    batch (APercentile (1 # 2)) MExpr (sql_cells_asis ShMul2 (APercentile (1 # 2)) cells) = Some (RNum 0) /\
    spec_batch (APercentile (1 # 2)) MExpr (map (eval_arg ShMul2) cells) = Some (RNum 4).
Proof. exact two_arg_expr_arg_lost_refuted. Qed.
Print Assumptions C03_two_arg_expr_arg_lost_refuted.

(* non-vacuity: a batch with a missing cell, a NULL, a numeric string, a non-numeric string and a bool *)
Example C03_example :
  let cells := [Cell (VInt 1); Missing; Cell VNull; Cell (VStr [53]%N); Cell (VStr [97]%N); Cell (VBool true)] in
  batch ASum MCol cells = Some (RNum 7) /\ batch ACount MCol cells = Some (RNum 4) /\
  batch AAvg MCol cells = Some (RNum (7 # 3)) /\ batch AFirst MCol cells = Some (RVal (VInt 1)) /\
  batch ACollect MExpr cells = Some (RList [VInt 1; VStr [53]%N; VStr [97]%N; VBool true]) /\
  run WVar [VInt 1; VInt 2; VInt 3] = RNum (2 # 3).
Proof. vm_compute. repeat split. Qed.
