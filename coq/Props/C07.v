(* C07 — post-aggregation clauses apply in relational order to each emitted batch.
   Only statements, each closed by [exact]; proofs live in Proofs/PostAgg*.v. *)
From Coq Require Import QArith Permutation Sorted.
From SV Require Import Model.PostAgg Spec.PostAggSpec Proofs.PostAggSort Proofs.PostAggProofs Proofs.PostAggValues.
Local Open Scope nat_scope.

(* ORDER BY (Sorter.Sort): the delivered rows are a permutation of the surviving rows *)
Theorem C07_sort_perm : forall keys l, Permutation (pa_sort keys l) l.
Proof. exact pa_sort_perm. Qed.
Print Assumptions C07_sort_perm.

(* ... in the lexicographic ASC/DESC order of the key list: a row is never less than a row delivered
   before it — for key columns of homogeneous type (each column all numbers or all non-numbers,
   missing keys allowed) *)
Theorem C07_sort_sorted : forall keys cls l,
  Forall (pa_row_class keys cls) l ->
  StronglySorted (fun a b => pa_less keys b a = false) (pa_sort keys l).
Proof. exact pa_sort_sorted. Qed.
Print Assumptions C07_sort_sorted.

(* ... and stable: any set of rows none of which is less than another keeps its input order
   (no assumption on the column types) *)
Theorem C07_sort_stable : forall keys (S : pa_row -> bool) l,
  (forall x y, S x = true -> S y = true -> pa_less keys x y = false) ->
  filter S (pa_sort keys l) = filter S l.
Proof. exact pa_sort_stable. Qed.
Print Assumptions C07_sort_stable.

(* for mixed column types compareOrderValues is not transitive: 9 < 10 < "1a" < 9 *)
Theorem C07_sort_mixed_not_transitive :
  let n9 := Some (PaNum (9 # 1)%Q) in let n10 := Some (PaNum (10 # 1)%Q) in
  let s := Some (PaStr [49; 97]%N) in
  pa_cmp_val n9 n10 = Lt /\ pa_cmp_val n10 s = Lt /\ pa_cmp_val s n9 = Lt.
Proof. exact pa_cmp_mixed_cycle. Qed.
Print Assumptions C07_sort_mixed_not_transitive.

(* LIMIT n, n > 0: the first n rows of that order *)
Theorem C07_limit_prefix : forall n l, n <> 0 ->
  pa_limit n l = firstn n l /\ length (pa_limit n l) = Nat.min n (length l)
  /\ exists rest, l = pa_limit n l ++ rest.
Proof. intros n l H. exact (conj (pa_limit_firstn n l H) (conj (pa_limit_length n l H) (pa_limit_prefix n l))). Qed.
Print Assumptions C07_limit_prefix.

(* LIMIT 0 delivers the whole batch, not its first 0 rows (known finding F10g) *)
Theorem C07_limit_zero_refuted : exists l, pa_limit 0 l <> firstn 0 l.
Proof. exists [[]]. discriminate. Qed.
Print Assumptions C07_limit_zero_refuted.

(* HAVING keeps, in order, exactly the rows the filter keeps (pa_hkeep: the value of the rewritten
   condition, on the evaluation path applyHavingFilter chooses for the text) ... *)
Theorem C07_having_filter : forall p l, pa_having p l = filter (pa_hkeep p) l.
Proof. exact pa_having_filter. Qed.
Print Assumptions C07_having_filter.

(* ... and on the result row of a group the value of the rewritten condition (aggregate calls replaced
   by hidden columns __having_k__) is the relational condition over the group's aggregate values,
   selected or not, and over aliases of SELECT items - comparisons, AND / OR, a searched CASE used as
   the condition (true iff its value is > 0) and a searched CASE compared with an expression *)
Theorem C07_having_relational : forall q p p' g,
  pq_having q = Some p -> pa_hpred_src p -> fst (pa_hx q) = Some p' ->
  pa_hholds p' (pa_post_row q (pa_base_row q (snd (pa_hx q)) g)) = pa_survives q g.
Proof. exact pa_having_sem. Qed.
Print Assumptions C07_having_relational.

(* ... and the filter keeps a group iff it satisfies the relational condition, for every HAVING text
   without CASE and every text that is one CASE ... END (whatever aggregates, selected or not, occur in
   its WHEN conditions and results) *)
Theorem C07_having_keeps_relational : forall q p p' g,
  pq_having q = Some p -> pa_hpred_src p -> pa_hroute_ok p -> fst (pa_hx q) = Some p' ->
  pa_hkeep p' (pa_post_row q (pa_base_row q (snd (pa_hx q)) g)) = pa_survives q g.
Proof. exact pa_having_keep_sem. Qed.
Print Assumptions C07_having_keeps_relational.

(* the other shapes are findings (F10h, F10i; F10j is repaired): SELECT COUNT( * ) AS a0 ... GROUP BY g on the group t = 20
     HAVING CASE WHEN MAX(t) > 15 THEN 1 ELSE 0 END > 0           drops the group although it satisfies it;
     HAVING a0 > 5 AND CASE WHEN MAX(t) > 15 THEN 1 ELSE 0 END    keeps the group although a0 = 1;
     (HAVING CASE WHEN MAX(t) > 15 THEN g ELSE 0 END               kept the group g = -3 (a Go int) although
                                                                  the value of the CASE is not > 0: repaired) *)
Definition pa_ex_case_ops : list pa_cmpop := [PaGt].
Definition pa_ex_case_es : list pa_hexp :=
  [PaHAgg (PaMax, PaField 0); PaHLit (15 # 1); PaHLit (1 # 1); PaHLit (0 # 1)].
Definition pa_ex_case_q (h : pa_hpred) : pa_query := {|
  pq_ngroup := 1; pq_items := [PaPAgg (PaCount, PaStar)]; pq_distinct := false;
  pq_having := Some h; pq_order := []; pq_limit := 0 |}.
Definition pa_ex_case_g : pa_group := ([PaStr [97%N]], [[(0, 20%Z)]]).
Definition pa_ex_case_row (h : pa_hpred) : pa_row :=
  pa_post_row (pa_ex_case_q h) (pa_base_row (pa_ex_case_q h) (snd (pa_hx (pa_ex_case_q h))) pa_ex_case_g).
Definition pa_ex_case_keep (h : pa_hpred) : option bool :=
  option_map (fun p' => pa_hkeep p' (pa_ex_case_row h)) (fst (pa_hx (pa_ex_case_q h))).
Theorem C07_having_case_compared_refuted :
  let h := PaHCaseCmp PaGt pa_ex_case_ops pa_ex_case_es (PaHLit (0 # 1)) in
  pa_hpred_src h /\ pa_survives (pa_ex_case_q h) pa_ex_case_g = true /\ pa_ex_case_keep h = Some false.
Proof. split; [split; repeat constructor|]. vm_compute. split; reflexivity. Qed.
Print Assumptions C07_having_case_compared_refuted.
Theorem C07_having_case_with_and_refuted :
  let h := PaHAnd (PaHCmp PaGt (PaHCol (PaItem 0)) (PaHLit (5 # 1))) (PaHCase pa_ex_case_ops pa_ex_case_es) in
  pa_hpred_src h /\ pa_survives (pa_ex_case_q h) pa_ex_case_g = false /\ pa_ex_case_keep h = Some true.
Proof. split; [repeat constructor|]. vm_compute. split; reflexivity. Qed.
Print Assumptions C07_having_case_with_and_refuted.
(* since the repair of F10j a CASE whose result is the (int-typed) GROUP BY column is judged like any other
   number: the group g = -3 is dropped *)
Theorem C07_having_case_int_result : 
  let h := PaHCase pa_ex_case_ops [PaHAgg (PaMax, PaField 0); PaHLit (15 # 1); PaHCol (PaGroup 0); PaHLit (0 # 1)] in
  let g : pa_group := ([PaNum (-3 # 1)], [[(0, 20%Z)]]) in
  pa_hpred_src h /\ pa_hroute_ok h /\ pa_survives (pa_ex_case_q h) g = false
  /\ option_map (fun p' => pa_hkeep p' (pa_post_row (pa_ex_case_q h)
                   (pa_base_row (pa_ex_case_q h) (snd (pa_hx (pa_ex_case_q h))) g))) (fst (pa_hx (pa_ex_case_q h)))
     = Some false.
Proof. split; [repeat constructor|]. split; [repeat constructor|]. vm_compute. split; reflexivity. Qed.
Print Assumptions C07_having_case_int_result.
(* non-vacuity of C07_having_keeps_relational on a CASE: the same CASE as the whole condition is routed
   to the evaluating path, keeps the group t = 20 and drops the group t = 10 *)
Example C07_having_case_example :
  let h := PaHCase pa_ex_case_ops pa_ex_case_es in
  pa_hpred_src h /\ pa_hroute_ok h /\ pa_ex_case_keep h = Some true
  /\ pa_run (pa_ex_case_q h) [] [([PaStr [97%N]], [(0, 20%Z)]); ([PaStr [98%N]], [(0, 10%Z)])]
     = [[(PaGroup 0, PaStr [97%N]); (PaItem 0, PaNum (1 # 1))]].
Proof. split; [repeat constructor|]. split; [repeat constructor|]. vm_compute. split; reflexivity. Qed.

(* DISTINCT: no two delivered rows have the same serialisation, and nothing new appears *)
Theorem C07_distinct_nodup : forall l,
  ForallOrdPairs (fun a b => pa_row_eqb a b = false) (pa_distinct l)
  /\ forall r, In r (pa_distinct l) -> In r l.
Proof. intro l. exact (conj (pa_distinct_nodup l) (pa_distinct_incl l)). Qed.
Print Assumptions C07_distinct_nodup.

(* DISTINCT removes duplicates ONLY: every row of the batch is still represented by a kept row with the
   same serialisation *)
Theorem C07_distinct_complete : forall l r, In r l ->
  exists s, In s (pa_distinct l) /\ pa_row_eqb s r = true.
Proof. exact pa_distinct_complete. Qed.
Print Assumptions C07_distinct_complete.

(* values of different Go types (number / string / NULL / bool) are different values whatever they
   print as - 7 and "7", true and "true", NULL and "<nil>" -, rows that carry them in one column have
   different serialisations, and DISTINCT keeps a row that differs from every other row of the batch
   in the type of some value *)
Theorem C07_distinct_typed : forall l r,
  In r l ->
  (forall r', In r' l -> r' = r \/ exists c v w, pa_lookup c r' = Some v /\ pa_lookup c r = Some w
                                   /\ pa_val_kind v <> pa_val_kind w) ->
  In r (pa_distinct l).
Proof. exact pa_distinct_keeps_typed. Qed.
Print Assumptions C07_distinct_typed.

Example C07_distinct_typed_example :
  let row v := [(PaGroup 0, v); (PaItem 0, PaNum (1 # 1))] in
  pa_distinct [row (PaNum (7 # 1)); row (PaStr [55%N]); row (PaBool true); row (PaStr [116; 114; 117; 101]%N);
               row (PaNum (14 # 2)); row (PaStr [55%N])]
  = [row (PaNum (7 # 1)); row (PaStr [55%N]); row (PaBool true); row (PaStr [116; 114; 117; 101]%N)]
  /\ pa_order_string (PaNum (7 # 1)) = pa_order_string (PaStr [55%N])
  /\ pa_order_string (PaBool true) = pa_order_string (PaStr [116; 114; 117; 101]%N).
Proof. vm_compute. repeat split. Qed.

(* every column of every delivered row is a GROUP BY column or a SELECT item: hidden HAVING helpers and
   post-aggregation placeholders never appear *)
Theorem C07_no_hidden_columns : forall q order input r c v,
  In r (pa_run q order input) -> In (c, v) r -> pa_visible_col c.
Proof. intros q order input. exact (pa_no_hidden_columns q (pa_arrange order (pa_groups input))). Qed.
Print Assumptions C07_no_hidden_columns.

(* the value delivered for a SELECT item that combines aggregate calls, literals and arithmetic is that
   arithmetic applied to the group's aggregate values *)
Theorem C07_postagg_value : forall q hc g i p,
  nth_error (pq_items q) i = Some p ->
  pa_lookup (PaItem i) (pa_post_row q (pa_base_row q hc g)) = Some (pa_of_opt (pa_sem p (snd g))).
Proof. exact pa_postagg_value. Qed.
Print Assumptions C07_postagg_value.

(* the code is  LIMIT . ORDER BY . (drop hidden . HAVING) . DISTINCT *)
Theorem C07_pipeline_order : forall q rows,
  pa_pipeline q rows =
  pa_limit (pq_limit q) (pa_sort (pq_order q)
    (match fst (pa_hx q) with
     | None => (if pq_distinct q then pa_distinct rows else rows)
     | Some p => map (pa_delete pa_is_hidden) (pa_having p (if pq_distinct q then pa_distinct rows else rows))
     end)).
Proof. exact pa_pipeline_unfold. Qed.
Print Assumptions C07_pipeline_order.

(* ... which on a grouped batch (for every enumeration order of the groups) is the relational order
   LIMIT . ORDER BY . DISTINCT . projection . HAVING, because rows of different groups differ in a
   group column *)
Theorem C07_pipeline_relational : forall q order input,
  let gs := pa_arrange order (pa_groups input) in
  Forall (fun g => length (fst g) = pq_ngroup q) gs ->
  ForallOrdPairs (fun g h => pa_key_differs (fst g) (fst h)) gs ->
  pa_run q order input = pa_relational q (pa_results q gs).
Proof.
  intros q order input gs Hl Hd. apply pa_pipeline_relational. apply pa_batch_rows_differ; assumption.
Qed.
Print Assumptions C07_pipeline_relational.

(* history (F10): before the fixes an item continuing after its first aggregate call was computed from
   the last row of the group, and an aggregate over an arithmetic argument inside a compound was NULL *)
Definition pa_ex_rows : list pa_env := [[(0, 10%Z)]; [(0, 20%Z)]].
Definition pa_ex_fahrenheit : pa_pexp :=   (* AVG(t) * 1.8 + 32 *)
  PaPBin PaAdd (PaPBin PaMul (PaPAgg (PaAvg, PaField 0)) (PaPLit (9 # 5))) (PaPLit (32 # 1)).
Definition pa_ex_mean : pa_pexp :=         (* SUM(t + 1) / COUNT( * ) *)
  PaPBin PaDiv (PaPAgg (PaSum, PaABin PaAdd (PaField 0) (PaALit 1))) (PaPAgg (PaCount, PaStar)).
Theorem C07_postagg_asis_refuted :
  pa_item_asis pa_ex_fahrenheit pa_ex_rows = Some (68 # 1)%Q /\ pa_sem pa_ex_fahrenheit pa_ex_rows = Some (59 # 1)%Q
  /\ pa_item_asis pa_ex_mean pa_ex_rows = None /\ pa_sem pa_ex_mean pa_ex_rows = Some (16 # 1)%Q.
Proof. vm_compute. repeat split. Qed.
Print Assumptions C07_postagg_asis_refuted.

(* non-vacuity: SELECT g, SUM(t) AS a0, AVG(t) * 1.8 + 32 AS a1 ... GROUP BY g HAVING MAX(t) > 7
   ORDER BY a0 DESC LIMIT 2 on three groups; the hypotheses of the theorems above hold on it *)
Definition pa_ex_q : pa_query := {|
  pq_ngroup := 1;
  pq_items := [PaPAgg (PaSum, PaField 0); pa_ex_fahrenheit];
  pq_distinct := true;
  pq_having := Some (PaHCmp PaGt (PaHAgg (PaMax, PaField 0)) (PaHLit (7 # 1)));
  pq_order := [(PaItem 0, PaDesc)];
  pq_limit := 2 |}.
Definition pa_ex_input : list (pa_key * pa_env) :=
  [([PaStr [97%N]], [(0, 10%Z)]); ([PaStr [98%N]], [(0, 7%Z)]); ([PaStr [97%N]], [(0, 20%Z)]);
   ([PaStr [99%N]], [(0, 40%Z)]); ([PaStr [100%N]], [(0, 8%Z)])].
Example C07_example :
  pa_run pa_ex_q [] pa_ex_input =
    [[(PaGroup 0, PaStr [99%N]); (PaItem 0, PaNum (40 # 1)); (PaItem 1, PaNum (104 # 1))];
     [(PaGroup 0, PaStr [97%N]); (PaItem 0, PaNum (30 # 1)); (PaItem 1, PaNum (59 # 1))]]
  /\ pa_chk pa_ex_q true pa_ex_input (pa_run pa_ex_q [] pa_ex_input) = None
  /\ Forall (pa_row_class (pq_order pa_ex_q) [true]) (pa_results pa_ex_q (pa_groups pa_ex_input))
  /\ ForallOrdPairs (fun g h => pa_key_differs (fst g) (fst h)) (pa_groups pa_ex_input)
  /\ pa_hpred_src (PaHCmp PaGt (PaHAgg (PaMax, PaField 0)) (PaHLit (7 # 1))).
Proof.
  split; [vm_compute; reflexivity|]. split; [vm_compute; reflexivity|].
  split; [vm_compute; repeat constructor|]. split; [|simpl; auto].
  vm_compute. repeat constructor; auto.
Qed.
