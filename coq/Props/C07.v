(* C07 — placeholder, statements follow *)
From SV Require Import Model.PostAgg Spec.PostAggSpec.
