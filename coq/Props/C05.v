(* C05 — non-aggregate queries are a stateless, ordered, row-wise filter + projection.
   Only statements; proofs in Proofs/DirectProofs.v; model in Model/Direct.v
   (WHERE = Model/Bridge.v where_true, expression items = Model/ExprEval.v / Bridge.v by path). *)
From SV Require Import Model.Direct Proofs.DirectProofs.

Theorem C05_direct_where_iff : forall q row r,
  direct q row = DRow r <-> (where_ok q row = Some true /\ project q row = Some r).
Proof. exact direct_row_iff. Qed.
Print Assumptions C05_direct_where_iff.

Theorem C05_direct_filtered_iff : forall q row, direct q row = DNone <-> where_ok q row = Some false.
Proof. exact direct_none_iff. Qed.
Print Assumptions C05_direct_filtered_iff.

Theorem C05_direct_columns : forall q row r,
  no_star q -> direct q row = DRow r ->
  forall k, xlookup r k <> None <-> In k (out_names (q_items q)).
Proof. exact direct_columns. Qed.
Print Assumptions C05_direct_columns.

Theorem C05_missing_is_null : forall row acc src out acc',
  project_item row acc (ICol src out) = Some acc' ->
  xlookup acc' out = Some (match xlookup row src with Some v => v | None => VNull end).
Proof. exact direct_column_value. Qed.
Print Assumptions C05_missing_is_null.

Theorem C05_star_copies : forall row k w r,
  NoDup (map fst row) ->
  direct {| q_items := [IStar]; q_where := w |} row = DRow r -> xlookup r k = xlookup row k.
Proof. exact direct_star. Qed.
Print Assumptions C05_star_copies.

Theorem C05_history_free : forall q h row,
  nth (length h) (map (direct q) (h ++ [row])) DNone = direct q row.
Proof. exact direct_history_free. Qed.
Print Assumptions C05_history_free.

(* all interleavings of the producer (OpEmit) with the consumer goroutine (OpStep) *)
Theorem C05_sync_async_same : forall q ops,
  st_chan (run q ops) = [] -> st_sink (run q ops) = map (direct q) (emitted ops).
Proof. exact sync_async_same. Qed.
Print Assumptions C05_sync_async_same.

Theorem C05_single_producer_order : forall q ops,
  st_chan (run q ops) = [] ->
  delivered (st_sink (run q ops)) = delivered (map (direct q) (emitted ops)).
Proof. exact single_producer_order. Qed.
Print Assumptions C05_single_producer_order.

Theorem C05_sink_is_prefix : forall q ops,
  exists rest, map (direct q) (emitted ops) = st_sink (run q ops) ++ rest.
Proof. exact sink_is_prefix. Qed.
Print Assumptions C05_sink_is_prefix.

(* non-vacuity: SELECT a AS x, 'k' AS l, m FROM stream WHERE a > 1 on {a: 3}: one row {x:3, l:'k', m:NULL};
   two rows emitted and consumed in an interleaved schedule *)
Example C05_example :
  let a := [97]%N in let x := [120]%N in let l := [108]%N in let m := [109]%N in
  let q := {| q_items := [ICol a x; ILit [107]%N l; ICol m m]; q_where := Some (ECmp CGt (ECol a) (ENum 1)) |} in
  let r1 := [(a, VNum 3)] in let r2 := [(a, VNum 0)] in
  direct q r1 = DRow [(x, VNum 3); (l, VStr [107]%N); (m, VNull)] /\ direct q r2 = DNone /\
  st_chan (run q [OpEmit r1; OpStep; OpEmit r2; OpStep]) = [] /\
  st_sink (run q [OpEmit r1; OpEmit r2; OpStep; OpStep]) = [direct q r1; direct q r2].
Proof. vm_compute. repeat split; reflexivity. Qed.

(* ---- overflow strategy `expand`: the buffer is migrated to a larger channel under the write lock
   (Model/Direct.v ystep; locked = true is the code as it is: the consumer's receive holds the read
   lock).  For every schedule of emissions, consumer steps and expansions: ---- *)
Theorem C05_expand_sink_is_prefix : forall q ops,
  let s := yrun true q ops in
  y_sink s ++ map (direct q) (ypending s) = map (direct q) (y_acc s).
Proof. exact expand_sink_is_prefix. Qed.
Print Assumptions C05_expand_sink_is_prefix.

Theorem C05_expand_keeps_order : forall q ops,
  ypending (yrun true q ops) = [] ->
  delivered (y_sink (yrun true q ops)) = delivered (map (direct q) (y_acc (yrun true q ops))).
Proof. exact expand_keeps_order. Qed.
Print Assumptions C05_expand_keeps_order.

(* ... and the lock is needed: a consumer that receives from the reference it loaded before the
   migration (locked = false) delivers row 2 before row 1.  Rows {a:1} {a:2} {a:3} buffered, the
   expander has moved the first one, then the consumer takes a row from the old channel. *)
Example C05_stale_receive_reorders :
  let a := [97]%N in
  let q := {| q_items := [ICol a a]; q_where := None |} in
  let r := fun n => [(a, VNum (inject_Z n))] in
  let ops := [YEmit (r 1%Z); YEmit (r 2%Z); YEmit (r 3%Z); YBegin; YMove; YStep; YMove; YMove; YSwap; YStep; YStep; YStep] in
  ypending (yrun false q ops) = [] /\
  y_sink (yrun false q ops) = [direct q (r 2%Z); direct q (r 1%Z); direct q (r 3%Z)] /\
  y_sink (yrun true q ops) = [direct q (r 1%Z); direct q (r 2%Z); direct q (r 3%Z)].
Proof. vm_compute. repeat split; reflexivity. Qed.
