(* C05 — non-aggregate queries are a stateless, ordered, row-wise filter + projection.
   Only statements; proofs in Proofs/DirectProofs.v; model in Model/Direct.v
   (WHERE = Model/Bridge.v where_true, expression items = Model/ExprEval.v / Bridge.v by path). *)
From SV Require Import Model.Direct Proofs.DirectProofs Model.NestedPath Proofs.NestedPathProofs.
From SV Require Import Model.ResultChan Spec.ResultChanSpec Proofs.ResultChanProofs.
From Coq Require Import Sorted.

Theorem C05_direct_where_iff : forall q row r,
  direct q row = DRow r <-> (where_ok q row = Some true /\ project q row = Some r).
Proof. exact direct_row_iff. Qed.
Print Assumptions C05_direct_where_iff.

Theorem C05_direct_filtered_iff : forall q row, direct q row = DNone <-> where_ok q row = Some false.
Proof. exact direct_none_iff. Qed.
Print Assumptions C05_direct_filtered_iff.

Theorem C05_direct_columns : forall q row r,
  no_star q -> direct q row = DRow r ->
  forall k, xlookup r k <> None <-> In k (out_names (q_items q)).
Proof. exact direct_columns. Qed.
Print Assumptions C05_direct_columns.

Theorem C05_missing_is_null : forall row acc src out acc',
  project_item row acc (ICol src out) = Some acc' ->
  xlookup acc' out = Some (match xlookup row src with Some v => v | None => VNull end).
Proof. exact direct_column_value. Qed.
Print Assumptions C05_missing_is_null.

Theorem C05_star_copies : forall row k w r,
  NoDup (map fst row) ->
  direct {| q_items := [IStar]; q_where := w |} row = DRow r -> xlookup r k = xlookup row k.
Proof. exact direct_star. Qed.
Print Assumptions C05_star_copies.

Theorem C05_history_free : forall q h row,
  nth (length h) (map (direct q) (h ++ [row])) DNone = direct q row.
Proof. exact direct_history_free. Qed.
Print Assumptions C05_history_free.

(* all interleavings of the producer (OpEmit) with the consumer goroutine (OpStep) *)
Theorem C05_sync_async_same : forall q ops,
  st_chan (run q ops) = [] -> st_sink (run q ops) = map (direct q) (emitted ops).
Proof. exact sync_async_same. Qed.
Print Assumptions C05_sync_async_same.

Theorem C05_single_producer_order : forall q ops,
  st_chan (run q ops) = [] ->
  delivered (st_sink (run q ops)) = delivered (map (direct q) (emitted ops)).
Proof. exact single_producer_order. Qed.
Print Assumptions C05_single_producer_order.

Theorem C05_sink_is_prefix : forall q ops,
  exists rest, map (direct q) (emitted ops) = st_sink (run q ops) ++ rest.
Proof. exact sink_is_prefix. Qed.
Print Assumptions C05_sink_is_prefix.

(* non-vacuity: SELECT a AS x, 'k' AS l, m FROM stream WHERE a > 1 on {a: 3}: one row {x:3, l:'k', m:NULL};
   two rows emitted and consumed in an interleaved schedule *)
Example C05_example :
  let a := [97]%N in let x := [120]%N in let l := [108]%N in let m := [109]%N in
  let q := {| q_items := [ICol a x; ILit [107]%N l; ICol m m]; q_where := Some (ECmp CGt (ECol a) (ENum 1)) |} in
  let r1 := [(a, VNum 3)] in let r2 := [(a, VNum 0)] in
  direct q r1 = DRow [(x, VNum 3); (l, VStr [107]%N); (m, VNull)] /\ direct q r2 = DNone /\
  st_chan (run q [OpEmit r1; OpStep; OpEmit r2; OpStep]) = [] /\
  st_sink (run q [OpEmit r1; OpEmit r2; OpStep; OpStep]) = [direct q r1; direct q r2].
Proof. vm_compute. repeat split; reflexivity. Qed.

(* ---- overflow strategy `expand`: the buffer is migrated to a larger channel under the write lock
   (Model/Direct.v ystep; locked = true is the code as it is: the consumer's receive holds the read
   lock).  For every schedule of emissions, consumer steps and expansions: ---- *)
Theorem C05_expand_sink_is_prefix : forall q ops,
  let s := yrun true q ops in
  y_sink s ++ map (direct q) (ypending s) = map (direct q) (y_acc s).
Proof. exact expand_sink_is_prefix. Qed.
Print Assumptions C05_expand_sink_is_prefix.

Theorem C05_expand_keeps_order : forall q ops,
  ypending (yrun true q ops) = [] ->
  delivered (y_sink (yrun true q ops)) = delivered (map (direct q) (y_acc (yrun true q ops))).
Proof. exact expand_keeps_order. Qed.
Print Assumptions C05_expand_keeps_order.

(* ... and the lock is needed: a consumer that receives from the reference it loaded before the
   migration (locked = false) delivers row 2 before row 1.  Rows {a:1} {a:2} {a:3} buffered, the
   expander has moved the first one, then the consumer takes a row from the old channel. *)
Example C05_stale_receive_reorders :
  let a := [97]%N in
  let q := {| q_items := [ICol a a]; q_where := None |} in
  let r := fun n => [(a, VNum (inject_Z n))] in
  let ops := [YEmit (r 1%Z); YEmit (r 2%Z); YEmit (r 3%Z); YBegin; YMove; YStep; YMove; YMove; YSwap; YStep; YStep; YStep] in
  ypending (yrun false q ops) = [] /\
  y_sink (yrun false q ops) = [direct q (r 2%Z); direct q (r 1%Z); direct q (r 3%Z)] /\
  y_sink (yrun true q ops) = [direct q (r 1%Z); direct q (r 2%Z); direct q (r 3%Z)].
Proof. vm_compute. repeat split; reflexivity. Qed.

(* ================= nested field paths of select items (Model/NestedPath.v: utils/fieldpath + processSimpleField) =================
   Values: scalars, arrays, maps (jvalue); a path TEXT is parsed (np_parse = ParseFieldPath) into parts
   and resolved step by step (nested_field = GetNestedField, incl. the fallback to plain dot access on a
   parse error). *)

(* compositionality on parts: the parts ps ++ qs resolve as qs in the value ps resolves to *)
Theorem C05_path_compositional : forall ps qs v,
  np_get v (ps ++ qs) = match np_get v ps with Some u => np_get u qs | None => None end.
Proof. exact np_get_app. Qed.
Print Assumptions C05_path_compositional.

(* ... and on texts: ParseFieldPath distributes over '.', the first failure wins; GetNestedField of p.q
   is GetNestedField of q in the value of p *)
Theorem C05_path_parse_dot : forall p q, np_parse (p ++ 46%N :: q) = np_app (np_parse p) (np_parse q).
Proof. exact np_parse_dot. Qed.
Print Assumptions C05_path_parse_dot.

Theorem C05_path_text_compositional : forall v p q ps qs,
  np_parse p = POk ps -> ps <> [] -> np_parse q = POk qs -> qs <> [] ->
  nested_field v (p ++ 46%N :: q) = match nested_field v p with NFound u => nested_field u q | r => r end.
Proof. exact nested_field_dot. Qed.
Print Assumptions C05_path_text_compositional.

(* the canonical spelling of a structured path (names joined by '.', brackets appended: what the driver
   puts into the SQL text, np_render) parses to its segments read one by one, whenever no name contains
   '.' or '[' and no bracket content contains '.' or ']' *)
Theorem C05_path_render_parse : forall gs, gs <> [] -> Forall wf_group gs ->
  np_parse (np_render (np_flatten gs)) = np_seq (map np_seg_part (np_flatten gs)).
Proof. exact np_parse_render. Qed.
Print Assumptions C05_path_render_parse.

Theorem C05_path_segments_are_groups : forall ss n, exists cs t, SName n :: ss = np_flatten ((n, cs) :: t).
Proof. exact np_flatten_surj. Qed.
Print Assumptions C05_path_segments_are_groups.

(* a broken path: resolution fails exactly at the first step that the value reached so far does not offer *)
Theorem C05_path_missing_iff : forall ps v,
  np_get v ps = None <->
  exists k u p, np_get v (firstn k ps) = Some u /\ nth_error ps k = Some p /\ np_access u p = None.
Proof. exact np_get_none_iff. Qed.
Print Assumptions C05_path_missing_iff.

(* ... and one step, exactly: nothing below NULL or a scalar; a map offers its keys (an index as its
   decimal text); an array offers the indices -len .. len-1 (negative = from the end) and no names *)
Theorem C05_step_scalar : forall x p, np_access (JS x) p = None.
Proof. exact np_access_scalar. Qed.
Print Assumptions C05_step_scalar.

Theorem C05_step_map : forall m p,
  np_access (JMap m) p = jlookup m (match p with PField n => n | PKey k => k | PIndex i => np_itoa i end).
Proof. exact np_access_map. Qed.
Print Assumptions C05_step_map.

Theorem C05_step_array_name : forall l n k,
  np_access (JArr l) (PField n) = None /\ np_access (JArr l) (PKey k) = None.
Proof. exact np_access_arr_name. Qed.
Print Assumptions C05_step_array_name.

Theorem C05_step_array_index : forall l i,
  let len := Z.of_nat (length l) in
  np_access (JArr l) (PIndex i) =
    if ((0 <=? i) && (i <? len))%Z then nth_error l (Z.to_nat i)
    else if ((- len <=? i) && (i <? 0))%Z then nth_error l (Z.to_nat (len + i))
    else None.
Proof. exact np_access_arr_index. Qed.
Print Assumptions C05_step_array_index.

Theorem C05_step_array_index_missing_iff : forall l i,
  np_access (JArr l) (PIndex i) = None <-> (i < - Z.of_nat (length l) \/ Z.of_nat (length l) <= i)%Z.
Proof. exact np_access_arr_index_none_iff. Qed.
Print Assumptions C05_step_array_index_missing_iff.

(* select items  path [AS alias]:  the result's columns are exactly the output names -- the alias, else
   the TEXT of the path itself (SELECT d.x, arr[1] yields the keys "d.x" and "arr[1]") *)
Theorem C05_nested_columns : forall q row r, ndirect q row = NDRow r ->
  forall k, nc_lookup r k <> None <-> In k (map ni_out (nq_items q)).
Proof. exact ndirect_columns. Qed.
Print Assumptions C05_nested_columns.

(* every cell is the value of its path in the row; NULL iff the path is missing or leads to a NULL *)
Theorem C05_nested_values : forall q row r,
  Forall (route_is RSimple) (nq_items q) -> NoDup (map ni_out (nq_items q)) ->
  ndirect q row = NDRow r ->
  forall i, In i (nq_items q) -> nc_lookup r (ni_out i) = Some (cell_of row (ni_path i)).
Proof. exact ndirect_values. Qed.
Print Assumptions C05_nested_values.

Theorem C05_nested_null_iff : forall row path,
  cell_of row path = CVal jnull <->
  (ni_value row path = NMissing \/ ni_value row path = NFound jnull \/ ni_value row path = NPanic).
Proof. exact cell_null_iff. Qed.
Print Assumptions C05_nested_null_iff.

Theorem C05_nested_filtered_iff : forall q row, ndirect q row = NDNone <-> nwhere_ok q row = Some false.
Proof. exact ndirect_none_iff. Qed.
Print Assumptions C05_nested_filtered_iff.

(* history-free, shape changes included: after ANY earlier rows h the cells are those of the row at hand *)
Theorem C05_nested_history_free : forall q h row,
  nth (length h) (map (ndirect q) (h ++ [row])) NDNone = ndirect q row.
Proof. exact ndirect_history_free. Qed.
Print Assumptions C05_nested_history_free.

Theorem C05_nested_shape_free : forall q h row r,
  Forall (route_is RSimple) (nq_items q) -> NoDup (map ni_out (nq_items q)) ->
  nth (length h) (map (ndirect q) (h ++ [row])) NDNone = NDRow r ->
  forall i, In i (nq_items q) -> nc_lookup r (ni_out i) = Some (cell_of row (ni_path i)).
Proof. exact ndirect_shape_free. Qed.
Print Assumptions C05_nested_shape_free.

(* non-vacuity.  Row {id:1, d:{x:5, arr:[10,{k:"v"},30], m:{"0":"z"}}}; the query
   SELECT d.x AS y, d.arr[1].k, d.arr[-1] AS l, d.arr[3] AS o, d.m[0] AS z, d.x.q AS b FROM stream:
   y = 5, "d.arr[1].k" = "v" (un-aliased: the key is the path text), o = NULL (out of range), z = "z" (the index
   as a map key), b = NULL (a step below a scalar); d.arr[-1] holds '-' and is an expression item (RExpr);
   the canonical text of [d; arr [1]; k] parses to its three parts; p.q = q in the value of p. *)
Example C05_nested_example :
  let d := [100]%N in let x := [120]%N in let arr := [97;114;114]%N in let k := [107]%N in let m := [109]%N in
  let dot := 46%N in
  let p_dx := d ++ dot :: x in
  let p_k := d ++ dot :: arr ++ [91;49;93;46;107]%N in          (* d.arr[1].k *)
  let p_o := d ++ dot :: arr ++ [91;51;93]%N in                  (* d.arr[3] *)
  let p_neg := d ++ dot :: arr ++ [91;45;49;93]%N in             (* d.arr[-1] *)
  let p_z := d ++ dot :: m ++ [91;48;93]%N in                    (* d.m[0] *)
  let p_b := p_dx ++ [46;113]%N in                               (* d.x.q *)
  let dv := JMap [(x, JS (VNum 5)); (arr, JArr [JS (VNum 10); JMap [(k, JS (VStr [118]%N))]; JS (VNum 30)]); (m, JMap [([48]%N, JS (VStr [122]%N))])] in
  let row := [([105;100]%N, JS (VNum 1)); (d, dv)] in
  let it := fun p a => {| ni_path := p; ni_alias := a |} in
  let q := {| nq_items := [it p_dx (Some [121]%N); it p_k None; it p_o (Some [111]%N); it p_z (Some [122]%N); it p_b (Some [98]%N)];
              nq_where := Some (ECmp CGt (ECol [105;100]%N) (ENum 0)) |} in
  ndirect q row = NDRow [([121]%N, CVal (JS (VNum 5))); (p_k, CVal (JS (VStr [118]%N))); ([111]%N, CVal jnull);
                         ([122]%N, CVal (JS (VStr [122]%N))); ([98]%N, CVal jnull)] /\
  Forall (route_is RSimple) (nq_items q) /\ np_route p_neg = RExpr /\
  nested_field (JMap row) p_neg = NFound (JS (VNum 30)) /\
  np_parse p_k = POk [PField d; PField arr; PIndex 1; PField k] /\
  p_k = np_render (np_flatten [(d, []); (arr, [[49]%N]); (k, [])]) /\
  Forall wf_group [(d, []); (arr, [[49]%N]); (k, [])] /\
  nested_field (JMap row) p_k = match nested_field (JMap row) (d ++ dot :: arr) with NFound u => nested_field u ([91;49;93;46;107]%N) | r => r end /\
  ndirect q [([105;100]%N, JS (VNum 0)); (d, dv)] = NDNone.
Proof.
  vm_compute. repeat split; try reflexivity; repeat constructor; try discriminate;
    intros H; repeat (destruct H as [H|H]; [discriminate|]); exact H.
Qed.

(* every malformed bracket yields NULL (PErr -> plain dot access); as found, a bracket holding a lone quote panicked
   (parseBracketContent sliced content[1:0]): repaired, F52 *)
Example C05_lone_quote_is_missing :
  nested_field (JMap [([97]%N, JMap [])]) [97;91;39;93]%N = NMissing /\          (* a['] *)
  nested_field (JMap [([97]%N, JMap [])]) [97;91;93]%N = NMissing /\            (* a[]  *)
  nested_field (JMap [([97]%N, JMap [])]) [97;91;39;39;93]%N = NMissing.        (* a[''] *)
Proof. vm_compute. repeat split; reflexivity. Qed.

(* refuted: "a quoted key names the map entry" -- a key that contains '.' is cut at the dot before the
   brackets are read (F53): d['k.l'] is missing although the entry is there *)
Example C05_dotted_key_unresolved :
  let d := [100]%N in let kl := [107;46;108]%N in
  nested_field (JMap [(d, JMap [(kl, JS (VNum 7))])]) (d ++ [91;39] ++ kl ++ [39;93])%N = NMissing /\
  np_get (JMap [(d, JMap [(kl, JS (VNum 7))])]) [PField d; PKey kl] = Some (JS (VNum 7)).
Proof. vm_compute. split; reflexivity. Qed.

(* ================= the result channel (Model/ResultChan.v: sendResultNonBlocking + handleResultChannelBackpressure) =================
   A bounded FIFO of batches with "the oldest batch makes room" when it is full.  A schedule is any list of
   offers by the consumer goroutine (RSend: sent, or the oldest batch evicted; RLose: the new batch dropped,
   possible only under a race with a reader) and receives by a reader (RRecv).  rc_seen = what the reader
   has got once it has drained the channel; rc_offered = the batches in emission order. *)

(* for every capacity and every schedule the reader gets a subsequence of the emission order: rows may
   be missing (backpressure), nothing overtakes, nothing comes twice, nothing is invented *)
Theorem C05_result_channel_order : forall cap ops,
  subseq (concat (rc_seen (rc_run false cap ops))) (concat (rc_offered ops)).
Proof. intros cap ops. rewrite <- (rc_sent_is_offered false cap ops). apply rc_order. Qed.
Print Assumptions C05_result_channel_order.

(* ... in terms of ids that increase along the emission order (what the driver's rows carry) *)
Theorem C05_result_channel_increasing : forall cap ops,
  StronglySorted Z.lt (concat (rc_offered ops)) ->
  StronglySorted Z.lt (concat (rc_seen (rc_run false cap ops))).
Proof. exact rc_increasing. Qed.
Print Assumptions C05_result_channel_increasing.

Theorem C05_result_channel_no_duplicate : forall cap ops,
  NoDup (concat (rc_offered ops)) -> NoDup (concat (rc_seen (rc_run false cap ops))).
Proof. exact rc_no_duplicate. Qed.
Print Assumptions C05_result_channel_no_duplicate.

(* nobody reads while n batches are emitted: the channel then holds exactly the newest min(cap, n)
   batches -- what is missing was evicted at the old end, one batch per new batch *)
Theorem C05_result_channel_drop_oldest : forall cap bs,
  rc_seen (rc_run false cap (map RSend bs)) = lastn cap bs.
Proof. exact rc_quiet. Qed.
Print Assumptions C05_result_channel_drop_oldest.

Theorem C05_result_channel_newest_kept : forall cap s b, (0 < cap)%nat ->
  exists front, rc_chan (rc_step false cap s (RSend b)) = front ++ [b].
Proof. exact rc_newest_kept. Qed.
Print Assumptions C05_result_channel_newest_kept.

(* the executable checkers the driver applies to the REAL channel: rc_check decides "is a subsequence
   of the emission order", rc_suffix decides "is the newest min(cap, n) ids"; every model run passes *)
Theorem C05_rc_check_iff : forall sent seen, rc_check sent seen = RCOk <-> subseq seen sent.
Proof. exact rc_check_iff. Qed.
Print Assumptions C05_rc_check_iff.

Theorem C05_rc_suffix_iff : forall cap sent seen, rc_suffix cap sent seen = true <-> seen = lastn cap sent.
Proof. exact rc_suffix_iff. Qed.
Print Assumptions C05_rc_suffix_iff.

Theorem C05_result_channel_passes_checker : forall cap ops,
  rc_check (concat (rc_offered ops)) (concat (rc_seen (rc_run false cap ops))) = RCOk.
Proof. exact rc_model_passes_check. Qed.
Print Assumptions C05_result_channel_passes_checker.

Theorem C05_result_channel_passes_suffix : forall cap ids,
  rc_suffix cap ids (concat (rc_seen (rc_run false cap (map RSend (map (fun x => [x]) ids))))) = true.
Proof. exact rc_model_passes_suffix. Qed.
Print Assumptions C05_result_channel_passes_suffix.

(* non-vacuity: capacity 2, five one-row results, a reader that takes one batch after the third:
   3 evicts 1, the reader gets 2, 4 fits, 5 evicts 3; the reader ends up with 2, 4, 5 *)
Example C05_result_channel_example :
  let ops := [RSend [1]; RSend [2]; RSend [3]; RRecv; RSend [4]; RSend [5]]%Z in
  rc_read (rc_run false 2 ops) = [[2]]%Z /\ rc_chan (rc_run false 2 ops) = [[4]; [5]]%Z /\
  rc_check [1; 2; 3; 4; 5]%Z (concat (rc_seen (rc_run false 2 ops))) = RCOk /\
  concat (rc_seen (rc_run false 2 (map RSend [[1]; [2]; [3]; [4]; [5]]%Z))) = [4; 5]%Z /\
  rc_suffix 2 [1; 2; 3; 4; 5]%Z [4; 5]%Z = true /\ rc_suffix 2 [1; 2; 3; 4; 5]%Z [3; 5]%Z = false.
Proof. vm_compute. repeat split; reflexivity. Qed.

(* ... and "dropped, not re-queued" is needed: if the evicted batch is put in front of the new one and
   the merged batch enqueued at the tail (merge = true; inside the merged batch the old rows do come
   first), the reader gets row 1 after row 2: capacity 2, three results, nobody reading *)
Example C05_merge_evicted_reorders :
  let ops := [RSend [1]; RSend [2]; RSend [3]]%Z in
  concat (rc_seen (rc_run true 2 ops)) = [2; 1; 3]%Z /\
  rc_check [1; 2; 3]%Z (concat (rc_seen (rc_run true 2 ops))) = RCOrder 1 2 /\
  concat (rc_seen (rc_run false 2 ops)) = [2; 3]%Z.
Proof. vm_compute. repeat split; reflexivity. Qed.

(* ================= column names (Spec/ColumnsSpec.v, Proofs/ColumnsProofs.v) =================
   "the result contains exactly the selected columns, or all fields for *": names are byte strings and are
   compared exactly; a field called __seq__, __x, x__, _ or __ is a field like any other. *)
From SV Require Import Spec.ColumnsSpec Proofs.ColumnsProofs.

Theorem C05_columns_exact : forall q row r,
  direct q row = DRow r -> forall k, In k (map fst r) <-> In k (sel_columns q row).
Proof. exact direct_columns_star. Qed.
Print Assumptions C05_columns_exact.

Theorem C05_star_keeps_every_column : forall row w r,
  direct {| q_items := [IStar]; q_where := w |} row = DRow r ->
  forall k, In k (map fst r) <-> In k (map fst row).
Proof. exact direct_star_columns. Qed.
Print Assumptions C05_star_keeps_every_column.

(* the extracted checker the driver runs on the implementation's result decides exactly that ... *)
Theorem C05_chk_columns_iff : forall want obs,
  chk_columns want obs = None <-> (forall k, In k want <-> In k obs).
Proof. exact chk_columns_none_iff. Qed.
Print Assumptions C05_chk_columns_iff.

Theorem C05_chk_columns_missing : forall want obs k,
  chk_columns want obs = Some (ColMissing k) -> In k want /\ ~ In k obs.
Proof. exact chk_columns_missing. Qed.
Print Assumptions C05_chk_columns_missing.

Theorem C05_chk_columns_extra : forall want obs k,
  chk_columns want obs = Some (ColExtra k) -> In k obs /\ ~ In k want /\ (forall j, In j want -> In j obs).
Proof. exact chk_columns_extra. Qed.
Print Assumptions C05_chk_columns_extra.

(* ... and every result of the model passes it *)
Theorem C05_model_passes_chk_columns : forall q row r,
  direct q row = DRow r -> chk_columns (sel_columns q row) (map fst r) = None.
Proof. exact direct_passes_chk_columns. Qed.
Print Assumptions C05_model_passes_chk_columns.

(* non-vacuity: SELECT * FROM stream WHERE v > 0 on {v:5, __seq__:42, __x:1, x__:2, _:3}: all five fields;
   a result without __seq__ is flagged *)
Example C05_dunder_columns :
  let v := [118]%N in let seq := [95;95;115;101;113;95;95]%N in let ux := [95;95;120]%N in
  let xu := [120;95;95]%N in let u := [95]%N in
  let q := {| q_items := [IStar]; q_where := Some (ECmp CGt (ECol v) (ENum 0)) |} in
  let row := [(v, VNum 5); (seq, VNum 42); (ux, VNum 1); (xu, VNum 2); (u, VNum 3)] in
  direct q row = DRow row /\
  chk_columns (sel_columns q row) [v; ux; xu; u] = Some (ColMissing seq) /\
  chk_columns (sel_columns {| q_items := [ICol seq u]; q_where := None |} row) [u; seq] = Some (ColExtra seq).
Proof. vm_compute. repeat split; reflexivity. Qed.

(* ================= select items with quoted parts (Model/SelectItems.v, Proofs/SelectItemsProofs.v) =================
   An item  <text> AS <alias>  reaches the stream as the spec  text ":" alias  and is split again at the first ':'
   outside quotes, a quoted section being closed by the character that opened it. *)
From SV Require Import Model.SelectItems Proofs.SelectItemsProofs.

(* the split is exact for every text whose quoted sections are closed, whatever they contain *)
Theorem C05_spec_split_alias : forall t a, fs_closed t = true -> fs_split (t ++ 58%N :: a) = (t, Some a).
Proof. exact fs_split_alias. Qed.
Print Assumptions C05_spec_split_alias.

Theorem C05_spec_split_plain : forall t, fs_closed t = true -> fs_split t = (t, None).
Proof. exact fs_split_plain. Qed.
Print Assumptions C05_spec_split_plain.

(* the texts the statement speaks of are closed: a string literal or quoted key in either quote style that
   holds anything but its own quote character (the OTHER quote characters and ':' included) ... *)
Theorem C05_quoted_section_closed : forall q c,
  fs_is_quote q = true -> ~ In q c -> fs_closed (q :: c ++ [q]) = true.
Proof. exact fs_closed_quoted. Qed.
Print Assumptions C05_quoted_section_closed.

(* ... and the canonical spelling of a nested path with plain names, indices and such quoted keys *)
Theorem C05_path_text_closed : forall ss, Forall seg_ok ss -> fs_closed (np_render ss) = true.
Proof. exact fs_closed_render. Qed.
Print Assumptions C05_path_text_closed.

(* compileSimpleFieldInfo recovers the item: output name = the name the statement gives the column *)
Theorem C05_item_names : forall i, si_wf i ->
  fi_out (fs_compile (si_spec i)) = si_name i /\
  fi_field (fs_compile (si_spec i)) = si_text i.
Proof. exact fs_compile_names. Qed.
Print Assumptions C05_item_names.

(* a query over such items yields exactly the columns its items name *)
Theorem C05_item_columns : forall q row r,
  Forall si_wf (sq_items q) -> sdirect q row = SDRow r ->
  forall k, nc_lookup r k <> None <-> In k (sq_columns q).
Proof. exact sdirect_columns. Qed.
Print Assumptions C05_item_columns.

(* a literal's column holds the literal's content (pairwise distinct names) *)
Theorem C05_literal_value : forall q row r qt c a,
  sdirect q row = SDRow r -> NoDup (sq_columns q) -> In (SLit qt c a) (sq_items q) ->
  nc_lookup r (si_name (SLit qt c a)) = Some (CVal (JS (VStr c))).
Proof. exact sdirect_literal_value. Qed.
Print Assumptions C05_literal_value.

Theorem C05_items_filtered_iff : forall q row,
  sdirect q row = SDNone <-> nwhere_ok {| nq_items := []; nq_where := sq_where q |} row = Some false.
Proof. exact sdirect_none_iff. Qed.
Print Assumptions C05_items_filtered_iff.

Theorem C05_items_history_free : forall q h row,
  nth (length h) (map (sdirect q) (h ++ [row])) SDNone = sdirect q row.
Proof. exact sdirect_history_free. Qed.
Print Assumptions C05_items_history_free.

(* non-vacuity: SELECT m["it's"] AS v, "it's: ok" AS note, id FROM stream on {id:1, m:{"it's":7}}: {v:7, note:"it's: ok", id:1};
   the items are well-formed; the spec of the first item splits at its last ':' only.
   "Closed by the character that opened it" is needed: a scanner in which ANY quote character toggles the
   quoted state (fs_split_toggle) finds no separator in  m["it's"]:v  (the column would be named by the whole
   spec) and cuts  "it's: ok":note  inside the literal *)
Example C05_quoted_items_example :
  let m := [109]%N in let its := [105;116;39;115]%N in let id := [105;100]%N in
  let p := [109;91;34;105;116;39;115;34;93]%N in                 (* m["it's"] *)
  let lit := [105;116;39;115;58;32;111;107]%N in                 (* it's: ok *)
  let v := [118]%N in let note := [110;111;116;101]%N in
  let q := {| sq_items := [SPath p (Some v); SLit 34 lit (Some note); SPath id None]; sq_where := None |} in
  let row := [(id, JS (VNum 1)); (m, JMap [(its, JS (VNum 7))])] in
  sdirect q row = SDRow [(note, CVal (JS (VStr lit))); (v, CVal (JS (VNum 7))); (id, CVal (JS (VNum 1)))] /\
  Forall si_wf (sq_items q) /\
  fs_split (p ++ 58 :: v)%N = (p, Some v) /\
  fs_split_toggle false (p ++ 58 :: v)%N = ((p ++ 58 :: v)%N, None) /\
  fs_split_toggle false (34 :: lit ++ 34 :: 58 :: note)%N = ([34;105;116;39;115]%N, Some ([32;111;107;34;58] ++ note)%N).
Proof.
  vm_compute. repeat split; try reflexivity. repeat constructor; try reflexivity; try (left; reflexivity); try (right; reflexivity);
    intros H; repeat (destruct H as [H|H]; [discriminate|]); exact H.
Qed.

(* since the repair of F71 a string literal WITHOUT alias that contains ':' is one column (before: the spec was the
   bare content, its first ':' was taken for the separator, and SELECT 's:a' FROM stream on {s:"txt"} had the
   column s:a AND a column a = "txt") *)
Example C05_unaliased_colon_literal_one_column :
  let s := [115]%N in let a := [97]%N in let sa := [115;58;97]%N in let txt := [116;120;116]%N in
  let q := {| sq_items := [SLit 39 sa None]; sq_where := None |} in
  sdirect q [(s, JS (VStr txt))] = SDRow [(sa, CVal (JS (VStr sa)))] /\
  chk_columns (sq_columns q) [sa] = None /\ si_wf (SLit 39 sa None).
Proof. vm_compute. repeat split; try reflexivity; try (left; reflexivity); try discriminate. intros H; repeat (destruct H as [H|H]; [discriminate|]); exact H. Qed.

(* ================= overflow strategy `drop` (the default): Model/LossyFifo.v, Proofs/LossyFifoProofs.v =================
   A full input buffer makes the caller of Emit retry and finally drop the row; the producer waits inside
   Emit meanwhile (inline = true).  For every capacity and every schedule of emissions, retries, give-ups
   and consumer steps: *)
From SV Require Import Model.LossyFifo Proofs.LossyFifoProofs.

(* the consumer reads a FIFO: handled ++ buffered = accepted *)
Theorem C05_drop_fifo : forall inline cap ops,
  let s := lrun inline cap ops in l_done s ++ l_chan s = l_acc s.
Proof. exact lossy_fifo. Qed.
Print Assumptions C05_drop_fifo.

(* a drop never reorders: the synchronous sink holds the results of a prefix of the accepted rows, and the
   accepted rows are a subsequence of the emission order *)
Theorem C05_drop_keeps_order : forall cap q ops,
  let s := lrun true cap ops in
  l_sink q s ++ map (direct q) (l_chan s) = map (direct q) (l_acc s) /\
  subseq (l_acc s) (lemitted ops).
Proof. exact lossy_sink. Qed.
Print Assumptions C05_drop_keeps_order.

Theorem C05_drop_delivered_in_order : forall cap q ops,
  subseq (l_delivered_rows q (lrun true cap ops)) (lemitted ops).
Proof. exact lossy_delivered_in_order. Qed.
Print Assumptions C05_drop_delivered_in_order.

(* the extracted checker of the D lines (rc_check on the ids) accepts every run of the model *)
Theorem C05_drop_passes_checker : forall (f : xrow -> Z) cap q ops,
  rc_check (map f (lemitted ops)) (map f (l_delivered_rows q (lrun true cap ops))) = RCOk.
Proof. exact lossy_passes_checker. Qed.
Print Assumptions C05_drop_passes_checker.

(* every emitted row is accepted, parked or dropped at most once *)
Theorem C05_drop_accounting : forall cap ops,
  let s := lrun true cap ops in
  (length (l_acc s) + length (l_parked s) + l_dropped s <= length (lemitted ops))%nat.
Proof. exact lossy_no_loss_accounting. Qed.
Print Assumptions C05_drop_accounting.

(* ... and the producer's waiting is needed: with the retry window spent on a helper goroutine
   (inline = false) Emit returns while the row is parked, and the next row overtakes it.  Capacity 1, rows
   {id:1} {id:2} {id:3}: row 2 finds the buffer full, the consumer takes row 1, row 3 gets the free slot,
   the helper's retry of row 2 succeeds after the consumer took row 3. *)
Example C05_helper_retry_reorders :
  let id := [105;100]%N in
  let q := {| q_items := [ICol id id]; q_where := None |} in
  let r := fun n => [(id, VNum (inject_Z n))] in
  let f := fun row : xrow => match xlookup row id with Some (VNum x) => Qnum x | _ => 0%Z end in
  let ops := [LEmit (r 1%Z); LEmit (r 2%Z); LStep; LEmit (r 3%Z); LStep; LRetry; LStep] in
  l_done (lrun false 1 ops) = [r 1%Z; r 3%Z; r 2%Z] /\
  rc_check (map f (lemitted ops)) (map f (l_delivered_rows q (lrun false 1 ops))) = RCOrder 2 3 /\
  l_done (lrun true 1 ops) = [r 1%Z; r 2%Z] /\
  rc_check (map f (lemitted ops)) (map f (l_delivered_rows q (lrun true 1 ops))) = RCOk.
Proof. vm_compute. repeat split; reflexivity. Qed.

(* ================= the bridge's program cache (Model/ProgCache.v, Proofs/ProgCacheProofs.v) =================
   A compiled program is cached process-wide by the expression text and is type-specialised on the row it
   was compiled against.  With the fallback of EvaluateExpression (a failed run is repeated on the env
   path) the cache is invisible, whatever rows a cached program accepts: *)
From SV Require Import Model.ProgCache Proofs.ProgCacheProofs.

Theorem C05_cache_invisible : forall cache row e,
  fst (cached_eval true cache row e) = bx (terase row) e.
Proof. exact cache_invisible. Qed.
Print Assumptions C05_cache_invisible.

(* the value of a row does not depend on the rows evaluated before it, nor on their Go types *)
Theorem C05_cache_history_free : forall h cache row e,
  after_history true cache h row e = bx (terase row) e.
Proof. exact cache_history_free. Qed.
Print Assumptions C05_cache_history_free.

(* a program runs on the row it was compiled against: the first row of a text (the `fresh` reference of
   the T lines: a spelling nothing else is evaluated with) never depends on the fallback *)
Theorem C05_cache_first_row : forall fallback row e,
  fst (cached_eval fallback None row e) = bx (terase row) e.
Proof. exact cache_first_row. Qed.
Print Assumptions C05_cache_first_row.

Theorem C05_cache_no_fallback_value_or_error : forall cache row e,
  fst (cached_eval false cache row e) = bx (terase row) e \/ fst (cached_eval false cache row e) = OErr.
Proof. exact cache_no_fallback_value_or_error. Qed.
Print Assumptions C05_cache_no_fallback_value_or_error.

(* that spelling: further parentheses around a parenthesised item change neither the evaluator nor the value *)
Theorem C05_item_extra_parens : forall row e,
  expr_item_value row (ETop (EParen (EParen e))) = expr_item_value row (ETop (EParen e)).
Proof. exact item_extra_parens. Qed.
Print Assumptions C05_item_extra_parens.

Theorem C05_direct_extra_parens : forall row e out items1 items2 w,
  direct {| q_items := items1 ++ IExpr (ETop (EParen (EParen e))) out :: items2; q_where := w |} row =
  direct {| q_items := items1 ++ IExpr (ETop (EParen e)) out :: items2; q_where := w |} row.
Proof. exact direct_extra_parens. Qed.
Print Assumptions C05_direct_extra_parens.

(* ... and the fallback is needed: a cached program whose failure is final (fallback = false) makes
   (c == 7) NULL for {c: 7.0 (float64)} after {c: 7 (int)}, true without that history, and true either
   way with the fallback *)
Example C05_cache_without_fallback_history_dependent :
  let c := [99]%N in
  let e := EParen (ECmp CEq2 (ECol c) (ENum 7)) in
  let first := [(c, (GInt, VNum 7))] in let row := [(c, (GFloat, VNum 7))] in
  after_history false None [first] row e = OErr /\
  after_history false None [] row e = OVal (VBool true) /\
  after_history true None [first] row e = OVal (VBool true) /\
  after_history false None [row] first e = OVal (VBool true).
Proof. vm_compute. repeat split; reflexivity. Qed.
