(* C08 — Sliding windows report each slide-aligned interval with exactly its rows.
   Statements only; proofs in Proofs/Sliding*.v. Histories are lists of atomic steps, so every
   theorem holds for every interleaving of the ingest goroutine with the trigger goroutine. *)
From Coq Require Import Lia Sorted.
From SV Require Import Spec.QuietSpec Proofs.QuietProofs.
From SV Require Import Model.Sliding Proofs.TumblingProofs Proofs.TumblingComplete Proofs.SlidingProofs Proofs.SlidingComplete.
From SV Require Import Spec.SlideSpec Proofs.TumblingSpecSound Proofs.SlidingSpecSound.
From SV Require Import Proofs.SlidingKept Spec.SlideKeptSpec Proofs.SlidingKeptPass.

(* every emitted interval is [s, s+size) with s a multiple of the slide, and holds only rows that
   were added with a timestamp inside it (slide dividing size or not, slide = size, slide > size) *)
Theorem C08_intervals : forall c h s tr,
  0 < sslide c -> srun c sst0 h = (s, tr) ->
  forall b, In (EvBatch b) tr ->
    b_end b = b_start b + ssize c /\ (exists k, b_start b = k * sslide c) /\
    forall r, In r (b_rows b) -> b_start b <= rts r < b_end b /\ added h r.
Proof. exact sliding_membership. Qed.
Print Assumptions C08_intervals.

(* first firings are delivered in strictly increasing order of their start: each interval once *)
Theorem C08_increasing_once : forall c h s tr,
  0 < sslide c -> 0 < ssize c -> Forall nonneg_op h -> srun c sst0 h = (s, tr) ->
  StronglySorted (fun a b => b_start a < b_start b) (firsts tr).
Proof. intros c h s tr Hs Hz Hn Hr. exact (proj1 (srun_sorted c Hs Hz h sst0 s tr (SInv_0 c) Hn Hr)). Qed.
Print Assumptions C08_increasing_once.

(* rows are evicted only when no future interval can need them: a buffered row stays buffered
   unless the slot has advanced beyond its timestamp *)
Theorem C08_no_premature_eviction : forall c s o s' evs r,
  0 < sslide c -> 0 < ssize c -> SInv c s -> nonneg_op o -> In r (s_data s) -> sstep c s o = (s', evs) ->
  In r (s_data s') \/ (rts r < s_slot s' /\ s_adv s' = true).
Proof. intros c s o s' evs r Hs Hz. exact (sstep_retain c Hs Hz s o s' evs r). Qed.
Print Assumptions C08_no_premature_eviction.

(* an on-time row appears in EVERY interval delivered after its arrival that covers it ... *)
Theorem C08_row_in_every_covering_interval : forall c h1 id ts now h2 s1 tr1 s tr,
  0 < sslide c -> 0 < ssize c ->
  Forall nonneg_op (h1 ++ Add id ts now :: h2) ->
  srun c sst0 h1 = (s1, tr1) ->
  is_late ts (update_event_time (sooo c) now ts (s_w s1)) = false ->
  srun c sst0 (h1 ++ Add id ts now :: h2) = (s, tr) ->
  exists tr2, tr = tr1 ++ tr2 /\
    forall b, In b (firsts tr2) -> b_start b <= ts < b_start b + ssize c -> In (id, ts) (b_rows b).
Proof. intros c h1 id ts now h2 s1 tr1 s tr Hs Hz. exact (sliding_on_time_in_every_cover c Hs Hz h1 id ts now h2 s1 tr1 s tr). Qed.
Print Assumptions C08_row_in_every_covering_interval.

(* ... and every slide-aligned interval at or after the current slot that covers it IS delivered,
   with the row inside, as soon as the slot has moved past it (the watermark passed its end) *)
Theorem C08_every_covering_interval_delivered : forall c h1 id ts now h2 s1 tr1 sa ea s tr a k,
  0 < sslide c -> 0 < ssize c ->
  Forall nonneg_op (h1 ++ Add id ts now :: h2) ->
  srun c sst0 h1 = (s1, tr1) ->
  is_late ts (update_event_time (sooo c) now ts (s_w s1)) = false ->
  sstep c s1 (Add id ts now) = (sa, ea) ->
  0 <= k -> a = s_slot sa + k * sslide c -> a <= ts < a + ssize c ->
  srun c sst0 (h1 ++ Add id ts now :: h2) = (s, tr) ->
  a < s_slot s ->
  exists b, In b (firsts tr) /\ b_start b = a /\ In (id, ts) (b_rows b).
Proof.
  intros c h1 id ts now h2 s1 tr1 sa ea s tr a k Hs Hz.
  exact (sliding_every_cover_delivered c Hs Hz h1 id ts now h2 s1 tr1 sa ea s tr a k).
Qed.
Print Assumptions C08_every_covering_interval_delivered.

(* a row ingested WHILE a watermark is being handled (after a firing, the window lock being released around the callback)
   with a timestamp inside the current slot is buffered whether or not it lies behind the watermark, and the very next
   firing step - which decides from the live buffer - delivers an interval: the earliest covering interval [a, a+size)
   of that row on the slot grid, if the watermark has passed its end, or an earlier one; the watermark stays pending, so
   the pass goes on (with C08_no_premature_eviction and C08_increasing_once: up to [a, a+size) itself) *)
Theorem C08_row_ingested_during_pass_forces_firing : forall c s wmk id ts now s1 bs a,
  s_pend s = Some wmk -> s_init s = true -> sinwin c (s_slot s) ts = true ->
  sadd_core c id ts now s = (s1, bs) ->
  first_win c (s_slot s) ts = Some a -> a + ssize c <= wmk ->
  In (id, ts) (s_data s1) /\
  exists b, snd (sfire_step c s1) = [EvBatch b] /\ b_start b <= a /\ b_end b <= wmk /\ s_pend (fst (sfire_step c s1)) = Some wmk.
Proof. exact sliding_row_during_pass_forces_firing. Qed.
Print Assumptions C08_row_ingested_during_pass_forces_firing.

(* delivery liveness across a channel overflow (see Spec/QuietSpec.v): after "channel empty, tick, drained again" with no
   Add in between, the last watermark received is >= (largest sane timestamp) - ooo on every trace *)
Theorem C08_tick_redelivers_skipped_watermark : forall c base h,
  Forall (now_is base) h -> quiet_violated (sooo c) base (snd (srun c sst0 h)) = false.
Proof. exact sliding_quiet. Qed.
Print Assumptions C08_tick_redelivers_skipped_watermark.

(* the executable checker the harness applies to the real sliding window's trace (Spec/SlideSpec.v chk_C08 = schk_trace)
   accepts EVERY trace of the model.  Clauses: every batch is [s, s+size) with s a multiple of the slide holding only
   its own rows (SMembership), all of them added before (SUnknownRow); no interval is delivered twice when
   ALLOWEDLATENESS <= 0 (STwice); first firings come in increasing order (SOrder); no interval starts before the
   slide-aligned start of the earliest on-time row (STooEarlyStart); no firing unless a watermark >= its end is being
   handled (SEarlyFire), the watermarks received being (an accepted timestamp) - ooo and strictly increasing
   (SWatermarkOrigin); every first firing holds every on-time row inside its interval (SRowMissing); when a watermark has
   been handled, every covering interval (from the first on-time start on) of every on-time row that ended before it has
   been delivered with the row inside (SIntervalLost); a re-delivery is the previous contents of that interval followed by
   rows not in it, the late row just added among them (SLateUpdateShape); a late row inside fired intervals the
   watermark has not yet closed is followed by the re-delivery of each of them (SLateUpdateMissing).
   For all configurations with slide > 0, size > 0, ooo >= 0 and ANY ALLOWEDLATENESS (slide dividing the size or not,
   slide = size, slide > size i.e. gaps), all histories of atomic steps (every interleaving of the ingest goroutine,
   the ticker and the trigger goroutine) with distinct row ids, non-negative timestamps (far-future ones included) and
   one wall clock. *)
Theorem C08_model_passes_checker : forall c base h,
  0 < sslide c -> 0 < ssize c -> 0 <= sooo c ->
  Forall (hist_op_ok base) h -> NoDup (hids h) -> chk_C08 c base (snd (srun c sst0 h)) = None.
Proof. intros c base h Hs Hz Ho. exact (sliding_model_passes_checker c base Hs Hz Ho h). Qed.
Print Assumptions C08_model_passes_checker.

(* the instance ALLOWEDLATENESS = 0 (then no Add ever emits a batch and the last two clauses are vacuous) *)
Theorem C08_model_passes_checker_lateness0 : forall c base h,
  0 < sslide c -> 0 < ssize c -> 0 <= sooo c -> slateness c = 0 ->
  Forall (hist_op_ok base) h -> NoDup (hids h) -> chk_C08 c base (snd (srun c sst0 h)) = None.
Proof. intros c base h Hs Hz Ho. exact (sliding_model_passes_checker_lat0 c base Hs Hz Ho h). Qed.
Print Assumptions C08_model_passes_checker_lateness0.

(* non-vacuity: size 10, slide 5; an on-time row older than the first row's slot (the repaired
   defect) brings in the two earlier intervals; the row 1012 is in both intervals covering it *)
Definition ex_scfg : scfg := {| ssize := 10; sslide := 5; sooo := 20; slateness := 0 |}.
Example C08_example :
  batches (snd (srun ex_scfg sst0
     [Add 1 1012 0; Add 2 1003 0; Add 3 1014 0; Add 4 1060 0; DeliverBegin; FireStep; DeliverBegin; FireStep;
      DeliverBegin; FireStep; FireStep; FireStep; FireStep])) =
  [ {| b_start := 1000; b_end := 1010; b_rows := [(2, 1003)]; b_late := false |};
    {| b_start := 1005; b_end := 1015; b_rows := [(1, 1012); (3, 1014)]; b_late := false |};
    {| b_start := 1010; b_end := 1020; b_rows := [(1, 1012); (3, 1014)]; b_late := false |} ].
Proof. vm_compute. reflexivity. Qed.

(* non-vacuity of C08_model_passes_checker for ALLOWEDLATENESS > 0: size 10, slide 5, lateness 20; the late row 1016
   lies in two fired intervals that are still open, both are re-delivered with it and the checker accepts the trace;
   the same trace with the second re-delivery removed is rejected (SLateUpdateMissing), so the clause is not vacuous *)
Definition ex_scfg_late : scfg := {| ssize := 10; sslide := 5; sooo := 0; slateness := 20 |}.
Definition ex_late_hist : list op :=
  [Add 1 1012 0; Add 2 1017 0; Add 3 1031 0; DeliverBegin; FireStep; DeliverBegin; FireStep; DeliverBegin; FireStep;
   FireStep; FireStep; Add 4 1016 0; DeliverBegin].
Example C08_late_example :
  batches (snd (srun ex_scfg_late sst0 ex_late_hist)) =
  [ {| b_start := 1010; b_end := 1020; b_rows := [(1, 1012); (2, 1017)]; b_late := false |};
    {| b_start := 1015; b_end := 1025; b_rows := [(2, 1017)]; b_late := false |};
    {| b_start := 1010; b_end := 1020; b_rows := [(1, 1012); (2, 1017); (4, 1016)]; b_late := true |};
    {| b_start := 1015; b_end := 1025; b_rows := [(2, 1017); (4, 1016)]; b_late := true |} ]
  /\ chk_C08 ex_scfg_late 0 (snd (srun ex_scfg_late sst0 ex_late_hist)) = None
  /\ chk_C08 ex_scfg_late 0 (removelast (removelast (snd (srun ex_scfg_late sst0 ex_late_hist))) ++ [EvD0]) = Some SLateUpdateMissing.
Proof. vm_compute. repeat split. Qed.

(* non-vacuity of the clause chk_C08_kept (Spec/SlideKeptSpec.v): size 10, slide 5, ooo 0; the watermark 1031 passes five
   slides; row 3 (1012) is ingested after the firing of [1000,1010), inside the current slot [1005,1015) and behind the
   watermark; the model delivers [1005,1015) and [1010,1020) with it and the clause accepts the trace; the same trace
   without those two firings is rejected *)
Definition ex_scfg_kept : scfg := {| ssize := 10; sslide := 5; sooo := 0; slateness := 0 |}.
Definition ex_kept_hist : list op :=
  [Add 1 1001 0; DeliverBegin; FireStep; Add 2 1031 0; DeliverBegin; FireStep; Add 3 1012 0; FireStep; FireStep; FireStep].
Example C08_kept_example :
  batches (snd (srun ex_scfg_kept sst0 ex_kept_hist)) =
  [ {| b_start := 1000; b_end := 1010; b_rows := [(1, 1001)]; b_late := false |};
    {| b_start := 1005; b_end := 1015; b_rows := [(3, 1012)]; b_late := false |};
    {| b_start := 1010; b_end := 1020; b_rows := [(3, 1012)]; b_late := false |} ]
  /\ chk_C08_kept ex_scfg_kept 0 (snd (srun ex_scfg_kept sst0 ex_kept_hist)) = None
  /\ chk_C08_kept ex_scfg_kept 0
       (filter (fun e => match e with EvBatch b => b_start b =? 1000 | _ => true end) (snd (srun ex_scfg_kept sst0 ex_kept_hist)))
     = Some ((3, 1012), 1010).
Proof. vm_compute. repeat split. Qed.

(* The clause of Spec/SlideKeptSpec.v (chk_C08_kept, applied to the real trace) proved of the model for ALL histories:
   a row ingested while the watermark wmk is being handled, with a timestamp inside the current slot, is reported in
   every interval [a, a+size) on the slot grid at or after the slot that covers it and whose end wmk has passed, before
   the handling of wmk can end - whatever is interleaved (h2: further Adds, ticks, firing steps): as long as no EvDE
   was emitted, either the row has been reported in [a, a+size) or the next firing step still fires an interval that
   starts at or before a (so it cannot emit EvDE) *)
Theorem C08_kept_row_reported_before_pass_ends : forall c h1 id ts now h2 s1 tr1 s2 tr2 wmk a k,
  0 < sslide c -> 0 < ssize c ->
  Forall nonneg_op (h1 ++ Add id ts now :: h2) ->
  srun c sst0 h1 = (s1, tr1) ->
  s_pend s1 = Some wmk -> s_init s1 = true -> sinwin c (s_slot s1) ts = true ->
  0 <= k -> a = s_slot s1 + k * sslide c -> a <= ts < a + ssize c -> a + ssize c <= wmk ->
  srun c s1 (Add id ts now :: h2) = (s2, tr2) ->
  ~ In EvDE tr2 ->
  sreported (id, ts) a tr2 \/ exists b, snd (sfire_step c s2) = [EvBatch b] /\ b_start b <= a.
Proof.
  intros c h1 id ts now h2 s1 tr1 s2 tr2 wmk a k Hs Hz.
  exact (sliding_kept_row_reported_before_pass_ends c Hs Hz h1 id ts now h2 s1 tr1 s2 tr2 wmk a k).
Qed.
Print Assumptions C08_kept_row_reported_before_pass_ends.

(* ... hence at the step that ends the pass the row HAS been delivered in [a, a+size) *)
Theorem C08_kept_row_reported_at_pass_end : forall c h1 id ts now h2 s1 tr1 s2 tr2 wmk a k,
  0 < sslide c -> 0 < ssize c ->
  Forall nonneg_op (h1 ++ Add id ts now :: h2) ->
  srun c sst0 h1 = (s1, tr1) ->
  s_pend s1 = Some wmk -> s_init s1 = true -> sinwin c (s_slot s1) ts = true ->
  0 <= k -> a = s_slot s1 + k * sslide c -> a <= ts < a + ssize c -> a + ssize c <= wmk ->
  srun c s1 (Add id ts now :: h2) = (s2, tr2) ->
  ~ In EvDE tr2 ->
  snd (sfire_step c s2) = [EvDE] ->
  exists b, In b (firsts tr2) /\ b_start b = a /\ In (id, ts) (b_rows b).
Proof.
  intros c h1 id ts now h2 s1 tr1 s2 tr2 wmk a k Hs Hz.
  exact (sliding_kept_row_reported_at_pass_end c Hs Hz h1 id ts now h2 s1 tr1 s2 tr2 wmk a k).
Qed.
Print Assumptions C08_kept_row_reported_at_pass_end.

(* the premises are met by the history of C08_kept_example: after the first six steps the watermark 1031 is pending and
   the slot is 1005; row 3 (1012) arrives inside the slot; a = 1010 (k = 1) covers it and has ended before 1031; two
   firing steps later the next step would end the pass, and [1010,1020) has been delivered with the row *)
Example C08_kept_pass_example :
  let h1 := firstn 6 ex_kept_hist in
  let s1 := fst (srun ex_scfg_kept sst0 h1) in
  let r2 := srun ex_scfg_kept s1 [Add 3 1012 0; FireStep; FireStep] in
  s_pend s1 = Some 1031 /\ s_init s1 = true /\ s_slot s1 = 1005 /\ sinwin ex_scfg_kept (s_slot s1) 1012 = true /\
  existsb (fun e => match e with EvDE => true | _ => false end) (snd r2) = false /\
  snd (sfire_step ex_scfg_kept (fst r2)) = [EvDE] /\
  firsts (snd r2) = [ {| b_start := 1005; b_end := 1015; b_rows := [(3, 1012)]; b_late := false |};
                      {| b_start := 1010; b_end := 1020; b_rows := [(3, 1012)]; b_late := false |} ].
Proof. vm_compute. repeat split. Qed.
