(* C01 — Tumbling windows count every accepted event exactly once, in its own window.
   Only statements, each closed by [exact]; proofs live in Proofs/TumblingProofs.v. *)
From Coq Require Import Lia.
From SV Require Import Model.Tumbling Proofs.TumblingProofs.

(* every batch is a size-aligned half-open interval [k*size,(k+1)*size) and holds only rows that
   were added with a timestamp inside it -- for every configuration and every interleaving of
   Add / watermark delivery / firing steps *)
Theorem C01_membership : forall c h s tr,
  0 < size c -> run c st0 h = (s, tr) ->
  forall b, In (EvBatch b) tr ->
    b_end b = b_start b + size c /\ (exists k, b_start b = k * size c) /\
    forall r, In r (b_rows b) -> b_start b <= rts r < b_end b /\ added h r.
Proof. exact tumbling_membership. Qed.
Print Assumptions C01_membership.
