(* C01 — Tumbling windows count every accepted event exactly once, in its own window.
   Only statements, each closed by [exact]; proofs live in Proofs/Tumbling*.v.
   A history [h : list op] is a list of atomic steps (Add / watermark received / one firing /
   tick): quantifying over all h quantifies over every interleaving of the ingest goroutine
   with the watermark/trigger goroutine at lock granularity. *)
From Coq Require Import Lia Sorted.
From SV Require Import Spec.QuietSpec Proofs.QuietProofs Spec.WinSpec Proofs.TumblingPTSpec Proofs.TumblingSpecSound.
From SV Require Import Model.Tumbling Proofs.TumblingProofs Proofs.TumblingComplete Proofs.TumblingPT.

(* every batch is a size-aligned half-open interval [k*size,(k+1)*size) and holds only rows that
   were added with a timestamp inside it *)
Theorem C01_membership : forall c h s tr,
  0 < size c -> run c st0 h = (s, tr) ->
  forall b, In (EvBatch b) tr ->
    b_end b = b_start b + size c /\ (exists k, b_start b = k * size c) /\
    forall r, In r (b_rows b) -> b_start b <= rts r < b_end b /\ added h r.
Proof. exact tumbling_membership. Qed.
Print Assumptions C01_membership.

(* first firings are reported in increasing order and never overlap: no interval is reported
   twice and (with membership) no row is counted in two intervals *)
Theorem C01_no_interval_twice : forall c h s tr,
  0 < size c -> Forall nonneg_op h -> run c st0 h = (s, tr) ->
  StronglySorted (fun a b => b_end a <= b_start b) (firsts tr).
Proof. intros c h s tr Hs Hn Hr. exact (proj1 (run_sorted c Hs h st0 s tr (Inv_st0 c) Hn Hr)). Qed.
Print Assumptions C01_no_interval_twice.

(* an on-time row (not late on arrival) is reported in the batch of its own interval as soon as
   the current interval has moved past it ... *)
Theorem C01_on_time_complete : forall c h1 id ts now h2 s1 tr1 s tr,
  0 < size c ->
  Forall nonneg_op (h1 ++ Add id ts now :: h2) ->
  run c st0 h1 = (s1, tr1) ->
  is_late ts (update_event_time (ooo c) now ts (w s1)) = false ->
  run c st0 (h1 ++ Add id ts now :: h2) = (s, tr) ->
  ts < slot s ->
  exists b, In (EvBatch b) tr /\ b_start b = align ts (size c) /\ In (id, ts) (b_rows b).
Proof. intros c h1 id ts now h2 s1 tr1 s tr Hs. exact (on_time_complete c Hs h1 id ts now h2 s1 tr1 s tr). Qed.
Print Assumptions C01_on_time_complete.

(* ... which is the case once a watermark >= the interval's end has been handled to its end *)
Theorem C01_watermark_moves_slot : forall c s s' evs wmk ts,
  0 < size c -> Inv c s -> init s = true -> pend s = Some wmk -> fire_step c s = (s', evs) -> In EvDE evs ->
  Inv c s' -> 0 <= ts -> align ts (size c) + size c <= wmk -> ts < slot s'.
Proof. exact watermark_moves_slot. Qed.
Print Assumptions C01_watermark_moves_slot.

(* processing time: under the ticker's schedule every row is reported, in the batch of the
   size-aligned interval of its Add time, and every batch is such an interval *)
Theorem C01_processing_time_complete : forall c h1 id now h2,
  0 < size c -> sched_ok c pst0 (h1 ++ PAdd id now :: h2) ->
  let '(s, tr) := prun c pst0 (h1 ++ PAdd id now :: h2) in
  now < p_slot s -> exists b, In (EvBatch b) tr /\ b_start b = align now (size c) /\ In (id, now) (b_rows b).
Proof. intros c h1 id now h2 Hs. exact (pt_complete c Hs h1 id now h2). Qed.
Print Assumptions C01_processing_time_complete.

Theorem C01_processing_time_membership : forall c h,
  0 < size c -> sched_ok c pst0 h ->
  forall b, In (EvBatch b) (snd (prun c pst0 h)) ->
    b_end b = b_start b + size c /\ (exists k, b_start b = k * size c) /\
    forall r, In r (b_rows b) -> b_start b <= rts r < b_end b.
Proof. intros c h Hs Hok. exact (pt_membership c Hs h pst0 (InvP_0 c) Hok). Qed.
Print Assumptions C01_processing_time_membership.

(* the executable event-time checker the harness applies to the real window's trace (Spec/WinSpec.v chk_C01: every batch
   a size-aligned interval of known rows; watermarks received are (an accepted timestamp) - ooo and increase; a first
   firing only under a received watermark >= its end, in increasing order, with no row reported before; a re-delivery
   only with ALLOWEDLATENESS > 0 and equal to the previous contents plus the late row just added; when a watermark has
   been handled, no on-time row whose interval ended before it is still unreported) accepts EVERY trace of the model:
   all histories of atomic steps with distinct row ids, non-negative timestamps, one wall clock, idle mechanism off *)
Theorem C01_model_passes_checker : forall c base h,
  0 < size c -> 0 <= ooo c -> idle c = 0 ->
  Forall (hist_op_ok base) h -> NoDup (hids h) -> chk_C01 c base (snd (run c st0 h)) = None.
Proof. intros c base h Hs Ho Hi. exact (model_passes_checker c base Hs Ho Hi h). Qed.
Print Assumptions C01_model_passes_checker.

(* the executable processing-time checker the harness applies to the real window's trace (Spec/WinSpec.v chk_C01_pt:
   aligned interval holding only its own rows, only known rows, no row twice, increasing intervals, every row of the
   interval seen so far is in the batch, no row stamped inside an interval already reported) accepts every trace of
   the model under the ticker's schedule *)
Theorem C01_processing_time_model_passes_checker : forall c h,
  0 < size c -> sched_ok c pst0 h -> NoDup (pids h) -> chk_C01_pt c (snd (prun c pst0 h)) = None.
Proof. intros c h Hs. exact (pt_model_passes_checker c Hs h). Qed.
Print Assumptions C01_processing_time_model_passes_checker.

(* delivery liveness across a channel overflow: on every trace, once the trigger code found the watermark channel
   empty, a tick happened and the channel was drained again with no Add in between, the last watermark received is
   >= (largest sane timestamp) - ooo, so by C01_watermark_moves_slot / C01_on_time_complete every on-time row of an
   interval that ended before it has been reported (Spec/QuietSpec.v is the executable form the harness applies) *)
Theorem C01_tick_redelivers_skipped_watermark : forall c base h,
  Forall (now_is base) h -> quiet_violated (ooo c) base (snd (run c st0 h)) = false.
Proof. exact tumbling_quiet. Qed.
Print Assumptions C01_tick_redelivers_skipped_watermark.

(* non-vacuity: two fired windows, a boundary timestamp, an on-time row older than the first
   row's interval (the repaired defect), a late drop, a delivery between Adds *)
Definition ex_cfg : cfg := {| size := 1000; ooo := 2000; lateness := 0; idle := 0 |}.
Definition ex_hist : list op :=
  [Add 1 10500 0; Add 2 9200 0; Add 3 11000 0; DeliverBegin; FireStep; Add 4 20000 0; Add 5 100 0;
   DeliverBegin; FireStep; DeliverBegin; FireStep; DeliverBegin; FireStep; FireStep; FireStep; FireStep].
Example C01_example :
  batches (snd (run ex_cfg st0 ex_hist)) =
  [ {| b_start := 9000; b_end := 10000; b_rows := [(2, 9200)]; b_late := false |};
    {| b_start := 10000; b_end := 11000; b_rows := [(1, 10500)]; b_late := false |};
    {| b_start := 11000; b_end := 12000; b_rows := [(3, 11000)]; b_late := false |} ].
Proof. vm_compute. reflexivity. Qed.
