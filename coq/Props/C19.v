(* C19 — every emitted row is processed exactly once or counted as dropped; the block strategy without
   timeout never drops; expansion never exceeds MaxBufferSize; one producer's rows are processed in
   emission order. Statements only; proofs in Proofs/IngestProofs.v, Proofs/IngestOrder.v.
   A schedule is any list of atomic steps (Model/Ingest.v) that the model can execute from the
   initial state: all interleavings of n producers, the consumer and the expanding producer. *)
From Coq Require Import List Arith Permutation.
From SV Require Import Model.Ingest Spec.IngestSpec Proofs.IngestProofs.
Import ListNotations.

(* conservation: processed + queued (in any channel, old or new) + held by a producer inside Emit + dropped
   (+ lost by the 5 s migration timeout) is exactly the multiset of emitted rows, which has no repetition;
   the counters input_count / input_dropped_count count exactly those lists. Holds for the code before and
   after the repair (any ig_locked_recv), every strategy, every capacity (>= 0) and growth parameters. *)
Theorem C19_conservation : forall c n l s,
  ig_run c (ig_init c n) l = Some s ->
  Permutation (ig_processed s ++ ig_queued s ++ ig_inflight s ++ ig_dropped_ids s ++ ig_lost_ids s) (ig_emitted_ids s)
  /\ NoDup (ig_emitted_ids s)
  /\ ig_emitted s = length (ig_emitted_ids s) /\ ig_dropped s = length (ig_dropped_ids s).
Proof. exact ig_conservation. Qed.
Print Assumptions C19_conservation.

(* at quiescence (no row in any channel, no producer inside Emit), unless the migration timeout fired:
   rows processed + input_dropped_count = input_count *)
Theorem C19_quiescent_count : forall c n l s,
  ig_run c (ig_init c n) l = Some s -> Forall ig_no_mt l ->
  ig_queued s = [] -> ig_inflight s = [] ->
  length (ig_processed s) + ig_dropped s = ig_emitted s.
Proof. exact ig_quiescent_count. Qed.
Print Assumptions C19_quiescent_count.

Theorem C19_no_duplicate : forall c n l s, ig_run c (ig_init c n) l = Some s -> NoDup (ig_processed s).
Proof. exact ig_no_duplicate. Qed.
Print Assumptions C19_no_duplicate.

Theorem C19_only_emitted : forall c n l s x,
  ig_run c (ig_init c n) l = Some s -> In x (ig_processed s) -> In x (ig_emitted_ids s).
Proof. exact ig_only_emitted. Qed.
Print Assumptions C19_only_emitted.

Theorem C19_block_never_drops : forall c n l s,
  ig_strat c = IgBlock -> ig_run c (ig_init c n) l = Some s -> ig_dropped s = 0.
Proof. exact ig_block_never_drops. Qed.
Print Assumptions C19_block_never_drops.

(* every channel ever created, in particular the current one, respects the ceiling *)
Theorem C19_cap_bounded : forall c n l s,
  0 < ig_max c -> ig_cap0 c <= ig_max c -> ig_run c (ig_init c n) l = Some s ->
  Forall (fun ch => fst ch <= ig_max c) (ig_chans s) /\ ig_cap s <= ig_max c.
Proof. exact ig_cap_bounded. Qed.
Print Assumptions C19_cap_bounded.
