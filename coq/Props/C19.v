(* C19 — every emitted row is processed exactly once or counted as dropped; the block strategy without
   timeout never drops; expansion never exceeds MaxBufferSize; one producer's rows are processed in
   emission order. Statements only; proofs in Proofs/IngestProofs.v, Proofs/IngestOrder.v.
   A schedule is any list of atomic steps (Model/Ingest.v) that the model can execute from the
   initial state: all interleavings of n producers, the consumer and the expanding producer. *)
From Coq Require Import List Arith Permutation ZArith.
From SV Require Import Model.Ingest Spec.IngestSpec Proofs.IngestProofs Proofs.IngestOrder Proofs.IngestRace.
Import ListNotations.

(* conservation: processed + queued (in any channel, old or new) + held by a producer inside Emit + dropped
   (+ lost by the 5 s migration timeout) is exactly the multiset of emitted rows, which has no repetition;
   the counters input_count / input_dropped_count count exactly those lists. Holds for the code before and
   after the repair (any ig_locked_recv), every strategy, every capacity (>= 0) and growth parameters. *)
Theorem C19_conservation : forall c n l s,
  ig_run c (ig_init c n) l = Some s ->
  Permutation (ig_processed s ++ ig_queued s ++ ig_inflight s ++ ig_dropped_ids s ++ ig_lost_ids s) (ig_emitted_ids s)
  /\ NoDup (ig_emitted_ids s)
  /\ ig_emitted s = length (ig_emitted_ids s) /\ ig_dropped s = length (ig_dropped_ids s).
Proof. exact ig_conservation. Qed.
Print Assumptions C19_conservation.

(* at quiescence (no row in any channel, no producer inside Emit), unless the migration timeout fired:
   rows processed + input_dropped_count = input_count *)
Theorem C19_quiescent_count : forall c n l s,
  ig_run c (ig_init c n) l = Some s -> Forall ig_no_mt l ->
  ig_queued s = [] -> ig_inflight s = [] ->
  length (ig_processed s) + ig_dropped s = ig_emitted s.
Proof. exact ig_quiescent_count. Qed.
Print Assumptions C19_quiescent_count.

Theorem C19_no_duplicate : forall c n l s, ig_run c (ig_init c n) l = Some s -> NoDup (ig_processed s).
Proof. exact ig_no_duplicate. Qed.
Print Assumptions C19_no_duplicate.

Theorem C19_only_emitted : forall c n l s x,
  ig_run c (ig_init c n) l = Some s -> In x (ig_processed s) -> In x (ig_emitted_ids s).
Proof. exact ig_only_emitted. Qed.
Print Assumptions C19_only_emitted.

Theorem C19_block_never_drops : forall c n l s,
  ig_strat c = IgBlock -> ig_run c (ig_init c n) l = Some s -> ig_dropped s = 0.
Proof. exact ig_block_never_drops. Qed.
Print Assumptions C19_block_never_drops.

(* the configuration boundary (Model/Ingest.v ig_strat_of mirrors `if blockingTimeout <= 0`): strategy "block"
   with BlockTimeout zero OR negative never drops, under every schedule ... *)
Theorem C19_block_nonpositive_timeout_never_drops : forall c n l s t,
  (t <= 0)%Z -> ig_strat c = ig_strat_of IgNBlock t -> ig_run c (ig_init c n) l = Some s -> ig_dropped s = 0.
Proof. exact ig_block_nonpositive_timeout_never_drops. Qed.
Print Assumptions C19_block_nonpositive_timeout_never_drops.

Theorem C19_block_timeout_boundary : forall t,
  (ig_strat_of IgNBlock t = IgBlock <-> (t <= 0)%Z) /\ (ig_strat_of IgNBlock t = IgBlockTO <-> (0 < t)%Z).
Proof. intro t; split; [apply ig_strat_of_block | apply ig_strat_of_block_pos]. Qed.
Print Assumptions C19_block_timeout_boundary.

(* ... and the hypothesis cannot be weakened: with any positive timeout, capacity 1, a parked consumer and two
   Emit calls the timer drops the second row; without a timeout that sender is blocked (no step of it is enabled) *)
Theorem C19_block_positive_timeout_may_drop : forall t, (0 < t)%Z ->
  exists s, ig_run (ig_bto_cfg t) (ig_init (ig_bto_cfg t) 1) ig_bto_schedule = Some s /\
            ig_dropped s = 1 /\ ig_emitted s = 2.
Proof. exact ig_block_positive_timeout_may_drop. Qed.
Print Assumptions C19_block_positive_timeout_may_drop.

Theorem C19_block_nonpositive_timeout_blocks : forall t, (t <= 0)%Z ->
  ig_run (ig_bto_cfg t) (ig_init (ig_bto_cfg t) 1) ig_bto_schedule = None /\
  exists s, ig_run (ig_bto_cfg t) (ig_init (ig_bto_cfg t) 1) (firstn 5 ig_bto_schedule) = Some s /\
            ig_step (ig_bto_cfg t) s (IgTo 0) = None /\ ig_step (ig_bto_cfg t) s (IgCs 0) = None.
Proof. exact ig_block_nonpositive_timeout_blocks. Qed.
Print Assumptions C19_block_nonpositive_timeout_blocks.

(* Emit returns only after a successful send or a counted drop. One step of any schedule, any strategy, any
   state (not only reachable ones): if producer p holds row x before the step and nothing after it, then the step
   either put x into a channel and counted nothing, or incremented input_dropped_count by exactly one, for x. *)
Theorem C19_emit_returns_only_sent_or_counted : forall c s a s' p pr pr' x,
  ig_step c s a = Some s' ->
  nth_error (ig_prods s) p = Some pr -> ig_hand pr = Some x ->
  nth_error (ig_prods s') p = Some pr' -> ig_hand pr' = None ->
  ((exists r, ig_push (ig_chans s) r x = Some (ig_chans s')) /\ ig_dropped s' = ig_dropped s /\
   ig_dropped_ids s' = ig_dropped_ids s)
  \/ (ig_chans s' = ig_chans s /\ ig_dropped s' = S (ig_dropped s) /\ ig_dropped_ids s' = ig_dropped_ids s ++ [x]).
Proof. exact ig_return_accounted. Qed.
Print Assumptions C19_emit_returns_only_sent_or_counted.

(* the expand program on a failed send (channel full, no writer): at stages 0..3 (k = 1 is the send right after the
   producer's own expandDataChannel, whose new slots other producers may have taken in between) the row stays in
   hand, nothing is counted and the program goes on (CAS / next retry timer); only the failed send after the third
   timer returns, and it counts the row *)
Theorem C19_expand_failed_send_keeps_row : forall c s p pr x k,
  ig_strat c = IgExpand ->
  nth_error (ig_prods s) p = Some pr -> ig_pc pr = IgTry k -> ig_hand pr = Some x ->
  ig_wlock s = None -> ig_push (ig_chans s) (ig_cur s) x = None ->
  exists s' pr', ig_step c s (IgSd p) = Some s' /\ nth_error (ig_prods s') p = Some pr' /\
    ig_chans s' = ig_chans s /\
    (if k <? 4
     then ig_hand pr' = Some x /\ ig_dropped s' = ig_dropped s /\
          ig_pc pr' = (if k =? 0 then IgExpBegin else IgWait (k - 1))
     else ig_hand pr' = None /\ ig_pc pr' = IgIdle /\ ig_dropped s' = S (ig_dropped s) /\
          ig_dropped_ids s' = ig_dropped_ids s ++ [x]).
Proof. exact ig_expand_failed_send. Qed.
Print Assumptions C19_expand_failed_send_keeps_row.

(* the race exists in the model (buffer 1, MinIncrement 1, two producers): after P0's expansion 1 -> 2 and P1's
   Emit, P0 stands before its second send with its row and the channel is full again ... *)
Theorem C19_expander_can_lose_the_new_slot :
  exists s pr, ig_run ig_race_cfg (ig_init ig_race_cfg 2) (firstn 15 ig_race_schedule) = Some s /\
               nth_error (ig_prods s) 0 = Some pr /\ ig_pc pr = IgTry 1 /\ ig_hand pr = Some (0, 2) /\
               ig_len s = 2 /\ ig_cap s = 2 /\ ig_push (ig_chans s) (ig_cur s) (0, 2) = None.
Proof. exact ig_race_lost. Qed.
Print Assumptions C19_expander_can_lose_the_new_slot.

(* ... and the schedule ends with that row counted: 3 rows processed + 1 dropped = 4 emitted *)
Theorem C19_expander_losing_the_race_is_counted :
  exists s, ig_run ig_race_cfg (ig_init ig_race_cfg 2) ig_race_schedule = Some s /\
            ig_processed s = [(0, 0); (0, 1); (1, 0)] /\ ig_dropped s = 1 /\ ig_dropped_ids s = [(0, 2)] /\
            ig_emitted s = 4 /\ ig_cap s = 2 /\ ig_queued s = [] /\ ig_inflight s = [] /\
            Forall ig_no_mt ig_race_schedule.
Proof. exact ig_race_run. Qed.
Print Assumptions C19_expander_losing_the_race_is_counted.

(* every channel ever created, in particular the current one, respects the ceiling *)
Theorem C19_cap_bounded : forall c n l s,
  0 < ig_max c -> ig_cap0 c <= ig_max c -> ig_run c (ig_init c n) l = Some s ->
  Forall (fun ch => fst ch <= ig_max c) (ig_chans s) /\ ig_cap s <= ig_max c.
Proof. exact ig_cap_bounded. Qed.
Print Assumptions C19_cap_bounded.

(* producer_order: for the repaired consumer (it keeps the read lock from loading the channel reference until
   its select returns) under every strategy, and for the drop / block strategies (which never expand) also
   with the consumer as found: for all schedules, the processed sequence lists every producer's rows with
   increasing sequence numbers. ig_ordered l <-> for all positions i < j of l with the same producer,
   seq(i) < seq(j) (C19_ordered_meaning). *)
Theorem C19_producer_order : forall c n l s,
  ig_locked_recv c = true \/ ig_strat c <> IgExpand -> Forall ig_no_mt l ->
  ig_run c (ig_init c n) l = Some s -> ig_ordered (ig_processed s).
Proof. exact ig_producer_order. Qed.
Print Assumptions C19_producer_order.

Theorem C19_producer_order_pairs : forall c n l s,
  ig_locked_recv c = true \/ ig_strat c <> IgExpand -> Forall ig_no_mt l ->
  ig_run c (ig_init c n) l = Some s ->
  forall l1 p k1 l2 k2 l3, ig_processed s = l1 ++ (p, k1) :: l2 ++ (p, k2) :: l3 -> k1 < k2.
Proof. exact ig_producer_order_pairs. Qed.
Print Assumptions C19_producer_order_pairs.

Theorem C19_ordered_meaning : forall l, ig_ordered l <->
  forall l1 x l2 y l3, l = l1 ++ x :: l2 ++ y :: l3 -> fst x = fst y -> snd x < snd y.
Proof. exact ig_ordered_spec. Qed.
Print Assumptions C19_ordered_meaning.

(* F14: with the consumer as found (RUnlock before the select) and the expand strategy the statement is false:
   ld; 3 x Emit (capacity 2: the third one expands); lock; migrate r0; consumer receives r1 from the old
   channel; swap ... processes r1, r0, r2 *)
Theorem C19_producer_order_expand_refuted :
  exists c n l s, ig_locked_recv c = false /\ Forall ig_no_mt l /\ ig_run c (ig_init c n) l = Some s /\
                  ~ ig_ordered (ig_processed s).
Proof. exact ig_producer_order_asis_refuted. Qed.
Print Assumptions C19_producer_order_expand_refuted.

Theorem C19_f14_schedule_blocked_after_repair :
  ig_run (ig_f14_cfg true) (ig_init (ig_f14_cfg true) 1) ig_f14_schedule = None /\
  (exists s, ig_run (ig_f14_cfg true) (ig_init (ig_f14_cfg true) 1) (firstn 9 ig_f14_schedule) = Some s /\
             ig_step (ig_f14_cfg true) s (IgXl 0) = None).
Proof. exact ig_f14_blocked_after_repair. Qed.
Print Assumptions C19_f14_schedule_blocked_after_repair.

(* why the count theorems exclude the migration timeout: if the 5 s timer of expandDataChannel fires inside the
   inner select, the row in hand is lost and the rest of the old channel is stranded, neither counted as dropped *)
Theorem C19_migration_timeout_loses :
  exists s, ig_run (ig_f14_cfg true) (ig_init (ig_f14_cfg true) 1) ig_mt_schedule = Some s /\
            ig_emitted s = 3 /\ ig_dropped s = 0 /\ ig_lost_ids s = [(0, 0)] /\ ig_inflight s = [] /\
            ig_len s = 0 /\ ig_processed s = [(0, 2)] /\ ig_queued s = [(0, 1)].
Proof. exact ig_migration_timeout_loses. Qed.
Print Assumptions C19_migration_timeout_loses.

(* the checker's boolean clauses decide the Props above *)
Theorem C19_checker_order : forall l, ig_orderedb l = true <-> ig_ordered l.
Proof. exact ig_orderedb_ok. Qed.
Print Assumptions C19_checker_order.
Theorem C19_checker_nodup : forall l, ig_nodupb l = true <-> NoDup l.
Proof. exact ig_nodupb_ok. Qed.
Print Assumptions C19_checker_nodup.

(* non-vacuity: two producers, expansion 2 -> 3 = MaxBufferSize, one drop at the ceiling, quiescent end state *)
Example C19_example :
  exists s, ig_run ig_ex_cfg (ig_init ig_ex_cfg 2) ig_ex_schedule = Some s /\
            ig_processed s = [(0, 0); (1, 0); (0, 1)] /\ ig_dropped s = 1 /\ ig_emitted s = 4 /\ ig_cap s = 3 /\
            ig_queued s = [] /\ ig_inflight s = [] /\ Forall ig_no_mt ig_ex_schedule.
Proof. exact ig_example_run. Qed.
