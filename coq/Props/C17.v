(* C17 — GLOBAL WINDOW ... TRIGGER WHEN p: a group produces a result exactly at the rows where p holds
   of the aggregates of the group's rows since its last result; the result holds the aggregates of
   precisely those rows and the group columns; the group then starts again from empty; other groups
   neither trigger nor contribute.
   Only statements, each closed by [exact]; proofs live in Proofs/GlobalWinProofs.v, GlobalWinMore.v.

   gw_run0 c h       : the model of window/global_window.go (processRow / shouldFire / buildResult,
                       running aggregator states, predicate rewritten to placeholders, each placeholder
                       reading the SELECT aggregate gc_bind names for it, or its own trigger-only aggregator);
                       one output (None = nothing) per row of h
   gw_bind_ok c      : the binding is faithful: every bound call reads a SELECT aggregate of the same function
                       over the same field (column names are case sensitive: temp and Temp are two fields)
   gw_eff_pred c     : the predicate as bound = every bound call replaced by the SELECT aggregate it reads
   gw_since0 c g h   : the rows of group g in h after g's last result in that run
   gw_agg_of a rows  : the aggregate a = fn(field) of a fresh aggregator fed with exactly these rows
   gw_holds p rows   : p on these aggregates with the condition engine's rules (an ordering comparison
                       with a NULL aggregate aborts the evaluation = not true; NULL = x false; NULL != x true)
   gw_holds3 p rows  : p on these aggregates in SQL's three-valued logic
   All theorems quantify over every configuration c (SELECT aggregates, predicate, binding) and every
   row sequence. For EVERY binding the window is the reference semantics of the predicate as bound
   (C17_refines_buffered_rows_as_bound, C17_fires_iff_as_bound, ...); for every FAITHFUL binding that is the
   predicate as written, which gives the C17 clauses. The code's binding is not always faithful
   (findOutputSpec compares column names case-insensitively): C17_fires_iff_any_binding_refuted. *)
From SV Require Import Spec.GlobalWinSpec Proofs.GlobalWinProofs Proofs.GlobalWinMore.

(* the code-level model equals the reference semantics that keeps the raw rows of every group *)
Theorem C17_refines_buffered_rows : forall c, gw_bind_ok c -> forall h, gw_run0 c h = gw_spec_run c [] h.
Proof. exact gw_run0_spec. Qed.
Print Assumptions C17_refines_buffered_rows.

(* whatever the binding: the reference semantics of the predicate as bound; the window of c behaves as the
   window of (gw_eff c), whose binding is faithful; a faithful binding leaves the predicate as written *)
Theorem C17_refines_buffered_rows_as_bound : forall c h, gw_run0 c h = gw_spec_run (gw_eff c) [] h.
Proof. exact gw_run0_spec_eff. Qed.
Print Assumptions C17_refines_buffered_rows_as_bound.

Theorem C17_runs_as_bound : forall c h, gw_run0 c h = gw_run0 (gw_eff c) h.
Proof. exact gw_run0_as_bound. Qed.
Print Assumptions C17_runs_as_bound.

Theorem C17_as_bound_is_faithful : forall c, gw_bind_ok (gw_eff c).
Proof. exact gw_eff_bind_ok. Qed.
Print Assumptions C17_as_bound_is_faithful.

Theorem C17_faithful_binding_keeps_predicate : forall c, gw_bind_ok c -> gw_eff c = c.
Proof. exact gw_eff_ok. Qed.
Print Assumptions C17_faithful_binding_keeps_predicate.

(* a result is produced at a row r of group g iff p holds of g's rows since g's last result, r included *)
Theorem C17_fires_iff : forall c, gw_bind_ok c -> forall h1 r h2,
  (exists res, nth_error (gw_run0 c (h1 ++ r :: h2)) (length h1) = Some (Some res)) <->
  gw_holds (gc_pred c) (gw_since0 c (gw_key r) h1 ++ [r]) = true.
Proof. exact gw_fires_iff. Qed.
Print Assumptions C17_fires_iff.

(* the result carries r's group columns and the SELECT aggregates over precisely those rows *)
Theorem C17_result_exact : forall c, gw_bind_ok c -> forall h1 r h2 res,
  nth_error (gw_run0 c (h1 ++ r :: h2)) (length h1) = Some (Some res) ->
  res = (gw_key r, map (fun a => gw_agg_of a (gw_since0 c (gw_key r) h1 ++ [r])) (gc_outs c)).
Proof. exact gw_result_exact. Qed.
Print Assumptions C17_result_exact.

(* no result while p is false *)
Theorem C17_no_result_while_false : forall c, gw_bind_ok c -> forall h1 r h2,
  gw_holds (gc_pred c) (gw_since0 c (gw_key r) h1 ++ [r]) = false ->
  nth_error (gw_run0 c (h1 ++ r :: h2)) (length h1) = Some None.
Proof. exact gw_no_result_while_false. Qed.
Print Assumptions C17_no_result_while_false.

(* after a result the group starts again from empty: no row is kept for it, and its later outputs
   are those of a new window that receives only the group's later rows *)
Theorem C17_restart_empty : forall c, gw_bind_ok c -> forall h1 r h2 res,
  nth_error (gw_run0 c (h1 ++ r :: h2)) (length h1) = Some (Some res) ->
  gw_since0 c (gw_key r) (h1 ++ [r]) = [] /\
  gw_project (gw_key r) (combine h2 (skipn (S (length h1)) (gw_run0 c (h1 ++ r :: h2)))) =
  gw_run0 c (filter (gw_is_group (gw_key r)) h2).
Proof. exact gw_restart_empty. Qed.
Print Assumptions C17_restart_empty.

(* rows of other groups neither trigger nor contribute: the outputs at the rows of g are those of a
   window that only ever receives g's rows (for every binding) *)
Theorem C17_group_isolation : forall c g h,
  gw_project g (combine h (gw_run0 c h)) = gw_run0 c (filter (gw_is_group g) h).
Proof. exact gw_group_isolation. Qed.
Print Assumptions C17_group_isolation.

(* what the aggregates of a row list are (inputs = the non-NULL values of the field, 1 per row for "*") *)
Theorem C17_count_is : forall f seg,
  gw_agg_of {| gr_fn := GwCount; gr_fld := f |} seg =
  Some (inject_Z (Z.of_nat (length (gw_inputs {| gr_fn := GwCount; gr_fld := f |} seg)))).
Proof. exact gw_count_is. Qed.
Print Assumptions C17_count_is.

Theorem C17_sum_is : forall f seg,
  match gw_agg_of {| gr_fn := GwSum; gr_fld := f |} seg with
  | None => gw_inputs {| gr_fn := GwSum; gr_fld := f |} seg = []
  | Some v => gw_inputs {| gr_fn := GwSum; gr_fld := f |} seg <> [] /\
              v == gw_qsum (gw_inputs {| gr_fn := GwSum; gr_fld := f |} seg)
  end.
Proof. exact gw_sum_is. Qed.
Print Assumptions C17_sum_is.

Theorem C17_avg_is : forall f seg,
  match gw_agg_of {| gr_fn := GwAvg; gr_fld := f |} seg with
  | None => gw_inputs {| gr_fn := GwAvg; gr_fld := f |} seg = []
  | Some v => gw_inputs {| gr_fn := GwAvg; gr_fld := f |} seg <> [] /\
              v == gw_qsum (gw_inputs {| gr_fn := GwAvg; gr_fld := f |} seg) /
                   inject_Z (Z.of_nat (length (gw_inputs {| gr_fn := GwAvg; gr_fld := f |} seg)))
  end.
Proof. exact gw_avg_is. Qed.
Print Assumptions C17_avg_is.

Theorem C17_min_is : forall f seg,
  match gw_agg_of {| gr_fn := GwMin; gr_fld := f |} seg with
  | None => gw_inputs {| gr_fn := GwMin; gr_fld := f |} seg = []
  | Some m => In m (gw_inputs {| gr_fn := GwMin; gr_fld := f |} seg) /\
              forall x, In x (gw_inputs {| gr_fn := GwMin; gr_fld := f |} seg) -> m <= x
  end.
Proof. exact gw_min_is. Qed.
Print Assumptions C17_min_is.

Theorem C17_max_is : forall f seg,
  match gw_agg_of {| gr_fn := GwMax; gr_fld := f |} seg with
  | None => gw_inputs {| gr_fn := GwMax; gr_fld := f |} seg = []
  | Some m => In m (gw_inputs {| gr_fn := GwMax; gr_fld := f |} seg) /\
              forall x, In x (gw_inputs {| gr_fn := GwMax; gr_fld := f |} seg) -> x <= m
  end.
Proof. exact gw_max_is. Qed.
Print Assumptions C17_max_is.

(* the extracted checker accepts the model's output on every input, and whatever it accepts is the
   model's output row by row (values within 2^-40) *)
Theorem C17_model_passes_checker : forall c, gw_bind_ok c ->
  forall h, chk_C17_engine c h (map gw_olist (gw_run0 c h)) = None.
Proof. exact gw_model_passes_checker. Qed.
Print Assumptions C17_model_passes_checker.

Theorem C17_checker_complete : forall c, gw_bind_ok c -> forall h obs,
  chk_C17_engine c h obs = None -> Forall2 gw_same obs (gw_run0 c h).
Proof. exact gw_checker_complete. Qed.
Print Assumptions C17_checker_complete.

(* ---- any binding: the clauses hold of the predicate as bound ... ---- *)
Theorem C17_fires_iff_as_bound : forall c h1 r h2,
  (exists res, nth_error (gw_run0 c (h1 ++ r :: h2)) (length h1) = Some (Some res)) <->
  gw_holds (gw_eff_pred c) (gw_since0 c (gw_key r) h1 ++ [r]) = true.
Proof. exact gw_fires_iff_as_bound. Qed.
Print Assumptions C17_fires_iff_as_bound.

Theorem C17_result_exact_as_bound : forall c h1 r h2 res,
  nth_error (gw_run0 c (h1 ++ r :: h2)) (length h1) = Some (Some res) ->
  res = (gw_key r, map (fun a => gw_agg_of a (gw_since0 c (gw_key r) h1 ++ [r])) (gc_outs c)).
Proof. exact gw_result_exact_as_bound. Qed.
Print Assumptions C17_result_exact_as_bound.

Theorem C17_restart_empty_as_bound : forall c h1 r h2 res,
  nth_error (gw_run0 c (h1 ++ r :: h2)) (length h1) = Some (Some res) ->
  gw_since0 c (gw_key r) (h1 ++ [r]) = [] /\
  gw_project (gw_key r) (combine h2 (skipn (S (length h1)) (gw_run0 c (h1 ++ r :: h2)))) =
  gw_run0 c (filter (gw_is_group (gw_key r)) h2).
Proof. exact gw_restart_empty_as_bound. Qed.
Print Assumptions C17_restart_empty_as_bound.

Theorem C17_model_passes_checker_as_bound : forall c h,
  chk_C17_engine (gw_eff c) h (map gw_olist (gw_run0 c h)) = None.
Proof. exact gw_model_passes_checker_as_bound. Qed.
Print Assumptions C17_model_passes_checker_as_bound.

(* ... but not of the predicate as written (finding F55): SELECT count( * ), max(temp) ...
   TRIGGER WHEN max(Temp) > 5, the call bound to the SELECT's max(temp) as findOutputSpec does for two
   column names that differ in letter case only; the row (temp = 9, Temp = 1) produces a result although
   max(Temp) = 1 *)
Theorem C17_fires_iff_any_binding_refuted :
  ~ (forall c h1 r h2,
       (exists res, nth_error (gw_run0 c (h1 ++ r :: h2)) (length h1) = Some (Some res)) <->
       gw_holds (gc_pred c) (gw_since0 c (gw_key r) h1 ++ [r]) = true).
Proof. exact gw_fires_iff_any_binding_refuted. Qed.
Print Assumptions C17_fires_iff_any_binding_refuted.

(* ---- "p is true" read in SQL's three-valued logic: false of the code (finding F-C17-NULL) ---- *)
(* max(v) > 50 OR count( * ) >= 3 over three rows with v NULL: (unknown OR true) = true, no result *)
Theorem C17_fires_iff_sql3vl_refuted :
  ~ (forall c, gw_bind_ok c -> forall h1 r h2,
       (exists res, nth_error (gw_run0 c (h1 ++ r :: h2)) (length h1) = Some (Some res)) <->
       gw_holds3 (gc_pred c) (gw_since0 c (gw_key r) h1 ++ [r]) = true).
Proof. exact gw_fires_iff_sql3_refuted. Qed.
Print Assumptions C17_fires_iff_sql3vl_refuted.

(* min(v) != 5 over one row with v NULL: unknown, yet a result (count 1, min NULL) is produced *)
Theorem C17_no_result_while_false_sql3vl_refuted :
  ~ (forall c, gw_bind_ok c -> forall h1 r h2,
       gw_holds3 (gc_pred c) (gw_since0 c (gw_key r) h1 ++ [r]) = false ->
       nth_error (gw_run0 c (h1 ++ r :: h2)) (length h1) = Some None).
Proof. exact gw_no_result_while_false_sql3_refuted. Qed.
Print Assumptions C17_no_result_while_false_sql3vl_refuted.

(* the three-valued reading holds wherever no aggregate referenced by p is NULL ... *)
Theorem C17_fires_iff_sql3vl_partial : forall c, gw_bind_ok c -> forall h1 r h2,
  (forall a, In a (gw_calls (gc_pred c)) -> gw_agg_of a (gw_since0 c (gw_key r) h1 ++ [r]) <> None) ->
  ((exists res, nth_error (gw_run0 c (h1 ++ r :: h2)) (length h1) = Some (Some res)) <->
   gw_holds3 (gc_pred c) (gw_since0 c (gw_key r) h1 ++ [r]) = true).
Proof. exact gw_fires_iff_sql3_partial. Qed.
Print Assumptions C17_fires_iff_sql3vl_partial.

(* ... e.g. at every row that has a value in every field p refers to ... *)
Theorem C17_fires_iff_sql3vl_row_values : forall c, gw_bind_ok c -> forall h1 r h2,
  (forall a, In a (gw_calls (gc_pred c)) -> gw_input a r <> None) ->
  ((exists res, nth_error (gw_run0 c (h1 ++ r :: h2)) (length h1) = Some (Some res)) <->
   gw_holds3 (gc_pred c) (gw_since0 c (gw_key r) h1 ++ [r]) = true).
Proof. exact gw_fires_iff_sql3_row_values. Qed.
Print Assumptions C17_fires_iff_sql3vl_row_values.

(* ... and for every predicate over counts only *)
Theorem C17_fires_iff_sql3vl_counts : forall c, gw_bind_ok c -> forall h1 r h2,
  (forall a, In a (gw_calls (gc_pred c)) -> gr_fn a = GwCount) ->
  ((exists res, nth_error (gw_run0 c (h1 ++ r :: h2)) (length h1) = Some (Some res)) <->
   gw_holds3 (gc_pred c) (gw_since0 c (gw_key r) h1 ++ [r]) = true).
Proof. exact gw_fires_iff_sql3_counts. Qed.
Print Assumptions C17_fires_iff_sql3vl_counts.

(* non-vacuity: SELECT g, count( * ), sum(v) ... TRIGGER WHEN count( * ) >= 2 AND max(v) > 5
   (count bound to the SELECT aggregate, max trigger-only), two groups, a NULL:
   group 1 fires at its third row (count 3, sum 1+6 = 7, the NULL skipped), group 2 never,
   group 1 starts again and fires at rows 8, 7 (count 2, sum 15) *)
Definition C17_ex_cfg : gw_config :=
  {| gc_outs := [ {| gr_fn := GwCount; gr_fld := None |}; {| gr_fn := GwSum; gr_fld := Some 0%nat |} ];
     gc_pred := GPAnd (GPAtom {| gr_fn := GwCount; gr_fld := None |} CmpGe 2)
                      (GPAtom {| gr_fn := GwMax; gr_fld := Some 0%nat |} CmpGt 5);
     gc_bind := [Some 0%nat; None] |}.
Definition C17_ex_row (g : N) (v : option Q) : gw_row := {| gw_key := [g]; gw_vals := [v] |}.
Definition C17_ex_h : list gw_row :=
  [ C17_ex_row 1 (Some 1); C17_ex_row 2 (Some 9); C17_ex_row 1 None; C17_ex_row 1 (Some 6);
    C17_ex_row 1 (Some 8); C17_ex_row 1 (Some 7) ].

Example C17_example :
  gw_run0 C17_ex_cfg C17_ex_h =
  [ None; None; None; Some ([1%N], [Some 3; Some 7]); None; Some ([1%N], [Some 2; Some 15]) ]
  /\ gw_since0 C17_ex_cfg [2%N] C17_ex_h = [C17_ex_row 2 (Some 9)]
  /\ gw_since0 C17_ex_cfg [1%N] C17_ex_h = []
  /\ chk_C17 C17_ex_cfg C17_ex_h (map gw_olist (gw_run0 C17_ex_cfg C17_ex_h)) = None
  /\ gw_bind_ok C17_ex_cfg.
Proof. repeat split; vm_compute; reflexivity. Qed.

(* ---- WITH(STATETTL=...): the reaper of idle groups (Model/GlobalTTL.v).
   gt_run0 c ttl ops : the window with a reaper, over a history of rows, passages of time and reaper ticks
   gt_quiet0 ttl ops : no group that ever had a row is idle for longer than ttl at any tick of ops *)
From SV Require Import Model.GlobalTTL Proofs.GlobalTTLProofs.

(* a tick removes exactly the groups whose last row is older than the TTL; every other group keeps its state *)
Theorem C17_statettl_reaps_exactly_idle_groups : forall ttl s k, (0 < ttl)%Z ->
  gw_find k (gt_reap ttl s) = if (gt_age_of k (snd s) <=? ttl)%Z then gw_find k (fst s) else None.
Proof. exact gt_reap_find. Qed.
Print Assumptions C17_statettl_reaps_exactly_idle_groups.

(* every row makes its own group fresh again (also a row in the middle of a cycle), and nobody else's *)
Theorem C17_statettl_row_refreshes_own_group : forall k a,
  gt_age_of k (gt_touch k a) = 0%Z /\
  forall k2, gw_key_eqb k k2 = false -> gt_age_of k2 (gt_touch k a) = gt_age_of k2 a.
Proof. exact (fun k a => conj (gt_touch_same k a) (fun k2 H => gt_touch_other k k2 a H)). Qed.
Print Assumptions C17_statettl_row_refreshes_own_group.

(* while every group keeps receiving rows within the TTL, the reaper is invisible: C17 holds as without it *)
Theorem C17_statettl_invisible_for_active_groups : forall c ttl ops,
  gt_quiet0 ttl ops = true -> gt_run0 c ttl ops = gw_run0 c (gt_rows ops).
Proof. exact gt_run_quiet. Qed.
Print Assumptions C17_statettl_invisible_for_active_groups.

(* STATETTL absent (0): no reaper *)
Theorem C17_statettl_off : forall c ttl ops, (ttl <= 0)%Z -> gt_run0 c ttl ops = gw_run0 c (gt_rows ops).
Proof. exact gt_run_off. Qed.
Print Assumptions C17_statettl_off.

Example C17_statettl_example :
  (gt_quiet0 10500 gt_w_active = true /\
   gt_run0 gt_w_cfg 10500 gt_w_active = [None; None; Some ([1%N], [Some (3 # 1)%Q])]) /\
  (gt_quiet0 10500 gt_w_idle = false /\ gt_run0 gt_w_cfg 10500 gt_w_idle = [None; None; None]).
Proof. exact (conj gt_w_active_quiet gt_w_idle_reaped). Qed.
