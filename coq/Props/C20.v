(* C20 — Caller data is never modified and instances do not influence each other.
   Only statements, each closed by [exact]; proofs live in Proofs/IsolationProofs.v.

   Reading guide.  A Go map is an object on a heap [h : iheap] (address = position); Emit/EmitSync on
   the map at address [a] is [iso_process E fixd q st c h a] for a query [q] of ANY kind of the model
   (projection, SELECT *, analytic functions in SELECT and in WHERE, JOIN inner/left, window queries
   with plain and function-expression group keys).  [fixd = true] is the repaired engine (a shallow
   copy is taken before anything is injected), [fixd = false] the engine as found.  [E] is the
   expression engine behind functions.ExprBridge (compile / run / env path); theorems that mention
   the cache hold for every engine in which a successfully running compiled program agrees with the
   env path ([iso_sound]); the engine used for the correspondence runs satisfies it. *)
From Coq Require Import List.
From SV Require Import Model.Isolation Proofs.IsolationProofs Model.BridgeMemo Proofs.BridgeMemoProofs.
From SV Require Import Model.ResultDispatch Proofs.ResultDispatchProofs.
Import ListNotations.

(* Emit/EmitSync leave the map passed by the caller exactly as it was (deep: the row, with every
   nested map and slice, is the same value), for every query kind, state, cache and heap *)
Theorem C20_caller_row_unchanged : forall P (E : iengine P) q st c h a st' c' h' out,
  a < length h -> iso_process E true q st c h a = (st', c', h', out) -> iso_hget h' a = iso_hget h a.
Proof. exact iso_caller_unchanged. Qed.
Print Assumptions C20_caller_row_unchanged.

(* stronger: one Emit changes NO map that existed before it (other callers' maps, rows already given
   to sinks, rows held by windows); it only allocates *)
Theorem C20_emit_frame : forall P (E : iengine P) q st c h a st' c' h' out,
  iso_process E true q st c h a = (st', c', h', out) ->
  length h <= length h' /\ forall b, b < length h -> iso_hget h' b = iso_hget h b.
Proof. exact iso_process_frame. Qed.
Print Assumptions C20_emit_frame.

(* the row a direct query gives to its sink (or returns from EmitSync) is a map allocated by that Emit:
   its address is none of the older ones, so a receiver that overwrites the row it was given (with any
   content r) changes no map that existed before - in particular not the caller's *)
Theorem C20_delivered_row_fresh : forall P (E : iengine P) q st c h a st' c' h' d,
  iq_window q = false ->
  iso_process E true q st c h a = (st', c', h', Some d) ->
  length h <= d /\ d < length h' /\
  forall r b, b < length h -> iso_hget (iso_hput h' d r) b = iso_hget h b.
Proof. exact iso_delivered_fresh. Qed.
Print Assumptions C20_delivered_row_fresh.

(* rows given to a sink, and the callers' maps, during a history are not altered by anything any
   instance of the process does afterwards *)
Theorem C20_sink_rows_stable : forall P (E : iengine P) qs evs1 evs2 s0 s1 os1 s2 os2,
  iso_sys_run E true qs s0 evs1 = (s1, os1) ->
  iso_sys_run E true qs s1 evs2 = (s2, os2) ->
  forall i a d, In (i, a, Some d) os1 ->
    iso_hget (is_heap s2) d = iso_hget (is_heap s1) d /\ iso_hget (is_heap s2) a = iso_hget (is_heap s1) a.
Proof. exact iso_sink_rows_stable. Qed.
Print Assumptions C20_sink_rows_stable.

(* the window path: the result rows of a firing (new maps from the aggregator) go through
   processAggregationResults - writes into the rows (group-column projection, analytic aliases),
   DISTINCT, HAVING, removal of the hidden __having_N__ columns, ORDER BY, LIMIT - and are then handed
   to the result channel and the sinks.  For every configuration [c] (any HAVING / DISTINCT predicate,
   any ORDER BY relation, any LIMIT, any pre-write), every heap and every sequence of firings: each
   batch a sink was given - the same slice of addresses, read on the FINAL heap - has exactly the
   content it had at the hand-over, and no map that existed before the instance ran is touched *)
Theorem C20_dispatch_delivered_rows_stable : forall c firings h h' ds,
  rd_run false c h firings = (h', ds) ->
  (forall d, In d ds -> map (iso_hget h') (fst d) = snd d) /\
  (forall a, a < length h -> iso_hget h' a = iso_hget h a).
Proof. exact rd_run_delivered_stable. Qed.
Print Assumptions C20_dispatch_delivered_rows_stable.

(* one dispatch writes only into the rows of its own batch and hands over only rows of that batch,
   whether or not the hidden columns are removed late *)
Theorem C20_dispatch_frame : forall df c h b h2 d,
  rd_dispatch df c h b = (h2, d) ->
  length h2 = length h /\
  (forall a, ~ In a b -> iso_hget h2 a = iso_hget h a) /\
  (forall x, In x (fst d) -> In x b).
Proof. exact rd_dispatch_frame. Qed.
Print Assumptions C20_dispatch_frame.

(* the order of the steps matters: with the removal of the hidden columns moved behind the hand-over
   (a defer inside the HAVING block), EVERY firing whose row passes HAVING and carries a hidden column
   gives the sink a row that the engine alters afterwards - whatever ORDER BY / LIMIT say *)
Theorem C20_dispatch_deferred_strip_refuted : forall c p h row,
  rd_having c = Some p -> rd_distinct c = None ->
  p (rd_pre c row) = true ->
  rd_strip (rd_pre c row) <> rd_pre c row ->
  forall h' ds, rd_run true c h [[row]] = (h', ds) ->
  exists d, In d ds /\ fst d = [length h] /\ snd d = [rd_pre c row] /\
            map (iso_hget h') (fst d) <> snd d.
Proof. exact rd_dispatch_deferred_alters. Qed.
Print Assumptions C20_dispatch_deferred_strip_refuted.

(* non-vacuity: SELECT device, count( * ) AS c ... HAVING max(v) > 4 on a firing whose row is
   {c:2, __having_0__:6}: the code hands over {c:2} and leaves it; the deferred removal hands over
   {c:2, __having_0__:6} and leaves {c:2} on the heap *)
Example C20_dispatch_example :
  rd_run false rd_cfg_ex [] [[rd_row_ex]] = ([[(rd_k_c, IInt 2)]], [([0], [[(rd_k_c, IInt 2)]])]) /\
  rd_run true rd_cfg_ex [] [[rd_row_ex]] = ([[(rd_k_c, IInt 2)]], [([0], [rd_row_ex])]).
Proof. split; [exact rd_example_code | exact rd_example_deferred]. Qed.

(* the process-wide program cache (keyed by expression text) is transparent: whatever texts other
   instances compiled first, and on whatever rows, an evaluation returns what the env path returns *)
Theorem C20_cache_transparent : forall P (E : iengine P) c t r,
  iso_sound E -> iso_cache_ok E c ->
  fst (iso_eval_cached E c t r) = ie_fresh E t r /\ iso_cache_ok E (snd (iso_eval_cached E c t r)).
Proof. exact iso_cache_transparent. Qed.
Print Assumptions C20_cache_transparent.

(* the retry on the env path is what makes it so.  The bridge with the outcome of a compiled program
   taken as final (iso_eval_final: a cached or freshly compiled program that fails at run time is the
   answer, "a program that did compile is authoritative") lets instance A decide what instance B is told:
   A evaluates t on a row rA whose value types specialise the program (== over two ints, x in [1,2] over
   an int x, upper over a string), the program fails on B's differently typed row rB although the
   program compiled on rB's own shape runs and returns v - B is told "error" next to A and v alone.
   The code as written tells B v in both situations, for every sound engine.  Attacked on the
   implementation by the type-specialised part of the typed-bridge paired family. *)
Theorem C20_failed_program_final_refuted : forall P (E : iengine P) t rA rB pA pB v,
  ie_compile E t (iso_shape_of rA) = Some pA -> ie_exec E pA rB = None ->
  ie_compile E t (iso_shape_of rB) = Some pB -> ie_exec E pB rB = Some v ->
  fst (iso_eval_final E (snd (iso_eval_final E [] t rA)) t rB) = None /\
  fst (iso_eval_final E [] t rB) = Some v /\
  (iso_sound E ->
   fst (iso_eval_cached E (snd (iso_eval_cached E [] t rA)) t rB) = Some v /\
   fst (iso_eval_cached E [] t rB) = Some v).
Proof. exact iso_final_interference. Qed.
Print Assumptions C20_failed_program_final_refuted.

(* non-vacuity on the concrete engine of the correspondence runs: upper(s), s a string in A's row and
   NULL in B's *)
Example C20_failed_program_final_example :
  let t := [117; 112; 112; 101; 114; 40; 115; 41]%N in
  let rA := [([115]%N, IStr [97]%N)] in
  let rB := [([115]%N, INull)] in
  fst (iso_eval_final iso_eng0 (snd (iso_eval_final iso_eng0 [] t rA)) t rB) = None /\
  fst (iso_eval_final iso_eng0 [] t rB) = Some (IStr []) /\
  fst (iso_eval_cached iso_eng0 (snd (iso_eval_cached iso_eng0 [] t rA)) t rB) = Some (IStr []).
Proof. repeat split; vm_compute; reflexivity. Qed.

(* every OTHER memo table of the process-wide bridge that is keyed by the expression text alone
   (Model/BridgeMemo.v: a decision d : text -> row -> A behind Load / compute-on-this-row / Store): if the
   decision does not look at the row (the preprocessed text, ...), then after ANY history of evaluations by
   any instances - other texts, other rows, any order - an evaluation returns what it returns in a fresh
   process *)
Theorem C20_text_memo_transparent : forall A (d : bytes -> irow -> A),
  (forall t r r', d t r = d t r') ->
  forall evs t r, fst (bm_eval d (snd (bm_run d [] evs)) t r) = d t r.
Proof. exact bm_transparent_after_history. Qed.
Print Assumptions C20_text_memo_transparent.

(* ... and only then: a table keyed by the text is transparent on all histories exactly when the
   decision is a function of the text *)
Theorem C20_text_memo_transparent_iff : forall A (d : bytes -> irow -> A),
  (forall evs, fst (bm_run d [] evs) = bm_fresh d evs) <-> (forall t r r', d t r = d t r').
Proof. exact bm_transparent_iff. Qed.
Print Assumptions C20_text_memo_transparent_iff.

(* the bridge's verdict "this '+' expression is a string concatenation" (isStringConcatenationExpression:
   a quoted literal operand, or a column operand whose value in THIS row is a string; the lexical part
   [lit], [ops] is arbitrary) is not such a decision: for every text without a literal operand and with a
   column operand, instance A evaluating it on a row where the column is a string makes a table keyed by
   the text tell instance B "concatenation" on a row where alone it is told "addition".  The verdict
   must not be memoised by the text (attacked on the implementation by the typed-bridge paired family) *)
Theorem C20_concat_verdict_memo_by_text_refuted : forall lit ops t f,
  lit t = false -> In f (ops t) ->
  exists rA rB,
    fst (bm_eval (bm_concat_verdict lit ops) (snd (bm_run (bm_concat_verdict lit ops) [] [(t, rA)])) t rB) = true /\
    fst (bm_eval (bm_concat_verdict lit ops) [] t rB) = false.
Proof. exact bm_concat_memo_refuted. Qed.
Print Assumptions C20_concat_verdict_memo_by_text_refuted.

(* non-vacuity: x + y, operands x and y, no literal; strings in A's row, numbers in B's *)
Example C20_concat_verdict_example :
  let lit := fun _ : bytes => false in
  let ops := fun _ : bytes => [[120]%N; [121]%N] in
  let t := [120; 32; 43; 32; 121]%N in
  let rA := [([120]%N, IStr [100]%N); ([121]%N, IStr [45]%N)] in
  let rB := [([120]%N, IInt 1); ([121]%N, IInt 2)] in
  fst (bm_run (bm_concat_verdict lit ops) [] [(t, rA); (t, rB)]) = [true; true] /\
  bm_fresh (bm_concat_verdict lit ops) [(t, rA); (t, rB)] = [true; false].
Proof. split; vm_compute; reflexivity. Qed.

(* any number of instances (instance i runs query qs i; same or different SQL), any interleaving
   [evs] of their inputs: what instance i delivers is exactly what it delivers alone in a fresh
   process on its own inputs *)
Theorem C20_instances_independent : forall P (E : iengine P) qs i evs,
  iso_sound E ->
  iso_proj_out i (iso_sys_outputs E true qs (iso_sys0 qs) evs) =
  iso_solo E (qs i) (iso_st0 (qs i)) [] (iso_proj_in i evs).
Proof. exact iso_instances_independent. Qed.
Print Assumptions C20_instances_independent.

(* the premise is satisfiable: the engine of the correspondence runs (programs specialised to the
   type a field had in the first row, failing on other types) is sound *)
Theorem C20_engine_sound : iso_sound iso_eng0.
Proof. exact iso_eng0_sound. Qed.
Print Assumptions C20_engine_sound.

(* history (finding F12): the engine as found wrote into the caller's map *)
Theorem C20_caller_row_unchanged_asis_refuted :
  exists q row, let '(_, _, h', _) := iso_process iso_eng0 false q (iso_st0 q) [] [row] 0 in iso_hget h' 0 <> row.
Proof. exact iso_asis_refuted. Qed.
Print Assumptions C20_caller_row_unchanged_asis_refuted.

(* ... the two reported witnesses: EmitSync({id:1, v:10}) on SELECT id, lag(v) AS prev leaves
   {id, v, prev:NULL}; Emit({dev:"a"}) with GROUP BY upper(dev) leaves {dev, "upper(dev)":"A"} *)
Theorem C20_asis_witness_lag :
  let '(_, _, h', _) := iso_process iso_eng0 false iso_q_lag (iso_st0 iso_q_lag) [] [iso_row_lag] 0 in
  iso_hget h' 0 = iso_row_lag ++ [([112; 114; 101; 118]%N, INull)].
Proof. exact iso_asis_lag. Qed.
Print Assumptions C20_asis_witness_lag.
Theorem C20_asis_witness_group_key :
  let '(_, _, h', _) := iso_process iso_eng0 false iso_q_gk (iso_st0 iso_q_gk) [] [iso_row_dev] 0 in
  iso_hget h' 0 = iso_row_dev ++ [(iso_gk_upper_dev, IStr [65]%N)].
Proof. exact iso_asis_gk. Qed.
Print Assumptions C20_asis_witness_group_key.

(* ... and was safe exactly for the queries that inject nothing (incl. every JOIN without analytic
   functions / function group keys) *)
Theorem C20_caller_row_unchanged_asis_partial : forall P (E : iengine P) q st c h a st' c' h' out,
  iso_writes_into_row q = false ->
  a < length h -> iso_process E false q st c h a = (st', c', h', out) -> iso_hget h' a = iso_hget h a.
Proof. exact iso_caller_unchanged_asis_partial. Qed.
Print Assumptions C20_caller_row_unchanged_asis_partial.

(* non-vacuity: two instances with the same SQL (lag in SELECT and WHERE, an expression column whose
   first compilation is on a row where the field is a string, later used on a row where it is
   missing), inputs interleaved; instance 1's outputs are those of its solo run, and the repaired
   engine leaves the caller's map of the witness alone *)
Definition ex_q : iquery :=
  {| iq_join := None; iq_where := IClag [118]%N 5; iq_star := false;
     iq_items := [ItField [105; 100]%N [105; 100]%N; ItLag [118]%N [112]%N; ItExpr iso_gk_upper_dev [117]%N];
     iq_window := false; iq_gkeys := [] |}.
Definition ex_row (id v : Z) (dev : option bytes) : irow :=
  [([105; 100]%N, IInt id); ([118]%N, IInt v)] ++ match dev with Some d => [([100; 101; 118]%N, IStr d)] | None => [] end.
Definition ex_evs : list (nat * irow) :=
  [(0, ex_row 1 10 (Some [97]%N)); (1, ex_row 1 7 None); (0, ex_row 2 3 None); (1, ex_row 2 1 (Some [98]%N));
   (1, ex_row 3 9 None)].
Example C20_example :
  iso_proj_out 1 (iso_sys_outputs iso_eng0 true (fun _ => ex_q) (iso_sys0 (fun _ => ex_q)) ex_evs)
  = [None; Some [([105; 100]%N, IInt 2); ([112]%N, IInt 7); ([117]%N, IStr [66]%N)]; None]
  /\ (let '(_, _, h', _) := iso_process iso_eng0 true iso_q_lag (iso_st0 iso_q_lag) [] [iso_row_lag] 0 in
      iso_hget h' 0 = iso_row_lag).
Proof. split; vm_compute; reflexivity. Qed.
