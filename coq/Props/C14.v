(* C14 — Analytic functions are sequential per partition and isolated across partitions.
   Only statements, each closed by [exact]; proofs live in Proofs/Analytic*.v. *)
From Coq Require Import Lia.
From SV Require Import Model.Analytic Model.AnalyticMulti Spec.AnalyticSpec Proofs.AnalyticSeq Proofs.AnalyticKey
  Proofs.AnalyticEngine Proofs.AnalyticQuery Proofs.AnalyticField Proofs.AnalyticMulti Proofs.AnalyticGated.
From SV Require Import Model.AnalyticPath Spec.AnalyticPathSpec Proofs.AnalyticPath.
From SV Require Import Spec.AnalyticEpochSpec Proofs.AnalyticEpoch Proofs.AnalyticPathEpoch.

(* analytic_seq: lag / latest / had_changed / changed_col / acc_sum,count,avg,min,max -- for every call whose
   configuring arguments (offset, default, ignoreNull) are literals and for EVERY history of counted rows of a
   partition, the state machine of functions/*.go returns row by row the declarative function of the earlier rows
   (k-th most recent retained value or default; most recent non-NULL; differs from the retained baseline;
   sum/count/avg/min/max over the rows after the last reset and from the first start on) *)
Theorem C14_analytic_seq : forall c h, an_call_wf c = true ->
  sm_run (an_call_apply c) (an_new_state (ca_fn c)) h = map_prefix (an_call_spec_rows c) h.
Proof. exact call_seq. Qed.
Print Assumptions C14_analytic_seq.

(* the typed, length-prefixed partition key is injective on tuples of any widths *)
Theorem C14_partition_key_injective : forall vs1 vs2, an_key_of_vals vs1 = an_key_of_vals vs2 -> vs1 = vs2.
Proof. exact partition_key_injective. Qed.
Print Assumptions C14_partition_key_injective.

(* partition_isolation, for every state machine / WHEN gate / key function plugged into the engine of
   stream/analytic.go (an_fstep is the instance for a field): while the number of distinct partitions that were
   given state is within the cap, the results of partition p under any interleaving are those of p's rows alone *)
Theorem C14_partition_isolation :
  forall (St Out : Type) (init : St) (apply : St -> arow -> St * Out) (dflt : Out)
         (gate : arow -> bool) (pkey : arow -> bytes) (cap : nat) (h : list arow) (p : bytes),
  length (nodup bytes_dec (ckeys gate pkey h)) <= cap ->
  project Out pkey p h (snd (an_eng_run St Out init apply dflt gate pkey true cap (an_eng0 _ _) h)) =
  snd (an_eng_run St Out init apply dflt gate pkey true cap (an_eng0 _ _) (only_part pkey p h)).
Proof. exact partition_isolation. Qed.
Print Assumptions C14_partition_isolation.

(* above the cap: the table holds exactly the `cap` most recently used partitions, most recent first ... *)
Theorem C14_lru_eviction_exact :
  forall (St Out : Type) (init : St) (apply : St -> arow -> St * Out) (dflt : Out)
         (gate : arow -> bool) (pkey : arow -> bytes) (cap : nat) (h : list arow),
  1 <= cap ->
  akeys (ae_parts (fst (an_eng_run St Out init apply dflt gate pkey true cap (an_eng0 _ _) h))) =
  firstn cap (recency gate pkey h).
Proof. exact lru_eviction_exact. Qed.
Print Assumptions C14_lru_eviction_exact.

(* ... and a row of an evicted (or new) partition starts from the initial state *)
Theorem C14_lru_restart :
  forall (St Out : Type) (init : St) (apply : St -> arow -> St * Out) (dflt : Out)
         (gate : arow -> bool) (pkey : arow -> bytes) (cap : nat) (h : list arow) (r : arow),
  1 <= cap -> gate r = true -> ~ In (pkey r) (firstn cap (recency gate pkey h)) ->
  snd (an_eng_step St Out init apply dflt gate pkey true cap
         (fst (an_eng_run St Out init apply dflt gate pkey true cap (an_eng0 _ _) h)) r) = snd (apply init r).
Proof. exact lru_restart. Qed.
Print Assumptions C14_lru_restart.

(* the rows that count: those passing an analytic-free WHERE; all rows when WHERE holds an analytic call *)
Theorem C14_where_order : forall q h,
  an_sync q h =
  match aq_where q with
  | AWNone => map Some (snd (an_frun (aq_cap q) (aq_field q) (an_eng0 _ _) h))
  | AWCol n => spread (fun r => an_pos r n) h
                 (snd (an_frun (aq_cap q) (aq_field q) (an_eng0 _ _) (filter (fun r => an_pos r n) h)))
  | AWAnalytic wf => keep_true (snd (an_frun (aq_cap q) (aq_field q) (an_eng0 _ _) h))
                               (snd (an_frun (aq_cap q) wf (an_eng0 _ _) h))
  end.
Proof. exact where_order. Qed.
Print Assumptions C14_where_order.

(* Emit (data channel, one consumer goroutine, any schedule) delivers the sequence EmitSync returns *)
Theorem C14_sync_async_same : forall q sch h, an_async q sch h [] an_q0 = an_sync q h.
Proof. exact sync_async_same. Qed.
Print Assumptions C14_sync_async_same.

(* history: before the fix a column missing from the row reached the state machine as the column's NAME, so
   acc_count(v) counted the row (2 instead of 1); the repaired code and the definition agree *)
Theorem C14_missing_arg_asis_refuted :
  let c := {| ca_fn := AFAcc AKCount; ca_args := [AEField colv] |} in
  let h := [[(colv, AVInt 5)]; []] in
  sm_run (an_call_apply_asis c) (an_new_state (ca_fn c)) h = [ARV (AVInt 1); ARV (AVInt 2)] /\
  map_prefix (an_call_spec_rows c) h = [ARV (AVInt 1); ARV (AVInt 1)] /\
  sm_run (an_call_apply c) (an_new_state (ca_fn c)) h = [ARV (AVInt 1); ARV (AVInt 1)].
Proof. exact missing_arg_asis_refuted. Qed.
Print Assumptions C14_missing_arg_asis_refuted.

(* non-vacuity: a well-formed call lag(v, 2, -1, false); two partitions "a","b" interleaved within a cap of 2
   (the isolation hypothesis holds) and a third one exceeding it (the LRU evicts the least recently used) *)
Example C14_example :
  an_call_wf {| ca_fn := AFLag; ca_args := [AEField colv; AENum 2; AENum (-1); AEBool false] |} = true /\
  (let pk := an_pkey [[112]%N] in
   let ra := [([112]%N, AVStr [97]%N)] in let rb := [([112]%N, AVStr [98]%N)] in let rc := [([112]%N, AVInt 1)] in
   length (nodup bytes_dec (ckeys (fun _ => true) pk [ra; rb; ra])) <= 2 /\
   recency (fun _ => true) pk [ra; rb; ra; rc] = [pk rc; pk ra; pk rb] /\
   ~ In (pk rb) (firstn 2 (recency (fun _ => true) pk [ra; rb; ra; rc]))).
Proof.
  split; [reflexivity|]. cbv zeta. split; [vm_compute; lia|]. split; [vm_compute; reflexivity|].
  vm_compute. intros [H|[H|[]]]; discriminate.
Qed.

(* ======================================================================================================
   Select items as a whole, several items per query, analytic calls in WHERE  (second family)
   ====================================================================================================== *)

(* field_seq: EVERY kind of select item - a single call, the wrappers v - f(..) and f(..) - g(..), any + - * tree
   over several calls / columns / literals (AKExpr), changed_cols(prefix, ign, c1..cn) and had_changed(ign, * ) - is,
   as a state machine over the counted rows of a partition, the declarative function of the earlier rows: the
   wrapper's arithmetic over what EACH call returns by its own definition; per column "changed from the most recent
   retained value"; "some column differs from its baseline, looked up by name".  Rows are maps (distinct column
   names).  [sql] selects the arithmetic (false = the code's, true = NULL-propagating sums): the statement does
   not depend on it. *)
Theorem C14_field_seq : forall sql k h, an_fkind_wf k = true -> Forall row_ok h ->
  sm_run (an_field_apply_g sql k) (an_field_init k) h = map_prefix (an_field_spec_g sql k) h.
Proof. exact field_seq. Qed.
Print Assumptions C14_field_seq.

(* every call of an item advances its own state on every row, whatever the other calls return: the i-th value
   handed to the wrapper is the value of the i-th call's machine run on its own ... *)
Theorem C14_calls_independent : forall h cs ss i c s,
  length cs = length ss -> nth_error cs i = Some c -> nth_error ss i = Some s ->
  map (fun vs => nth_error vs i) (calls_run cs ss h) = map Some (sm_run (an_call_apply c) s h).
Proof. exact calls_independent. Qed.
Print Assumptions C14_calls_independent.

(* ... and the item's value on a row is the wrapper's arithmetic over the last values of its calls, each run ALONE
   from its initial state over the same rows (a call returning NULL, which makes v - lag(v) NULL, stops nothing) *)
Theorem C14_item_calls_alone : forall sql cs w h, forallb an_call_wf cs = true ->
  sm_run (an_field_apply_g sql (AKExpr cs w)) (an_field_init (AKExpr cs w)) h =
  map_prefix (fun earlier r =>
                an_weval sql w (map (fun c => last (sm_run (an_call_apply c) (an_new_state (ca_fn c)) (earlier ++ [r]))
                                                   (ARV AVNull)) cs) r) h.
Proof. exact item_calls_alone. Qed.
Print Assumptions C14_item_calls_alone.

(* the code's arithmetic is not NULL-propagating for a parenthesis-free sum: lag(v) + acc_sum(v) on a first row
   with v = 3 is the string "3" (F51); NULL under the intended arithmetic, and NULL in the code for - *)
Theorem C14_wrapper_sum_null_asis_refuted :
  let cs := [ {| ca_fn := AFLag; ca_args := [AEField colv] |}; {| ca_fn := AFAcc AKSum; ca_args := [AEField colv] |} ] in
  let h := [[(colv, AVInt 3)]] in
  sm_run (an_field_apply_g false (AKExpr cs (WBin WAdd (WSelf 0) (WSelf 1)))) (AFSCalls (map (fun c => an_new_state (ca_fn c)) cs)) h
    = [AOV (AVStr [51]%N)] /\
  sm_run (an_field_apply_g true (AKExpr cs (WBin WAdd (WSelf 0) (WSelf 1)))) (AFSCalls (map (fun c => an_new_state (ca_fn c)) cs)) h
    = [AOV AVNull] /\
  sm_run (an_field_apply_g false (AKExpr cs (WBin WSub (WSelf 0) (WSelf 1)))) (AFSCalls (map (fun c => an_new_state (ca_fn c)) cs)) h
    = [AOV AVNull].
Proof. exact wrapper_sum_null_asis_refuted. Qed.
Print Assumptions C14_wrapper_sum_null_asis_refuted.

(* the engine of stream/analytic.go within the cap, for every state machine plugged into it and every
   interleaving of partitions: the result for a row is the machine applied to the earlier rows of ITS partition
   that passed WHEN; a row failing WHEN repeats the partition's last result (the default when there is none) *)
Theorem C14_engine_gated :
  forall (St Out : Type) (init : St) (apply : St -> arow -> St * Out) (dflt : Out)
         (gate : arow -> bool) (pkey : arow -> bytes) (cap : nat) (h : list arow),
  length (nodup bytes_dec (ckeys gate pkey h)) <= cap ->
  snd (an_eng_run St Out init apply dflt gate pkey true cap (an_eng0 _ _) h) =
  map_prefix (gspec St Out init apply dflt gate pkey) h.
Proof. exact engine_gated. Qed.
Print Assumptions C14_engine_gated.

(* one select item (or WHERE call) through its engine = its gated sequential specification, per partition, under
   any interleaving, while its partitions stay within the cap (always, when it has no PARTITION BY) *)
Theorem C14_frun_gated : forall cap f h, an_fkind_wf (af_kind f) = true -> Forall row_ok h -> field_room cap f h ->
  snd (an_frun cap f (an_eng0 _ _) h) = map_prefix (an_gated_spec f) h.
Proof. exact frun_gated. Qed.
Print Assumptions C14_frun_gated.

(* several items + WHERE: when WHERE holds an analytic call every engine - each select item and the WHERE call -
   runs over EVERY row (also the rows the filter then removes) and the filter only masks the rows of results;
   with an analytic-free WHERE the engines run over the passing rows.  [item_rows] is built column by column from
   the run of each item's engine alone (C14_item_column) *)
Theorem C14_mwhere_order : forall q h,
  an_msync q h =
  match mq_wan q with
  | Some (wf, tst) =>
      mask (fun r w => an_mcolpass q r && an_wtest tst w) h
           (snd (an_frun (mq_cap q) wf (an_eng0 _ _) h))
           (item_rows (mq_cap q) (mq_items q) (m_eng0s q) h)
  | None =>
      spread_g (an_mcolpass q) h
               (item_rows (mq_cap q) (mq_items q) (m_eng0s q) (filter (an_mcolpass q) h))
  end.
Proof. exact mwhere_order. Qed.
Print Assumptions C14_mwhere_order.

Theorem C14_item_column : forall cap h fs es j f e,
  nth_error fs j = Some f -> nth_error es j = Some e ->
  map (fun row => nth_error row j) (item_rows cap fs es h) = map Some (snd (an_frun cap f e h)).
Proof. exact item_column. Qed.
Print Assumptions C14_item_column.

Theorem C14_msync_async_same : forall q sch h, an_masync q sch h [] (an_m0 q) = an_msync q h.
Proof. exact msync_async_same. Qed.
Print Assumptions C14_msync_async_same.

(* the model of EmitSync IS the declarative specification the driver judges the real output with
   (Spec/AnalyticSpec.v an_mspec_query / an_spec_query), for every query of the two families, every history of
   rows and every interleaving of partitions within the cap (an_mwithin_cap / an_within_cap are the very tests
   the driver applies before it uses the specification) *)
Theorem C14_msync_spec : forall q h, mquery_wf q = true -> Forall row_ok h -> an_mwithin_cap q h = true ->
  an_msync q h = an_mspec_query false q h.
Proof. exact msync_spec. Qed.
Print Assumptions C14_msync_spec.

Theorem C14_sync_spec : forall q h, query_wf q = true -> Forall row_ok h -> an_within_cap q h = true ->
  an_sync q h = an_spec_query q h.
Proof. exact sync_spec. Qed.
Print Assumptions C14_sync_spec.

(* non-vacuity: SELECT lag(v) + acc_sum(v) OVER (PARTITION BY p) AS a0, changed_cols('c_', false, v, w) ... WHERE
   acc_count(v) > 0, two partitions interleaved, cap 2: the hypotheses of C14_msync_spec hold and the result is not
   trivial: row 1 is filtered out (count 1) but still counted by every engine, row 2 - the first row of partition
   "b" - shows F51's string "4", row 3 is lag 3 + sum 8 of partition "a") *)
Example C14_example_items :
  let colp := [112]%N in let colw := [119]%N in
  let lagv := {| ca_fn := AFLag; ca_args := [AEField colv] |} in
  let sumv := {| ca_fn := AFAcc AKSum; ca_args := [AEField colv] |} in
  let cntv := {| ca_fn := AFAcc AKCount; ca_args := [AEField colv] |} in
  let it0 := {| af_kind := AKExpr [lagv; sumv] (WBin WAdd (WSelf 0) (WSelf 1)); af_part := [colp]; af_when := None |} in
  let it1 := {| af_kind := AKCols [99; 95]%N (AEBool false) [colv; colw]; af_part := []; af_when := None |} in
  let wf := {| af_kind := AKSingle cntv; af_part := []; af_when := None |} in
  let q := {| mq_items := [it0; it1]; mq_wcol := None; mq_wan := Some (wf, AWTGt 1%Z); mq_cap := 2 |} in
  let ra x := [(colp, AVStr [97]%N); (colv, AVInt x)] in
  let rb x := [(colp, AVStr [98]%N); (colv, AVInt x)] in
  let h := [ra 3%Z; rb 4%Z; ra 5%Z] in
  mquery_wf q = true /\ Forall row_ok h /\ an_mwithin_cap q h = true /\
  an_msync q h = [None;
                  Some [AOV (AVStr [52]%N); AOMap [([99; 95; 118]%N, AVInt 4%Z)]];
                  Some [AOV (AVFlt 11%Z); AOMap [([99; 95; 118]%N, AVInt 5%Z)]]].
Proof.
  cbv zeta. split; [reflexivity|]. split.
  - assert (Hrow : forall p x, row_ok [([112]%N, p); (colv, x)]).
    { intros p x. unfold row_ok. simpl. constructor; [intros [H|[]]; discriminate|].
      constructor; [intros []|constructor]. }
    repeat (constructor; [apply Hrow|]). constructor.
  - split; vm_compute; reflexivity.
Qed.

(* ======================================================================================================
   PARTITION BY keys that are paths into tree rows (PARTITION BY meta.site, a.b.c)  (third family, N / P lines)
   ====================================================================================================== *)

(* the partition value of a key whose path leads somewhere is the value AT THE PATH - with the code's resolution
   (fb = true) and with the declarative one (fb = false) - and it depends on the row only through the column the
   path starts at: two rows carrying the same object under that column are in the same partition whatever their
   other columns hold, a top-level column named like the path's leaf included (the resolution order
   row[key] -> nested path -> "qualified column" suffix of stream/analytic.go resolvePartitionField) *)
Theorem C14_nested_key_own_path : forall fb r1 r2 key p t x,
  an_split_dot key = p :: t -> alookup key r1 = None -> alookup key r2 = None ->
  alookup p r1 = alookup p r2 -> an_path_get (p :: t) (ANMap r1) = Some x ->
  an_resolve fb r1 key = an_scalar (Some x) /\ an_resolve fb r2 key = an_scalar (Some x).
Proof. exact nested_key_own_path. Qed.
Print Assumptions C14_nested_key_own_path.

(* the model of EmitSync on tree rows IS the extracted specification the driver judges N lines with (over the
   code's resolution), for every query of the second family, every history and every interleaving within the cap *)
Theorem C14_nested_msync_spec : forall q h, mquery_wf q = true -> Forall nrow_ok h -> an_nmwithin true q h = true ->
  an_nmsync q h = an_nmspec true false q h.
Proof. exact nested_msync_spec. Qed.
Print Assumptions C14_nested_msync_spec.

(* ... and the DECLARATIVE specification (partition value = value at the path, NULL when the path leads nowhere)
   on every history in which no row takes the suffix fallback, i.e. in which no row whose path leads nowhere
   carries a top-level column named like the leaf *)
Theorem C14_nested_msync_strict : forall q h, mquery_wf q = true -> Forall nrow_ok h -> no_fallback q h ->
  an_nmwithin false q h = true -> an_nmsync q h = an_nmspec false false q h.
Proof. exact nested_msync_strict. Qed.
Print Assumptions C14_nested_msync_strict.

Theorem C14_nested_msync_async_same : forall q sch h, an_nmasync q sch h = an_nmsync q h.
Proof. exact nested_msync_async_same. Qed.
Print Assumptions C14_nested_msync_async_same.

(* the remaining rows are a finding: PARTITION BY meta.site, rows {meta:{site:"A"}, v:1} and {site:"A", v:100}
   (no meta): acc_sum(v) is 1, 101 in the code - the second row is keyed by its top-level column site and joins
   partition "A" - and 1, 100 by the statement (its meta.site is NULL); both within the cap *)
Theorem C14_nested_missing_fallback_asis_refuted :
  an_split_dot ex_key = [ex_meta; ex_site] /\
  an_nmsync ex_q ex_h = [Some [AOV (AVFlt 1)]; Some [AOV (AVFlt 101)]] /\
  an_nmspec false false ex_q ex_h = [Some [AOV (AVFlt 1)]; Some [AOV (AVFlt 100)]] /\
  an_nmwithin true ex_q ex_h = true /\ an_nmwithin false ex_q ex_h = true.
Proof. exact nested_missing_fallback_asis_refuted. Qed.
Print Assumptions C14_nested_missing_fallback_asis_refuted.

(* non-vacuity of C14_nested_key_own_path / C14_nested_msync_strict: rows {site:"gw", meta:{site:"A"|"B"}, v}
   interleaved A, B, A - every row also carries the unrelated top-level column site - keep separate acc_sum state *)
Example C14_example_nested :
  let row s x := [(ex_site, ANLeaf (AVStr [103; 119]%N)); (ex_meta, ANMap [(ex_site, ANLeaf (AVStr s))]);
                  (ex_v, ANLeaf (AVInt x))] in
  let h := [row [65]%N 1%Z; row [66]%N 10%Z; row [65]%N 2%Z] in
  mquery_wf ex_q = true /\ Forall nrow_ok h /\ no_fallback ex_q h /\ an_nmwithin false ex_q h = true /\
  an_nmsync ex_q h = [Some [AOV (AVFlt 1)]; Some [AOV (AVFlt 10)]; Some [AOV (AVFlt 3)]].
Proof.
  cbv zeta. split; [reflexivity|]. split.
  - repeat constructor; unfold nrow_ok; simpl;
      (repeat constructor; simpl; intros H; repeat (destruct H as [H|H]; [discriminate|]); exact H).
  - split; [|split; vm_compute; reflexivity].
    intros r k Hr Hk. simpl in Hk. destruct Hk as [<-|[]].
    simpl in Hr. repeat (destruct Hr as [<-|Hr]; [vm_compute; reflexivity|]). contradiction.
Qed.

(* ======================================================================================================
   Every history, the number of partitions above the cap included  (Spec/AnalyticEpochSpec.v)
   ====================================================================================================== *)

(* the engine of stream/analytic.go for every state machine plugged into it, every interleaving and EVERY number
   of partitions: the result for a row is the machine applied to the counted rows of the current residency epoch
   of ITS partition - the rows since which the partition has, at every moment, been among the cap most recently
   used partitions (gepoch) -; a row failing WHEN repeats the last result of that epoch, the default when the
   epoch is empty *)
Theorem C14_engine_epoch :
  forall (St Out : Type) (init : St) (apply : St -> arow -> St * Out) (dflt : Out)
         (gate : arow -> bool) (pkey : arow -> bytes) (cap : nat) (h : list arow),
  1 <= cap ->
  snd (an_eng_run St Out init apply dflt gate pkey true cap (an_eng0 _ _) h) =
  map_prefix (xgspec St Out init apply dflt gate pkey cap) h.
Proof. exact engine_epoch. Qed.
Print Assumptions C14_engine_epoch.

(* the remembered last result is evicted WITH the state (the companion of C14_lru_restart): a row failing WHEN
   whose partition is not among the cap most recently used ones gets the default - NULL, no columns for
   changed_cols - whatever the partition had produced before it was evicted *)
Theorem C14_evicted_forgets :
  forall (St Out : Type) (init : St) (apply : St -> arow -> St * Out) (dflt : Out)
         (gate : arow -> bool) (pkey : arow -> bytes) (cap : nat) (h : list arow) (r : arow),
  1 <= cap -> gate r = false -> ~ In (pkey r) (firstn cap (recency gate pkey h)) ->
  snd (an_eng_step St Out init apply dflt gate pkey true cap
         (fst (an_eng_run St Out init apply dflt gate pkey true cap (an_eng0 _ _) h)) r) = dflt.
Proof. exact evicted_forgets. Qed.
Print Assumptions C14_evicted_forgets.

(* one select item (or WHERE call) through its engine = its specification over the residency epoch, on every
   history, with or without PARTITION BY *)
Theorem C14_xfrun_gated : forall cap f h, an_fkind_wf (af_kind f) = true -> Forall row_ok h -> 1 <= cap ->
  snd (an_frun cap f (an_eng0 _ _) h) = map_prefix (an_xgated_spec cap f) h.
Proof. exact xfrun_gated. Qed.
Print Assumptions C14_xfrun_gated.

(* the model of EmitSync IS the declarative specification the driver judges the real output with on histories
   whose partitions exceed the cap (an_xspec_query / an_xmspec_query / an_nxmspec) - no hypothesis on the number of
   partitions -, for every query of the three families *)
Theorem C14_sync_xspec : forall q h, query_wf q = true -> Forall row_ok h -> 1 <= aq_cap q ->
  an_sync q h = an_xspec_query q h.
Proof. exact sync_xspec. Qed.
Print Assumptions C14_sync_xspec.

Theorem C14_msync_xspec : forall q h, mquery_wf q = true -> Forall row_ok h -> 1 <= mq_cap q ->
  an_msync q h = an_xmspec_query false q h.
Proof. exact msync_xspec. Qed.
Print Assumptions C14_msync_xspec.

Theorem C14_nested_msync_xspec : forall q h, mquery_wf q = true -> Forall nrow_ok h -> 1 <= mq_cap q ->
  an_nmsync q h = an_nxmspec true q h.
Proof. exact nested_msync_xspec. Qed.
Print Assumptions C14_nested_msync_xspec.

Theorem C14_nested_msync_xstrict : forall q h, mquery_wf q = true -> Forall nrow_ok h -> no_fallback q h ->
  1 <= mq_cap q -> an_nmsync q h = an_nxmspec false q h.
Proof. exact nested_msync_xstrict. Qed.
Print Assumptions C14_nested_msync_xstrict.

(* within the cap nothing is ever evicted: there the specification of all histories is the one of
   Spec/AnalyticSpec.v (every earlier counted row of the partition) *)
Theorem C14_xspec_within_cap : forall q h, query_wf q = true -> Forall row_ok h -> 1 <= aq_cap q ->
  an_within_cap q h = true -> an_xspec_query q h = an_spec_query q h.
Proof. exact xspec_within_cap. Qed.
Print Assumptions C14_xspec_within_cap.

Theorem C14_xmspec_within_cap : forall q h, mquery_wf q = true -> Forall row_ok h -> 1 <= mq_cap q ->
  an_mwithin_cap q h = true -> an_xmspec_query false q h = an_mspec_query false q h.
Proof. exact xmspec_within_cap. Qed.
Print Assumptions C14_xmspec_within_cap.

(* non-vacuity and the clause evicted_partition_replays_stale_result: cap 2, acc_sum(v) OVER (PARTITION BY p WHEN
   g > 0); A counted (10), A gated off (repeats 10), B, C - the third partition evicts A -, A gated off: NULL, not
   the 10 computed from rows that went with the evicted state; A counted: 5, from scratch; A gated off: 5.
   The history is NOT within the cap, and row 4 is the row the driver's classifier (an_xevicted) points at *)
Theorem C14_evicted_witness :
  query_wf xw_q = true /\ Forall row_ok xw_h /\ an_within_cap xw_q xw_h = false /\
  an_sync xw_q xw_h = map Some [AOV (AVFlt 10); AOV (AVFlt 10); AOV (AVFlt 1); AOV (AVFlt 2);
                                 AOV AVNull; AOV (AVFlt 5); AOV (AVFlt 5)] /\
  an_xevicted xw_q xw_h = [false; false; false; false; true; false; false].
Proof. exact evicted_witness. Qed.
Print Assumptions C14_evicted_witness.
