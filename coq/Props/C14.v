(* C14 — Analytic functions are sequential per partition and isolated across partitions.
   Only statements, each closed by [exact]; proofs live in Proofs/Analytic*.v. *)
From Coq Require Import Lia.
From SV Require Import Model.Analytic Spec.AnalyticSpec Proofs.AnalyticSeq Proofs.AnalyticKey Proofs.AnalyticEngine
  Proofs.AnalyticQuery.

(* analytic_seq: lag / latest / had_changed / changed_col / acc_sum,count,avg,min,max -- for every call whose
   configuring arguments (offset, default, ignoreNull) are literals and for EVERY history of counted rows of a
   partition, the state machine of functions/*.go returns row by row the declarative function of the earlier rows
   (k-th most recent retained value or default; most recent non-NULL; differs from the retained baseline;
   sum/count/avg/min/max over the rows after the last reset and from the first start on) *)
Theorem C14_analytic_seq : forall c h, an_call_wf c = true ->
  sm_run (an_call_apply c) (an_new_state (ca_fn c)) h = map_prefix (an_call_spec_rows c) h.
Proof. exact call_seq. Qed.
Print Assumptions C14_analytic_seq.

(* the typed, length-prefixed partition key is injective on tuples of any widths *)
Theorem C14_partition_key_injective : forall vs1 vs2, an_key_of_vals vs1 = an_key_of_vals vs2 -> vs1 = vs2.
Proof. exact partition_key_injective. Qed.
Print Assumptions C14_partition_key_injective.

(* partition_isolation, for every state machine / WHEN gate / key function plugged into the engine of
   stream/analytic.go (an_fstep is the instance for a field): while the number of distinct partitions that were
   given state is within the cap, the results of partition p under any interleaving are those of p's rows alone *)
Theorem C14_partition_isolation :
  forall (St Out : Type) (init : St) (apply : St -> arow -> St * Out) (dflt : Out)
         (gate : arow -> bool) (pkey : arow -> bytes) (cap : nat) (h : list arow) (p : bytes),
  length (nodup bytes_dec (ckeys gate pkey h)) <= cap ->
  project Out pkey p h (snd (an_eng_run St Out init apply dflt gate pkey true cap (an_eng0 _ _) h)) =
  snd (an_eng_run St Out init apply dflt gate pkey true cap (an_eng0 _ _) (only_part pkey p h)).
Proof. exact partition_isolation. Qed.
Print Assumptions C14_partition_isolation.

(* above the cap: the table holds exactly the `cap` most recently used partitions, most recent first ... *)
Theorem C14_lru_eviction_exact :
  forall (St Out : Type) (init : St) (apply : St -> arow -> St * Out) (dflt : Out)
         (gate : arow -> bool) (pkey : arow -> bytes) (cap : nat) (h : list arow),
  1 <= cap ->
  akeys (ae_parts (fst (an_eng_run St Out init apply dflt gate pkey true cap (an_eng0 _ _) h))) =
  firstn cap (recency gate pkey h).
Proof. exact lru_eviction_exact. Qed.
Print Assumptions C14_lru_eviction_exact.

(* ... and a row of an evicted (or new) partition starts from the initial state *)
Theorem C14_lru_restart :
  forall (St Out : Type) (init : St) (apply : St -> arow -> St * Out) (dflt : Out)
         (gate : arow -> bool) (pkey : arow -> bytes) (cap : nat) (h : list arow) (r : arow),
  1 <= cap -> gate r = true -> ~ In (pkey r) (firstn cap (recency gate pkey h)) ->
  snd (an_eng_step St Out init apply dflt gate pkey true cap
         (fst (an_eng_run St Out init apply dflt gate pkey true cap (an_eng0 _ _) h)) r) = snd (apply init r).
Proof. exact lru_restart. Qed.
Print Assumptions C14_lru_restart.

(* the rows that count: those passing an analytic-free WHERE; all rows when WHERE holds an analytic call *)
Theorem C14_where_order : forall q h,
  an_sync q h =
  match aq_where q with
  | AWNone => map Some (snd (an_frun (aq_cap q) (aq_field q) (an_eng0 _ _) h))
  | AWCol n => spread (fun r => an_pos r n) h
                 (snd (an_frun (aq_cap q) (aq_field q) (an_eng0 _ _) (filter (fun r => an_pos r n) h)))
  | AWAnalytic wf => keep_true (snd (an_frun (aq_cap q) (aq_field q) (an_eng0 _ _) h))
                               (snd (an_frun (aq_cap q) wf (an_eng0 _ _) h))
  end.
Proof. exact where_order. Qed.
Print Assumptions C14_where_order.

(* Emit (data channel, one consumer goroutine, any schedule) delivers the sequence EmitSync returns *)
Theorem C14_sync_async_same : forall q sch h, an_async q sch h [] an_q0 = an_sync q h.
Proof. exact sync_async_same. Qed.
Print Assumptions C14_sync_async_same.

(* history: before the fix a column missing from the row reached the state machine as the column's NAME, so
   acc_count(v) counted the row (2 instead of 1); the repaired code and the definition agree *)
Theorem C14_missing_arg_asis_refuted :
  let c := {| ca_fn := AFAcc AKCount; ca_args := [AEField colv] |} in
  let h := [[(colv, AVInt 5)]; []] in
  sm_run (an_call_apply_asis c) (an_new_state (ca_fn c)) h = [ARV (AVInt 1); ARV (AVInt 2)] /\
  map_prefix (an_call_spec_rows c) h = [ARV (AVInt 1); ARV (AVInt 1)] /\
  sm_run (an_call_apply c) (an_new_state (ca_fn c)) h = [ARV (AVInt 1); ARV (AVInt 1)].
Proof. exact missing_arg_asis_refuted. Qed.
Print Assumptions C14_missing_arg_asis_refuted.

(* non-vacuity: a well-formed call lag(v, 2, -1, false); two partitions "a","b" interleaved within a cap of 2
   (the isolation hypothesis holds) and a third one exceeding it (the LRU evicts the least recently used) *)
Example C14_example :
  an_call_wf {| ca_fn := AFLag; ca_args := [AEField colv; AENum 2; AENum (-1); AEBool false] |} = true /\
  (let pk := an_pkey [[112]%N] in
   let ra := [([112]%N, AVStr [97]%N)] in let rb := [([112]%N, AVStr [98]%N)] in let rc := [([112]%N, AVInt 1)] in
   length (nodup bytes_dec (ckeys (fun _ => true) pk [ra; rb; ra])) <= 2 /\
   recency (fun _ => true) pk [ra; rb; ra; rc] = [pk rc; pk ra; pk rb] /\
   ~ In (pk rb) (firstn 2 (recency (fun _ => true) pk [ra; rb; ra; rc]))).
Proof.
  split; [reflexivity|]. cbv zeta. split; [vm_compute; lia|]. split; [vm_compute; reflexivity|].
  vm_compute. intros [H|[H|[]]]; discriminate.
Qed.
