(* C02 — Watermark discipline: no early firing, no on-time loss, bounded late updates.
   Statements only. Tumbling window; the sliding and session windows share Model/Watermark.v. *)
From Coq Require Import Lia.
From SV Require Import Model.Session Model.Tumbling Model.Sliding Proofs.TumblingProofs Proofs.TumblingComplete Proofs.TumblingWatermark Proofs.WindowsWatermark Proofs.QuietProofs Proofs.TumblingIdle Proofs.LateUpdates.

(* every watermark the trigger goroutine ever receives is (timestamp of an ingested, not
   far-future event) - MAXOUTOFORDERNESS, and a window [s,e) fires for the first time only after
   an ingested event had a timestamp >= e + MAXOUTOFORDERNESS  (idle timeout off) *)
Theorem C02_no_early_fire : forall c h s tr,
  idle c = 0 -> run c st0 h = (s, tr) ->
  (forall x, In (EvDB x) tr -> accepted_wm c h x) /\
  (forall b, In (EvBatch b) tr -> b_late b = false ->
     exists id ts now, In (Add id ts now) h /\ (now + ooo c + day <? ts) = false /\ b_end b + ooo c <= ts).
Proof. exact tumbling_no_early_fire. Qed.
Print Assumptions C02_no_early_fire.

(* a timestamp more than 24h (+ooo) ahead of the wall clock leaves the watermark bookkeeping untouched *)
Theorem C02_far_future_inert : forall ooo now ts w,
  (now + ooo + day <? ts) = true ->
  let w' := update_event_time ooo now ts w in
  maxEv w' = maxEv w /\ cur w' = cur w /\ sent w' = sent w /\ chan w' = chan w.
Proof. exact far_future_inert. Qed.
Print Assumptions C02_far_future_inert.

(* the watermark never moves backwards, whatever arrives *)
Theorem C02_watermark_monotone : forall ooo now ts w x,
  ole x (cur w) -> ole x (cur (update_event_time ooo now ts w)).
Proof. exact uet_mono. Qed.
Print Assumptions C02_watermark_monotone.

(* an event is never discarded unless it was older than the watermark when it arrived:
   a row that is not late on arrival is buffered by that very Add *)
Theorem C02_drop_only_if_late : forall c id ts now s,
  is_late ts (update_event_time (ooo c) now ts (w s)) = false ->
  In (id, ts) (data (fst (add_core c id ts now s))).
Proof. exact not_late_buffered. Qed.
Print Assumptions C02_drop_only_if_late.

(* ALLOWEDLATENESS > 0: a late row that falls in an already-fired window still registered causes, inside
   that very Add, a re-delivery with the same (start, end) whose contents are the previous contents
   followed by the row *)
Theorem C02_late_update : forall c id ts now s t,
  0 < size c -> Inv c s -> init s = true ->
  is_late ts (update_event_time (ooo c) now ts (w s)) = true ->
  inwin c (slot s) ts = false -> (0 <? lateness c) = true ->
  find (fun t => in_twin t ts) (trig s) = Some t ->
  snd (add_core c id ts now s) =
    [{| b_start := t_start t; b_end := t_end t; b_rows := t_snap t ++ [(id, ts)]; b_late := true |}].
Proof. exact late_update_exact. Qed.
Print Assumptions C02_late_update.

(* REFUTED (recorded finding F8a): an event older than watermark - ALLOWEDLATENESS does change a result
   when its window has not fired yet *)
Theorem C02_beyond_lateness_inert_refuted :
  exists c h id ts,
    In (EvBatch {| b_start := 20000; b_end := 30000; b_rows := [(1, 20100); (2, 25000); (id, ts)]; b_late := false |})
       (snd (run c st0 h)) /\ ts < 25000 - ooo c - lateness c.
Proof. exact beyond_lateness_inert_refuted. Qed.
Print Assumptions C02_beyond_lateness_inert_refuted.

(* the same discipline for the sliding window ... *)
Theorem C02_no_early_fire_sliding : forall c h s tr,
  srun c sst0 h = (s, tr) ->
  (forall x, In (EvDB x) tr -> saccepted_wm c h x) /\
  (forall b, In (EvBatch b) tr -> b_late b = false ->
     exists id ts now, In (Add id ts now) h /\ (now + sooo c + day <? ts) = false /\ b_end b + sooo c <= ts).
Proof. exact sliding_no_early_fire. Qed.
Print Assumptions C02_no_early_fire_sliding.

(* ... and for the session window: a session is delivered only by the expiry step of a received
   watermark >= its end, and every received watermark comes from an accepted event *)
Theorem C02_no_early_delivery_session : forall c h s tr,
  nrun c nst0 h = (s, tr) ->
  (forall x, In (SvDB x) tr -> naccepted_wm c h x) /\
  (forall s' evs k st en rows, nstep c s NFire = (s', evs) -> In (SvBatch k st en rows) evs ->
     exists id ts key now, In (NAdd id ts key now) h /\ (now + nooo c + day <? ts) = false /\ en + nooo c <= ts).
Proof. exact session_no_early_delivery. Qed.
Print Assumptions C02_no_early_delivery_session.

(* ... and with the idle-source mechanism on (any IDLETIMEOUT): every received watermark is (an accepted timestamp) - ooo
   or (the clock of a tick) - ooo for a tick at which more than the idle timeout had passed since some event arrived;
   a first firing of [s,e) needs an accepted event with ts >= e + ooo, or such a tick with clock >= e + ooo *)
Theorem C02_no_early_fire_or_idle : forall c h s tr,
  run c st0 h = (s, tr) ->
  (forall x, In (EvDB x) tr -> accepted_wm c h x \/ idle_wm c h x) /\
  (forall b, In (EvBatch b) tr -> b_late b = false ->
     (exists id ts now, In (Add id ts now) h /\ (now + ooo c + day <? ts) = false /\ b_end b + ooo c <= ts) \/
     (0 < idle c /\ exists now l, In (Tick now) h /\ arrival h l /\ idle c < now - l /\ b_end b + ooo c <= now)).
Proof. exact tumbling_no_early_fire_idle. Qed.
Print Assumptions C02_no_early_fire_or_idle.

(* the periodic tick re-sends a watermark whose send was skipped because the channel (capacity 100) was full *)
Theorem C02_tick_resends : forall ooo idle now w m c,
  maxEv w = Some m -> (length (chan w) < chan_cap)%nat ->
  cur (tick ooo idle now w) = Some c -> ogt c (sent w) = true ->
  chan (tick ooo idle now w) = chan w ++ [c] /\ sent (tick ooo idle now w) = Some c.
Proof. exact tick_resends. Qed.
Print Assumptions C02_tick_resends.

(* late updates of the session window: a late event inside the retained fired session of its own key re-delivers that
   session (same start and end, hence the same window_id) with the previous contents plus the event ... *)
Theorem C02_late_update_session : forall c id ts key now s t,
  (now + nooo c + day <? ts) = false ->
  is_late ts (update_event_time (nooo c) now ts (n_w s)) = true ->
  (0 <? nlateness c) = true ->
  lookup key (n_trig s) = Some t -> in_sess (ts_sess t) ts = true ->
  snd (nadd c id ts key now s) =
    [SvAdd id ts key;
     SvBatch key (se_start (ts_sess t)) (se_end (ts_sess t)) (se_rows (ts_sess t) ++ [(id, ts, key)])].
Proof. exact session_late_update. Qed.
Print Assumptions C02_late_update_session.

(* ... and any other late event (outside that session, or of a key with no retained session) changes no result *)
Theorem C02_late_drop_session : forall c id ts key now s,
  (now + nooo c + day <? ts) = false ->
  is_late ts (update_event_time (nooo c) now ts (n_w s)) = true ->
  (match lookup key (n_trig s) with Some t => in_sess (ts_sess t) ts | None => false end) = false ->
  let '(s', evs) := nadd c id ts key now s in
  evs = [SvAdd id ts key] /\ n_sess s' = n_sess s /\ n_trig s' = n_trig s.
Proof. exact session_late_drop. Qed.
Print Assumptions C02_late_drop_session.

(* late updates of the sliding window: every retained fired window containing the timestamp is re-delivered, in window
   order, with its previous contents plus the buffered rows inside it that it did not hold yet (the late event among them) *)
Theorem C02_late_update_sliding : forall c id ts now s,
  is_late ts (update_event_time (sooo c) now ts (s_w s)) = true ->
  (0 <? slateness c) = true ->
  existsb (fun t => in_twin t ts) (s_trig s) = true ->
  snd (sadd_core c id ts now s) =
    map (fun t => {| b_start := t_start t; b_end := t_end t;
                     b_rows := t_snap t ++ filter (fun x => in_twin t (rts x) && negb (existsb (fun y => rid y =? rid x) (t_snap t)))
                                                  (s_data s ++ [(id, ts)]);
                     b_late := true |})
        (filter (fun t => in_twin t ts) (s_trig s)).
Proof. exact sliding_late_update. Qed.
Print Assumptions C02_late_update_sliding.

(* ---- the watermark is monotone across BOTH of its writers (an accepted event, the idle-source advance):
   read after every operation of any history, under any configuration and any clock readings, the model's
   current watermark never moves backwards (wm_regress = index of the first observation below its predecessor) *)
From SV Require Import Spec.WmMonoSpec Proofs.WmMono.
Theorem C02_watermark_never_regresses : forall c h, wm_regress (run_curs c st0 h) = None.
Proof. exact model_never_regresses. Qed.
Print Assumptions C02_watermark_never_regresses.

Theorem C02_event_never_lowers_watermark : forall ooo now ts w,
  wm_le (cur w) (cur (update_event_time ooo now ts w)) = true.
Proof. exact event_never_lowers_watermark. Qed.
Print Assumptions C02_event_never_lowers_watermark.

Theorem C02_tick_never_lowers_watermark : forall ooo idle now w,
  wm_le (cur w) (cur (tick ooo idle now w)) = true.
Proof. exact tick_never_lowers_watermark. Qed.
Print Assumptions C02_tick_never_lowers_watermark.

Example C02_idle_then_newer_event :
  let c := {| size := 10; ooo := 5; lateness := 0; idle := 1000 |} in
  run_curs c st0 [Add 1 100 0; Tick 5000; Add 2 200 5000] = [Some 95; Some 4995; Some 4995].
Proof. exact idle_then_newer_event. Qed.

(* the 24 h future guard is measured against the clock: whatever was accepted before, no received watermark is more
   than a day ahead of the latest clock reading of the history *)
Theorem C02_future_guard_bounds_watermarks : forall c h n s tr,
  0 <= ooo c -> Forall (op_clock_le n) h -> run c st0 h = (s, tr) -> wm_beyond_guard n tr = None.
Proof. exact model_respects_future_guard. Qed.
Print Assumptions C02_future_guard_bounds_watermarks.
