(* C09 — Counting windows emit, per key, consecutive batches of exactly N rows.
   Only statements, each closed by [exact]; proofs live in Proofs/CountingProofs.v.
   [cw_run n h] is the sequence of batches (key, rows) the window cuts for the Add sequence h:
   the window's single consumer goroutine processes a FIFO, so every schedule of ingest vs.
   window goroutine yields this sequence; the quantification over interleavings is the
   quantification over h (all interleavings of the keys' rows). No reap step (STATETTL). *)
From Coq Require Import Permutation.
From SV Require Import Model.GroupKey Model.Counting Model.NumCarrier Spec.GroupSpec Proofs.GroupKeyProofs Proofs.CountingProofs
  Proofs.NumCarrierProofs Model.CountingLag Proofs.CountingLagProofs Model.CountingBlock Proofs.CountingBlockProofs
  Model.CountingFail Proofs.CountingFailProofs.

(* the i-th batch (i = 0, 1, ..) delivered for the key tuple t is exactly rows i*N+1 .. (i+1)*N of
   t's subsequence, in order, and there is an i-th batch only if t has (i+1)*N rows *)
Theorem C09_ith_batch : forall n sch h t i, 1 <= n ->
  Forall (fun r => conforms sch (ktuple_of r)) h -> conforms sch t ->
  nth_error (kbatches_of (tuple_key s_global t) (cw_run n h)) i =
    if S i * n <=? length (krows_of t h)
    then Some (firstn n (skipn (i * n) (krows_of t h))) else None.
Proof. exact counting_ith_batch. Qed.
Print Assumptions C09_ith_batch.

(* fewer than N trailing rows never produce a result: |rows_t| / N batches, each of N rows *)
Theorem C09_no_partial : forall n sch h t, 1 <= n ->
  Forall (fun r => conforms sch (ktuple_of r)) h -> conforms sch t ->
  length (kbatches_of (tuple_key s_global t) (cw_run n h)) = length (krows_of t h) / n
  /\ Forall (fun b => length b = n) (kbatches_of (tuple_key s_global t) (cw_run n h)).
Proof. exact counting_no_partial. Qed.
Print Assumptions C09_no_partial.

(* rows of other keys interleaved in between have no influence *)
Theorem C09_key_isolation : forall n h k,
  filter (fun b => bytes_eqb (fst b) k) (cw_run n h)
  = cw_run n (filter (fun r => bytes_eqb (cnt_key r) k) h).
Proof. exact counting_key_isolation. Qed.
Print Assumptions C09_key_isolation.

(* a batch holds rows of one key only; by C04 (injective key, rows of one schema) that is: of one
   tuple only *)
Theorem C09_batch_one_key : forall n h k rs r,
  In (k, rs) (cw_run n h) -> In r rs -> k = cnt_key r.
Proof. exact counting_batch_one_tuple. Qed.
Print Assumptions C09_batch_one_key.

Theorem C09_batch_one_tuple : forall n sch h k rs r1 r2,
  Forall (fun r => conforms sch (ktuple_of r)) h ->
  In (k, rs) (cw_run n h) -> In r1 rs -> In r2 rs -> In r1 h -> In r2 h -> ktuple_of r1 = ktuple_of r2.
Proof.
  intros n sch h k rs r1 r2 HC Hin H1 H2 I1 I2.
  rewrite Forall_forall in HC.
  apply (proj1 (win_key_iff s_global sch r1 r2 (HC _ I1) (HC _ I2))).
  change (cnt_key r1 = cnt_key r2).
  rewrite <- (counting_batch_one_tuple n h k rs r1 Hin H1).
  exact (counting_batch_one_tuple n h k rs r2 Hin H2).
Qed.
Print Assumptions C09_batch_one_tuple.

(* no row contributes to two results *)
Theorem C09_once : forall n h,
  NoDup (map krid h) -> NoDup (map krid (concat (map snd (cw_run n h)))).
Proof. exact counting_once. Qed.
Print Assumptions C09_once.

(* nothing is lost: emitted rows and rows still buffered are exactly the rows added *)
Theorem C09_conservation : forall n h,
  Permutation (concat (map snd (cw_run n h)) ++ all_rows (fst (cw_steps cnt_key n [] h))) h.
Proof. exact counting_conservation. Qed.
Print Assumptions C09_conservation.

(* the declarative N-blocks the extracted checker chk_C09 demands of the implementation (clause
   ith_batch, Spec/GroupSpec.v [chunks]) are exactly what the model delivers for every key *)
Theorem C09_model_meets_checker_blocks : forall n sch h t, 1 <= n ->
  Forall (fun r => conforms sch (ktuple_of r)) h -> conforms sch t ->
  map (map krid) (kbatches_of (tuple_key s_global t) (cw_run n h))
  = let ids := map krid (krows_of t h) in chunks (length ids) n ids.
Proof. exact counting_matches_spec_blocks. Qed.
Print Assumptions C09_model_meets_checker_blocks.

(* ---- the Go carrier of a numeric key value (Model/NumCarrier.v: cast.ToString and groupTypeKey, type
   switch by type switch). [carries ty v]: the Go type holds exactly the number; [prints_alike]: not one of
   the two carriers refuted below. ---------------------------------------------------------------- *)

(* the aggregator's segment of a number does not depend on the Go type that carries it
   (int(7), uint8(7), float32(7), float64(7): all "int|7") *)
Theorem C09_carrier_agg_key : forall ty v, carries ty v = true -> go_key_part ty v = k_key_part (num_value v).
Proof. exact key_part_carrier. Qed.
Print Assumptions C09_carrier_agg_key.

(* nor does the text the counting window keys its buffers by *)
Theorem C09_carrier_window_text : forall ty v, carries ty v = true -> prints_alike ty v = true ->
  k_esc (go_to_string ty v) = k_col_text (num_value v).
Proof. exact to_string_carrier. Qed.
Print Assumptions C09_carrier_window_text.

(* so for rows of one schema the window-side key and the aggregator-side key agree: same buffer iff same
   group iff same tuple of VALUES -- a batch of N rows of one buffer is one group of N rows *)
Theorem C09_carrier_sites_agree : forall sch r1 r2,
  crow_carried r1 = true -> crow_alike r1 = true -> crow_carried r2 = true -> crow_alike r2 = true ->
  conforms sch (ktuple_of (erase_row r1)) -> conforms sch (ktuple_of (erase_row r2)) ->
  (c_cnt_key r1 = c_cnt_key r2 <-> ktuple_of (erase_row r1) = ktuple_of (erase_row r2))
  /\ (c_agg_key r1 = c_agg_key r2 <-> ktuple_of (erase_row r1) = ktuple_of (erase_row r2)).
Proof. exact carrier_sites_agree. Qed.
Print Assumptions C09_carrier_sites_agree.

(* and the keys of a whole Add sequence of carried rows are the keys [cw_run] computes on the numbers:
   the theorems above speak about the carried rows *)
Theorem C09_carrier_keys_of_history : forall h,
  Forall (fun r => crow_carried r = true /\ crow_alike r = true) h ->
  map c_cnt_key h = map cnt_key (map erase_row h).
Proof. exact cnt_keys_carrier. Qed.
Print Assumptions C09_carrier_keys_of_history.

(* the code as it is: the SAME number as float32 and as float64 is counted in two buffers when its float32
   text is shorter (float32(1.1) widened: "1.1" / "1.100000023841858") although the aggregator gives both
   one group -- the per-key N-blocks are then cut per carrier (known finding F46) *)
Theorem C09_carrier_float32_text_refuted :
  carries GFloat32 w11 = true /\ carries GFloat64 w11 = true
  /\ go_to_string GFloat32 w11 <> go_to_string GFloat64 w11
  /\ go_key_part GFloat32 w11 = go_key_part GFloat64 w11.
Proof. exact float32_text_splits_one_number. Qed.
Print Assumptions C09_carrier_float32_text_refuted.

(* ... and two different numbers (that float32, the float64 1.1) share one buffer *)
Theorem C09_carrier_float32_merge_refuted :
  num_value w11 <> num_value d11
  /\ go_to_string GFloat32 w11 = go_to_string GFloat64 d11
  /\ go_key_part GFloat32 w11 <> go_key_part GFloat64 d11.
Proof. exact float32_text_merges_two_numbers. Qed.
Print Assumptions C09_carrier_float32_merge_refuted.

(* a uint at or above 2^63 keeps its own text (as found it was printed through int(v), which wraps: repaired, F47) *)
Theorem C09_carrier_uint_no_wrap :
  carries GUint (NumInt 18446744073709551611) = true /\ carries GInt64 (NumInt (-5)) = true
  /\ go_to_string GUint (NumInt 18446744073709551611) <> go_to_string GInt64 (NumInt (-5))
  /\ go_key_part GUint (NumInt 18446744073709551611) <> go_key_part GInt64 (NumInt (-5)).
Proof. exact uint_text_no_wrap. Qed.
Print Assumptions C09_carrier_uint_no_wrap.

(* non-vacuity: uint8(7), float32(7), float64(7) in one column, next to a string column *)
Example C09_carrier_example :
  let row ty := mkCRow 1 [CNum ty (NumInt 7); CPlain (Some (KStr [97%N]))] in
  c_cnt_key (row GUint8) = c_cnt_key (row GFloat32) /\ c_agg_key (row GFloat32) = c_agg_key (row GFloat64)
  /\ crow_carried (row GFloat32) = true /\ crow_alike (row GFloat32) = true.
Proof. repeat split; reflexivity. Qed.

(* non-vacuity: N = 2, keys a b a a b interleaved: a -> [1;3], b -> [2;5]; row 4 stays buffered *)
Example C09_example :
  let a := [Some (KStr [97%N])] in let b := [Some (KStr [98%N])] in
  map (fun kb => map krid (snd kb))
      (cw_run 2 [mkKRow 1 a; mkKRow 2 b; mkKRow 3 a; mkKRow 4 a; mkKRow 5 b]%Z) = [[1; 3]; [2; 5]]%Z.
Proof. reflexivity. Qed.

(* ---- the consumer of the window's output channel (Model/CountingLag.v: sendResult's channel of [cap]
   slots with its drop-oldest policy, and the goroutine of stream/processor_data.go that receives ONE batch
   per step and aggregates it on its own). A schedule is any list of steps [LAdd r] (the window goroutine
   processes a row) and [LTake] (the consumer receives the next waiting batch): "all schedules of the ingest
   and window goroutines" on the far side of the window, a consumer that lags arbitrarily included. -------- *)

(* for every schedule and capacity: the batches received, then the batches still waiting, are the window's
   batch sequence (cw_steps on the Add sequence) with WHOLE batches removed and the order kept -- waiting
   batches are never merged, cut or reordered; every cut batch is received, waiting, evicted by the
   drop-oldest policy (which the code does not count: a ghost counter) or counted in droppedCount;
   sentCount is the code's: it includes the evicted ones *)
Theorem C09_lag_never_merges : forall key n cap sched,
  let s := lag_run key n cap sched in
  let B := snd (cw_steps key n [] (lag_adds sched)) in
  sublist (lg_taken s ++ lg_queue s) B
  /\ length (lg_taken s) + length (lg_queue s) + lg_evicted s + lg_dropped s = length B
  /\ lg_sent s = length (lg_taken s) + length (lg_queue s) + lg_evicted s
  /\ length (lg_queue s) <= cap.
Proof. exact lag_never_merges. Qed.
Print Assumptions C09_lag_never_merges.

(* as long as the overflow policy removed nothing, the consumer's speed has no influence: received ++ waiting
   is exactly the batch sequence of the theorems above, for every schedule *)
Theorem C09_lag_exact_without_overflow : forall key n cap sched,
  let s := lag_run key n cap sched in
  lg_evicted s = 0 -> lg_dropped s = 0 ->
  lg_taken s ++ lg_queue s = snd (cw_steps key n [] (lag_adds sched)).
Proof. exact lag_exact_without_overflow. Qed.
Print Assumptions C09_lag_exact_without_overflow.

(* and nothing is ever removed when the channel can hold the batches of the run *)
Theorem C09_lag_exact_within_capacity : forall key n cap sched,
  let s := lag_run key n cap sched in
  length (snd (cw_steps key n [] (lag_adds sched))) <= cap ->
  lg_evicted s = 0 /\ lg_dropped s = 0
  /\ lg_taken s ++ lg_queue s = snd (cw_steps key n [] (lag_adds sched)).
Proof. exact lag_exact_within_capacity. Qed.
Print Assumptions C09_lag_exact_within_capacity.

(* even when the channel overflows: per key tuple, what is received / waiting are N-blocks
   (i-1)N+1..iN of the tuple's rows, in increasing order (the blocks of the checkers chk_C09 / chk_C09_lossy) *)
Theorem C09_lag_blocks_per_key : forall n cap sch sched t, 1 <= n ->
  Forall (fun r => conforms sch (ktuple_of r)) (lag_adds sched) -> conforms sch t ->
  let s := lag_run cnt_key n cap sched in
  sublist (map (map krid) (kbatches_of (tuple_key s_global t) (lg_taken s ++ lg_queue s)))
          (let ids := map krid (krows_of t (lag_adds sched)) in chunks (length ids) n ids).
Proof. exact lag_blocks_per_key. Qed.
Print Assumptions C09_lag_blocks_per_key.

(* the code as it is: a consumer that lags by more batches than the channel holds loses the oldest waiting
   batches and NO counter tells (droppedCount stays 0, sentCount counts the evicted batches as sent): N = 2, a
   channel of 2 slots, one key, the consumer held on batch [1;2] while rows 3..10 arrive -- the second result
   delivered for the key is rows 7..8, not rows 3..4 (known finding F57) *)
Theorem C09_lag_eviction_uncounted_refuted :
  let s := lag_run cnt_key 2 2 lag_witness in
  lg_queue s = [] /\ lg_dropped s = 0 /\ lg_evicted s = 2 /\ lg_sent s = 5
  /\ map (fun b => map krid (snd b)) (lg_taken s) = [[1; 2]; [7; 8]; [9; 10]]%Z
  /\ lg_taken s <> snd (cw_steps cnt_key 2 [] (lag_adds lag_witness)).
Proof. exact lag_eviction_uncounted. Qed.
Print Assumptions C09_lag_eviction_uncounted_refuted.

(* non-vacuity: N = 2, a channel of 2 slots, one key; the consumer receives batch [1;2] and is held while rows
   3..10 arrive (batches [3;4] [5;6] [7;8] [9;10]: the first two are evicted), then drains *)
Example C09_lag_example :
  let a := [Some (KStr [97%N])] in
  let row i := mkKRow i a in
  let s := lag_run cnt_key 2 2 (lag_episode [row 1; row 2] (map row [3; 4; 5; 6; 7; 8; 9; 10]) 2)%Z in
  map (fun b => map krid (snd b)) (lg_taken s) = [[1; 2]; [7; 8]; [9; 10]]%Z
  /\ lg_queue s = [] /\ lg_sent s = 5 /\ lg_dropped s = 0 /\ lg_evicted s = 2.
Proof. repeat split; reflexivity. Qed.

(* ---- the "block" overflow strategy of the window's output channel (Model/CountingBlock.v: sendResult with
   strategy block -- room: the batch is enqueued; full for a whole BlockTimeout: the NEW batch is dropped and
   counted in droppedCount). Schedules as above: [LAdd r] / [LTake]; an [LAdd] that finds the channel full is the
   timeout. ------------------------------------------------------------------------------------------------ *)

(* one hand-over: the timeout branch needs a full channel. With a free slot the batch is enqueued, sentCount
   grows by one and droppedCount does not move -- whatever happened before (idle time included) *)
Theorem C09_block_room_means_sent : forall cap s b, length (lg_queue s) < cap ->
  lg_queue (blk_send cap s b) = lg_queue s ++ [b]
  /\ lg_dropped (blk_send cap s b) = lg_dropped s
  /\ lg_sent (blk_send cap s b) = S (lg_sent s)
  /\ lg_taken (blk_send cap s b) = lg_taken s.
Proof. exact blk_send_room. Qed.
Print Assumptions C09_block_room_means_sent.

(* every schedule, every capacity: received ++ waiting = the window's batch sequence with WHOLE batches removed,
   order kept; every cut batch is received, waiting or counted in droppedCount; sentCount = received + waiting;
   nothing is ever removed from the channel *)
Theorem C09_block_never_merges : forall key n cap sched,
  let s := blk_run key n cap sched in
  let B := snd (cw_steps key n [] (lag_adds sched)) in
  sublist (lg_taken s ++ lg_queue s) B
  /\ length (lg_taken s) + length (lg_queue s) + lg_dropped s = length B
  /\ lg_sent s = length (lg_taken s) + length (lg_queue s)
  /\ length (lg_queue s) <= cap
  /\ lg_evicted s = 0.
Proof. exact blk_never_merges. Qed.
Print Assumptions C09_block_never_merges.

(* droppedCount = 0 => exactly the batch sequence of the theorems above *)
Theorem C09_block_exact_without_drop : forall key n cap sched,
  let s := blk_run key n cap sched in
  lg_dropped s = 0 ->
  lg_taken s ++ lg_queue s = snd (cw_steps key n [] (lag_adds sched)).
Proof. exact blk_exact_without_drop. Qed.
Print Assumptions C09_block_exact_without_drop.

(* a channel that holds the batches of the run: nothing is dropped, whatever the consumer does and whenever *)
Theorem C09_block_exact_within_capacity : forall key n cap sched,
  let s := blk_run key n cap sched in
  length (snd (cw_steps key n [] (lag_adds sched))) <= cap ->
  lg_dropped s = 0 /\ lg_sent s = length (snd (cw_steps key n [] (lag_adds sched)))
  /\ lg_taken s ++ lg_queue s = snd (cw_steps key n [] (lag_adds sched)).
Proof. exact blk_exact_within_capacity. Qed.
Print Assumptions C09_block_exact_within_capacity.

(* a consumer that receives every batch at once (any capacity >= 1): every batch is delivered, in order *)
Theorem C09_block_prompt_consumer_exact : forall key n cap rows, 1 <= cap ->
  let s := blk_run key n cap (blk_prompt rows) in
  lg_queue s = [] /\ lg_dropped s = 0
  /\ lg_taken s = snd (cw_steps key n [] rows)
  /\ lg_sent s = length (snd (cw_steps key n [] rows)).
Proof. exact blk_prompt_exact. Qed.
Print Assumptions C09_block_prompt_consumer_exact.

(* per key tuple the received / waiting id lists are N-blocks in increasing order, also after timeouts *)
Theorem C09_block_blocks_per_key : forall n cap sch sched t, 1 <= n ->
  Forall (fun r => conforms sch (ktuple_of r)) (lag_adds sched) -> conforms sch t ->
  let s := blk_run cnt_key n cap sched in
  sublist (map (map krid) (kbatches_of (tuple_key s_global t) (lg_taken s ++ lg_queue s)))
          (let ids := map krid (krows_of t (lag_adds sched)) in chunks (length ids) n ids).
Proof. exact blk_blocks_per_key. Qed.
Print Assumptions C09_block_blocks_per_key.

(* non-vacuity (and the timeout branch): N = 2, a channel of 2 slots nobody reads while rows 1..10 of one key
   arrive keeps [1;2] [3;4]; the other three batches are dropped and counted *)
Example C09_block_example :
  let s := blk_run cnt_key 2 2 blk_witness in
  lg_queue s = [] /\ lg_dropped s = 3 /\ lg_evicted s = 0 /\ lg_sent s = 2
  /\ map (fun b => map krid (snd b)) (lg_taken s) = [[1; 2]; [3; 4]]%Z.
Proof. exact blk_full_drops_new. Qed.

(* ---- a batch whose aggregation fails half-way (Model/CountingFail.v: ONE aggregator lives across batches; a
   user function inside an aggregate argument panics on a row; processWindowBatchSafe recovers and Resets) ---- *)

(* for every set of failing rows: what is delivered is the window's batch sequence without the batches that
   hold a failing row, every delivered result computed over exactly the rows of its own batch (the rows added
   before the failure never reach a later result), and the aggregator is empty between batches *)
Theorem C09_fail_loses_whole_batches : forall fails bs,
  fc_out (fc_run fails bs) = filter (fc_clean fails) bs /\ fc_agg (fc_run fails bs) = [].
Proof. exact fail_loses_whole_batches. Qed.
Print Assumptions C09_fail_loses_whole_batches.

Theorem C09_fail_never_merges : forall fails bs, sublist (fc_out (fc_run fails bs)) bs.
Proof. exact fail_never_merges. Qed.
Print Assumptions C09_fail_never_merges.

(* no failing row in any cut batch => exactly the window's batches *)
Theorem C09_fail_exact_without_failure : forall fails bs,
  forallb (fc_clean fails) bs = true -> fc_out (fc_run fails bs) = bs.
Proof. exact fail_exact_without_failure. Qed.
Print Assumptions C09_fail_exact_without_failure.

(* per key tuple the delivered id lists are N-blocks (i-1)N+1..iN of the tuple's rows, in increasing order
   (the blocks chk_C09_lossy_sql demands), also after failed batches of the same or of other keys *)
Theorem C09_fail_blocks_per_key : forall fails n sch h t, 1 <= n ->
  Forall (fun r => conforms sch (ktuple_of r)) h -> conforms sch t ->
  sublist (map (map krid) (kbatches_of (tuple_key s_global t) (fc_out (fc_run fails (cw_run n h)))))
          (let ids := map krid (krows_of t h) in chunks (length ids) n ids).
Proof. exact fail_blocks_per_key. Qed.
Print Assumptions C09_fail_blocks_per_key.

(* non-vacuity: N = 3, keys A A A | A A* A | B B B | A A A, row 5 fails: batch [4;5;6] is lost, nothing of it
   (row 4 was already added) reaches the result of B's batch or of A's next batch *)
Example C09_fail_example :
  let a := [Some (KStr [65%N])] in let b := [Some (KStr [66%N])] in
  let h := [mkKRow 1 a; mkKRow 2 a; mkKRow 3 a; mkKRow 4 a; mkKRow 5 a; mkKRow 6 a;
            mkKRow 7 b; mkKRow 8 b; mkKRow 9 b; mkKRow 10 a; mkKRow 11 a; mkKRow 12 a]%Z in
  map (fun x => map krid (snd x)) (fc_out (fc_run (fun r => Z.eqb (krid r) 5) (cw_run 3 h)))
  = [[1; 2; 3]; [7; 8; 9]; [10; 11; 12]]%Z.
Proof. reflexivity. Qed.
