(* C09 — Counting windows emit, per key, consecutive batches of exactly N rows.
   Only statements, each closed by [exact]; proofs live in Proofs/CountingProofs.v.
   [cw_run n h] is the sequence of batches (key, rows) the window cuts for the Add sequence h:
   the window's single consumer goroutine processes a FIFO, so every schedule of ingest vs.
   window goroutine yields this sequence; the quantification over interleavings is the
   quantification over h (all interleavings of the keys' rows). No reap step (STATETTL). *)
From Coq Require Import Permutation.
From SV Require Import Model.GroupKey Model.Counting Spec.GroupSpec Proofs.GroupKeyProofs Proofs.CountingProofs.

(* the i-th batch (i = 0, 1, ..) delivered for the key tuple t is exactly rows i*N+1 .. (i+1)*N of
   t's subsequence, in order, and there is an i-th batch only if t has (i+1)*N rows *)
Theorem C09_ith_batch : forall n sch h t i, 1 <= n ->
  Forall (fun r => conforms sch (ktuple_of r)) h -> conforms sch t ->
  nth_error (kbatches_of (tuple_key s_global t) (cw_run n h)) i =
    if S i * n <=? length (krows_of t h)
    then Some (firstn n (skipn (i * n) (krows_of t h))) else None.
Proof. exact counting_ith_batch. Qed.
Print Assumptions C09_ith_batch.

(* fewer than N trailing rows never produce a result: |rows_t| / N batches, each of N rows *)
Theorem C09_no_partial : forall n sch h t, 1 <= n ->
  Forall (fun r => conforms sch (ktuple_of r)) h -> conforms sch t ->
  length (kbatches_of (tuple_key s_global t) (cw_run n h)) = length (krows_of t h) / n
  /\ Forall (fun b => length b = n) (kbatches_of (tuple_key s_global t) (cw_run n h)).
Proof. exact counting_no_partial. Qed.
Print Assumptions C09_no_partial.

(* rows of other keys interleaved in between have no influence *)
Theorem C09_key_isolation : forall n h k,
  filter (fun b => bytes_eqb (fst b) k) (cw_run n h)
  = cw_run n (filter (fun r => bytes_eqb (cnt_key r) k) h).
Proof. exact counting_key_isolation. Qed.
Print Assumptions C09_key_isolation.

(* a batch holds rows of one key only; by C04 (injective key, rows of one schema) that is: of one
   tuple only *)
Theorem C09_batch_one_key : forall n h k rs r,
  In (k, rs) (cw_run n h) -> In r rs -> k = cnt_key r.
Proof. exact counting_batch_one_tuple. Qed.
Print Assumptions C09_batch_one_key.

Theorem C09_batch_one_tuple : forall n sch h k rs r1 r2,
  Forall (fun r => conforms sch (ktuple_of r)) h ->
  In (k, rs) (cw_run n h) -> In r1 rs -> In r2 rs -> In r1 h -> In r2 h -> ktuple_of r1 = ktuple_of r2.
Proof.
  intros n sch h k rs r1 r2 HC Hin H1 H2 I1 I2.
  rewrite Forall_forall in HC.
  apply (proj1 (win_key_iff s_global sch r1 r2 (HC _ I1) (HC _ I2))).
  change (cnt_key r1 = cnt_key r2).
  rewrite <- (counting_batch_one_tuple n h k rs r1 Hin H1).
  exact (counting_batch_one_tuple n h k rs r2 Hin H2).
Qed.
Print Assumptions C09_batch_one_tuple.

(* no row contributes to two results *)
Theorem C09_once : forall n h,
  NoDup (map krid h) -> NoDup (map krid (concat (map snd (cw_run n h)))).
Proof. exact counting_once. Qed.
Print Assumptions C09_once.

(* nothing is lost: emitted rows and rows still buffered are exactly the rows added *)
Theorem C09_conservation : forall n h,
  Permutation (concat (map snd (cw_run n h)) ++ all_rows (fst (cw_steps cnt_key n [] h))) h.
Proof. exact counting_conservation. Qed.
Print Assumptions C09_conservation.

(* the declarative N-blocks the extracted checker chk_C09 demands of the implementation (clause
   ith_batch, Spec/GroupSpec.v [chunks]) are exactly what the model delivers for every key *)
Theorem C09_model_meets_checker_blocks : forall n sch h t, 1 <= n ->
  Forall (fun r => conforms sch (ktuple_of r)) h -> conforms sch t ->
  map (map krid) (kbatches_of (tuple_key s_global t) (cw_run n h))
  = let ids := map krid (krows_of t h) in chunks (length ids) n ids.
Proof. exact counting_matches_spec_blocks. Qed.
Print Assumptions C09_model_meets_checker_blocks.

(* non-vacuity: N = 2, keys a b a a b interleaved: a -> [1;3], b -> [2;5]; row 4 stays buffered *)
Example C09_example :
  let a := [Some (KStr [97%N])] in let b := [Some (KStr [98%N])] in
  map (fun kb => map krid (snd kb))
      (cw_run 2 [mkKRow 1 a; mkKRow 2 b; mkKRow 3 a; mkKRow 4 a; mkKRow 5 b]%Z) = [[1; 3]; [2; 5]]%Z.
Proof. reflexivity. Qed.
