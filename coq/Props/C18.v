From SV Require Import Model.Lifecycle Spec.LifecycleSpec Proofs.LifecycleProofs.
