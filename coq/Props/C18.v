(* C18 -- lifecycle safety and the Stop barrier (PARTIAL: protocol theorems + tested ties, see bin/props.d/C18.json).
   Only statements, each closed by [exact]; proofs live in Proofs/LifecycleProofs.v.
   The model (Model/Lifecycle.v) follows the repository AFTER three repairs made for this property
   (F11 callSinksAsync lock, F18a EmitSync not in the barrier, F18b consumer dies on a panicking batch);
   each repair is a flag of the configuration, the as-found behaviour is the flag set to false. *)
From SV Require Import Model.Lifecycle Spec.LifecycleSpec Proofs.LifecycleProofs Proofs.LifecycleDrain Proofs.LifecycleEmit.
From Coq Require Import List.
Import ListNotations.

(* Stop barrier, trace form. For EVERY configuration of the repaired protocol (any number of producers, EmitSync
   callers, AddSink callers, Stop callers, workers; any sinks, incl. panicking and re-entrant ones; window / CEP or
   not; the three strategies) and EVERY schedule, the observable trace is accepted by the monitor chk_C18:
   once some Stop has returned and no Stop is in progress, no sink invocation begins or is still running (not even a CEP flush, which
   happens inside the winning Stop), and an EmitSync that begins after that point is refused. The only verdict
   other than "accepted" is that a Stop gave up after its grace period. *)
Theorem C18_stop_barrier : forall c cap0 async sync roles sched, c_track_sync c = true ->
  chk_state (lrun c sched (linit cap0 async sync roles)) = None \/
  chk_state (lrun c sched (linit cap0 async sync roles)) = Some ClStopGrace.
Proof. exact stop_barrier. Qed.
Print Assumptions C18_stop_barrier.

(* Stop barrier, state form: once a Stop went through the drained branch of waitLifecycle, the lifecycle counter
   is 0, no tracked goroutine (processor, window consumer, worker, EmitSync in flight) is alive and none is pending. *)
Theorem C18_join_means_drained : forall c cap0 async sync roles sched, c_track_sync c = true ->
  let st := lrun c sched (linit cap0 async sync roles) in
  chk_state st = None -> joined (sh st) = true ->
  life (sh st) = 0 /\ tokens (sh st) = 0 /\ stopped (sh st) = true /\ cnt lweight (ths st) = 0.
Proof. exact joined_drained. Qed.
Print Assumptions C18_join_means_drained.

(* a Stop on a stopped stream: three own steps, the shared state is untouched, whatever else is running *)
Theorem C18_stop_idempotent : forall c tid a st c1 c2 c3,
  nth_error (ths st) tid = Some (lmk StBegin [] a) -> stopped (sh st) = true ->
  lrun c [(tid, c1); (tid, c2); (tid, c3)] st =
  {| sh := sh st; ths := lset_nth tid (lmk LDone [] a) (ths st);
     ltrace := EStopReturn tid true :: EStopBegin tid :: ltrace st |}.
Proof. exact stop_idempotent. Qed.
Print Assumptions C18_stop_idempotent.

(* family D (a second Stop -- concurrent, repeated, or made by a sink the first Stop is joining -- while the first is in
   progress): together with C18_stop_idempotent (the loser of the CAS returns with three own steps, each enabled in every
   shared state whatever else is running, and changes nothing) this is the model's reading of "a Stop that is not the
   first one returns at once". The harness event EStopAgainOver (that call still running after 2 s) = clause
   ClSecondStopBlocked is never produced by the model, on any schedule. The premise (the already-stopped branch of the
   real Stop contains no wait) is what family D tests on the real code. *)
Theorem C18_second_stop_never_blocked : forall c cap0 async sync roles sched, c_track_sync c = true ->
  chk_state (lrun c sched (linit cap0 async sync roles)) <> Some ClSecondStopBlocked.
Proof. exact second_stop_never_blocked. Qed.
Print Assumptions C18_second_stop_never_blocked.

(* Emit after Stop (flag set, channel pointer nil): returns within two own steps, never blocks, changes nothing *)
Theorem C18_emit_after_stop_noop : forall c tid ch a s, stopped s = true -> ptr_nil s = true ->
  exists p', lpstep c tid ch PdStart a s = Some (p', [], s, []) /\
             (p' = LDone \/ (p' = PdDropGet /\ forall ch', lpstep c tid ch' PdDropGet a s = Some (LDone, [], s, []))).
Proof. exact emit_after_stop_noop. Qed.
Print Assumptions C18_emit_after_stop_noop.

(* panics: a sink that panics is unwound to its wrapper, everything queued behind it on that goroutine is intact;
   a panicking row / window batch leaves the goroutine exactly where a filtered row / empty result leaves it *)
Theorem C18_panic_isolated_sink : forall c tid post rest s,
  listep c tid (IAct APanic) (map IAct post ++ IEnd :: rest) s = Some (IEnd :: rest, s, []).
Proof. exact panic_isolated_sink. Qed.
Print Assumptions C18_panic_isolated_sink.
Theorem C18_panic_isolated_row : forall c tid a s id r, dq s = id :: r ->
  lpstep c tid 2 PrSelect a s = Some (PrLoop, [], upd_q s r, [EProc id true]) /\
  lpstep c tid 1 PrSelect a s = Some (PrLoop, [], upd_q s r, [EProc id false]).
Proof. exact panic_isolated_row. Qed.
Print Assumptions C18_panic_isolated_row.
Theorem C18_panic_isolated_batch : forall c tid a s, c_batch_recover c = true ->
  lpstep c tid 2 CoLoop a s = lpstep c tid 1 CoLoop a s.
Proof. exact panic_isolated_batch. Qed.
Print Assumptions C18_panic_isolated_batch.

(* no lock-stuck state in the repaired protocol: on every schedule, whenever a thread waits for sinksMux and cannot
   get it, some holder of the lock can move (in fact every holder can: the lock is only held across straight-line code) *)
Theorem C18_no_stuck_state : forall c cap0 async sync roles sched, c_fixed_lock c = true ->
  llock_stuckb c (lrun c sched (linit cap0 async sync roles)) = false.
Proof. exact no_stuck_state. Qed.
Print Assumptions C18_no_stuck_state.

(* F11, code as found: the read lock is held across the sink calls; a synchronous sink that calls AddSink waits for
   the write lock while its own goroutine owns a read lock. Reachable, and permanent: on every continuation the
   thread never moves again and the lifecycle counter stays >= 1, so Stop can only return through its grace period. *)
Theorem C18_no_stuck_state_asfound_refuted :
  llock_stuckb (cfg_of false true true false false) (f11_state false) = true /\
  llock_stuckb (cfg_of true true true false false) (f11_state true) = false.
Proof. exact (conj f11_stuck f11_repaired_not_stuck). Qed.
Print Assumptions C18_no_stuck_state_asfound_refuted.
Theorem C18_f11_stuck_forever : forall sched,
  let st := lrun (cfg_of false true true false false) sched (f11_state false) in
  nth_error (ths st) 0 = nth_error (ths (f11_state false)) 0 /\ 1 <= life (sh st).
Proof. exact f11_forever. Qed.
Print Assumptions C18_f11_stuck_forever.

(* F18a, code as found: EmitSync after Stop returned runs the synchronous sink; repaired: refused *)
Theorem C18_stop_barrier_emitsync_asfound_refuted :
  chk_state (f18a_trace false) = Some ClSinkAfterStop /\
  (chk_state (f18a_trace true) = None /\ In (ESyncEnd 1 false) (ltrace (f18a_trace true))).
Proof. exact (conj f18a_violation f18a_repaired). Qed.
Print Assumptions C18_stop_barrier_emitsync_asfound_refuted.

(* F18b, code as found: after one panicking batch the consumer goroutine is gone although the stream is running *)
Theorem C18_panic_isolated_batch_asfound_refuted :
  (nth_error (ths (f18b_state false)) 1 = Some (lmk LDone [] 0) /\ wq (sh (f18b_state false)) = 1
   /\ closed (sh (f18b_state false)) = false) /\
  lenabledb (cfg_of true true true true false) 1 (f18b_state true) = true.
Proof. exact (conj f18b_dead f18b_repaired). Qed.
Print Assumptions C18_panic_isolated_batch_asfound_refuted.

(* F18c (recorded, not repaired): the literal "after Stop returns" fails for a Stop call that loses the CAS *)
Theorem C18_loser_stop_returns_early :
  chk_literal (rev (ltrace f18c_state)) = Some ClLoserEarly /\ chk_state f18c_state = None.
Proof. exact f18c_loser. Qed.
Print Assumptions C18_loser_stop_returns_early.

(* Stop returns within its grace period, model reading: a Stop caller never waits for another thread except through the
   grace-bounded join. In EVERY shared state (so under every interleaving, whatever the sinks do and however long they
   run) the own step of a Stop caller with choice 1 (at the join: "the grace timer fires") is enabled; and, run alone
   from any state, a Stop caller has returned after at most 8 such steps (no MATCH_RECOGNIZE flush, whose sink calls are
   user code). Hence the monitor never sees ClStopOverGrace / ClStuck on a model trace (C18_stop_barrier). The harness
   tests the premise on the real code (family B: a sink that blocks or re-enters while Stop / an expansion is pending). *)
Theorem C18_stop_never_waits : forall c tid a s p, stop_own p = true -> exists r, lpstep c tid 1 p a s = Some r.
Proof. exact stop_never_waits. Qed.
Print Assumptions C18_stop_never_waits.
Theorem C18_stop_returns_alone : forall c n st tid a p, c_cep c = false ->
  nth_error (ths st) tid = Some (lmk p [] a) -> stop_own p = true -> stop_rank p <= n ->
  nth_error (ths (lrun c (rep n (tid, 1)) st)) tid = Some (lmk LDone [] a).
Proof. exact stop_returns_alone. Qed.
Print Assumptions C18_stop_returns_alone.

(* EmitSync registers with the lifecycle whatever the sink lists contain when it begins (the sinks it calls are the
   snapshot taken later, so a sink registered while the call is in flight IS invoked by it, and Stop must join it) *)
Theorem C18_emitsync_always_registers : forall c tid ch a s, c_track_sync c = true -> stopped s = false ->
  exists p' code', lpstep c tid ch SyBegin a s = Some (p', code', upd_life s (life s + 1) (tokens s), [ESyncBegin tid])
                   /\ lweight p' = 1.
Proof. exact emitsync_always_registers. Qed.
Print Assumptions C18_emitsync_always_registers.
(* witness (family W): EmitSync begins with no sink, AddSyncSink, Stop cannot pass its join while the call is in flight,
   the call invokes the new sink and ends, then Stop returns; accepted *)
Example C18_inflight_emitsync_joined :
  lstep (cfg_of true true true false false) 2 0 inflight_mid = None /\ life (sh inflight_mid) = 1 /\
  rev (ltrace inflight_run) =
    [ESyncBegin 0; EStopBegin 2; ESinkBegin 0 false; ESinkEnd 0; ESyncEnd 0 true; EStopReturn 2 true] /\
  chk_state inflight_run = None.
Proof. exact inflight_joined. Qed.

(* Stop need not wait for its grace when nothing is in flight (seeded round 3, "Stop right after Execute"): in EVERY
   reachable state of every configuration that provides a window-output consumer per processor, if a Stop caller waits at
   the join and no user code is in progress on a goroutine tracked by the lifecycle counter (quiet_th: tracked goroutines
   and consumers not started yet have no pending sink / registration code), the schedule can be continued so that the
   Stop caller passes the join through the drained branch: counter 0, no tracked goroutine left. The continuation moves
   only tracked goroutines (each runs alone to its exit once `done` is closed and the channel pointer is nil), consumers
   that take a pending token, and finally the Stop caller -- whatever the pipeline goroutines had done before, in
   particular if none of them was ever scheduled. Existence of a continuation (EF), not fairness of the Go scheduler. *)
Theorem C18_join_reachable : forall c cap0 async sync roles sched0 tid a, roles_ok c roles ->
  nth_error (ths (lrun c sched0 (linit cap0 async sync roles))) tid = Some (lmk StJoin [] a) ->
  Forall quiet_th (ths (lrun c sched0 (linit cap0 async sync roles))) ->
  exists sched,
    nth_error (ths (lrun c (sched0 ++ sched) (linit cap0 async sync roles))) tid = Some (lmk StFlush [] a) /\
    joined (sh (lrun c (sched0 ++ sched) (linit cap0 async sync roles))) = true /\
    life (sh (lrun c (sched0 ++ sched) (linit cap0 async sync roles))) = 0 /\
    cnt lweight (ths (lrun c (sched0 ++ sched) (linit cap0 async sync roles))) = 0.
Proof. exact join_reachable. Qed.
Print Assumptions C18_join_reachable.

(* the same from any state (reachable or not) that satisfies the fence (done closed, pointer nil), the counter equation
   and the token bound *)
Theorem C18_join_reachable_from : forall c st tid a, DI st -> TB st ->
  nth_error (ths st) tid = Some (lmk StJoin [] a) ->
  exists sched, nth_error (ths (lrun c sched st)) tid = Some (lmk StFlush [] a) /\
                joined (sh (lrun c sched st)) = true /\ life (sh (lrun c sched st)) = 0 /\
                cnt lweight (ths (lrun c sched st)) = 0.
Proof. exact join_reachable_from. Qed.
Print Assumptions C18_join_reachable_from.

(* Start registers the window-output consumer ahead of time; the processor goroutine hands that registration over (spawns
   the consumer) whatever the stopped flag says -- a processor that returned early because Stop won the race would keep the
   counter above 0 for ever *)
Theorem C18_consumer_always_spawned : forall c tid ch a s,
  lpstep c tid ch PrInitW a s = Some (PrLoop, [], upd_life s (life s) (tokens s + 1), []).
Proof. exact consumer_always_spawned. Qed.
Print Assumptions C18_consumer_always_spawned.

(* non-vacuity / witness (family I): a windowed instance, Execute returned, no pipeline goroutine scheduled yet, Stop at
   its join: the join is not enabled there (4 registrations), the hypotheses of C18_join_reachable hold, and the explicit
   continuation processor, consumer, workers, Stop returns through the join with nothing left; accepted by the monitor *)
Example C18_idle_stop_first :
  nth_error (ths idle_stop_first) 4 = Some (lmk StJoin [] 0) /\ nth_error (ths idle_stop_first) 0 = Some (lmk PrInitW [] 0) /\
  life (sh idle_stop_first) = 4 /\ lstep (cfg_of true true true true false) 4 0 idle_stop_first = None /\
  roles_ok (cfg_of true true true true false) idle_roles /\ Forall quiet_th (ths idle_stop_first) /\
  rev (ltrace idle_joined) = [EStopBegin 4; EStopReturn 4 true] /\ life (sh idle_joined) = 0 /\
  cnt lweight (ths idle_joined) = 0 /\ chk_state idle_joined = None.
Proof. exact idle_stop_first_ok. Qed.

(* Concurrent Emit and Stop never deadlock, every overflow strategy (seeded round 4, "a producer parked under pure
   backpressure is not released by Stop"). Model reading: Stop closes `done` with its third own step, before anything that
   can wait; done stays closed on every schedule; and once it is closed, after ANY further interleaving a thread that is
   anywhere inside Emit (emit_own: any pc of the three strategies' ProcessData, with or without a block timeout) returns
   when it is run alone for 6 own steps with choice 2 (= the <-done branch of its select, or the straight-line step its pc
   has) -- whatever the data channel holds, in particular full with nobody draining it any more. The harness tests the
   premise on the real code (family K: producers parked in Emit on a full channel while Stop runs; the monitor's
   ClEmitStuck is the event EEmitOver, which no model trace contains: C18_stop_barrier). *)
Theorem C18_emit_released_by_stop : forall c st sched tid a p, closed (sh st) = true ->
  nth_error (ths (lrun c sched st)) tid = Some (lmk p [] a) -> emit_own p = true ->
  nth_error (ths (lrun c (sched ++ rep 6 (tid, 2)) st)) tid = Some (lmk LDone [] a).
Proof. exact emit_released_by_stop. Qed.
Print Assumptions C18_emit_released_by_stop.
Theorem C18_emit_never_waits_once_closed : forall c tid a s p, closed s = true -> emit_own p = true ->
  exists r, lpstep c tid 2 p a s = Some r.
Proof. exact emit_never_waits_closed. Qed.
Print Assumptions C18_emit_never_waits_once_closed.
Theorem C18_stop_closes_done : forall c st tid ch a, nth_error (ths st) tid = Some (lmk StClose [] a) ->
  exists st', lstep c tid ch st = Some st' /\ closed (sh st') = true /\ nth_error (ths st') tid = Some (lmk StWindow [] a).
Proof. exact stop_closes_done. Qed.
Print Assumptions C18_stop_closes_done.
Theorem C18_done_stays_closed : forall c sched st, closed (sh st) = true -> closed (sh (lrun c sched st)) = true.
Proof. exact lrun_closed_mono. Qed.
Print Assumptions C18_done_stays_closed.
(* the done branch is necessary: a producer parked under pure backpressure (BlockTimeout <= 0) on a full channel has no
   enabled step unless done is closed, and then its only step is to return, the row neither enqueued nor anything else
   touched -- so a ProcessData whose blocking send does not listen to done leaves that producer parked for ever once the
   processor goroutine is gone *)
Theorem C18_parked_producer_needs_done : forall c tid ch a s r, c_block_timeout c = false -> dcap s <= length (dq s) ->
  lpstep c tid ch PdBlkSend a s = Some r -> closed s = true /\ r = (LDone, [], s, []).
Proof. exact parked_needs_done. Qed.
Print Assumptions C18_parked_producer_needs_done.
(* non-vacuity / witness (family K): strategy block without timeout, 1-slot channel, the processor inside a stuck
   synchronous sink, row 2 in the channel, the producer of row 3 parked with NO enabled step; Stop runs to its join
   (which it cannot pass); now the producer is enabled and returns, the channel untouched; the sink returns, the processor
   exits, Stop joins; accepted by the monitor *)
Example C18_parked_producer_released :
  nth_error (ths parked_state) 3 = Some (lmk PdBlkSend [] 3) /\ dq (sh parked_state) = [2] /\
  lenabledb cfg_block 3 parked_state = false /\
  nth_error (ths parked_stopping) 4 = Some (lmk StJoin [] 0) /\ lstep cfg_block 4 0 parked_stopping = None /\
  lenabledb cfg_block 3 parked_stopping = true /\
  nth_error (ths parked_released) 3 = Some (lmk LDone [] 3) /\ dq (sh parked_released) = [2] /\
  rev (ltrace parked_joined) =
    [EEnq 1; EProc 1 false; ESinkBegin 0 false; EEnq 2; EStopBegin 4; ESinkEnd 0; EStopReturn 4 true] /\
  chk_state parked_joined = None /\ joined (sh parked_joined) = true.
Proof. exact parked_released_ok. Qed.

(* non-vacuity: a run with two workers, a processor, a producer, an EmitSync and a Stop in which sinks are invoked,
   the Stop returns through the join, and the barrier is established *)
Example C18_example :
  chk_state example_run = None /\ joined (sh example_run) = true /\
  In (ESinkBegin 4 false) (ltrace example_run) /\ In (EStopReturn 5 true) (ltrace example_run).
Proof. exact example_run_ok. Qed.
