(* C13 — LIKE and IS [NOT] NULL have SQL semantics on every evaluation path.
   Only statements, each closed by [exact]; proofs live in Proofs/. *)
From SV Require Import Model.Like Proofs.LikeProofs Proofs.LikeRewrite.

(* the three two-pointer matchers (one text, three copies in the code) decide exactly LIKE *)
Theorem C13_like_matcher : forall t p : bytes, like_match t p = true <-> Like p t.
Proof. exact like_match_iff. Qed.
Print Assumptions C13_like_matcher.

(* the fuel of the model never runs out: the Go loop terminates with this answer *)
Theorem C13_like_matcher_total : forall t p : bytes, like_match_opt t p = Some (like p t).
Proof. exact like_match_opt_correct. Qed.
Print Assumptions C13_like_matcher_total.

(* convertLikeToFunction: the operator chosen for a pattern decides exactly LIKE *)
Theorem C13_like_rewrite : forall t p : bytes, eval_rewritten (convert p) t = true <-> Like p t.
Proof. exact rewrite_iff. Qed.
Print Assumptions C13_like_rewrite.

Theorem C13_is_null : forall v, is_null v = true <-> (v = Absent \/ v = Null).
Proof. exact is_null_iff. Qed.
Print Assumptions C13_is_null.

Theorem C13_is_not_null : forall v, is_not_null v = negb (is_null v).
Proof. exact is_not_null_neg. Qed.
Print Assumptions C13_is_not_null.

(* history: the matcher as written before the fix (literal test first) was wrong (F4) *)
Theorem C13_like_asis_refuted : exists t p, like_match_asis t p = Some false /\ like p t = true.
Proof. exact like_asis_refuted. Qed.
Print Assumptions C13_like_asis_refuted.

(* non-vacuity: a text containing a literal % and _, pattern with inner and trailing wildcards *)
Example C13_example :
  Like [pct; 97; us]%N [pct; 98; 97; 98]%N /\ like_match [pct; 98; 97; 98]%N [pct; 97; us]%N = true
  /\ eval_rewritten (convert [pct; pct; 97]%N) [120; 97]%N = true.
Proof. split; [apply like_iff; reflexivity|split; reflexivity]. Qed.
