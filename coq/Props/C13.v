(* C13 — LIKE and IS [NOT] NULL have SQL semantics on every evaluation path.
   Only statements, each closed by [exact]; proofs live in Proofs/. *)
From SV Require Import Model.Like Model.NullCol Proofs.LikeProofs Proofs.LikeRewrite Proofs.NullColProofs.

(* the three two-pointer matchers (one text, three copies in the code) decide exactly LIKE *)
Theorem C13_like_matcher : forall t p : bytes, like_match t p = true <-> Like p t.
Proof. exact like_match_iff. Qed.
Print Assumptions C13_like_matcher.

(* the fuel of the model never runs out: the Go loop terminates with this answer *)
Theorem C13_like_matcher_total : forall t p : bytes, like_match_opt t p = Some (like p t).
Proof. exact like_match_opt_correct. Qed.
Print Assumptions C13_like_matcher_total.

(* convertLikeToFunction: the operator chosen for a pattern decides exactly LIKE *)
Theorem C13_like_rewrite : forall t p : bytes, eval_rewritten (convert p) t = true <-> Like p t.
Proof. exact rewrite_iff. Qed.
Print Assumptions C13_like_rewrite.

Theorem C13_is_null : forall v, is_null v = true <-> (v = Absent \/ v = Null).
Proof. exact is_null_iff. Qed.
Print Assumptions C13_is_null.

Theorem C13_is_not_null : forall v, is_not_null v = negb (is_null v).
Proof. exact is_not_null_neg. Qed.
Print Assumptions C13_is_not_null.

(* IS [NOT] NULL on a NAMED column of a row (rows = lists of (name, cell) bindings with pairwise
   different names, None = NULL): false exactly when the row binds that name to a value *)
Theorem C13_col_is_null : forall (n : bytes) (r : c13_row), NoDup (row_keys r) ->
  (col_is_null n r = true <-> forall v, ~ In (n, Some v) r).
Proof. exact col_is_null_true_iff. Qed.
Print Assumptions C13_col_is_null.

Theorem C13_col_is_not_null : forall (n : bytes) (r : c13_row),
  col_is_not_null n r = negb (col_is_null n r).
Proof. exact col_is_not_null_neg. Qed.
Print Assumptions C13_col_is_not_null.

(* the answer does not depend on how the column is spelled: any injective renaming applied to the
   predicate's operand and to the row's names leaves it unchanged (note / NOTE / isnull / android ...) *)
Theorem C13_col_is_null_spelling : forall f : bytes -> bytes, (forall a b, f a = f b -> a = b) ->
  forall (n : bytes) (r : c13_row), col_is_null (f n) (rename_row f r) = col_is_null n r.
Proof. exact col_is_null_rename. Qed.
Print Assumptions C13_col_is_null_spelling.

(* nor on the value of a present column ('' , 0 , false are not NULL) *)
Theorem C13_col_is_null_value : forall (g : bytes -> bytes) (n : bytes) (r : c13_row),
  col_is_null n (revalue_row g r) = col_is_null n r.
Proof. exact col_is_null_revalue. Qed.
Print Assumptions C13_col_is_null_value.

(* PreprocessIsNullExpression (`n IS NULL` -> `n == nil`, `n IS NOT NULL` -> `n != nil`) followed by
   expr-lang's nil comparison decides IS [NOT] NULL for every operand name and every row *)
Theorem C13_is_null_rewrite : forall (neg : bool) (n : bytes) (r : c13_row),
  sql_is_null_pred neg n r = if neg then col_is_not_null n r else col_is_null n r.
Proof. exact sql_is_null_pred_correct. Qed.
Print Assumptions C13_is_null_rewrite.

(* IS [NOT] NULL inside a CASE that is the argument of an aggregate of a window query
   (sum(CASE WHEN n IS [NOT] NULL THEN 1 ELSE 0 END) over the rows of one window): the sum is the
   number of rows for which the predicate holds -- a row WITHOUT the column counts as NULL -- *)
Theorem C13_agg_case_sum : forall (neg : bool) (n : bytes) (rows : list c13_row),
  c13_sum_flags neg n rows =
  N.of_nat (length (filter (fun r => if neg then col_is_not_null n r else col_is_null n r) rows)).
Proof. exact sum_flags_count. Qed.
Print Assumptions C13_agg_case_sum.

(* ... so the IS NULL sum and the IS NOT NULL sum partition the rows of the window (= count( * )) *)
Theorem C13_agg_case_partition : forall (n : bytes) (rows : list c13_row),
  (c13_sum_flags false n rows + c13_sum_flags true n rows = N.of_nat (length rows))%N
  /\ c13_partition_ok (c13_sum_flags false n rows) (c13_sum_flags true n rows) (N.of_nat (length rows)) = true.
Proof. intros n rows. split; [apply sum_flags_partition|apply sum_flags_partition_ok]. Qed.
Print Assumptions C13_agg_case_partition.

(* max / min of the flag: "some row" / "every row" of the window satisfies the predicate *)
Theorem C13_agg_case_max : forall (neg : bool) (n : bytes) (rows : list c13_row),
  c13_max_flags neg n rows = 1%N <->
  exists r, In r rows /\ (if neg then col_is_not_null n r else col_is_null n r) = true.
Proof. exact max_flags_exists. Qed.
Print Assumptions C13_agg_case_max.

Theorem C13_agg_case_min : forall (neg : bool) (n : bytes) (rows : list c13_row),
  c13_min_flags neg n rows = 1%N <->
  forall r, In r rows -> (if neg then col_is_not_null n r else col_is_null n r) = true.
Proof. exact min_flags_forall. Qed.
Print Assumptions C13_agg_case_min.

(* non-vacuity: window {s:'ab'} {s:NULL} {} {s:'cd'}: two rows IS NULL (the NULL one and the absent one) *)
Example C13_agg_case_example :
  let s := [115]%N in
  let w : list c13_row := [[(s, Some [97;98]%N)]; [(s, None)]; []; [(s, Some [99;100]%N)]] in
  c13_sum_flags false s w = 2%N /\ c13_sum_flags true s w = 2%N /\ c13_max_flags false s [[]] = 1%N
  /\ c13_min_flags true s w = 0%N.
Proof. cbn. repeat split; reflexivity. Qed.

(* history: the matcher as written before the fix (literal test first) was wrong (F4) *)
Theorem C13_like_asis_refuted : exists t p, like_match_asis t p = Some false /\ like p t = true.
Proof. exact like_asis_refuted. Qed.
Print Assumptions C13_like_asis_refuted.

(* non-vacuity: a text containing a literal % and _, pattern with inner and trailing wildcards *)
Example C13_example :
  Like [pct; 97; us]%N [pct; 98; 97; 98]%N /\ like_match [pct; 98; 97; 98]%N [pct; 97; us]%N = true
  /\ eval_rewritten (convert [pct; pct; 97]%N) [120; 97]%N = true.
Proof. split; [apply like_iff; reflexivity|split; reflexivity]. Qed.

(* non-vacuity: a row {note: 'x', NOTE: NULL}: note IS NULL is false, NOTE IS NULL and Note IS NULL are true *)
Example C13_col_example :
  let r : c13_row := [([110;111;116;101]%N, Some [120]%N); ([78;79;84;69]%N, None)] in
  NoDup (row_keys r) /\ col_is_null [110;111;116;101]%N r = false /\ col_is_null [78;79;84;69]%N r = true
  /\ col_is_null [78;111;116;101]%N r = true /\ sql_is_null_pred false [110;111;116;101]%N r = false.
Proof.
  cbn. repeat split; try reflexivity.
  repeat constructor; cbn; intros H; repeat (destruct H as [H|H]; [discriminate|]); exact H.
Qed.
