(* C11 -- the SQL parser is total, layout-insensitive and faithful to the written clauses.
   Only statements, each closed by [exact]; proofs live in Proofs/.
   Proved: the lexer mechanism (code-level model of rsql/lexer.go) and the round trip of the reference
   grammar.  NOT proved: totality of the hand-written Go parser over all byte strings -- that part is
   tested (fuzzing under recover and a 2 s limit), see bin/props.d/C11.json. *)
From SV Require Import Model.Lexer Model.Stmt Model.MatchWithin Spec.LexSpec Spec.MatchPatternSpec Proofs.LexerProofs Proofs.LexerLayout Proofs.StmtProofs Proofs.StmtLiteral Proofs.MatchWithinProofs Proofs.MatchPatternProofs.
From Coq Require Import String.
Local Open Scope N_scope.

(* every NextToken call returns EOF or consumes at least one byte, and never moves past the end:
   input = consumed ++ rest (so pos <= length input, and pos strictly grows unless EOF) *)
Theorem C11_lexer_progress : forall fuel s t r, next_token fuel s = Some (t, r) ->
  exists pre, s = pre ++ r /\ (is_eof t = true \/ pre <> []).
Proof. exact lexer_progress. Qed.
Print Assumptions C11_lexer_progress.

(* the fuel length+1 of the "skip the invalid character and call NextToken again" recursion never runs
   out, and the fuelled mirror of the code equals the structural closed form *)
Theorem C11_lexer_total_next : forall s, next_token (lex_fuel s) s = Some (next_struct s).
Proof. exact next_token_total. Qed.
Print Assumptions C11_lexer_total_next.

(* pulling tokens until EOF terminates for every input *)
Theorem C11_lexer_total : forall s, tokens_opt s = Some (tokens s).
Proof. exact lexer_total. Qed.
Print Assumptions C11_lexer_total.

(* the token stream of a text made of lexemes and whitespace gaps is the list of those lexemes,
   for every layout (gaps may be empty only where two lexemes cannot merge) *)
Theorem C11_lexer_render : forall l prev last, layout_ok prev l last = true -> tokens (render l last) = map snd l.
Proof. exact render_tokens. Qed.
Print Assumptions C11_lexer_render.

(* inserting or changing whitespace and line breaks between tokens does not change the token stream *)
Theorem C11_lexer_layout_invariant : forall toks gaps1 gaps2 last1 last2,
  List.length gaps1 = List.length toks -> List.length gaps2 = List.length toks ->
  layout_ok None (combine gaps1 toks) last1 = true -> layout_ok None (combine gaps2 toks) last2 = true ->
  tokens (render (combine gaps1 toks) last1) = tokens (render (combine gaps2 toks) last2).
Proof. exact lexer_layout_invariant. Qed.
Print Assumptions C11_lexer_layout_invariant.

(* the case of the letters of a word does not change the token type lookupIdent assigns *)
Theorem C11_lexer_keyword_case : forall a b, map upper a = map upper b ->
  ttype (lookup_ident a) = ttype (lookup_ident b).
Proof. exact lexer_keyword_case. Qed.
Print Assumptions C11_lexer_keyword_case.

(* whatever bytes follow an opening quote / backtick -- closed or not, spelling LIMIT, ORDER, WHERE,
   FROM or anything else -- the token produced there is a string / quoted identifier, never a keyword *)
Theorem C11_lexer_literal_opaque_any : forall q r, is_quote q = true ->
  exists t r', lex1 q r = Some (t, r') /\ ttype t = quote_type q /\ is_kw_type (ttype t) = false
               /\ exists body, tval t = q :: body.
Proof. exact lexer_literal_opaque_any. Qed.
Print Assumptions C11_lexer_literal_opaque_any.

(* a closed literal is exactly one token and lexing resumes right after its closing quote *)
Theorem C11_lexer_literal_opaque : forall q body r, is_quote q = true -> forallb (in_quote q) body = true ->
  tokens (q :: body ++ q :: r) = mkTok (quote_type q) (q :: body ++ [q]) :: tokens r.
Proof. exact lexer_literal_opaque. Qed.
Print Assumptions C11_lexer_literal_opaque.

(* the reference parser recovers every well-formed statement skeleton from its printed tokens *)
Theorem C11_parse_print_ref : forall st, wf_stmt st = true -> parse_ref (print st) = Some st.
Proof. exact parse_print_ref. Qed.
Print Assumptions C11_parse_print_ref.

(* ... whatever the spelling (case) of the keyword tokens ... *)
Theorem C11_parse_keyword_case : forall st toks, wf_stmt st = true ->
  map canon toks = map canon (print st) -> parse_ref toks = Some st.
Proof. exact parse_ref_case. Qed.
Print Assumptions C11_parse_keyword_case.

(* ... and whatever the layout of the text: structure is layout- and keyword-case-insensitive *)
Theorem C11_parse_layout : forall st toks gaps last, wf_stmt st = true ->
  map canon toks = map canon (print st) -> List.length gaps = List.length toks ->
  layout_ok None (combine gaps toks) last = true ->
  parse_ref (tokens (render (combine gaps toks) last)) = Some st.
Proof.
  intros st toks gaps last W E L H. rewrite (render_tokens _ _ _ H).
  assert (A : map snd (combine gaps toks) = toks).
  { clear -L. revert gaps L. induction toks as [|t toks IH]; intros [|g gaps] L; simpl in *; try discriminate; auto.
    f_equal. apply IH. injection L. auto. }
  rewrite A. exact (parse_ref_case st toks W E).
Qed.
Print Assumptions C11_parse_layout.

(* "a literal is data": rewriting the VALUES of the string-literal and back-quoted-identifier tokens of any
   token stream by any function f (relit f leaves every other token alone) commutes with the reference
   parser: the statement is accepted or rejected alike, and the skeleton is the same up to those values
   (relit_stmt f rewrites the literal tokens of select items, WHERE, HAVING, window parameters and the
   WITH values; columns, aliases, joins, keys, LIMIT are untouched).  Whatever a literal contains -- other
   quote characters, word( call shapes, parentheses, clause words -- it never moves the structure. *)
Theorem C11_literal_is_data : forall f toks,
  parse_ref (map (relit f) toks) = option_map (relit_stmt f) (parse_ref toks).
Proof. exact parse_ref_relit. Qed.
Print Assumptions C11_literal_is_data.

Theorem C11_literal_acceptance : forall f toks,
  (exists st, parse_ref (map (relit f) toks) = Some st) <-> (exists st, parse_ref toks = Some st).
Proof. exact parse_ref_accepts_relit. Qed.
Print Assumptions C11_literal_acceptance.

(* ---- MATCH_RECOGNIZE ... WITHIN: the bound is the written one (Model/MatchWithin.v) ----
   A count written as the decimal m / 10^k with a unit of u nanoseconds denotes floor (m * u / 10^k) ns:
   the exact product rounded towards zero ... *)
Theorem C11_within_floor : forall m k u,
  dur_floor (mkDec m k) u * pow10 k <= m * u /\ m * u < (dur_floor (mkDec m k) u + 1) * pow10 k.
Proof. exact dur_floor_bounds. Qed.
Print Assumptions C11_within_floor.

(* ... exactly the product whenever that is a whole number of nanoseconds (1.5 SECONDS, 0.25 S, 7.5 MS) *)
Theorem C11_within_exact : forall m k u, (m * u) mod pow10 k = 0 -> dur_floor (mkDec m k) u * pow10 k = m * u.
Proof. exact dur_floor_exact. Qed.
Print Assumptions C11_within_exact.

(* the fractional digits count: the bound is (whole part) * unit + floor (fraction * unit); it equals the
   whole part times the unit ONLY when the fraction is worth less than one nanosecond *)
Theorem C11_within_whole_plus_fraction : forall m k u,
  dur_floor (mkDec m k) u = (m / pow10 k) * u + ((m mod pow10 k) * u) / pow10 k.
Proof. exact dur_floor_split. Qed.
Print Assumptions C11_within_whole_plus_fraction.

Theorem C11_within_fraction_counts : forall m k u,
  dur_floor (mkDec m k) u = (m / pow10 k) * u <-> (m mod pow10 k) * u < pow10 k.
Proof. exact dur_floor_truncated_iff. Qed.
Print Assumptions C11_within_fraction_counts.

(* the unit word is case-insensitive; the same bound written in a finer unit (1.5 S = 1500 MS), with a
   trailing zero (1.50 = 1.5) is the same bound *)
Theorem C11_within_unit_case : forall n a b, map upper a = map upper b -> within_count n a = within_count n b.
Proof. exact within_count_case. Qed.
Print Assumptions C11_within_unit_case.

Theorem C11_within_rescale : forall m k f u, dur_floor (mkDec m k) (f * u) = dur_floor (mkDec (m * f) k) u.
Proof. exact dur_floor_rescale. Qed.
Print Assumptions C11_within_rescale.

Theorem C11_within_trailing_zero : forall ip fp u, ip <> [] -> fp <> [] -> forallb is_digit ip = true -> forallb is_digit fp = true ->
  within_count (ip ++ 46 :: fp ++ [48]) u = within_count (ip ++ 46 :: fp) u.
Proof. exact within_count_trailing_zero. Qed.
Print Assumptions C11_within_trailing_zero.

(* count and unit written apart (WITHIN 1.5 SECONDS) or together in a quoted Go duration (WITHIN '1.5s'):
   one bound, for every count digits[.digits] and every pair of spellings of one unit *)
Theorem C11_within_quoted_agrees : forall ip fp dot su U un,
  ip <> [] -> forallb is_digit ip = true -> forallb is_digit fp = true ->
  forallb is_unitch su = true -> assoc su go_units = Some un -> unit_ns U = Some un ->
  (dot = true -> fp <> []) -> (dot = false -> fp = []) ->
  go_duration (ip ++ (if dot then 46 :: fp else fp) ++ su)
  = option_map Z.of_N (within_count (ip ++ (if dot then 46 :: fp else fp)) U).
Proof. exact within_quoted_agrees. Qed.
Print Assumptions C11_within_quoted_agrees.

(* ---- MATCH_RECOGNIZE ... PATTERN: every quantifier form is read with the written bounds
   (Model/MatchWithin.v p_quant, the reference reading of tryMRQuantifier / parseMRBounded) ----
   {n,m} for every n <= m -- n = m ({2,2}) and n = 0 ({0,3}, {0,0}) included -- whatever the digits'
   spelling (leading zeros) and whatever follows, as long as that is not the reluctant mark *)
Theorem C11_quant_bounded_as_written : forall lb dn cm dm rb r,
  all_digits dn = true -> all_digits dm = true -> digits_val 0 dn <= digits_val 0 dm ->
  hd_is (ty_is T_Question) r = false ->
  p_quant (mkTok T_LBrace lb :: mkTok T_Number dn :: mkTok T_Comma cm :: mkTok T_Number dm :: mkTok T_RBrace rb :: r)
  = Some (Some (digits_val 0 dn, Some (digits_val 0 dm), true), r).
Proof. exact quant_bounded_as_written. Qed.
Print Assumptions C11_quant_bounded_as_written.

(* {n,n} and {n} are one quantifier (in every context, greedy or reluctant) *)
Theorem C11_quant_equal_bounds : forall lb dn cm dm rb r,
  all_digits dn = true -> all_digits dm = true -> digits_val 0 dn = digits_val 0 dm ->
  p_quant (mkTok T_LBrace lb :: mkTok T_Number dn :: mkTok T_Comma cm :: mkTok T_Number dm :: mkTok T_RBrace rb :: r)
  = p_quant (mkTok T_LBrace lb :: mkTok T_Number dn :: mkTok T_RBrace rb :: r).
Proof. exact quant_equal_bounds. Qed.
Print Assumptions C11_quant_equal_bounds.

(* {n} = exactly n, {n,} = at least n, ? = {0,1}, * = {0,}, + = {1,} *)
Theorem C11_quant_exact_as_written : forall lb dn rb r,
  all_digits dn = true -> hd_is (ty_is T_Question) r = false ->
  p_quant (mkTok T_LBrace lb :: mkTok T_Number dn :: mkTok T_RBrace rb :: r)
  = Some (Some (digits_val 0 dn, Some (digits_val 0 dn), true), r).
Proof. exact quant_exact_as_written. Qed.
Print Assumptions C11_quant_exact_as_written.

Theorem C11_quant_at_least_as_written : forall lb dn cm rb r,
  all_digits dn = true -> hd_is (ty_is T_Question) r = false ->
  p_quant (mkTok T_LBrace lb :: mkTok T_Number dn :: mkTok T_Comma cm :: mkTok T_RBrace rb :: r)
  = Some (Some (digits_val 0 dn, None, true), r).
Proof. exact quant_at_least_as_written. Qed.
Print Assumptions C11_quant_at_least_as_written.

Theorem C11_quant_symbols_as_written : forall v r, hd_is (ty_is T_Question) r = false ->
  p_quant (mkTok T_Question v :: r) = Some (Some (0, Some 1, true), r)
  /\ p_quant (mkTok T_Asterisk v :: r) = Some (Some (0, None, true), r)
  /\ p_quant (mkTok T_Plus v :: r) = Some (Some (1, None, true), r).
Proof. exact quant_symbols_as_written. Qed.
Print Assumptions C11_quant_symbols_as_written.

(* the reluctant mark: a '?' written after ANY quantifier that is read (greedy) with [r] left over gives
   the same bounds, reluctant, with the same [r] left over *)
Theorem C11_quant_reluctant : forall toks lo hi r q,
  p_quant toks = Some (Some (lo, hi, true), r) ->
  exists pre, toks = pre ++ r /\ p_quant (pre ++ mkTok T_Question q :: r) = Some (Some (lo, hi, false), r).
Proof. exact quant_reluctant. Qed.
Print Assumptions C11_quant_reluctant.

(* ---- the whole PATTERN ( ... ) body: every way to WRITE a row pattern (Spec/MatchPatternSpec.v w_alt: variables,
   sequence, alternation, groups, PERMUTE, exclusion, every quantifier spelling ? * + {n} {n,} {n,m} with n <= m,
   greedy or reluctant, on any atom, nested to any depth) is read back as that pattern's tree, and the reading
   stops right after the closing parenthesis -- for all patterns, all token texts of the punctuation, all that follows *)
Theorem C11_pattern_written_is_read : forall p l c r,
  w_alt p l -> punct T_RParen c = true -> p_pattern (l ++ c :: r) = Some (p, r).
Proof. exact pattern_written_is_read. Qed.
Print Assumptions C11_pattern_written_is_read.

(* ---- non-vacuity ---- *)
(* SELECT DISTINCT a, avg(t) AS x FROM s LEFT JOIN m AS mm ON i = j WHERE a > 1 AND n LIKE 'LIMIT 5'
   GROUP BY a, TumblingWindow('5s') HAVING x > 2 WITH (TIMESTAMP='ts') ORDER BY x DESC LIMIT 3 *)
Definition ex_stmt : stmt := Eval vm_compute in
  mkStmt true
    [mkItem [ident (bs "a"%string)] None;
     mkItem [ident (bs "avg"%string); t_lp; ident (bs "t"%string); t_rp] (Some (bs "x"%string))]
    (bs "s"%string) None
    [mkJoin true (bs "m"%string) (Some (bs "mm"%string)) [(bs "i"%string, bs "j"%string)]]
    [ident (bs "a"%string); mkTok T_GT (bs ">"%string); mkTok T_Number (bs "1"%string); kw T_AND; ident (bs "n"%string); kw T_LIKE;
     mkTok T_String (bs "'LIMIT 5'"%string)]
    [bs "a"%string] (Some (mkWin T_Tumbling [mkTok T_String (bs "'5s'"%string)]))
    [ident (bs "x"%string); mkTok T_GT (bs ">"%string); mkTok T_Number (bs "2"%string)]
    [(T_Timestamp, bs "'ts'"%string)] [mkKey (bs "x"%string) true] (Some (bs "3"%string)).

Example C11_example_wf : wf_stmt ex_stmt = true.
Proof. vm_compute. reflexivity. Qed.

(* two layouts and casings of that statement: one space everywhere / minimal, lower case, line breaks *)
Definition ex_text1 : bytes := Eval vm_compute in
  bs "SELECT DISTINCT a , avg ( t ) AS x FROM s LEFT JOIN m AS mm ON i = j WHERE a > 1 AND n LIKE 'LIMIT 5' GROUP BY a , TUMBLINGWINDOW ( '5s' ) HAVING x > 2 WITH ( TIMESTAMP = 'ts' ) ORDER BY x DESC LIMIT 3"%string.
Definition ex_text2 : bytes := Eval vm_compute in
  (bs "select distinct a,avg(t)as x"%string ++ [10] ++ bs "from s left join m as mm on i=j"%string ++ [13; 10; 9]
   ++ bs "where a>1 and n like'LIMIT 5'group by a,tumblingWindow('5s')having x>2 with(timestamp='ts')order by x DESC limit 3"%string ++ [10])%list.

Example C11_example_layouts :
  parse_ref (tokens ex_text1) = Some ex_stmt /\ parse_ref (tokens ex_text2) = Some ex_stmt
  /\ parse_ref (print ex_stmt) = Some ex_stmt.
Proof. vm_compute. repeat split; reflexivity. Qed.

(* hypotheses of the layout theorem are satisfiable: the printed tokens of the example with one space
   before each token form a valid layout, and its tokens are lexemes *)
Example C11_example_layout_ok :
  layout_ok None (combine (repeat [32] (List.length (print ex_stmt))) (print ex_stmt)) [10] = true
  /\ tokens (render (combine (repeat [32] (List.length (print ex_stmt))) (print ex_stmt)) [10]) = print ex_stmt.
Proof. vm_compute. split; reflexivity. Qed.

(* keyword-like text inside quotes, and a NUL byte ending the input like the Go lexer's ch == 0 *)
Example C11_example_opaque :
  map ttype (tokens (bs "'LIMIT 5' `order` ""WHERE"" limit 5"%string)) = [T_String; T_QIdent; T_String; T_LIMIT; T_Number]
  /\ map ttype (tokens (bs "a"%string ++ [0] ++ bs "b"%string)) = [T_Ident].
Proof. vm_compute. split; reflexivity. Qed.

(* a double-quoted literal holding an apostrophe, a call shape and parentheses is ONE token (hypothesis of
   C11_lexer_literal_opaque satisfied); the statement and its twin with a neutral literal are related by
   relit, and both are accepted with the same skeleton up to the literal *)
Example C11_example_literal_is_data :
  let lit := bs """it's urgent (call back)"""%string in
  let t1 := tokens (bs "SELECT a FROM t WHERE note = ""it's urgent (call back)"" LIMIT 3"%string) in
  let t2 := tokens (bs "SELECT a FROM t WHERE note = ""L0"" LIMIT 3"%string) in
  let f := fun _ : bytes => bs """L0"""%string in
  forallb (in_quote 34) (bs "it's urgent (call back)"%string) = true
  /\ In (mkTok T_String lit) t1
  /\ map (relit f) t1 = t2
  /\ (exists st, parse_ref t1 = Some st /\ parse_ref t2 = Some (relit_stmt f st) /\ s_limit st = Some (bs "3"%string)).
Proof.
  vm_compute. repeat split; try reflexivity.
  - right. right. right. right. right. right. right. left. reflexivity.
  - eexists. repeat split; reflexivity.
Qed.

(* MATCH_RECOGNIZE: four spellings of one 1.5 s bound (fraction + unit word in two casings / layouts, finer
   unit, quoted) are read as the same clause; the hypotheses of C11_within_quoted_agrees are satisfiable; a
   fraction worth less than the unit's grain is dropped, anything else is kept (0.25 S = 250 ms, not 0) *)
Definition ex_mr (w : string) : list token :=
  tokens (bs "SELECT * FROM stream MATCH_RECOGNIZE (PARTITION BY `device id` ORDER BY ts MEASURES A.v AS av ALL ROWS PER MATCH AFTER MATCH SKIP TO FIRST B PATTERN (A B+) "%string
          ++ bs w ++ bs " DEFINE A AS A.v > 0, B AS note = 'WITHIN 9 HOURS')"%string).
Example C11_example_within :
  (exists sp, mr_ref (ex_mr "WITHIN 1.5 SECONDS") = Some (Some sp) /\ mr_within sp = 1500000000%Z
     /\ mr_part sp = [bs "device id"%string] /\ mr_all sp = true /\ mr_skip sp = 2 /\ mr_defines sp = [bs "A"%string; bs "B"%string]
     /\ mr_ref (ex_mr "within
 1.50	seconds") = Some (Some sp)
     /\ mr_ref (ex_mr "WITHIN 1500 ms") = Some (Some sp)
     /\ mr_ref (ex_mr "WITHIN '1.5s'") = Some (Some sp)
     /\ mr_ref (ex_mr "WITHIN '1s500ms'") = Some (Some sp))
  /\ within_count (bs "0.25"%string) (bs "S"%string) = Some 250000000
  /\ within_count (bs "0.5"%string) (bs "ns"%string) = Some 0
  /\ go_duration (bs "1.5s"%string) = option_map Z.of_N (within_count (bs "1.5"%string) (bs "SECONDS"%string))
  /\ mr_ref (tokens (bs "SELECT a FROM t WHERE note = 'MATCH_RECOGNIZE ('"%string)) = Some None.
Proof. vm_compute. split; [eexists; repeat split; reflexivity | repeat split; reflexivity]. Qed.

(* PATTERN: the quantifier forms on variables and groups, {2,2} = {2}, reluctant marks, PERMUTE, exclusion
   (also right after an unquantified variable), alternation -- read as a tree; the hypotheses of the quantifier
   theorems are satisfiable; an inverted range {3,2} is not of the documented grammar *)
Definition ex_pat (p : string) : option (option pat) :=
  option_map (fun o => match o with Some sp => mr_tree sp | None => None end)
    (mr_ref (tokens (bs "SELECT * FROM s MATCH_RECOGNIZE (ORDER BY ts PATTERN ("%string ++ bs p ++ bs ") DEFINE A AS v > 0)"%string))).
Example C11_example_pattern :
  let A := PSym (bs "A"%string) in let B := PSym (bs "B"%string) in let C := PSym (bs "C"%string) in
  ex_pat "A{2,2} B" = Some (Some (PSeq [PRep A 2 (Some 2) true; B]))
  /\ ex_pat "A { 02 } B" = ex_pat "A{2,2} B"
  /\ ex_pat "A{0,0}? (B | C A){1,}?" = Some (Some (PSeq [PRep A 0 (Some 0) false; PRep (PGroup (PAlt [B; PSeq [C; A]])) 1 None false]))
  /\ ex_pat "A?? B*? C+?" = Some (Some (PSeq [PRep A 0 (Some 1) false; PRep B 0 None false; PRep C 1 None false]))
  /\ ex_pat "A {- B -} permute(C, A B?)" = Some (Some (PSeq [A; PExcl B; PPermute [C; PSeq [A; PRep B 0 (Some 1) true]]]))
  /\ ex_pat "A{3,2} B" = None
  /\ all_digits (bs "02"%string) = true /\ digits_val 0 (bs "02"%string) = 2.
Proof. vm_compute. repeat split; reflexivity. Qed.

(* the hypothesis of C11_pattern_written_is_read is satisfiable: the tokens of  A{2,2} (B|C)+?  are a way to write
   the tree  sequence [A repeated 2..2 greedy; group (B or C) repeated 1.. reluctant] *)
Example C11_example_pattern_written :
  let A := PSym (bs "A"%string) in let B := PSym (bs "B"%string) in let C := PSym (bs "C"%string) in
  let tree := PSeq [PRep A 2 (Some 2) true; PRep (PGroup (PAlt [B; C])) 1 None false] in
  exists l, w_alt tree l /\ l = tokens (bs "A{2,2} (B|C)+?"%string)
            /\ p_pattern (tokens (bs "A{2,2} (B|C)+?) DEFINE"%string)) = Some (tree, tokens (bs "DEFINE"%string)).
Proof.
  intros A B C tree.
  pose (tk := fun ty (s : string) => mkTok ty (bs s)).
  pose (n2 := tk T_Number "2"%string).
  assert (WA : w_quantified (PRep A 2 (Some 2) true)
                 ([tk T_Ident "A"%string] ++ [tk T_LBrace "{"%string; n2; tk T_Comma ","%string; n2; tk T_RBrace "}"%string])).
  { apply W_rep; [exact (W_var (tk T_Ident "A"%string) eq_refl)|].
    apply WQ_greedy. apply WB_between; reflexivity. }
  assert (WI : w_alt (PAlt [B; C]) ([tk T_Ident "B"%string] ++ (tk T_Pipe "|"%string :: [tk T_Ident "C"%string] ++ []))).
  { apply (W_alt B _ [C]).
    - apply W_seq1, W_plain. exact (W_var (tk T_Ident "B"%string) eq_refl).
    - apply W_more_cons; [reflexivity | | apply W_more_nil]. apply W_seq1, W_plain. exact (W_var (tk T_Ident "C"%string) eq_refl). }
  eexists. split; [|split].
  - eapply (W_alt tree _ [] []); [|apply W_more_nil]. apply W_seqn. apply W_item_cons; [exact WA|].
    apply W_item1. apply W_rep.
    + apply (W_group _ _ (tk T_LParen "("%string) (tk T_RParen ")"%string) WI); reflexivity.
    + apply (WQ_reluctant 1 None [tk T_Plus "+"%string] (tk T_Question "?"%string)); [apply WB_plus|]; reflexivity.
  - vm_compute. reflexivity.
  - vm_compute. reflexivity.
Qed.
